import json,sys
d=json.load(open(sys.argv[1]))
print({k:d[k] for k in ['cases','evaluations','nontrivial','model_lines','wall_s']})
print(d['stats'])
for x in d['disagreements'][:int(sys.argv[2]) if len(sys.argv)>2 else 5]:
    m=x['model'].split(' '); i=x['impl'].split(' ')
    k=next((j for j in range(min(len(m),len(i))) if m[j]!=i[j]), min(len(m),len(i)))
    print('DIS',x['what'],'idx',x['case_idx'],'tok',k,'model=',m[k:k+2],'impl=',i[k:k+2],'|',x['case'][:200])
for v in d['violations'][:int(sys.argv[3]) if len(sys.argv)>3 else 10]:
    print('VIO',v['property'],v['sig'],'idx',v['case_idx'],v['detail'][:300],'|', v['case'][:200])
