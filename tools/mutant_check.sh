#!/bin/bash
# usage: mutant_check.sh <ABSOLUTE patch.diff | revert:<commit> | none> <Cxx> [<Cxx> ...]
# Runs the REAL ./check (facts regeneration + proofs + axiom audit + streams) of the given properties against a
# scratch worktree of /repo with the change applied, using a scratch copy of /verif (incl. its build outputs) —
# /repo and /verif themselves are not touched, so several of these can run in parallel and while other work
# uses /repo.  Prints one line per property: RESULT <Cxx> exit=<rc> violations=<n> known=<n> [first signatures].
# Environment: MC_TIER (quick|thorough, default quick), VERIF_SEED passed through, MC_KEEP=1 keeps the scratch dir.
set -u
CH="$1"; shift
W=$(mktemp -d /root/mc.XXXXXX)
cleanup() {
  git -C /repo worktree remove --force "$W/repo" >/dev/null 2>&1 || true
  [ "${MC_KEEP:-0}" = 1 ] || rm -rf "$W"
  git -C /repo worktree prune >/dev/null 2>&1 || true
}
trap cleanup EXIT
git -C /repo worktree add --detach "$W/repo" HEAD >/dev/null 2>&1 || { echo "RESULT - worktree failed"; exit 2; }
case "$CH" in
  none) ;;
  revert:*) c=${CH#revert:}; git -C "$W/repo" diff "$c" "$c~1" | git -C "$W/repo" apply || { echo "RESULT - revert does not apply"; exit 2; } ;;
  *) git -C "$W/repo" apply "$CH" 2>/dev/null || git -C "$W/repo" apply -C1 "$CH" || { echo "RESULT - patch does not apply"; exit 2; } ;;
esac
mkdir -p "$W/verif"
rsync -a --exclude .git --exclude replays --exclude seeded --exclude 'harness/bin' /verif/ "$W/verif/"
sed -i "s#=> /repo#=> $W/repo#" "$W/verif/harness/go.mod"
sed -i "s#\"/repo\"#\"$W/repo\"#g" "$W/verif/check"
export GOFLAGS=-mod=mod GOPROXY=off
( cd "$W/repo" && go build ./... ) >/dev/null 2>&1 || { echo "RESULT - change does not build"; exit 2; }
for P in "$@"; do
  ( cd "$W/verif" && timeout 3000 ./check "$P" --tier "${MC_TIER:-quick}" > "$W/out_$P.txt" 2>&1 ); rc=$?
  v=$(grep -c '^VIOLATION' "$W/out_$P.txt"); k=$(grep -c '^KNOWN-FINDING' "$W/out_$P.txt")
  sigs=$(python3 - "$W/verif/evidence/$P.json" <<'PY'
import json,sys
try:
    e=json.load(open(sys.argv[1]))
    vs=e.get('violations_detail') or e.get('violation_list') or []
    out=[]
    if isinstance(vs,list):
        for x in vs[:4]: out.append(str(x.get('sig') or x.get('what') or x)[:90])
    print(' | '.join(out))
except Exception as ex:
    print('')
PY
)
  first=$(grep '^VIOLATION' "$W/out_$P.txt" | head -2 | cut -c1-200 | tr '\n' ';')
  echo "RESULT $P exit=$rc violations=$v known=$k $first $sigs"
  if [ "${MC_SHOW:-0}" = 1 ]; then grep -v '^KNOWN-FINDING' "$W/out_$P.txt" | head -20; fi
  # replay files name what failed
  if [ $rc -ne 0 ] && [ "${MC_SHOW:-0}" = 1 ]; then ls "$W/verif/replays/$P" 2>/dev/null | head -3; fi
done
