#!/bin/bash
# usage: seed_intake.sh <Cxx> <m1|m2> [base dir=/tmp/seed] [name under seeded/, default = m1|m2]
#   — confirms a seeded change (suite passes with it, demo fails with it and passes
# without it) in the scratch worktree /tmp/seed/<Cxx> and files it under /verif/seeded/<Cxx>-<m>/
set -u
ID=$1; M=$2; BASE=${3:-/tmp/seed}; DM=${4:-$M}; W=$BASE/$ID; O=$BASE/$ID-out/$M; D=/verif/seeded/$ID-$DM
export GOFLAGS=-mod=mod GOPROXY=off
git -C $W checkout -q -- . && git -C $W clean -fdq
git -C $W apply $O/patch.diff || { echo "PATCH DOES NOT APPLY"; exit 1; }
(cd $W && go build ./... ) || { echo "DOES NOT BUILD"; git -C $W checkout -q -- .; exit 1; }
SUITE=$(cd $W && timeout 1200 go test -vet=off -count=1 ./... 2>&1 | grep -v "no test files" | grep -v "^ok" | head -5)
[ -z "$SUITE" ] && SUITE_OK=pass || SUITE_OK="FAIL: $SUITE"
(cd $O && timeout 900 bash ./run_demo.sh >$BASE/$ID-$M.with.log 2>&1); WITH=$?
git -C $W checkout -q -- . && git -C $W clean -fdq
(cd $O && timeout 900 bash ./run_demo.sh >$BASE/$ID-$M.without.log 2>&1); WITHOUT=$?
git -C $W checkout -q -- . && git -C $W clean -fdq
echo "$ID-$M suite=$SUITE_OK demo_with_patch_exit=$WITH demo_without_patch_exit=$WITHOUT"
if [ "$SUITE_OK" = pass ] && [ $WITH -ne 0 ] && [ $WITHOUT -eq 0 ]; then
  mkdir -p $D && cp $O/patch.diff $O/run_demo.sh $O/meta.json $D/ && cp $O/*.go $D/ 2>/dev/null
  python3 - "$D" "$ID" "$SUITE_OK" "$WITH" "$WITHOUT" <<'PY'
import json,sys
d,pid,suite,w,wo=sys.argv[1:]
m=json.load(open(d+'/meta.json'))
out={"property":pid,"breaks":m.get("summary"),"needs":m.get("needs"),"files_changed":m.get("files_changed"),
     "confirmed_by_us":{"suite_with_patch":suite,"demo_with_patch_exit":int(w),"demo_without_patch_exit":int(wo),
                        "how":"tools/seed_intake.sh in a scratch worktree of /repo HEAD"},
     "author_meta":m}
json.dump(out,open(d+'/meta.json','w'),indent=1)
PY
  echo "FILED $D"
else
  echo "REJECTED"
fi
