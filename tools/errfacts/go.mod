module errfacts

go 1.22
