module errfacts

go 1.21
