package main

// loading + type checking: the packages of the module from source with the overlay applied, everything else through the
// "source" importer (offline).  Besides the go/types results the loader keeps, for every function declaration of the module,
// where it stands (`decls`, `lookup`: what canon.go and the helper inlining need) and the parent of every AST node.

import (
	"fmt"
	"go/ast"
	"go/build"
	"go/importer"
	"go/parser"
	"go/token"
	"go/types"
	"os"
	"path/filepath"
	"sort"
	"strings"
)

var fset = token.NewFileSet()

type loader struct {
	repo, root, mod string
	src             types.ImporterFrom
	pkgs            map[string]*types.Package
	infos           map[string]*types.Info
	files           map[string]map[string]*ast.File // import path -> relative file -> AST
	decls           map[*types.Func]*helperDecl
	parents         map[ast.Node]ast.Node // every node of every parsed file of the module -> its parent
	listed          map[*types.Func]bool  // the listed functions (anchors): never inlined, a call of one stays a row
	pass            map[*ast.FuncDecl][]int
	renamed         []string // notes: private functions found under another name
	problems        []string
}

func newLoader(repo, root string) *loader {
	build.Default.Dir = repo              // third-party imports are resolved by `go list` run inside the module …
	os.Setenv("GOFLAGS", "-mod=readonly") // … which must never rewrite <repo>/go.mod or go.sum, nor use the network
	os.Setenv("GOPROXY", "off")
	l := &loader{repo: repo, root: root, mod: moduleOf(repo), pkgs: map[string]*types.Package{}, infos: map[string]*types.Info{},
		files: map[string]map[string]*ast.File{}, decls: map[*types.Func]*helperDecl{}, parents: map[ast.Node]ast.Node{},
		listed: map[*types.Func]bool{}, pass: map[*ast.FuncDecl][]int{}}
	l.src = importer.ForCompiler(fset, "source", nil).(types.ImporterFrom)
	return l
}

func (l *loader) Import(path string) (*types.Package, error) { return l.ImportFrom(path, l.repo, 0) }

func (l *loader) ImportFrom(path, dir string, mode types.ImportMode) (*types.Package, error) {
	if p, ok := l.pkgs[path]; ok {
		return p, nil
	}
	if path == l.mod || strings.HasPrefix(path, l.mod+"/") {
		return l.check(path), nil
	}
	p, err := l.src.ImportFrom(path, l.repo, 0)
	if err != nil || p == nil {
		l.problems = append(l.problems, fmt.Sprintf("import %s: %v", path, err))
		p = types.NewPackage(path, filepath.Base(path))
		p.MarkComplete()
	}
	l.pkgs[path] = p
	return p, nil
}

func (l *loader) pick(rel string) string {
	if l.root != "" {
		if _, err := os.Stat(filepath.Join(l.root, rel)); err == nil {
			return filepath.Join(l.root, rel)
		}
	}
	return filepath.Join(l.repo, rel)
}

func (l *loader) check(path string) *types.Package {
	rel := strings.TrimPrefix(strings.TrimPrefix(path, l.mod), "/")
	dir := filepath.Join(l.repo, rel)
	names := map[string]bool{}
	dirs := []string{dir}
	if l.root != "" {
		dirs = append(dirs, filepath.Join(l.root, rel))
	}
	for _, d := range dirs {
		ents, _ := os.ReadDir(d)
		for _, e := range ents {
			n := e.Name()
			if e.IsDir() || !strings.HasSuffix(n, ".go") || strings.HasSuffix(n, "_test.go") {
				continue
			}
			if ok, err := build.Default.MatchFile(d, n); err == nil && ok {
				names[n] = true
			}
		}
	}
	var sorted []string
	for n := range names {
		sorted = append(sorted, n)
	}
	sort.Strings(sorted)
	var files []*ast.File
	byRel := map[string]*ast.File{}
	for _, n := range sorted {
		f, err := parser.ParseFile(fset, l.pick(filepath.Join(rel, n)), nil, 0)
		if err != nil {
			l.problems = append(l.problems, err.Error())
			continue
		}
		files = append(files, f)
		byRel[filepath.Join(rel, n)] = f
	}
	info := &types.Info{Types: map[ast.Expr]types.TypeAndValue{}, Defs: map[*ast.Ident]types.Object{}, Uses: map[*ast.Ident]types.Object{},
		Selections: map[*ast.SelectorExpr]*types.Selection{}}
	conf := types.Config{Importer: l, Error: func(err error) { l.problems = append(l.problems, err.Error()) }}
	p, _ := conf.Check(path, fset, files, info)
	if p == nil {
		p = types.NewPackage(path, filepath.Base(path))
	}
	l.pkgs[path] = p
	l.infos[path] = info
	l.files[path] = byRel
	for _, f := range files {
		var stack []ast.Node
		ast.Inspect(f, func(n ast.Node) bool {
			if n == nil {
				stack = stack[:len(stack)-1]
				return true
			}
			if len(stack) > 0 {
				l.parents[n] = stack[len(stack)-1]
			}
			stack = append(stack, n)
			return true
		})
		for _, d := range f.Decls {
			if fd, ok := d.(*ast.FuncDecl); ok && fd.Body != nil {
				if fn, ok := info.Defs[fd.Name].(*types.Func); ok {
					l.decls[fn] = &helperDecl{fd: fd, info: info}
				}
			}
		}
	}
	// private functions the specification names: a renamed one keeps its role and the specification's name (canon.go)
	l.renamed = append(l.renamed, resolveAllPrivate(l.mod, p)...)
	return p
}

func (l *loader) inModule(p *types.Package) bool {
	return p != nil && (p.Path() == l.mod || strings.HasPrefix(p.Path(), l.mod+"/"))
}

// the declaration of a function / method of the module (generic instantiations resolve to their origin)
func (l *loader) lookup(f *types.Func) *helperDecl {
	if f == nil {
		return nil
	}
	if d, ok := l.decls[f.Origin()]; ok {
		return d
	}
	return nil
}

func recvName(fd *ast.FuncDecl) string {
	if fd.Recv == nil || len(fd.Recv.List) == 0 {
		return ""
	}
	t := fd.Recv.List[0].Type
	for {
		switch x := t.(type) {
		case *ast.StarExpr:
			t = x.X
			continue
		case *ast.ParenExpr:
			t = x.X
			continue
		case *ast.IndexExpr:
			t = x.X
			continue
		case *ast.IndexListExpr:
			t = x.X
			continue
		}
		break
	}
	if id, ok := t.(*ast.Ident); ok {
		return id.Name
	}
	return ""
}

func moduleOf(repo string) string {
	b, err := os.ReadFile(filepath.Join(repo, "go.mod"))
	if err != nil {
		fatal(err)
	}
	for _, l := range strings.Split(string(b), "\n") {
		if f := strings.Fields(l); len(f) == 2 && f[0] == "module" {
			return f[1]
		}
	}
	fatal("no module line in go.mod")
	return ""
}
