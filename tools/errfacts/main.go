// errfacts: regenerates lean/SST/Generated/ErrFlow.lean from /repo's working tree.
//
//	errfacts [--root <overlay dir>] [--allow-missing] <repo> <outdir>
//
// Standard library only.  The packages of /repo are parsed and TYPE-CHECKED (go/types; packages of the module from
// source with the overlay applied, everything else through the "source" importer, which resolves third-party packages
// offline with `go list` run in <repo>).  For a FIXED list of functions on the merge / compaction / flush /
// table-writer / WAL-replay path it emits one row per call site whose callee's last result has type `error` (the
// wrappers fmt.Errorf / errors.Join / errors.New are not rows, they carry their arguments), in source order, with what
// happens to that error value on EVERY path of the enclosing function (or function literal).
//
// RENAME-STABLE SPELLING (canon.go, shared verbatim with tools/orderfacts and tools/resfacts).  Nothing in a row is source
// text.  `callee` is a go/types identity: `pkg.Func` with the module-relative package path ("recordio/proto.NewWriter",
// "path/filepath.Walk" — import aliases do not matter); a method by the TYPE of the root variable of the receiver chain
// plus the field path ("sstables.SSTableStreamWriter.indexWriter.Close" for `writer.indexWriter.Close`,
// "memstore.MemStoreI.FlushWithTombstones" for `memStoreToFlush.FlushWithTombstones`, "sstables.SuperSSTableReader.
// readers[].Get"); a call of a func-typed parameter "‹func([]byte) error›"; a literal "func literal".  `method` is the
// last name.  Sentinels are `pkg.Var` by the package's own name path; wrappers and terminators are recognised by package
// PATH + name.  So renaming a local / parameter / receiver / import alias, re-wording a message, adding log.Printf or any
// other call that returns no error, reordering independent statements that are not rows: no change of the table.
//
// THE LISTED FUNCTIONS ARE THE ANCHORS of the specification (exported entry points, plus the unexported functions the
// theorems name: executeFlush, flushMemstore, replayFile, writeFileHeader …).  They are looked up by package, receiver type
// and name in any file of their package (moving one to another file is harmless; `file` in the table says where it was
// found).  RENAMING AN EXPORTED ANCHOR is reported: "listed function(s) not found".  A PRIVATE anchor whose name is gone is
// found by its role — the one unexported function with the same receiver and the signature recorded in canon.go
// (`privateSigs`, `resolveFunc`) that the specification does not know under its own name; it keeps the specification's name
// in the table and a note is printed on stderr; if there is no such function, or more than one, it is "not found".
// A call of an anchor from another listed function stays a row.
//
// PRIVATE HELPERS ARE INLINED.  A call of an UNEXPORTED function / concrete method of the module whose declaration is known
// and which is not an anchor has no row of its own: the rows of the helper stand where the call stands (recursively, at most
// three levels, never into a function that is being analysed already — such a call stays a row), whether or not the helper
// returns an error, composed with what the CALLER does with the helper's result:
//
//	helper row returned / checkedThenReturn  →  the caller's disposition of the call (checkedThenReturn is kept if the caller
//	                                            merely returns it); sentinels = union
//	helper row translated                    →  translated, or the caller's disposition if that is worse; sentinels = union
//	any other helper row                     →  as it is (the value never reached the caller)
//
// inLoop / inDefer / inBranch = those of the call site OR those of the inner row.  So `pq.NewPriorityQueue` shows the
// input's `Next()` of the unexported `fillNext`, called in the loop of the unexported `init`, as
// (pq.Element.iterator.Next, translated [pq.Done], inLoop) whatever the two helpers are called; extracting the body of an
// `if err != nil { … }` branch (or any other block) into a private function leaves the table as it is.
// Errors a helper MAKES ITSELF (`return fmt.Errorf("checksum mismatch")`, `return ErrClosed`, `err = &E{…}` into a named
// result: not the value of a call, not (a wrap of) a parameter) have no call site; what the caller does with them is shown
// by the pseudo row `error value made by an inlined private helper` with the caller's disposition of the call — ONLY when
// that is not returned / checkedThenReturn (`_ = validate(k)`, `defer w.finish()`), so it is visible exactly when it is a
// finding.
// A function of the module that hands an error PARAMETER back on every return (`func wrapRead(err error) error { return
// fmt.Errorf("read: %w", err) }`, also with a log line before it) carries the value like fmt.Errorf does.
//
//	returned           the value (possibly wrapped / joined) reaches a return statement, a named result at function exit,
//	                   or a named result of the deferring function from inside a deferred literal, without being tested
//	checkedThenReturn  tested non-nil, and the non-nil branch returns an error (the value, a wrap of it, or another
//	                   error) or ends in panic / log.Panic* / log.Fatal* / os.Exit
//	translated         compared with package-level sentinel(s) (errors.Is or ==) and, for the sentinel, turned into a
//	                   different outcome (break / continue / return nil / return of another value); `sentinels` lists them.
//	                   Every non-sentinel path is returned / checkedThenReturn, otherwise the worse disposition is shown
//	overwritten        an UNTESTED value is lost: its variable is assigned again, goes out of scope, or the function
//	                   returns without it
//	swallowed          tested non-nil, and still lost (scope end, reassignment, `return nil`)
//	discarded          `_ =` / `x, _ :=` / bare call statement
//	deferredDiscarded  `defer f()` / `go f()` with f returning an error
//	unknown "<why>"    anything else (stored in a field, passed on, goto / labelled branch, unresolved type, a deferred
//	                   assignment to a named result that drops the previous value, …) — kept visible
//
// The worst disposition over all paths is the row's disposition (unknown > overwritten > swallowed > translated >
// checkedThenReturn > returned).  The analysis is a forward walk over the structured control flow of the function with
// the set of variables holding the value and the set of kinds the value may still have ({nil, error, sentinel S…}),
// refined by `!= nil`, `== nil`, errors.Is, `== S`, !, &&, ||, and by a call of a module function whose body is a single
// `return <expr>` (`func isEOF(err error) bool { return errors.Is(err, io.EOF) }`), read as that expression with the
// arguments in place of the parameters (at most two levels, as canon.cond does).
//
// A listed function (anchor) that is missing (or a tree that does not type-check) is an error (exit 1) unless
// --allow-missing is given (missing: `found := false`, no rows; the Lean obligations about it then fail).
// --root <dir>: overlay — a source file is taken from <dir>/<relative path> if it exists there, else from <repo>.
// The output is deterministic and rewritten only when its content changes.
package main

import (
	"fmt"
	"go/ast"
	"go/token"
	"go/types"
	"os"
	"path/filepath"
	"sort"
	"strings"
)

// ---------------------------------------------------------------------------------------------------------
// what is extracted

type target struct {
	file string   // relative to the repo
	pkg  string   // prefix used for plain functions (and for methods if qual)
	qual bool     // prefix methods too (receiver names that are ambiguous across packages)
	fns  []string // "Recv.Method" or "func"
}

var targets = []target{
	{"sstables/sstable_merger.go", "sstables", false, []string{"SSTableMergeIteratorContext.Next", "SSTableMerger.Merge",
		"MergeCompactionIterator.Next", "SSTableMerger.MergeCompactIterator", "SSTableMerger.MergeCompact"}},
	{"sstables/sstable_iterator.go", "sstables", false, []string{"SSTableIterator.Next", "V0SSTableFullScanIterator.Next", "SSTableFullScanIterator.Next"}},
	{"sstables/sstable_writer.go", "sstables", false, []string{"SSTableStreamWriter.Open", "SSTableStreamWriter.WriteNext", "SSTableStreamWriter.Close",
		"SSTableSimpleWriter.WriteSkipListMap"}},
	{"sstables/super_sstable_reader.go", "sstables", false, []string{"SuperSSTableReader.Contains", "SuperSSTableReader.Get", "SuperSSTableReader.Scan",
		"SuperSSTableReader.ScanStartingAt", "SuperSSTableReader.ScanRange", "SuperSSTableReader.Close"}},
	{"pq/priority_queue.go", "pq", false, []string{"PriorityQueue.Next", "NewPriorityQueue"}},
	{"memstore/memstore.go", "memstore", false, []string{"MemStore.Flush", "MemStore.FlushWithTombstones", "flushMemstore"}},
	{"simpledb/flush.go", "simpledb", false, []string{"flushMemstoreContinuously", "executeFlush", "DB.rotateWalAndFlushMemstore"}},
	{"simpledb/compaction.go", "simpledb", false, []string{"backgroundCompaction", "executeCompaction", "saveCompactionMetadata"}},
	{"simpledb/sstable_manager.go", "simpledb", false, []string{"SSTableManager.reflectCompactionResult"}},
	{"recordio/file_writer.go", "recordio", false, []string{"FileWriter.Open", "writeFileHeader", "fillRecordHeaderV4", "writeRecordHeaderV4",
		"FileWriter.Write", "FileWriter.WriteSync", "FileWriter.Close", "FileWriter.Seek"}},
	{"recordio/proto/proto_writer.go", "rproto", true, []string{"Writer.Open", "Writer.Write", "Writer.Close"}},
	{"wal/replayer.go", "wal", false, []string{"Replayer.Replay", "Replayer.replayFile"}},
}

// calls that build an error from their arguments: not rows; an argument that holds the tracked value is carried.
// Decided by the go/types identity of the callee (package PATH + name), never by the printed text: an import alias or a
// local package that happens to be called `fmt` changes nothing.
var wrappers = map[string]bool{"fmt.Errorf": true, "errors.Join": true, "errors.New": true}

// calls after which the path ends with the process (or goroutine) stopping (package path + name; plus the builtin panic)
var terminators = map[string]bool{"log.Panicf": true, "log.Panic": true, "log.Panicln": true, "log.Fatalf": true, "log.Fatal": true,
	"log.Fatalln": true, "os.Exit": true}

// ---------------------------------------------------------------------------------------------------------
// rows

type row struct {
	fn, callee, method string
	idx                int
	disp               string // returned checkedThenReturn translated overwritten swallowed discarded deferredDiscarded unknown
	why                string // unknown only
	sentinels          []string
	inLoop, inDefer    bool
	inBranch           bool
	pseudo             bool // "an error made by an inlined helper": shown only when the caller does not report it
}

type fnOut struct {
	name, file string
	found      bool
	rows       []row
}

const ownErrorCallee = "error value made by an inlined private helper"
const namedResultAssignment = "assignment to the named result"

type analyzer struct {
	l     *loader
	info  *types.Info
	fd    *ast.FuncDecl
	cn    *canon        // rename-stable identities inside fd (canon.go)
	depth int           // 0: a listed function; k: a private helper inlined k levels below one
	stack []*types.Func // the functions being analysed (cycle guard of the inlining)
}

func (l *loader) analyzer(info *types.Info, fd *ast.FuncDecl, depth int, stack []*types.Func) *analyzer {
	return &analyzer{l: l, info: info, fd: fd, cn: newCanon(l.mod, info, fd.Body, l.lookup), depth: depth, stack: stack}
}

var errorType = types.Universe.Lookup("error").Type()

// identities that need nothing but a types.Info (the callee of a call, a sentinel's canonical name)
func (l *loader) lite(info *types.Info) *canon {
	return &canon{mod: l.mod, info: info, lookup: l.lookup}
}

// "<package path>.<name>" of the package-level function a call invokes; "panic" for the builtin; "" otherwise
func (l *loader) pkgFunc(info *types.Info, c *ast.CallExpr) string {
	if id, ok := ast.Unparen(c.Fun).(*ast.Ident); ok {
		if b, ok := info.Uses[id].(*types.Builtin); ok {
			return b.Name()
		}
	}
	f := l.lite(info).calledFunc(c)
	if f == nil || f.Pkg() == nil {
		return ""
	}
	if sig, ok := f.Type().(*types.Signature); !ok || sig.Recv() != nil {
		return ""
	}
	return f.Pkg().Path() + "." + f.Name()
}

func (l *loader) isWrapperIn(info *types.Info, c *ast.CallExpr) bool {
	return wrappers[l.pkgFunc(info, c)]
}

func (a *analyzer) isWrapper(c *ast.CallExpr) bool { return a.l.isWrapperIn(a.info, c) }

func (a *analyzer) isTerminator(c *ast.CallExpr) bool {
	q := a.l.pkgFunc(a.info, c)
	return q == "panic" || terminators[q]
}

// The arguments of a call whose error value the call's result carries: every argument of a wrapper; for a function of
// the module that passes an error parameter through (every `return` of it hands back the parameter, possibly wrapped:
// `func wrapRead(err error) error { return fmt.Errorf("read: %w", err) }`) the arguments in those positions.
func (l *loader) carrierArgs(info *types.Info, c *ast.CallExpr) []ast.Expr {
	if l.isWrapperIn(info, c) {
		return c.Args
	}
	f := l.lite(info).calledFunc(c)
	if f == nil || !l.inModule(f.Pkg()) {
		return nil
	}
	h := l.lookup(f)
	if h == nil {
		return nil
	}
	var out []ast.Expr
	for _, i := range l.passThrough(h) {
		if i < len(c.Args) {
			out = append(out, c.Args[i])
		}
	}
	return out
}

// the parameters of a declared function, flattened, as objects (nil for unnamed / blank ones)
func paramObjs(h *helperDecl) []types.Object {
	var out []types.Object
	if h.fd.Type.Params == nil {
		return out
	}
	for _, f := range h.fd.Type.Params.List {
		if len(f.Names) == 0 {
			out = append(out, nil)
		}
		for _, n := range f.Names {
			out = append(out, h.info.Defs[n]) // nil for `_`
		}
	}
	return out
}

func isVariadic(fd *ast.FuncDecl) bool {
	if fd.Type.Params == nil || len(fd.Type.Params.List) == 0 {
		return false
	}
	_, ok := fd.Type.Params.List[len(fd.Type.Params.List)-1].Type.(*ast.Ellipsis)
	return ok
}

// indexes of the error-typed parameters that EVERY return statement of the function hands back (possibly wrapped); the
// parameter is never assigned and its address is never taken; the last result is an error
func (l *loader) passThrough(h *helperDecl) []int {
	if p, ok := l.pass[h.fd]; ok {
		return p
	}
	l.pass[h.fd] = nil // cycle guard
	ft := h.fd.Type
	if ft.Results == nil || len(ft.Results.List) == 0 || isVariadic(h.fd) {
		return nil
	}
	if tv, ok := h.info.Types[ft.Results.List[len(ft.Results.List)-1].Type]; !ok || tv.Type == nil || !types.Identical(tv.Type, errorType) {
		return nil
	}
	var rets []*ast.ReturnStmt
	touched := map[types.Object]bool{}
	touch := func(e ast.Expr) {
		if id, ok := ast.Unparen(e).(*ast.Ident); ok {
			if o := h.info.Uses[id]; o != nil {
				touched[o] = true
			}
		}
	}
	var walk func(n ast.Node, inLit bool)
	walk = func(n ast.Node, inLit bool) {
		ast.Inspect(n, func(m ast.Node) bool {
			switch x := m.(type) {
			case *ast.FuncLit:
				if m != n {
					walk(x.Body, true)
					return false
				}
			case *ast.ReturnStmt:
				if !inLit {
					rets = append(rets, x)
				}
			case *ast.AssignStmt:
				for _, lhs := range x.Lhs {
					touch(lhs)
				}
			case *ast.UnaryExpr:
				if x.Op == token.AND {
					touch(x.X)
				}
			case *ast.RangeStmt:
				touch(x.Key)
				touch(x.Value)
			}
			return true
		})
	}
	walk(h.fd.Body, false)
	var out []int
	for i, p := range paramObjs(h) {
		if p == nil || touched[p] || !types.Identical(p.Type(), errorType) || len(rets) == 0 {
			continue
		}
		all := true
		for _, r := range rets {
			if len(r.Results) == 0 || !l.carriesIn(h.info, r.Results[len(r.Results)-1], []types.Object{p}, 0) {
				all = false
			}
		}
		if all {
			out = append(out, i)
		}
	}
	l.pass[h.fd] = out
	return out
}

// a call of a function of the module that can only return a nil error: every `return` of it has the literal nil as its last
// result and it has no named results (`func ignore(err error) error { log.Print(err); return nil }`) — `return ignore(err)`
// is `return nil`
func (l *loader) alwaysNil(info *types.Info, e ast.Expr) bool {
	c, ok := ast.Unparen(e).(*ast.CallExpr)
	if !ok {
		return false
	}
	f := l.lite(info).calledFunc(c)
	if f == nil || !l.inModule(f.Pkg()) {
		return false
	}
	h := l.lookup(f)
	if h == nil || h.fd.Type.Results == nil {
		return false
	}
	for _, r := range h.fd.Type.Results.List {
		if len(r.Names) > 0 {
			return false
		}
	}
	n, all := 0, true
	var walk func(b ast.Node)
	walk = func(b ast.Node) {
		ast.Inspect(b, func(m ast.Node) bool {
			switch x := m.(type) {
			case *ast.FuncLit:
				return false
			case *ast.ReturnStmt:
				n++
				if len(x.Results) == 0 || !isNil(x.Results[len(x.Results)-1]) {
					all = false
				}
			}
			return true
		})
	}
	walk(h.fd.Body)
	return n > 0 && all
}

// expression whose value is (a wrap of) a holder: a holder itself, parentheses, a wrapper / pass-through call with such an
// argument
func (l *loader) carriesIn(info *types.Info, e ast.Expr, hold []types.Object, depth int) bool {
	switch x := e.(type) {
	case *ast.Ident:
		o := info.Uses[x]
		for _, h := range hold {
			if o != nil && o == h {
				return true
			}
		}
	case *ast.ParenExpr:
		return l.carriesIn(info, x.X, hold, depth)
	case *ast.CallExpr:
		if depth > 3 {
			return false
		}
		for _, arg := range l.carrierArgs(info, x) {
			if l.carriesIn(info, arg, hold, depth+1) {
				return true
			}
		}
	}
	return false
}

func (a *analyzer) carries(e ast.Expr, hold []types.Object) bool {
	return a.l.carriesIn(a.info, e, hold, 0)
}

// The declaration of the PRIVATE HELPER a call invokes, if the call is to be inlined: an unexported function or concrete
// method of the module whose declaration is known, which is not a listed function, is not being analysed already, and
// stands at most three levels below a listed function.
func (a *analyzer) helperOf(c *ast.CallExpr) (*helperDecl, *types.Func) {
	f := a.cn.calledFunc(c)
	if f == nil || f.Exported() || !a.l.inModule(f.Pkg()) {
		return nil, nil
	}
	f = f.Origin()
	if a.l.listed[f] || a.depth >= 3 {
		return nil, nil
	}
	for _, s := range a.stack {
		if s == f {
			return nil, nil
		}
	}
	h := a.l.lookup(f)
	if h == nil {
		return nil, nil
	}
	return h, f
}

// 1: last result is `error`; 0: it is not; -1: the type of the call is unresolved
func (a *analyzer) returnsError(c *ast.CallExpr) int {
	if tv, ok := a.info.Types[c.Fun]; ok && (tv.IsType() || tv.IsBuiltin()) {
		return 0
	}
	tv, ok := a.info.Types[c]
	if !ok || tv.Type == nil {
		return -1
	}
	t := tv.Type
	if tup, ok := t.(*types.Tuple); ok {
		if tup == nil || tup.Len() == 0 {
			return 0
		}
		t = tup.At(tup.Len() - 1).Type()
	}
	if b, ok := t.(*types.Basic); ok && b.Kind() == types.Invalid {
		return -1
	}
	if types.Identical(t, errorType) {
		return 1
	}
	return 0
}

// a package-level variable whose type implements error, by its canonical name: io.EOF, sstables.Done, pq.Done
func (a *analyzer) sentinel(e ast.Expr) string { return a.cn.sentinelName(e) }

func (a *analyzer) objOf(e ast.Expr) types.Object {
	id, ok := e.(*ast.Ident)
	if !ok || id.Name == "_" {
		return nil
	}
	if o := a.info.Defs[id]; o != nil {
		return o
	}
	return a.info.Uses[id]
}

func (a *analyzer) enclosingFunc(n ast.Node) ast.Node {
	for p := a.l.parents[n]; p != nil; p = a.l.parents[p] {
		switch p.(type) {
		case *ast.FuncLit, *ast.FuncDecl:
			return p
		}
	}
	return nil
}

func funcParts(fn ast.Node) (*ast.FuncType, *ast.BlockStmt) {
	switch x := fn.(type) {
	case *ast.FuncLit:
		return x.Type, x.Body
	case *ast.FuncDecl:
		return x.Type, x.Body
	}
	return nil, nil
}

func (a *analyzer) namedResults(fn ast.Node) map[types.Object]bool {
	out := map[types.Object]bool{}
	ft, _ := funcParts(fn)
	if ft == nil || ft.Results == nil {
		return out
	}
	for _, f := range ft.Results.List {
		for _, n := range f.Names {
			if o := a.info.Defs[n]; o != nil {
				out[o] = true
			}
		}
	}
	return out
}

// does the function (literal) have a last result of type error?
func (a *analyzer) hasErrorResult(fn ast.Node) bool {
	ft, _ := funcParts(fn)
	if ft == nil || ft.Results == nil || len(ft.Results.List) == 0 {
		return false
	}
	last := ft.Results.List[len(ft.Results.List)-1]
	tv, ok := a.info.Types[last.Type]
	return ok && tv.Type != nil && types.Identical(tv.Type, errorType)
}

// the function whose `defer` statement runs this literal (nil if the literal is not the callee of a defer)
func (a *analyzer) deferredIn(lit *ast.FuncLit) ast.Node {
	var n ast.Node = lit
	p := a.l.parents[n]
	for {
		if pe, ok := p.(*ast.ParenExpr); ok {
			n, p = pe, a.l.parents[pe]
			continue
		}
		break
	}
	c, ok := p.(*ast.CallExpr)
	if !ok || c.Fun != n {
		return nil
	}
	d, ok := a.l.parents[c].(*ast.DeferStmt)
	if !ok || d.Call != c {
		return nil
	}
	return a.enclosingFunc(d)
}

// flags: the call stands in a loop body / a defer statement / a conditional branch.  "Conditional" is read up to the
// guard-clause respelling: `if c { X }` and `if !c { continue }; X` (in a loop), and — inside an INLINED helper, whose early
// `return` merely skips the rest of the helper — `if !c { return nil }; X`, are the same fact: a statement that follows an
// `if` one of whose branches always jumps away is conditional too, unless the condition tests an error value (after `if err
// != nil { return err }` the main path goes on; that is the ordinary way to be at the top level).
func (a *analyzer) flags(c ast.Node) (inLoop, inDefer, inBranch bool) {
	var child ast.Node = c
	for p := a.l.parents[c]; p != nil && child != ast.Node(a.fd); child, p = p, a.l.parents[p] {
		switch x := p.(type) {
		case *ast.ForStmt:
			if child != ast.Node(x.Init) {
				inLoop = true
			}
		case *ast.RangeStmt:
			if child == ast.Node(x.Body) {
				inLoop = true
			}
		case *ast.DeferStmt:
			inDefer = true
		case *ast.IfStmt:
			if child == ast.Node(x.Body) || (x.Else != nil && child == ast.Node(x.Else)) {
				inBranch = true
			}
		case *ast.CaseClause:
			inBranch = true
			if a.guardedIn(x.Body, child) {
				inBranch = true
			}
		case *ast.CommClause:
			inBranch = true
		case *ast.BlockStmt:
			if a.guardedIn(x.List, child) {
				inBranch = true
			}
		}
	}
	return
}

// an earlier sibling of `child` in the statement list is a guard clause: an `if` with a branch that always jumps away
// (`continue` / `break` / `goto`; `return` only inside an inlined helper) on a condition that does not test an error value
func (a *analyzer) guardedIn(list []ast.Stmt, child ast.Node) bool {
	for _, s := range list {
		if ast.Node(s) == child {
			return false
		}
		for is, _ := s.(*ast.IfStmt); is != nil; {
			if a.jumpsAway(is.Body) && !a.testsError(is.Cond) {
				return true
			}
			switch e := is.Else.(type) {
			case *ast.IfStmt:
				is = e
				continue
			case *ast.BlockStmt:
				if a.jumpsAway(e) && !a.testsError(is.Cond) {
					return true
				}
			}
			break
		}
	}
	return false
}

func (a *analyzer) jumpsAway(b *ast.BlockStmt) bool {
	if b == nil || len(b.List) == 0 {
		return false
	}
	switch x := b.List[len(b.List)-1].(type) {
	case *ast.BranchStmt:
		return x.Tok == token.CONTINUE || x.Tok == token.BREAK || x.Tok == token.GOTO
	case *ast.ReturnStmt:
		return a.depth > 0
	}
	return false
}

// the condition looks at an error value (`err != nil`, `errors.Is(err, io.EOF)`, `err == Done && last` …)
func (a *analyzer) testsError(cond ast.Expr) bool {
	found := false
	ast.Inspect(cond, func(n ast.Node) bool {
		if e, ok := n.(ast.Expr); ok {
			if tv, ok := a.info.Types[e]; ok && tv.Type != nil && tv.IsValue() && types.Identical(tv.Type, errorType) {
				found = true
			}
		}
		return !found
	})
	return found
}

// worse-first order of the dispositions (the dropped ones rank between swallowed and translated)
var dispRank = map[string]int{"unknown": 7, "overwritten": 6, "swallowed": 5, "discarded": 4, "deferredDiscarded": 4, "translated": 3,
	"checkedThenReturn": 2, "returned": 1}

func union(a, b []string) []string {
	m := map[string]bool{}
	for _, x := range a {
		m[x] = true
	}
	for _, x := range b {
		m[x] = true
	}
	if len(m) == 0 {
		return nil
	}
	return sortedKeys(m)
}

// compose: what becomes of the error of a row INSIDE an inlined helper, given what the caller does with the helper's result
func compose(inner, site row) row {
	r := inner
	switch inner.disp {
	case "returned", "checkedThenReturn":
		// the value reaches the helper's caller: the caller decides
		r.disp, r.why = site.disp, site.why
		if site.disp == "returned" && inner.disp == "checkedThenReturn" {
			r.disp = "checkedThenReturn"
		}
		r.sentinels = union(inner.sentinels, site.sentinels)
	case "translated":
		// the sentinel paths were turned into something else in the helper; the other paths reach the caller
		if dispRank[site.disp] > dispRank["translated"] {
			r.disp, r.why = site.disp, site.why
		}
		r.sentinels = union(inner.sentinels, site.sentinels)
	}
	return r
}

func (a *analyzer) analyze(name string) []row {
	var calls []*ast.CallExpr
	ast.Inspect(a.fd.Body, func(n ast.Node) bool {
		c, ok := n.(*ast.CallExpr)
		if !ok || a.isWrapper(c) {
			return true
		}
		if h, _ := a.helperOf(c); h != nil || a.returnsError(c) != 0 {
			calls = append(calls, c)
		}
		return true
	})
	sort.SliceStable(calls, func(i, j int) bool {
		if calls[i].Pos() != calls[j].Pos() {
			return calls[i].Pos() < calls[j].Pos()
		}
		return calls[i].Lparen < calls[j].Lparen
	})
	var rows []row
	for _, c := range calls {
		r := row{fn: name, callee: a.cn.callee(c), method: a.cn.lastName(c)}
		r.inLoop, r.inDefer, r.inBranch = a.flags(c)
		re := a.returnsError(c)
		if re < 0 {
			r.disp, r.why = "unknown", "the type of the call is unresolved"
		} else if re > 0 {
			a.classify(c, &r)
		}
		h, f := a.helperOf(c)
		if h == nil {
			rows = append(rows, r)
			continue
		}
		// a private helper: its rows stand where the call stands, composed with what happens to the helper's result here
		sub := a.l.analyzer(h.info, h.fd, a.depth+1, append(append([]*types.Func{}, a.stack...), f))
		inner := sub.analyze(name)
		if re != 0 && sub.makesOwnError() {
			inner = append(inner, row{fn: name, callee: ownErrorCallee, disp: "returned", pseudo: true})
		}
		for _, in := range inner {
			if re != 0 {
				in = compose(in, r)
			}
			if in.pseudo && (in.disp == "returned" || in.disp == "checkedThenReturn") {
				continue
			}
			in.inLoop, in.inDefer, in.inBranch = in.inLoop || r.inLoop, in.inDefer || r.inDefer, in.inBranch || r.inBranch
			rows = append(rows, in)
		}
	}
	// deferred literals must not drop what a named result holds
	ast.Inspect(a.fd.Body, func(n ast.Node) bool {
		lit, ok := n.(*ast.FuncLit)
		if !ok {
			return true
		}
		host := a.deferredIn(lit)
		if host == nil {
			return true
		}
		named := a.namedResults(host)
		ast.Inspect(lit.Body, func(m ast.Node) bool {
			as, ok := m.(*ast.AssignStmt)
			if !ok {
				return true
			}
			for i, l := range as.Lhs {
				o := a.objOf(l)
				if o == nil || !named[o] || !types.Identical(o.Type(), errorType) {
					continue
				}
				keeps := false
				if len(as.Lhs) == len(as.Rhs) {
					keeps = a.carries(as.Rhs[i], []types.Object{o})
				}
				if !keeps {
					r := row{fn: name, callee: namedResultAssignment, disp: "unknown",
						why: "a deferred assignment to the named result drops the value it held"}
					r.inLoop, r.inDefer, r.inBranch = a.flags(as)
					rows = append(rows, r)
				}
			}
			return true
		})
		return true
	})
	for i := range rows {
		rows[i].idx = i
	}
	return rows
}

// Does the function hand its caller an error that is not the value of one of its rows nor one of its parameters — a
// `return …, fmt.Errorf("checksum mismatch")`, `return ErrClosed`, `err = &MyErr{…}` into a named result?  (A call of such a
// helper has no row of its own once the helper is inlined; what the caller does with THESE errors is shown by a pseudo
// row, and only if the caller fails to report them.)
func (a *analyzer) makesOwnError() bool {
	if !a.hasErrorResult(a.fd) {
		return false
	}
	own := func(e ast.Expr) bool {
		e = ast.Unparen(e)
		if isNil(e) {
			return false
		}
		if c, ok := e.(*ast.CallExpr); ok && !a.isWrapper(c) {
			if tv, ok := a.info.Types[c.Fun]; !ok || !tv.IsType() {
				return false // a row of its own, or a pass-through helper
			}
		}
		local := false // mentions a local error variable: (a wrap of) a tracked value or a parameter
		ast.Inspect(e, func(n ast.Node) bool {
			if id, ok := n.(*ast.Ident); ok {
				if v, ok := a.info.Uses[id].(*types.Var); ok && !isPkgLevel(v) && !v.IsField() && types.Identical(v.Type(), errorType) {
					local = true
				}
			}
			if c, ok := n.(*ast.CallExpr); ok && n != ast.Node(e) && a.returnsError(c) != 0 && !a.isWrapper(c) {
				local = true // wraps the result of a call that is a row
			}
			return true
		})
		return !local
	}
	named := a.namedResults(a.fd)
	found := false
	var walk func(n ast.Node, inLit bool)
	walk = func(n ast.Node, inLit bool) {
		ast.Inspect(n, func(m ast.Node) bool {
			switch x := m.(type) {
			case *ast.FuncLit:
				walk(x.Body, true)
				return false
			case *ast.ReturnStmt:
				if !inLit && len(x.Results) > 0 && own(x.Results[len(x.Results)-1]) {
					found = true
				}
			case *ast.AssignStmt:
				if len(x.Lhs) == len(x.Rhs) {
					for i, l := range x.Lhs {
						if o := a.objOf(l); o != nil && named[o] && types.Identical(o.Type(), errorType) && own(x.Rhs[i]) {
							found = true
						}
					}
				}
			}
			return true
		})
	}
	walk(a.fd.Body, false)
	return found
}

func (a *analyzer) classify(c *ast.CallExpr, r *row) {
	// climb through parentheses and wrapper calls
	var top ast.Expr = c
	for {
		p := a.l.parents[top]
		if pe, ok := p.(*ast.ParenExpr); ok {
			top = pe
			continue
		}
		if pc, ok := p.(*ast.CallExpr); ok && pc.Fun != top {
			through := false
			for _, arg := range a.l.carrierArgs(a.info, pc) {
				through = through || arg == top
			}
			if through {
				top = pc
				continue
			}
		}
		break
	}
	unknown := func(why string) { r.disp, r.why = "unknown", why }
	fn := a.enclosingFunc(c)
	switch p := a.l.parents[top].(type) {
	case *ast.ExprStmt:
		r.disp = "discarded"
	case *ast.DeferStmt:
		r.disp = "deferredDiscarded"
	case *ast.GoStmt:
		r.disp = "deferredDiscarded"
	case *ast.ReturnStmt:
		if lit, ok := fn.(*ast.FuncLit); ok && !a.literalResultObserved(lit) {
			unknown("returned from a function literal whose result is not a row")
			return
		}
		r.disp = "returned"
	case *ast.AssignStmt:
		var lhs ast.Expr
		if len(p.Lhs) == len(p.Rhs) {
			for i, e := range p.Rhs {
				if e == top {
					lhs = p.Lhs[i]
				}
			}
		} else if len(p.Rhs) == 1 && top == ast.Expr(c) {
			lhs = p.Lhs[len(p.Lhs)-1]
		}
		a.flowFrom(p, lhs, fn, r)
	case *ast.ValueSpec:
		var lhs ast.Expr
		if len(p.Names) == len(p.Values) {
			for i, e := range p.Values {
				if e == top {
					lhs = p.Names[i]
				}
			}
		} else if len(p.Values) == 1 && top == ast.Expr(c) {
			lhs = p.Names[len(p.Names)-1]
		}
		var def ast.Node = p
		if gd, ok := a.l.parents[p].(*ast.GenDecl); ok {
			if ds, ok := a.l.parents[gd].(*ast.DeclStmt); ok {
				def = ds
			}
		}
		a.flowFrom(def, lhs, fn, r)
	default:
		unknown(fmt.Sprintf("the value is used in a %T", p))
	}
}

// a function literal whose returned error is itself observed: invoked on the spot (its call is a row of its own), or
// passed as an argument to a call that returns an error (e.g. filepath.Walk, which hands the callback's error on)
func (a *analyzer) literalResultObserved(lit *ast.FuncLit) bool {
	var n ast.Node = lit
	p := a.l.parents[n]
	for {
		if pe, ok := p.(*ast.ParenExpr); ok {
			n, p = pe, a.l.parents[pe]
			continue
		}
		break
	}
	c, ok := p.(*ast.CallExpr)
	if !ok {
		return false
	}
	if c.Fun == n {
		_, deferred := a.l.parents[c].(*ast.DeferStmt)
		_, spawned := a.l.parents[c].(*ast.GoStmt)
		return !deferred && !spawned
	}
	return a.returnsError(c) == 1
}

func (a *analyzer) flowFrom(def ast.Node, lhs ast.Expr, fn ast.Node, r *row) {
	if lhs == nil {
		r.disp, r.why = "unknown", "cannot tell which variable receives the value"
		return
	}
	if id, ok := lhs.(*ast.Ident); ok && id.Name == "_" {
		r.disp = "discarded"
		return
	}
	obj := a.objOf(lhs)
	if obj == nil {
		r.disp, r.why = "unknown", "the value is stored in "+a.cn.expr(lhs)
		return
	}
	if _, isVar := obj.(*types.Var); !isVar || obj.Parent() == nil || obj.Parent() == obj.Pkg().Scope() {
		r.disp, r.why = "unknown", "the value is stored in "+a.cn.expr(lhs)
		return
	}
	_, body := funcParts(fn)
	e := &engine{a: a, fn: fn, def: def, obj: obj, out: map[string]bool{}, sents: map[string]bool{}}
	e.named = a.namedResults(fn)
	if lit, ok := fn.(*ast.FuncLit); ok {
		if host := a.deferredIn(lit); host != nil {
			e.hostNamed = a.namedResults(host)
		}
		if !a.literalResultObserved(lit) && a.hasErrorResult(lit) {
			e.unknown("the enclosing function literal's result is not a row")
		}
	}
	for _, x := range e.block(body.List, state{pre: true}) {
		if x.k == fall {
			e.funcEnd(x.st)
		} else {
			e.unknown("break / continue outside a loop")
		}
	}
	if !e.reached {
		e.unknown("the defining statement was not reached by the walk")
	}
	r.disp, r.why, r.sentinels = e.verdict()
}

// ---------------------------------------------------------------------------------------------------------
// the walk

type state struct {
	pre    bool           // the defining statement has not been executed yet
	hold   []types.Object // variables holding the value (sorted by position)
	kNil   bool           // the value may be nil
	kOther bool           // the value may be an error other than the sentinels below
	sents  []string       // the value may be exactly one of these sentinels (sorted)
}

func (s state) key() string {
	var b strings.Builder
	fmt.Fprintf(&b, "%v|%v|%v|%s|", s.pre, s.kNil, s.kOther, strings.Join(s.sents, ","))
	for _, h := range s.hold {
		fmt.Fprintf(&b, "%d,", h.Pos())
	}
	return b.String()
}

func (s state) feasible() bool { return s.pre || s.kNil || s.kOther || len(s.sents) > 0 }

// still something to account for
func (s state) live() bool { return s.pre || s.kOther || len(s.sents) > 0 }

func (s state) holds(o types.Object) bool {
	for _, h := range s.hold {
		if h == o {
			return true
		}
	}
	return false
}

func (s state) with(o types.Object) state {
	if s.holds(o) {
		return s
	}
	n := s
	n.hold = append(append([]types.Object{}, s.hold...), o)
	sort.Slice(n.hold, func(i, j int) bool { return n.hold[i].Pos() < n.hold[j].Pos() })
	return n
}

func (s state) without(o types.Object) state {
	if !s.holds(o) {
		return s
	}
	n := s
	n.hold = nil
	for _, h := range s.hold {
		if h != o {
			n.hold = append(n.hold, h)
		}
	}
	return n
}

type kind int

const (
	fall kind = iota
	brk
	cont
)

type exit struct {
	k  kind
	st state
}

type engine struct {
	a         *analyzer
	fn        ast.Node
	def       ast.Node
	obj       types.Object
	named     map[types.Object]bool // named results of fn
	hostNamed map[types.Object]bool // fn is a deferred literal: named results of the function that defers it
	out       map[string]bool
	sents     map[string]bool
	why       []string
	reached   bool
}

func (e *engine) unknown(why string) {
	e.out["unknown"] = true
	for _, w := range e.why {
		if w == why {
			return
		}
	}
	e.why = append(e.why, why)
}

func (e *engine) verdict() (string, string, []string) {
	var ss []string
	for s := range e.sents {
		ss = append(ss, s)
	}
	sort.Strings(ss)
	for _, d := range []string{"unknown", "overwritten", "swallowed", "translated", "checkedThenReturn", "returned"} {
		if e.out[d] {
			why := ""
			if d == "unknown" {
				sort.Strings(e.why)
				why = strings.Join(e.why, "; ")
			}
			return d, why, ss
		}
	}
	return "unknown", "no path from the call to an exit was found", ss
}

// the value is gone on this path (no holder left, or the function returned without it)
func (e *engine) lost(st state) {
	if st.kOther {
		if st.kNil {
			e.out["overwritten"] = true
		} else {
			e.out["swallowed"] = true
		}
	}
	for _, s := range st.sents {
		e.out["translated"] = true
		e.sents[s] = true
	}
}

// the path ends with the value (or a wrap of it) handed to the caller
func (e *engine) handedOn(st state) {
	if st.kOther && !st.kNil {
		e.out["checkedThenReturn"] = true
	} else {
		e.out["returned"] = true
	}
}

// the path ends with an error that is not the value (or with the process stopping)
func (e *engine) otherError(st state) {
	if st.kOther {
		if st.kNil {
			e.out["overwritten"] = true
		} else {
			e.out["checkedThenReturn"] = true
		}
	}
	for _, s := range st.sents {
		e.out["translated"] = true
		e.sents[s] = true
	}
}

func (e *engine) funcEnd(st state) {
	if !st.live() || st.pre {
		return
	}
	for _, h := range st.hold {
		if e.named[h] || e.hostNamed[h] {
			e.handedOn(st)
			return
		}
	}
	for _, h := range st.hold {
		if h.Parent() != nil && !e.declaredInside(h) {
			e.unknown("the value leaves the function literal in a captured variable")
			return
		}
	}
	e.lost(st)
}

func (e *engine) declaredInside(o types.Object) bool {
	return e.fn.Pos() <= o.Pos() && o.Pos() < e.fn.End()
}

func isNil(e ast.Expr) bool {
	id, ok := e.(*ast.Ident)
	return ok && id.Name == "nil"
}

func (e *engine) ret(st state, s *ast.ReturnStmt) {
	if !st.live() || st.pre {
		return
	}
	if !e.a.hasErrorResult(e.fn) {
		e.funcEndNoError(st)
		return
	}
	if len(s.Results) == 0 {
		e.funcEnd(st)
		return
	}
	last := s.Results[len(s.Results)-1]
	switch {
	case e.a.carries(last, st.hold):
		e.handedOn(st)
	case isNil(last) || e.a.l.alwaysNil(e.a.info, last):
		e.lost(st)
	default:
		e.otherError(st)
	}
}

// return from / end of a function without an error result
func (e *engine) funcEndNoError(st state) {
	for _, h := range st.hold {
		if e.hostNamed[h] {
			e.handedOn(st)
			return
		}
	}
	for _, h := range st.hold {
		if !e.declaredInside(h) {
			e.unknown("the value leaves the function literal in a captured variable")
			return
		}
	}
	e.lost(st)
}

func contains(outer, inner ast.Node) bool {
	return outer != nil && inner != nil && outer.Pos() <= inner.Pos() && inner.End() <= outer.End()
}

// objects declared by a statement itself (:=, var, range key/value)
func (e *engine) declared(s ast.Stmt) []types.Object {
	var out []types.Object
	add := func(x ast.Expr) {
		if id, ok := x.(*ast.Ident); ok {
			if o := e.a.info.Defs[id]; o != nil {
				out = append(out, o)
			}
		}
	}
	switch x := s.(type) {
	case *ast.AssignStmt:
		if x.Tok == token.DEFINE {
			for _, l := range x.Lhs {
				add(l)
			}
		}
	case *ast.DeclStmt:
		if gd, ok := x.Decl.(*ast.GenDecl); ok {
			for _, sp := range gd.Specs {
				if vs, ok := sp.(*ast.ValueSpec); ok {
					for _, n := range vs.Names {
						add(n)
					}
				}
			}
		}
	case *ast.RangeStmt:
		if x.Tok == token.DEFINE {
			add(x.Key)
			add(x.Value)
		}
	case *ast.LabeledStmt:
		return e.declared(x.Stmt)
	}
	return out
}

func (e *engine) endScope(xs []exit, objs []types.Object) []exit {
	if len(objs) == 0 {
		return xs
	}
	var out []exit
	for _, x := range xs {
		st := x.st
		if !st.pre {
			for _, o := range objs {
				st = st.without(o)
			}
			if len(st.hold) == 0 {
				e.lost(st)
				continue
			}
		}
		out = append(out, exit{x.k, st})
	}
	return out
}

func dedupe(xs []exit) []exit {
	seen := map[string]bool{}
	var out []exit
	for _, x := range xs {
		k := fmt.Sprintf("%d|%s", x.k, x.st.key())
		if !seen[k] {
			seen[k] = true
			out = append(out, x)
		}
	}
	return out
}

func (e *engine) block(list []ast.Stmt, st state) []exit {
	cur := []state{st}
	var out []exit
	var decl []types.Object
	for _, s := range list {
		var next []state
		for _, c := range cur {
			for _, x := range e.stmt(s, c) {
				if x.k == fall {
					next = append(next, x.st)
				} else {
					out = append(out, x)
				}
			}
		}
		decl = append(decl, e.declared(s)...)
		// dedupe
		seen := map[string]bool{}
		cur = nil
		for _, n := range next {
			if k := n.key(); !seen[k] {
				seen[k] = true
				cur = append(cur, n)
			}
		}
		if len(cur) == 0 {
			break
		}
	}
	for _, c := range cur {
		out = append(out, exit{fall, c})
	}
	return dedupe(e.endScope(out, decl))
}

// a function literal inside n assigns a holder without keeping its value
func (e *engine) literalClobbers(n ast.Node, st state) {
	if n == nil || st.pre {
		return
	}
	ast.Inspect(n, func(m ast.Node) bool {
		lit, ok := m.(*ast.FuncLit)
		if !ok {
			return true
		}
		ast.Inspect(lit.Body, func(k ast.Node) bool {
			as, ok := k.(*ast.AssignStmt)
			if !ok {
				return true
			}
			for i, l := range as.Lhs {
				o := e.a.objOf(l)
				if o == nil || !st.holds(o) {
					continue
				}
				if len(as.Lhs) != len(as.Rhs) || !e.a.carries(as.Rhs[i], st.hold) {
					e.unknown("a function literal assigns a variable while it holds the value")
				}
			}
			return true
		})
		return false
	})
}

func (e *engine) assign(lhs, rhs []ast.Expr, st state) []exit {
	for _, r := range rhs {
		e.literalClobbers(r, st)
	}
	n := st
	type upd struct {
		o    types.Object
		keep bool
	}
	var us []upd
	for i, l := range lhs {
		o := e.a.objOf(l)
		if o == nil {
			continue
		}
		keep := len(lhs) == len(rhs) && e.a.carries(rhs[i], st.hold)
		us = append(us, upd{o, keep})
	}
	for _, u := range us {
		if u.keep {
			n = n.with(u.o)
		} else {
			n = n.without(u.o)
		}
	}
	if len(n.hold) == 0 {
		e.lost(n)
		return nil
	}
	return []exit{{fall, n}}
}

func (e *engine) stmt(s ast.Stmt, st state) []exit {
	if s == nil {
		return []exit{{fall, st}}
	}
	if !st.feasible() {
		return nil
	}
	if !st.pre && !st.live() {
		return nil // only nil is left: nothing to account for on this path
	}
	if st.pre {
		if !contains(s, e.def) {
			return []exit{{fall, st}}
		}
		if ast.Node(s) == e.def {
			e.reached = true
			return []exit{{fall, state{hold: []types.Object{e.obj}, kNil: true, kOther: true}}}
		}
	}
	switch x := s.(type) {
	case *ast.ExprStmt:
		if c, ok := x.X.(*ast.CallExpr); ok && e.a.isTerminator(c) {
			e.otherError(st)
			return nil
		}
		e.literalClobbers(x.X, st)
		return []exit{{fall, st}}
	case *ast.AssignStmt:
		return e.assign(x.Lhs, x.Rhs, st)
	case *ast.DeclStmt:
		cur := st
		if gd, ok := x.Decl.(*ast.GenDecl); ok {
			for _, sp := range gd.Specs {
				vs, ok := sp.(*ast.ValueSpec)
				if !ok || len(vs.Values) == 0 {
					continue
				}
				var lhs []ast.Expr
				for _, n := range vs.Names {
					lhs = append(lhs, n)
				}
				xs := e.assign(lhs, vs.Values, cur)
				if len(xs) == 0 {
					return nil
				}
				cur = xs[0].st
			}
		}
		return []exit{{fall, cur}}
	case *ast.IncDecStmt, *ast.SendStmt, *ast.EmptyStmt:
		return []exit{{fall, st}}
	case *ast.GoStmt:
		e.literalClobbers(x.Call, st)
		return []exit{{fall, st}}
	case *ast.DeferStmt:
		// a deferred literal may add to a named result; dropping it is reported by the per-function check
		if lit, ok := x.Call.Fun.(*ast.FuncLit); !ok || e.a.deferredIn(lit) == nil {
			e.literalClobbers(x.Call, st)
		}
		return []exit{{fall, st}}
	case *ast.ReturnStmt:
		for _, r := range x.Results {
			e.literalClobbers(r, st)
		}
		e.ret(st, x)
		return nil
	case *ast.BranchStmt:
		if x.Label == nil && x.Tok == token.BREAK {
			return []exit{{brk, st}}
		}
		if x.Label == nil && x.Tok == token.CONTINUE {
			return []exit{{cont, st}}
		}
		if !st.pre {
			e.unknown("goto / fallthrough / labelled branch while the value is live")
		}
		return nil
	case *ast.BlockStmt:
		return e.block(x.List, st)
	case *ast.LabeledStmt:
		return e.stmt(x.Stmt, st)
	case *ast.IfStmt:
		var out []exit
		for _, i := range e.stmt(x.Init, st) {
			if i.k != fall {
				continue
			}
			ts, fs := e.refine(x.Cond, i.st)
			for _, t := range ts {
				out = append(out, e.block(x.Body.List, t)...)
			}
			for _, f := range fs {
				if x.Else != nil {
					out = append(out, e.stmt(x.Else, f)...)
				} else if f.live() {
					out = append(out, exit{fall, f})
				}
			}
		}
		if x.Init != nil {
			out = e.endScope(out, e.declared(x.Init))
		}
		return dedupe(out)
	case *ast.ForStmt:
		var out []exit
		var work []state
		for _, i := range e.stmt(x.Init, st) {
			if i.k == fall {
				work = append(work, i.st)
			}
		}
		seen := map[string]bool{}
		for len(work) > 0 {
			c := work[len(work)-1]
			work = work[:len(work)-1]
			if seen[c.key()] {
				continue
			}
			seen[c.key()] = true
			ts, fs := []state{c}, []state(nil)
			if x.Cond != nil {
				ts, fs = e.refine(x.Cond, c)
			}
			for _, f := range fs {
				if f.live() {
					out = append(out, exit{fall, f})
				}
			}
			for _, t := range ts {
				for _, b := range e.block(x.Body.List, t) {
					switch b.k {
					case brk:
						out = append(out, exit{fall, b.st})
					default:
						for _, p := range e.stmt(x.Post, b.st) {
							work = append(work, p.st)
						}
					}
				}
			}
		}
		if x.Init != nil {
			out = e.endScope(out, e.declared(x.Init))
		}
		return dedupe(out)
	case *ast.RangeStmt:
		var out []exit
		work := []state{st}
		seen := map[string]bool{}
		decl := e.declared(x)
		for len(work) > 0 {
			c := work[len(work)-1]
			work = work[:len(work)-1]
			if seen[c.key()] {
				continue
			}
			seen[c.key()] = true
			if c.live() {
				out = append(out, exit{fall, c})
			}
			for _, b := range e.block(x.Body.List, c) {
				switch b.k {
				case brk:
					out = append(out, exit{fall, b.st})
				default:
					work = append(work, b.st)
				}
			}
		}
		return dedupe(e.endScope(out, decl))
	case *ast.SwitchStmt:
		return e.clauses(x.Init, nil, x.Body, st)
	case *ast.TypeSwitchStmt:
		return e.clauses(x.Init, x.Assign, x.Body, st)
	case *ast.SelectStmt:
		return e.clauses(nil, nil, x.Body, st)
	}
	if !st.pre {
		e.unknown(fmt.Sprintf("statement %T while the value is live", s))
	}
	return nil
}

// switch / type switch / select: every clause is an alternative; `break` leaves the statement
func (e *engine) clauses(init, assign ast.Stmt, body *ast.BlockStmt, st state) []exit {
	var out []exit
	var decl []types.Object
	if init != nil {
		decl = append(decl, e.declared(init)...)
	}
	for _, i := range e.stmt(init, st) {
		if i.k != fall {
			continue
		}
		hasDefault := false
		for _, c := range body.List {
			var list []ast.Stmt
			var comm ast.Stmt
			switch cc := c.(type) {
			case *ast.CaseClause:
				list = cc.Body
				if cc.List == nil {
					hasDefault = true
				}
			case *ast.CommClause:
				list = cc.Body
				comm = cc.Comm
				hasDefault = true // a select always takes one of its clauses
			}
			for _, s := range list {
				if b, ok := s.(*ast.BranchStmt); ok && b.Tok == token.FALLTHROUGH && !i.st.pre {
					e.unknown("fallthrough while the value is live")
				}
			}
			var cdecl []types.Object
			for _, cs := range e.stmt(comm, i.st) {
				if comm != nil {
					cdecl = e.declared(comm)
				}
				for _, b := range e.endScope(e.block(list, cs.st), cdecl) {
					if b.k == brk {
						b.k = fall
					}
					out = append(out, b)
				}
			}
		}
		if !hasDefault && i.st.live() {
			out = append(out, exit{fall, i.st})
		}
	}
	_ = assign
	return dedupe(e.endScope(out, decl))
}

// where a condition is read: the types.Info of its package and, inside a one-line helper, its parameters ↦ the arguments of
// the call (read in the caller's context)
type rctx struct {
	info   *types.Info
	env    map[types.Object]ast.Expr
	parent *rctx
	depth  int
}

// refine: the states in which the condition is true / false
func (e *engine) refine(c ast.Expr, st state) (ts, fs []state) {
	return e.refineIn(c, st, &rctx{info: e.a.info})
}

func (e *engine) refineIn(c ast.Expr, st state, cx *rctx) (ts, fs []state) {
	if st.pre {
		return []state{st}, []state{st}
	}
	keep := func(ss []state) []state {
		var out []state
		for _, s := range ss {
			if s.feasible() {
				out = append(out, s)
			}
		}
		return out
	}
	var holderIn func(x ast.Expr, cx *rctx) bool
	holderIn = func(x ast.Expr, cx *rctx) bool {
		id, ok := ast.Unparen(x).(*ast.Ident)
		if !ok {
			return false
		}
		o := cx.info.Uses[id]
		if o == nil {
			return false
		}
		if arg, ok := cx.env[o]; ok && cx.parent != nil {
			return holderIn(arg, cx.parent)
		}
		return st.holds(o)
	}
	holder := func(x ast.Expr) bool { return holderIn(x, cx) }
	sentinel := func(x ast.Expr) string { return e.a.l.lite(cx.info).sentinelName(x) }
	isSent := func(s string) (state, state) {
		t := state{hold: st.hold}
		if st.kOther {
			t.sents = []string{s}
		}
		for _, x := range st.sents {
			if x == s {
				t.sents = []string{s}
			}
		}
		f := st
		f.sents = nil
		for _, x := range st.sents {
			if x != s {
				f.sents = append(f.sents, x)
			}
		}
		return t, f
	}
	switch x := c.(type) {
	case *ast.ParenExpr:
		return e.refineIn(x.X, st, cx)
	case *ast.UnaryExpr:
		if x.Op == token.NOT {
			ts, fs = e.refineIn(x.X, st, cx)
			return fs, ts
		}
	case *ast.BinaryExpr:
		switch x.Op {
		case token.LAND:
			at, af := e.refineIn(x.X, st, cx)
			fs = append(fs, af...)
			for _, a := range at {
				bt, bf := e.refineIn(x.Y, a, cx)
				ts = append(ts, bt...)
				fs = append(fs, bf...)
			}
			return keep(ts), keep(fs)
		case token.LOR:
			at, af := e.refineIn(x.X, st, cx)
			ts = append(ts, at...)
			for _, a := range af {
				bt, bf := e.refineIn(x.Y, a, cx)
				ts = append(ts, bt...)
				fs = append(fs, bf...)
			}
			return keep(ts), keep(fs)
		case token.EQL, token.NEQ:
			var other ast.Expr
			if holder(x.X) {
				other = x.Y
			} else if holder(x.Y) {
				other = x.X
			}
			if other == nil {
				break
			}
			var t, f state
			if isNil(other) {
				t = state{hold: st.hold, kNil: st.kNil}
				f = st
				f.kNil = false
			} else if s := sentinel(other); s != "" {
				t, f = isSent(s)
			} else {
				break
			}
			if x.Op == token.NEQ {
				t, f = f, t
			}
			return keep([]state{t}), keep([]state{f})
		}
	case *ast.CallExpr:
		fn := e.a.l.lite(cx.info).calledFunc(x)
		if fn == nil || fn.Pkg() == nil {
			break
		}
		if fn.Pkg().Path() == "errors" && fn.Name() == "Is" && len(x.Args) == 2 {
			if holder(x.Args[0]) {
				if s := sentinel(x.Args[1]); s != "" {
					t, f := isSent(s)
					return keep([]state{t}), keep([]state{f})
				}
			}
			break
		}
		// a helper of the module whose body is a single `return <expr>`: read the expression with the arguments in place of
		// the parameters (such a helper may use another one; no deeper): `func isEOF(err error) bool { return errors.Is(err, io.EOF) }`
		if cx.depth >= 2 || !e.a.l.inModule(fn.Pkg()) {
			break
		}
		h := e.a.l.lookup(fn)
		if h == nil || len(h.fd.Body.List) != 1 || isVariadic(h.fd) {
			break
		}
		rs, ok := h.fd.Body.List[0].(*ast.ReturnStmt)
		params := paramObjs(h)
		if !ok || len(rs.Results) != 1 || len(params) != len(x.Args) {
			break
		}
		env := map[types.Object]ast.Expr{}
		for i, p := range params {
			if p != nil {
				env[p] = x.Args[i]
			}
		}
		return e.refineIn(rs.Results[0], st, &rctx{info: h.info, env: env, parent: cx, depth: cx.depth + 1})
	}
	return []state{st}, []state{st}
}

// ---------------------------------------------------------------------------------------------------------

func leanStr(s string) string {
	s = strings.ReplaceAll(s, "\\", "\\\\")
	s = strings.ReplaceAll(s, "\"", "\\\"")
	s = strings.ReplaceAll(s, "--", "-\\x2d") // ./check strips `--` comments line-wise before it looks for forbidden words
	return "\"" + s + "\""
}

func fatal(a ...any) {
	fmt.Fprintln(os.Stderr, append([]any{"errfacts:"}, a...)...)
	os.Exit(1)
}

func writeIfChanged(path, content string) {
	old, err := os.ReadFile(path)
	if err == nil && string(old) == content {
		return
	}
	if err := os.WriteFile(path, []byte(content), 0o644); err != nil {
		fatal(err)
	}
}

func main() {
	var root string
	allowMissing := false
	var pos []string
	for i := 1; i < len(os.Args); i++ {
		switch a := os.Args[i]; {
		case a == "--root" && i+1 < len(os.Args):
			root = os.Args[i+1]
			i++
		case strings.HasPrefix(a, "--root="):
			root = strings.TrimPrefix(a, "--root=")
		case a == "--allow-missing":
			allowMissing = true
		default:
			pos = append(pos, a)
		}
	}
	if len(pos) != 2 {
		fmt.Fprintln(os.Stderr, "usage: errfacts [--root <overlay dir>] [--allow-missing] <repo> <outdir>")
		os.Exit(2)
	}
	repo, err := filepath.Abs(pos[0])
	if err != nil {
		fatal(err)
	}
	out := pos[1]
	if root != "" {
		if root, err = filepath.Abs(root); err != nil {
			fatal(err)
		}
	}
	if err := os.MkdirAll(out, 0o755); err != nil {
		fatal(err)
	}
	l := newLoader(repo, root)

	// pass 1: find the listed functions (in any file of their package; `file` says where they were when the list was
	// written) — they are the anchors: never inlined, and a call of one from another listed function stays a row
	type found struct {
		disp, file string
		path       string
		fd         *ast.FuncDecl
		fn         *types.Func
	}
	var all []found
	var missing []string
	for _, t := range targets {
		path := l.mod + "/" + filepath.ToSlash(filepath.Dir(t.file))
		if _, ok := l.infos[path]; !ok {
			l.check(path)
		}
		for _, n := range t.fns {
			disp := n
			if !strings.Contains(n, ".") || t.qual {
				disp = t.pkg + "." + n
			}
			// by package, receiver type and name — a PRIVATE anchor whose name is gone by its role (canon.go, resolveFunc)
			fn, _ := resolveFunc(l.mod, l.pkgs[path], n)
			var h *helperDecl
			if fn != nil {
				h = l.lookup(fn)
			}
			if h == nil {
				missing = append(missing, fmt.Sprintf("%s (expected in %s)", disp, t.file))
				all = append(all, found{disp: disp, file: t.file})
				continue
			}
			file := t.file
			for rel, f := range l.files[path] {
				if f.Pos() <= h.fd.Pos() && h.fd.Pos() < f.End() {
					file = filepath.ToSlash(rel)
				}
			}
			l.listed[fn.Origin()] = true
			all = append(all, found{disp: disp, file: file, path: path, fd: h.fd, fn: fn.Origin()})
		}
	}
	for _, r := range l.renamed {
		fmt.Fprintln(os.Stderr, "errfacts: note: private function found by its role (receiver + signature):", r)
	}
	// pass 2: the rows
	var fns []fnOut
	for _, f := range all {
		if f.fd == nil {
			fns = append(fns, fnOut{name: f.disp, file: f.file})
			continue
		}
		a := l.analyzer(l.infos[f.path], f.fd, 0, []*types.Func{f.fn})
		fns = append(fns, fnOut{name: f.disp, file: f.file, found: true, rows: a.analyze(f.disp)})
	}
	if len(l.problems) > 0 {
		msg := "the source does not type-check (or an import could not be resolved offline):\n  " + strings.Join(l.problems, "\n  ")
		if !allowMissing {
			fatal(msg)
		}
		fmt.Fprintln(os.Stderr, "errfacts: warning:", msg)
	}
	if len(missing) > 0 && !allowMissing {
		fatal("listed function(s) not found in the source — the error-flow tie is broken:\n  " + strings.Join(missing, "\n  "))
	}
	for _, m := range missing {
		fmt.Fprintln(os.Stderr, "errfacts: warning: missing", m)
	}
	writeIfChanged(filepath.Join(out, "ErrFlow.lean"), render(fns))
}

func (r row) lean() string {
	d := "." + r.disp
	if r.disp == "unknown" {
		d = "(.unknown " + leanStr(r.why) + ")"
	}
	var ss []string
	for _, s := range r.sentinels {
		ss = append(ss, leanStr(s))
	}
	return fmt.Sprintf("⟨%s, %d, %s, %s, %s, [%s], %v, %v, %v⟩", leanStr(r.fn), r.idx, leanStr(r.callee), leanStr(r.method), d,
		strings.Join(ss, ", "), r.inLoop, r.inDefer, r.inBranch)
}

func render(fns []fnOut) string {
	var sb strings.Builder
	sb.WriteString("-- GENERATED by tools/errfacts from /repo/{sstables,pq,memstore,simpledb,recordio,wal}/*.go (go/types). Do not edit; rewritten when the source changes.\n")
	sb.WriteString("-- One row per call site whose callee's last result is `error`, in the listed functions, in source order: what happens\n")
	sb.WriteString("-- to that error value on every path (worst disposition over the paths).  Vocabulary: header of tools/errfacts/main.go.\n")
	sb.WriteString("namespace SST.Generated.ErrFlow\n\n")
	sb.WriteString("/-- what happens to the error value of a call on every path of the enclosing function -/\n")
	sb.WriteString("inductive Disp where\n  | returned\n  | checkedThenReturn\n  | translated\n  | overwritten\n  | swallowed\n  | discarded\n  | deferredDiscarded\n  | unknown (why : String)\n  deriving DecidableEq, Repr\n\n")
	sb.WriteString("/-- `fn`: listed function; `idx`: position among its rows (source order); `callee`: go/types identity of what is called (receiver by the type of its root variable; private helpers inlined);\n`method`: its last name; `sentinels`: the package-level error values the result is compared with and turned into a\ndifferent outcome; `inLoop` / `inDefer` / `inBranch`: the call stands in a loop body / a defer statement / a conditional branch -/\n")
	sb.WriteString("structure Row where\n  fn : String\n  idx : Nat\n  callee : String\n  method : String\n  disp : Disp\n  sentinels : List String\n  inLoop : Bool\n  inDefer : Bool\n  inBranch : Bool\n  deriving DecidableEq, Repr\n\n")
	sb.WriteString("structure Fn where\n  name : String\n  file : String\n  found : Bool\n  deriving DecidableEq, Repr\n\n")
	var ws []string
	for k := range wrappers {
		ws = append(ws, leanStr(k))
	}
	sort.Strings(ws)
	sb.WriteString("/-- calls that build an error from their arguments: not rows, the value is followed through them -/\ndef wrapperCalls : List String := [" + strings.Join(ws, ", ") + "]\n\n")
	var ts []string
	for k := range terminators {
		ts = append(ts, leanStr(k))
	}
	ts = append(ts, leanStr("panic"))
	sort.Strings(ts)
	sb.WriteString("/-- calls after which a path counts as reported (the process or goroutine stops) -/\ndef terminatorCalls : List String := [" + strings.Join(ts, ", ") + "]\n\n")
	sb.WriteString("def functions : List Fn := [")
	for i, f := range fns {
		if i > 0 {
			sb.WriteString(",")
		}
		sb.WriteString(fmt.Sprintf("\n  ⟨%s, %s, %v⟩", leanStr(f.name), leanStr(f.file), f.found))
	}
	sb.WriteString("]\n\n")
	var names []string
	for i, f := range fns {
		id := fmt.Sprintf("rows%02d", i)
		names = append(names, id)
		sb.WriteString(fmt.Sprintf("/-- %s (%s) -/\ndef %s : List Row := [", f.name, f.file, id))
		for j, r := range f.rows {
			if j > 0 {
				sb.WriteString(",")
			}
			sb.WriteString("\n  " + r.lean())
		}
		sb.WriteString("]\n\n")
	}
	sb.WriteString("def table : List Row := " + strings.Join(names, " ++ ") + "\n\n")
	sb.WriteString("end SST.Generated.ErrFlow\n")
	return sb.String()
}
