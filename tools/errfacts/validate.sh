#!/bin/bash
# Validation of the error-flow tie: applies seeded changes / hand-written regressions to SCRATCH copies of the touched
# source files (never /repo), runs errfacts with --root on them, rebuilds Props/C11_Errors.lean in a SCRATCH copy of the
# Lean project (never /verif/lean) and prints which theorems no longer build.
#   usage: tools/errfacts/validate.sh [mutant ...]      (default: all below)
# Mutants: baseline        the unchanged tree (expected: every theorem builds)
#          Cxx-mk          /verif/seeded/Cxx-mk/patch.diff
#          R<k>-<name>     /verif/tools/errfacts/regressions/R<k>-<name>.diff  (classic shapes no seeded change has)
# Scratch directory: $ERRVAL_DIR (default /root/scratch-errfacts/val); remove it afterwards.
set -u
VERIF=${VERIF:-/verif}          # the framework copy under test (default: /verif)
SEEDED=${SEEDED:-/verif/seeded}   # where the seeded changes live
REPO=/repo
WORK=${ERRVAL_DIR:-/root/scratch-errfacts/val}
BIN=$WORK/errfacts
PROJ=$WORK/lean
export GOFLAGS=-mod=mod GOPROXY=off

mkdir -p "$WORK" "$PROJ/SST/Generated" "$PROJ/SST/Props"
(cd $VERIF/tools/errfacts && timeout 300 go build -o "$BIN" .) || { echo "errfacts does not build"; exit 2; }
cp $VERIF/lean/lean-toolchain $VERIF/lean/lake-manifest.json "$PROJ/"
printf 'name = "SST"\nversion = "0.1.0"\ndefaultTargets = ["SST"]\n\n[[lean_lib]]\nname = "SST"\n' > "$PROJ/lakefile.toml"
cp $VERIF/lean/SST/Props/C11_Errors.lean "$PROJ/SST/Props/"

theorem_at() { # file line -> name of the enclosing theorem
  awk -v L="$2" '/^theorem /{n=$2} NR==L{print n; exit}' "$1"
}

run_one() {
  local m=$1 root=$WORK/root_$1 patch=""
  rm -rf "$root"; mkdir -p "$root"
  case $m in
    baseline) ;;
    C??-m?) patch=$SEEDED/$m/patch.diff ;;
    R*)     patch=$VERIF/tools/errfacts/regressions/$m.diff ;;
    *) echo "== $m | unknown mutant"; return ;;
  esac
  if [ -n "$patch" ]; then
    [ -f "$patch" ] || { echo "== $m | no such patch: $patch"; return; }
    for f in $(grep '^+++ b/' "$patch" | sed 's#^+++ b/##'); do
      mkdir -p "$root/$(dirname $f)"; cp "$REPO/$f" "$root/$f"
    done
    (cd "$root" && grep -v '^#' "$patch" | timeout 30 patch -s -p1) || { echo "== $m | patch does not apply"; return; }
  fi
  local strict="ok"
  mkdir -p "$WORK/strict_out"
  timeout 120 "$BIN" --root "$root" $REPO "$WORK/strict_out" >/dev/null 2>"$WORK/strict_err" || strict="exit $? ($(head -c 300 $WORK/strict_err | tr '\n' ' '))"
  timeout 120 "$BIN" --root "$root" --allow-missing $REPO "$PROJ/SST/Generated" 2>/dev/null
  local changed
  changed=$(diff <(grep '⟨' "$WORK/base/ErrFlow.lean" 2>/dev/null) <(grep '⟨' "$PROJ/SST/Generated/ErrFlow.lean") | grep -c '^>')
  (cd "$PROJ" && timeout 1500 lake build SST.Props.C11_Errors 2>&1) > "$WORK/build_$m.log"
  local failed=""
  while IFS= read -r line; do
    f=$(echo "$line" | sed -E 's/^error: ([^:]+):([0-9]+):.*/\1/'); l=$(echo "$line" | sed -E 's/^error: ([^:]+):([0-9]+):.*/\2/')
    case $f in /*) ;; *) f="$PROJ/$f" ;; esac
    failed="$failed $(theorem_at "$f" "$l")"
  done < <(grep -E '^error: [^ ]+\.lean:[0-9]+:[0-9]+' "$WORK/build_$m.log")
  failed=$(echo $failed | tr ' ' '\n' | sort -u | tr '\n' ' ' | sed 's/^ *//;s/ *$//')
  echo "== $m | errfacts (strict): $strict | rows that differ from the unchanged tree: $changed"
  [ "$m" != baseline ] && diff <(grep '⟨' "$WORK/base/ErrFlow.lean") <(grep '⟨' "$PROJ/SST/Generated/ErrFlow.lean") | grep '^>' | sed 's/^> */     now: /'
  echo "   failing theorems: ${failed:-none}"
}

# reference table of the unchanged tree
mkdir -p "$WORK/base"
timeout 120 "$BIN" $REPO "$WORK/base" || { echo "errfacts fails on the unchanged tree"; exit 2; }

REGS=$(cd $VERIF/tools/errfacts/regressions 2>/dev/null && ls *.diff 2>/dev/null | sed 's/\.diff$//')
ALL="baseline C11-m1 C11-m2 C11-m3 C11-m4 C19-m4 C07-m4 C10-m4 C02-m2 C07-m2 $REGS"
for m in ${@:-$ALL}; do run_one $m; done
