// lockfacts: regenerates lean/SST/Generated/Access.lean and Purity.lean from /repo's working tree.
//
//	lockfacts <repo> <outdir>
//
// Standard library only (go/parser, go/ast, go/token, go/printer); receivers and field types are resolved
// syntactically.  It is compiled and run by ./check before every proof build, so an edit of the locking
// discipline in the source changes the table the Lean theorems `C18.race_free`, `C18.documented_reads_write_nothing`
// and `C05.lock_facts_as_modelled` are about.  The files are rewritten only when their content changes.
//
// Access.lean: for every function / method of package simpledb (non-test files, incl. the verif hooks) the
// accesses to the fields of DB, SSTableManager, RWMemstore and to the CONTENT of the objects those fields point
// to (memstores, WAL, table readers), each with the kind (read / write / atomic), the locks held at that point
// (local acquisitions + the locks every caller holds: fixed point over the package call graph) and the thread
// kinds that can execute it; plus the call edges, spawn edges and a few order facts the hand-off rules rely on.
// The body of a DEFERRED function literal is walked where the `defer` statement stands (with the locks whose release was
// deferred earlier); its events in openOrder / closeOrder carry the prefix "defer:", and in DB.Open its accesses and calls
// count as made AFTER every `go` statement (thread kind `opener <number of go statements>`) — unless the literal is
// `if <named error result> != nil { … }` and Open can return an error only before its first `go` statement (errorOnlyDefer),
// in which case they stay `opener 0`.
//
// Rename-stability (this tool is syntactic): a PRIVATE function of package simpledb that the theorems name is found by its
// name or, when the name is gone, as the one unexported function with the same receiver and the signature recorded in
// `privateFns`, and is analysed under the recorded name (`restorePrivateNames`); the hand-off facts `flushSends` /
// `swapMemstoreBody` are printed with the receiver, parameters and locals written r, p0 …, v0 … (`alphaString`), and
// `dbLockShared` follows the lock VARIABLE through NewSimpleDB / NewSSTableManager (`lockShared`) — so renaming a local, a
// parameter, a receiver or a private helper does not change what the theorems quote.  The `pos` column of an access
// (file:line) is information only.
//
// A private helper that no theorem can name (unexported, not in `privateFns`, not a goroutine body) and that is referenced
// exactly once in the package, by an ordinary call, is walked AS PART OF ITS CALLER (`markMerged`, `inlineDecl`) like a
// function literal called in place: its accesses, call edges and events belong to the caller, with the locks held there.
// So extracting the locked part of DB.Close into a method (or inlining a one-line helper) changes neither
// `clientPrologues` nor `openOrder` / `closeOrder`, and the race check still sees every access with its lock set.
//
// Purity.lean: for the documented thread-safe read paths of recordio.MMapReader, sstables.SSTableReader,
// SliceKeyIndex and SuperSSTableReader: every assignment to a receiver field or package-level variable on the
// path (expected: none; Scan is listed as the known exception).
package main

import (
	"bytes"
	"fmt"
	"go/ast"
	"go/parser"
	"go/printer"
	"go/token"
	"os"
	"path/filepath"
	"sort"
	"strings"
)

// ---------------------------------------------------------------------------------------------------------
// lock sets

type lockset uint8

const (
	dbR lockset = 1 << iota
	dbW
	mgrR
	mgrW
	guard    // pseudo lock: "the open/closed checks of a client method have been passed under the db lock"
	allLocks = dbR | dbW | mgrR | mgrW | guard
)

func (l lockset) lean() string {
	var p []string
	for _, x := range []struct {
		b lockset
		n string
	}{{dbR, ".dbR"}, {dbW, ".dbW"}, {mgrR, ".mgrR"}, {mgrW, ".mgrW"}, {guard, ".guard"}} {
		if l&x.b != 0 {
			p = append(p, x.n)
		}
	}
	return "[" + strings.Join(p, ", ") + "]"
}

// ---------------------------------------------------------------------------------------------------------
// program facts

type access struct {
	fn    string
	obj   string // "DB.memStore", … or content objects "MemStoreI→", "WriteAheadLogI→", "SSTableReaderI→"
	via   string // for content objects: the field the object was reached through ("writeStore", "handed", …)
	kind  string // read | write | atomic
	locks lockset
	phase int // inside DB.Open: number of go statements that precede lexically
	pos   token.Pos
}

type edge struct {
	caller, callee string
	locks          lockset
	phase          int
	spawn          bool
	pos            token.Pos
}

type fnInfo struct {
	name     string
	decl     *ast.FuncDecl
	recv     string // receiver type name or ""
	exported bool
	accesses []access
	edges    []edge
	events   []string // ordered events (only kept for Open and Close)
	retTag   string
	merged   bool // a nameless-to-the-theorems private helper with one call site: walked as part of its caller
	active   bool // being walked as part of a caller (recursion guard)
}

type structInfo struct {
	fields map[string]string // field → type tag
	order  []string
}

var (
	fset     = token.NewFileSet()
	structs  = map[string]*structInfo{}
	funcs    = map[string]*fnInfo{}
	recorded = map[string]bool{"DB": true, "SSTableManager": true, "RWMemstore": true}
	// methods that do not modify the object they are called on (content objects); everything else counts as a write
	readOnlyMethods = map[string]bool{
		"Get": true, "Contains": true, "MetaData": true, "BasePath": true, "Size": true, "EstimatedSizeInBytes": true,
		"SStableIterator": true, "Flush": true, "FlushWithTombstones": true, "ScanStartingAt": true, "ScanRange": true,
	}
	goKinds = map[string]string{"flushMemstoreContinuously": "flusher", "backgroundCompaction": "compactor"}
)

func fieldTag(structName, field string, t ast.Expr) string {
	switch x := t.(type) {
	case *ast.StarExpr:
		if id, ok := x.X.(*ast.Ident); ok {
			return id.Name // *SSTableManager, *RWMemstore
		}
		if sel, ok := x.X.(*ast.SelectorExpr); ok {
			pkg := sel.X.(*ast.Ident).Name
			if pkg == "sync" {
				return "lock"
			}
			if pkg == "time" {
				return "threadsafe"
			}
			return "content:" + sel.Sel.Name
		}
	case *ast.ChanType:
		return "threadsafe"
	case *ast.SelectorExpr:
		pkg := x.X.(*ast.Ident).Name
		if pkg == "time" || pkg == "sync" {
			return ""
		}
		return "content:" + x.Sel.Name
	case *ast.ArrayType:
		if sel, ok := x.Elt.(*ast.SelectorExpr); ok {
			return "slice:content:" + sel.Sel.Name
		}
	case *ast.Ident:
		if _, ok := structs[x.Name]; ok {
			return x.Name
		}
	}
	return ""
}

func typeTagOfParam(t ast.Expr) string {
	switch x := t.(type) {
	case *ast.StarExpr:
		if id, ok := x.X.(*ast.Ident); ok {
			if _, ok := structs[id.Name]; ok {
				return id.Name
			}
		}
	case *ast.Ident:
		if _, ok := structs[x.Name]; ok {
			return x.Name
		}
	}
	return ""
}

// ---------------------------------------------------------------------------------------------------------
// the walker

type frame struct {
	deferred lockset
}

type walker struct {
	fn     *fnInfo
	env    map[string]string
	held   lockset
	frames []frame
	phase  int
	track  bool // record events
	// inside the body of a deferred function literal (runs at frame exit): events are recorded with a "defer:" prefix; in
	// DB.Open the accesses / call edges made there get the FINAL phase of the function (they run after every `go` statement
	// of it, whatever the position of the `defer` statement: end of pass 3) — unless the literal runs its body only on
	// frames that never reached a `go` statement (errorOnlyDefer)
	deferDepth                int
	deferredAcc, deferredEdge []int
}

func (w *walker) top() *frame { return &w.frames[len(w.frames)-1] }

func (w *walker) event(s string) {
	if w.track {
		if w.deferDepth > 0 {
			s = "defer:" + s
		}
		w.fn.events = append(w.fn.events, s)
	}
}

// errorOnlyDefer: the deferred literal `fl` of function `fd` does something only when fd returns an error, and fd returns
// errors only BEFORE its first `go` statement.  Syntactic conditions (all of them):
//   - fd's last result is a NAMED result E; the body of fl is the single statement `if E != nil { … }` (no else);
//   - every `return` of fd itself (not of a nested literal) that stands after the first `go` statement returns the literal
//     `nil` in the last position, and E is not assigned after the first `go` statement.
//
// Then the body of the `if` runs only on frames that started no goroutine (edfc7e7: DB.Open gives the loaded tables back).
func errorOnlyDefer(fd *ast.FuncDecl, fl *ast.FuncLit) bool {
	if fd.Type.Results == nil || len(fd.Type.Results.List) == 0 {
		return false
	}
	last := fd.Type.Results.List[len(fd.Type.Results.List)-1]
	if len(last.Names) == 0 {
		return false
	}
	errName := last.Names[len(last.Names)-1].Name
	if len(fl.Body.List) != 1 {
		return false
	}
	is, ok := fl.Body.List[0].(*ast.IfStmt)
	if !ok || is.Init != nil || is.Else != nil {
		return false
	}
	b, ok := is.Cond.(*ast.BinaryExpr)
	if !ok || b.Op != token.NEQ {
		return false
	}
	x, okx := b.X.(*ast.Ident)
	y, oky := b.Y.(*ast.Ident)
	if !okx || !oky || x.Name != errName || y.Name != "nil" {
		return false
	}
	firstGo := token.NoPos
	ast.Inspect(fd.Body, func(n ast.Node) bool {
		if g, ok := n.(*ast.GoStmt); ok && (firstGo == token.NoPos || g.Pos() < firstGo) {
			firstGo = g.Pos()
		}
		return true
	})
	if firstGo == token.NoPos {
		return true
	}
	fine := true
	var visit func(n ast.Node) bool
	visit = func(n ast.Node) bool {
		switch v := n.(type) {
		case *ast.FuncLit:
			return false // returns of nested literals are not returns of fd (an assignment to E in there is not looked for:
			// literals after the first go statement make the rule fail below)
		case *ast.ReturnStmt:
			if v.Pos() > firstGo {
				if len(v.Results) == 0 {
					fine = false
				} else if id, ok := v.Results[len(v.Results)-1].(*ast.Ident); !ok || id.Name != "nil" {
					fine = false
				}
			}
		case *ast.AssignStmt:
			if v.Pos() > firstGo {
				for _, l := range v.Lhs {
					if id, ok := l.(*ast.Ident); ok && id.Name == errName {
						fine = false
					}
				}
			}
		}
		return true
	}
	ast.Inspect(fd.Body, visit)
	ast.Inspect(fd.Body, func(n ast.Node) bool {
		if l, ok := n.(*ast.FuncLit); ok && l.Pos() > firstGo {
			fine = false
		}
		return true
	})
	return fine
}

func (w *walker) rec(obj, via, kind string, pos token.Pos) {
	w.fn.accesses = append(w.fn.accesses, access{fn: w.fn.name, obj: obj, via: via, kind: kind, locks: w.held, phase: w.phase, pos: pos})
	if w.track && strings.HasPrefix(obj, "DB.") && kind == "write" {
		w.event("write:" + obj)
	}
}

func lockOf(field string) (r, wr lockset, ok bool) {
	switch field {
	case "rwLock", "databaseLock":
		return dbR, dbW, true
	case "managerLock":
		return mgrR, mgrW, true
	}
	return 0, 0, false
}

// lockCall recognises X.<lockfield>.Lock() etc.
func (w *walker) lockCall(c *ast.CallExpr) (op string, r, wr lockset, ok bool) {
	sel, ok1 := c.Fun.(*ast.SelectorExpr)
	if !ok1 {
		return
	}
	inner, ok2 := sel.X.(*ast.SelectorExpr)
	if !ok2 {
		return
	}
	r, wr, ok3 := lockOf(inner.Sel.Name)
	if !ok3 {
		return
	}
	switch sel.Sel.Name {
	case "Lock", "RLock", "Unlock", "RUnlock":
		return sel.Sel.Name, r, wr, true
	}
	return
}

func (w *walker) doLock(c *ast.CallExpr, deferred bool) bool {
	op, r, wr, ok := w.lockCall(c)
	if !ok {
		return false
	}
	// the lock field itself is read
	w.expr(c.Fun.(*ast.SelectorExpr).X)
	switch op {
	case "Lock":
		w.held |= wr
		if wr == dbW {
			w.event("lock:dbW")
		}
	case "RLock":
		w.held |= r
	case "Unlock", "RUnlock":
		b := wr
		if op == "RUnlock" {
			b = r
		}
		if deferred {
			w.top().deferred |= b
		} else {
			w.held &^= b
			if b&(dbR|dbW) != 0 {
				w.held &^= guard
			}
		}
	}
	return true
}

func (w *walker) block(stmts []ast.Stmt) {
	for _, s := range stmts {
		w.stmt(s)
	}
}

func endsInReturn(b *ast.BlockStmt) bool {
	if len(b.List) == 0 {
		return false
	}
	_, ok := b.List[len(b.List)-1].(*ast.ReturnStmt)
	return ok
}

func mentionsField(e ast.Expr, field string) bool {
	found := false
	ast.Inspect(e, func(n ast.Node) bool {
		if s, ok := n.(*ast.SelectorExpr); ok && s.Sel.Name == field {
			found = true
		}
		return true
	})
	return found
}

func (w *walker) branch(f func()) lockset {
	saved := w.held
	f()
	out := w.held
	w.held = saved
	return out
}

func (w *walker) stmt(s ast.Stmt) {
	switch x := s.(type) {
	case nil:
	case *ast.ExprStmt:
		if c, ok := x.X.(*ast.CallExpr); ok && w.doLock(c, false) {
			return
		}
		w.expr(x.X)
	case *ast.DeferStmt:
		if w.doLock(x.Call, true) {
			return
		}
		if fl, ok := x.Call.Fun.(*ast.FuncLit); ok {
			// runs at frame exit: only locks whose release was deferred EARLIER are certainly still held
			saved := w.held
			w.held = w.held & w.top().deferred
			na, ne := len(w.fn.accesses), len(w.fn.edges)
			w.deferDepth++
			w.funcLit(fl, true)
			w.deferDepth--
			if !(w.phase == 0 && len(w.frames) == 1 && errorOnlyDefer(w.fn.decl, fl)) {
				for i := na; i < len(w.fn.accesses); i++ {
					w.deferredAcc = append(w.deferredAcc, i)
				}
				for i := ne; i < len(w.fn.edges); i++ {
					w.deferredEdge = append(w.deferredEdge, i)
				}
			}
			w.held = saved
			for _, a := range x.Call.Args {
				w.expr(a)
			}
			return
		}
		w.expr(x.Call)
	case *ast.GoStmt:
		for _, a := range x.Call.Args {
			w.expr(a)
		}
		if id, ok := x.Call.Fun.(*ast.Ident); ok {
			w.fn.edges = append(w.fn.edges, edge{caller: w.fn.name, callee: id.Name, locks: 0, spawn: true, pos: x.Pos(), phase: w.phase})
			w.event("go:" + id.Name)
			if w.fn.name == "DB.Open" {
				w.phase++
			}
		} else {
			w.expr(x.Call.Fun)
		}
	case *ast.AssignStmt:
		for _, r := range x.Rhs {
			_ = r
		}
		var tags []string
		for _, r := range x.Rhs {
			tags = append(tags, w.expr(r))
		}
		for i, l := range x.Lhs {
			if id, ok := l.(*ast.Ident); ok {
				if len(tags) == len(x.Lhs) && tags[i] != "" {
					w.env[id.Name] = tags[i]
				} else if x.Tok == token.DEFINE {
					delete(w.env, id.Name)
				}
				continue
			}
			w.lhs(l)
		}
	case *ast.IncDecStmt:
		w.lhs(x.X)
	case *ast.ReturnStmt:
		for _, r := range x.Results {
			w.expr(r)
		}
	case *ast.SendStmt:
		w.expr(x.Value)
		w.expr(x.Chan)
		if sel, ok := x.Chan.(*ast.SelectorExpr); ok {
			w.event("send:" + sel.Sel.Name)
		}
	case *ast.IfStmt:
		w.stmt(x.Init)
		w.expr(x.Cond)
		h1 := w.branch(func() { w.block(x.Body.List) })
		h2 := w.held
		if x.Else != nil {
			h2 = w.branch(func() { w.stmt(x.Else) })
		}
		if endsInReturn(x.Body) {
			h1 = allLocks
		}
		w.held &= h1 & h2
		// the open / closed guard of a client method: `if db.closed { return … }` (or `!db.open || db.closed`)
		if mentionsField(x.Cond, "closed") && endsInReturn(x.Body) && w.held&(dbR|dbW) != 0 {
			w.held |= guard
			w.top().deferred |= guard
			w.event("check:closed")
		} else if mentionsField(x.Cond, "open") && endsInReturn(x.Body) {
			w.event("check:open")
		}
	case *ast.BlockStmt:
		w.block(x.List)
	case *ast.ForStmt:
		w.stmt(x.Init)
		if x.Cond != nil {
			w.expr(x.Cond)
		}
		h := w.branch(func() { w.block(x.Body.List); w.stmt(x.Post) })
		w.held &= h
	case *ast.RangeStmt:
		t := w.expr(x.X)
		if id, ok := x.Value.(*ast.Ident); ok && strings.HasPrefix(t, "slice:") {
			w.env[id.Name] = strings.TrimPrefix(t, "slice:")
		}
		if id, ok := x.Key.(*ast.Ident); ok && x.Value == nil && strings.HasPrefix(t, "chan:") {
			w.env[id.Name] = strings.TrimPrefix(t, "chan:")
		}
		h := w.branch(func() { w.block(x.Body.List) })
		w.held &= h
	case *ast.SwitchStmt:
		w.stmt(x.Init)
		if x.Tag != nil {
			w.expr(x.Tag)
		}
		for _, c := range x.Body.List {
			cc := c.(*ast.CaseClause)
			for _, e := range cc.List {
				w.expr(e)
			}
			h := w.branch(func() { w.block(cc.Body) })
			w.held &= h
		}
	case *ast.TypeSwitchStmt:
		w.stmt(x.Init)
		w.stmt(x.Assign)
		for _, c := range x.Body.List {
			h := w.branch(func() { w.block(c.(*ast.CaseClause).Body) })
			w.held &= h
		}
	case *ast.SelectStmt:
		for _, c := range x.Body.List {
			cc := c.(*ast.CommClause)
			h := w.branch(func() { w.stmt(cc.Comm); w.block(cc.Body) })
			w.held &= h
		}
	case *ast.LabeledStmt:
		w.stmt(x.Stmt)
	case *ast.DeclStmt:
		if gd, ok := x.Decl.(*ast.GenDecl); ok {
			for _, sp := range gd.Specs {
				if vs, ok := sp.(*ast.ValueSpec); ok {
					for _, v := range vs.Values {
						w.expr(v)
					}
				}
			}
		}
	case *ast.BranchStmt, *ast.EmptyStmt:
	default:
		panic(fmt.Sprintf("%s: unhandled statement %T", fset.Position(s.Pos()), s))
	}
}

// lhs: the outermost selector (possibly under an index) is written, everything inside is read
func (w *walker) lhs(e ast.Expr) {
	switch x := e.(type) {
	case *ast.SelectorExpr:
		t := w.expr(x.X)
		if st, ok := structs[t]; ok {
			if _, isField := st.fields[x.Sel.Name]; isField && recorded[t] {
				w.rec(t+"."+x.Sel.Name, "", "write", x.Pos())
			}
		}
	case *ast.IndexExpr:
		w.expr(x.Index)
		w.lhs(x.X)
	case *ast.StarExpr:
		w.expr(x.X)
	case *ast.ParenExpr:
		w.lhs(x.X)
	default:
		w.expr(e)
	}
}

func (w *walker) funcLit(fl *ast.FuncLit, invoked bool) {
	savedEnv := map[string]string{}
	for k, v := range w.env {
		savedEnv[k] = v
	}
	if fl.Type.Params != nil {
		for _, p := range fl.Type.Params.List {
			tag := typeTagOfParam(p.Type)
			for _, n := range p.Names {
				if tag != "" {
					w.env[n.Name] = tag
				} else {
					delete(w.env, n.Name)
				}
			}
		}
	}
	w.frames = append(w.frames, frame{})
	w.block(fl.Body.List)
	d := w.top().deferred
	w.frames = w.frames[:len(w.frames)-1]
	w.held &^= d
	if d&(dbR|dbW) != 0 {
		w.held &^= guard
		w.event("unlock:db")
	}
	w.env = savedEnv
}

// inlineDecl: the body of a merged helper (see `markMerged`) is walked where its single call stands — exactly like a
// function literal that is called in place (its own frame: locks whose release it defers are released when it ends), with
// the helper's receiver and parameters bound by their declared types.  Accesses, call edges and events made there belong to
// the caller, so that moving a stretch of a method into a private helper (or a literal into a method, or back) changes
// neither the prologue of the caller nor openOrder / closeOrder.
func (w *walker) inlineDecl(fi *fnInfo) string {
	fi.active = true
	defer func() { fi.active = false }()
	savedEnv := w.env
	w.env = map[string]string{}
	if fi.decl.Recv != nil {
		for _, nm := range fi.decl.Recv.List[0].Names {
			w.env[nm.Name] = fi.recv
		}
	}
	for _, p := range fi.decl.Type.Params.List {
		if tag := typeTagOfParam(p.Type); tag != "" {
			for _, nm := range p.Names {
				w.env[nm.Name] = tag
			}
		}
	}
	w.frames = append(w.frames, frame{})
	w.block(fi.decl.Body.List)
	d := w.top().deferred
	w.frames = w.frames[:len(w.frames)-1]
	w.held &^= d
	if d&(dbR|dbW) != 0 {
		w.held &^= guard
		w.event("unlock:db")
	}
	w.env = savedEnv
	return fi.retTag
}

// markMerged: which functions are walked as part of their caller.  A function of the package qualifies when NO theorem can
// name it and it is a plain helper: unexported, not recorded in `privateFns`, not a goroutine body, and referenced exactly
// once in the package — as the callee of an ordinary call (not `go`, not `defer`, not as a value) outside its own body.
func markMerged(files []*ast.File) {
	refs := map[string]int{}     // by bare name: every mention
	goodCall := map[string]int{} // mentions that are the callee of an ordinary call
	owner := map[*ast.Ident]string{}
	bare := map[string][]string{} // bare name → qualified names
	for q, fi := range funcs {
		bare[fi.decl.Name.Name] = append(bare[fi.decl.Name.Name], q)
	}
	for _, f := range files {
		for _, d := range f.Decls {
			fd, ok := d.(*ast.FuncDecl)
			if !ok || fd.Body == nil {
				continue
			}
			special := map[*ast.CallExpr]bool{}
			ast.Inspect(fd.Body, func(n ast.Node) bool {
				switch x := n.(type) {
				case *ast.GoStmt:
					special[x.Call] = true
				case *ast.DeferStmt:
					special[x.Call] = true
				case *ast.CallExpr:
					var id *ast.Ident
					switch g := x.Fun.(type) {
					case *ast.Ident:
						id = g
					case *ast.SelectorExpr:
						id = g.Sel
					}
					if id != nil && !special[x] && id.Name != fd.Name.Name {
						goodCall[id.Name]++
						owner[id] = fd.Name.Name
					}
				case *ast.Ident:
					refs[x.Name]++
				}
				return true
			})
		}
	}
	for name, qs := range bare {
		if len(qs) != 1 || ast.IsExported(name) || goKinds[name] != "" {
			continue
		}
		fi := funcs[qs[0]]
		if _, recordedName := privateFns[qs[0]]; recordedName {
			continue
		}
		if refs[name] == 1 && goodCall[name] == 1 {
			fi.merged = true
		}
	}
}

// expr walks an expression in read position and returns its type tag
func (w *walker) expr(e ast.Expr) string {
	switch x := e.(type) {
	case nil:
		return ""
	case *ast.Ident:
		return w.env[x.Name]
	case *ast.BasicLit:
		return ""
	case *ast.ParenExpr:
		return w.expr(x.X)
	case *ast.StarExpr:
		return w.expr(x.X)
	case *ast.UnaryExpr:
		if x.Op == token.AND {
			if sel, ok := x.X.(*ast.SelectorExpr); ok {
				t := w.expr(sel.X)
				if st, ok := structs[t]; ok && recorded[t] {
					if _, isField := st.fields[sel.Sel.Name]; isField {
						w.rec(t+"."+sel.Sel.Name, "", "write", x.Pos()) // address taken: conservatively a write
						return ""
					}
				}
				return ""
			}
			return w.expr(x.X)
		}
		if x.Op == token.ARROW {
			if sel, ok := x.X.(*ast.SelectorExpr); ok {
				w.event("recv:" + sel.Sel.Name)
			}
		}
		t := w.expr(x.X)
		if x.Op == token.ARROW {
			return strings.TrimPrefix(t, "chan:")
		}
		return ""
	case *ast.BinaryExpr:
		w.expr(x.X)
		w.expr(x.Y)
		return ""
	case *ast.KeyValueExpr:
		return w.expr(x.Value)
	case *ast.CompositeLit:
		for _, el := range x.Elts {
			w.expr(el)
		}
		if id, ok := x.Type.(*ast.Ident); ok {
			if _, ok := structs[id.Name]; ok {
				return id.Name
			}
		}
		return ""
	case *ast.TypeAssertExpr:
		w.expr(x.X)
		return ""
	case *ast.IndexExpr:
		w.expr(x.Index)
		t := w.expr(x.X)
		return strings.TrimPrefix(t, "slice:")
	case *ast.SliceExpr:
		w.expr(x.Low)
		w.expr(x.High)
		w.expr(x.Max)
		return w.expr(x.X)
	case *ast.FuncLit:
		w.funcLit(x, false)
		return ""
	case *ast.SelectorExpr:
		t := w.expr(x.X)
		if st, ok := structs[t]; ok {
			if ft, isField := st.fields[x.Sel.Name]; isField {
				if recorded[t] {
					w.rec(t+"."+x.Sel.Name, "", "read", x.Pos())
				}
				if strings.Contains(ft, "content:") {
					via := x.Sel.Name
					if t == "memStoreFlushAction" {
						via = "handed"
					}
					return ft + ":" + via
				}
				return ft
			}
			return "method:" + t + "." + x.Sel.Name
		}
		return ""
	case *ast.CallExpr:
		return w.call(x)
	case *ast.ArrayType, *ast.MapType, *ast.ChanType, *ast.FuncType, *ast.InterfaceType, *ast.StructType, *ast.Ellipsis:
		return ""
	case *ast.IndexListExpr:
		return ""
	}
	panic(fmt.Sprintf("%s: unhandled expression %T", fset.Position(e.Pos()), e))
}

func contentParts(tag string) (obj, via string, ok bool) {
	// "content:<Type>:<via>"
	if !strings.HasPrefix(tag, "content:") {
		return "", "", false
	}
	p := strings.Split(tag, ":")
	if len(p) != 3 {
		return "", "", false
	}
	return p[1] + "→", p[2], true
}

func (w *walker) call(c *ast.CallExpr) string {
	args := func() {
		for _, a := range c.Args {
			w.expr(a)
		}
	}
	switch f := c.Fun.(type) {
	case *ast.FuncLit:
		args()
		w.funcLit(f, true)
		return ""
	case *ast.Ident:
		args()
		if fi, ok := funcs[f.Name]; ok && fi.merged && !fi.active && w.env[f.Name] == "" {
			return w.inlineDecl(fi)
		}
		if _, ok := funcs[f.Name]; ok {
			w.fn.edges = append(w.fn.edges, edge{caller: w.fn.name, callee: f.Name, locks: w.held, pos: c.Pos(), phase: w.phase})
			w.event("call:" + f.Name)
			return funcs[f.Name].retTag
		}
		if f.Name == "close" && len(c.Args) == 1 {
			if sel, ok := c.Args[0].(*ast.SelectorExpr); ok {
				w.event("close:" + sel.Sel.Name)
			}
		}
		if f.Name == "append" && len(c.Args) > 0 {
			return w.expr(c.Args[0]) // same tag as the slice (re-walk: duplicates are removed later)
		}
		return ""
	case *ast.SelectorExpr:
		// sync/atomic on a field address
		if id, ok := f.X.(*ast.Ident); ok && id.Name == "atomic" && w.env["atomic"] == "" {
			for i, a := range c.Args {
				if u, ok := a.(*ast.UnaryExpr); ok && i == 0 && u.Op == token.AND {
					if sel, ok := u.X.(*ast.SelectorExpr); ok {
						t := w.expr(sel.X)
						if recorded[t] {
							w.rec(t+"."+sel.Sel.Name, "", "atomic", u.Pos())
							continue
						}
					}
				}
				w.expr(a)
			}
			return ""
		}
		t := w.expr(f.X)
		args()
		if _, ok := structs[t]; ok {
			name := t + "." + f.Sel.Name
			if fi, ok := funcs[name]; ok && fi.merged && !fi.active {
				return w.inlineDecl(fi)
			}
			if fi, ok := funcs[name]; ok {
				w.fn.edges = append(w.fn.edges, edge{caller: w.fn.name, callee: name, locks: w.held, pos: c.Pos(), phase: w.phase})
				w.event("call:" + name)
				return fi.retTag
			}
			return ""
		}
		if obj, via, ok := contentParts(t); ok {
			kind := "write"
			if readOnlyMethods[f.Sel.Name] {
				kind = "read"
			}
			w.rec(obj, via, kind, c.Pos())
			w.event("content:" + via + "." + f.Sel.Name)
			return ""
		}
		return ""
	default:
		w.expr(c.Fun)
		args()
		return ""
	}
}

// ---------------------------------------------------------------------------------------------------------

func parseDir(dir string, only func(string) bool) []*ast.File {
	ents, err := os.ReadDir(dir)
	if err != nil {
		fatal(err)
	}
	var out []*ast.File
	for _, e := range ents {
		n := e.Name()
		if !strings.HasSuffix(n, ".go") || strings.HasSuffix(n, "_test.go") || (only != nil && !only(n)) {
			continue
		}
		f, err := parser.ParseFile(fset, filepath.Join(dir, n), nil, parser.ParseComments)
		if err != nil {
			fatal(err)
		}
		out = append(out, f)
	}
	return out
}

func fatal(err error) {
	fmt.Fprintln(os.Stderr, "lockfacts:", err)
	os.Exit(1)
}

func recvName(fd *ast.FuncDecl) string {
	if fd.Recv == nil || len(fd.Recv.List) == 0 {
		return ""
	}
	t := fd.Recv.List[0].Type
	if s, ok := t.(*ast.StarExpr); ok {
		t = s.X
	}
	if id, ok := t.(*ast.Ident); ok {
		return id.Name
	}
	return ""
}

func exprString(n ast.Node) string {
	var b bytes.Buffer
	_ = printer.Fprint(&b, fset, n)
	return strings.Join(strings.Fields(b.String()), " ")
}

func leanStr(s string) string {
	s = strings.ReplaceAll(s, "\\", "\\\\")
	s = strings.ReplaceAll(s, "\"", "\\\"")
	return "\"" + s + "\""
}

func leanStrList(l []string) string {
	q := make([]string, len(l))
	for i, s := range l {
		q[i] = leanStr(s)
	}
	return "[" + strings.Join(q, ", ") + "]"
}

func writeIfChanged(path, content string) {
	old, err := os.ReadFile(path)
	if err == nil && string(old) == content {
		return
	}
	if err := os.WriteFile(path, []byte(content), 0o644); err != nil {
		fatal(err)
	}
}

func main() {
	if len(os.Args) < 3 {
		fmt.Fprintln(os.Stderr, "usage: lockfacts <repo> <outdir>")
		os.Exit(2)
	}
	repo, out := os.Args[1], os.Args[2]
	if err := os.MkdirAll(out, 0o755); err != nil {
		fatal(err)
	}
	writeIfChanged(filepath.Join(out, "Access.lean"), genAccess(repo))
	writeIfChanged(filepath.Join(out, "Purity.lean"), genPurity(repo))
}

// ---------------------------------------------------------------------------------------------------------
// Access.lean

func genAccess(repo string) string {
	files := parseDir(filepath.Join(repo, "simpledb"), nil)
	for _, note := range restorePrivateNames(files) {
		fmt.Fprintln(os.Stderr, "lockfacts: note: private function renamed:", note)
	}
	// pass 1: structs
	var structDecls []*ast.TypeSpec
	for _, f := range files {
		for _, d := range f.Decls {
			gd, ok := d.(*ast.GenDecl)
			if !ok || gd.Tok != token.TYPE {
				continue
			}
			for _, sp := range gd.Specs {
				ts := sp.(*ast.TypeSpec)
				if _, ok := ts.Type.(*ast.StructType); ok {
					structs[ts.Name.Name] = &structInfo{fields: map[string]string{}}
					structDecls = append(structDecls, ts)
				}
			}
		}
	}
	for _, ts := range structDecls {
		st := ts.Type.(*ast.StructType)
		si := structs[ts.Name.Name]
		for _, fl := range st.Fields.List {
			for _, n := range fl.Names {
				si.fields[n.Name] = fieldTag(ts.Name.Name, n.Name, fl.Type)
				si.order = append(si.order, n.Name)
			}
		}
	}
	// the flush channel carries flush actions
	if si, ok := structs["DB"]; ok {
		si.fields["storeFlushChannel"] = "chan:memStoreFlushAction"
	}
	// pass 2: function table
	var names []string
	for _, f := range files {
		for _, d := range f.Decls {
			fd, ok := d.(*ast.FuncDecl)
			if !ok || fd.Body == nil {
				continue
			}
			r := recvName(fd)
			name := fd.Name.Name
			if r != "" {
				name = r + "." + name
			}
			funcs[name] = &fnInfo{name: name, decl: fd, recv: r, exported: fd.Name.IsExported()}
			names = append(names, name)
		}
	}
	markMerged(files)
	{
		var kept []string
		for _, n := range names {
			if !funcs[n].merged {
				kept = append(kept, n)
			}
		}
		names = kept
	}
	sort.Strings(names)
	// return tags: a method whose only return statement returns a content field of the receiver
	for _, n := range names {
		fi := funcs[n]
		if fi.recv == "" || fi.decl.Recv.List[0].Names == nil {
			continue
		}
		rv := fi.decl.Recv.List[0].Names[0].Name
		var rets []*ast.ReturnStmt
		ast.Inspect(fi.decl.Body, func(nd ast.Node) bool {
			if _, ok := nd.(*ast.FuncLit); ok {
				return false
			}
			if r, ok := nd.(*ast.ReturnStmt); ok {
				rets = append(rets, r)
			}
			return true
		})
		if len(rets) == 1 && len(rets[0].Results) == 1 {
			if sel, ok := rets[0].Results[0].(*ast.SelectorExpr); ok {
				if id, ok := sel.X.(*ast.Ident); ok && id.Name == rv {
					if ft := structs[fi.recv].fields[sel.Sel.Name]; strings.HasPrefix(ft, "content:") {
						fi.retTag = ft + ":" + sel.Sel.Name
					}
				}
			}
		}
	}
	// pass 3: walk
	for _, n := range names {
		fi := funcs[n]
		w := &walker{fn: fi, env: map[string]string{}, frames: []frame{{}}, track: n == "DB.Open" || n == "DB.Close"}
		if fi.decl.Recv != nil {
			for _, nm := range fi.decl.Recv.List[0].Names {
				w.env[nm.Name] = fi.recv
			}
		}
		for _, p := range fi.decl.Type.Params.List {
			if tag := typeTagOfParam(p.Type); tag != "" {
				for _, nm := range p.Names {
					w.env[nm.Name] = tag
				}
			}
		}
		w.block(fi.decl.Body.List)
		if n == "DB.Open" {
			// deferred literals run at frame exit: after all `go` statements of Open
			for _, i := range w.deferredAcc {
				fi.accesses[i].phase = w.phase
			}
			for _, i := range w.deferredEdge {
				fi.edges[i].phase = w.phase
			}
		}
	}

	// roots and thread kinds
	called := map[string]bool{}
	for _, n := range names {
		for _, e := range funcs[n].edges {
			called[e.callee] = true
		}
	}
	rootKind := func(n string) string {
		fi := funcs[n]
		switch {
		case n == "DB.Open" || n == "NewSimpleDB" || n == "NewSSTableManager":
			return "opener"
		case n == "DB.Close":
			return "closer"
		case strings.HasPrefix(n, "DB.Verif"):
			return "hook"
		case fi.recv == "DB" && fi.exported:
			return "client"
		}
		return ""
	}
	type tk struct {
		kind  string
		phase int
	}
	threads := map[string]map[tk]bool{}
	add := func(n string, k tk) bool {
		if threads[n] == nil {
			threads[n] = map[tk]bool{}
		}
		if threads[n][k] {
			return false
		}
		threads[n][k] = true
		return true
	}
	var work []string
	for _, n := range names {
		if k := rootKind(n); k != "" {
			add(n, tk{k, 0})
			work = append(work, n)
		}
		for _, e := range funcs[n].edges {
			if e.spawn {
				k := goKinds[e.callee]
				if k == "" {
					k = "other"
				}
				if add(e.callee, tk{k, 0}) {
					work = append(work, e.callee)
				}
			}
		}
	}
	for len(work) > 0 {
		n := work[0]
		work = work[1:]
		for _, e := range funcs[n].edges {
			if e.spawn {
				continue
			}
			for k := range threads[n] {
				kk := k
				if n == "DB.Open" && k.kind == "opener" {
					kk.phase = e.phase
				}
				if add(e.callee, kk) {
					work = append(work, e.callee)
				}
			}
		}
	}
	// caller-held locks, per (function, thread kind): greatest fixed point of
	//   entry(f, k) = ⋂ over call sites reached by kind k (entry(caller, k) ∪ locks at the site)
	// a write lock counts as the read lock too (up) so that {dbW} ∩ {dbR} = {dbR}
	up := func(l lockset) lockset {
		if l&dbW != 0 {
			l |= dbR
		}
		if l&mgrW != 0 {
			l |= mgrR
		}
		return l
	}
	down := func(l lockset) lockset {
		if l&dbW != 0 {
			l &^= dbR
		}
		if l&mgrW != 0 {
			l &^= mgrR
		}
		return l
	}
	type fk struct {
		fn string
		k  tk
	}
	entry := map[fk]lockset{}
	rootOf := map[fk]bool{}
	for _, n := range names {
		if k := rootKind(n); k != "" {
			rootOf[fk{n, tk{k, 0}}] = true
		}
		for _, e := range funcs[n].edges {
			if e.spawn {
				k := goKinds[e.callee]
				if k == "" {
					k = "other"
				}
				rootOf[fk{e.callee, tk{k, 0}}] = true
			}
		}
	}
	for _, n := range names {
		for k := range threads[n] {
			if rootOf[fk{n, k}] {
				entry[fk{n, k}] = 0
			} else {
				entry[fk{n, k}] = allLocks
			}
		}
	}
	calleeKind := func(caller string, k tk, e edge) tk {
		if caller == "DB.Open" && k.kind == "opener" {
			return tk{"opener", e.phase}
		}
		return k
	}
	for changed := true; changed; {
		changed = false
		for _, n := range names {
			for k := range threads[n] {
				if rootOf[fk{n, k}] {
					continue
				}
				v := allLocks
				for _, m := range names {
					for mk := range threads[m] {
						for _, e := range funcs[m].edges {
							if !e.spawn && e.callee == n && calleeKind(m, mk, e) == k {
								v &= up(entry[fk{m, mk}] | e.locks)
							}
						}
					}
				}
				if v != entry[fk{n, k}] {
					entry[fk{n, k}] = v
					changed = true
				}
			}
		}
	}
	sortedKinds := func(n string) []tk {
		var keys []tk
		for k := range threads[n] {
			keys = append(keys, k)
		}
		sort.Slice(keys, func(i, j int) bool {
			if keys[i].kind != keys[j].kind {
				return keys[i].kind < keys[j].kind
			}
			return keys[i].phase < keys[j].phase
		})
		return keys
	}
	kindLean := func(k tk) string {
		if k.kind == "opener" {
			return fmt.Sprintf(".opener %d", k.phase)
		}
		return "." + k.kind
	}

	// emission
	var sb strings.Builder
	sb.WriteString("-- GENERATED by tools/lockfacts from /repo/simpledb (non-test files). Do not edit; rewritten when the source changes.\n")
	sb.WriteString("-- One row per distinct (function, thread kind, object, kind, lock set); `line` is the first occurrence.\n")
	sb.WriteString("-- Composite-literal initialisation (&DB{…}, &SSTableManager{…}, &RWMemstore{…}) creates a fresh object and is not an access.\n")
	sb.WriteString("namespace SST.Generated\n\n")
	sb.WriteString("inductive Thread where\n  | client | closer | closerTail | opener (phase : Nat) | flusher | compactor | hook | other\n  deriving DecidableEq, Repr\n\n")
	sb.WriteString("inductive Lock where\n  | dbR | dbW | mgrR | mgrW | guard\n  deriving DecidableEq, Repr\n\n")
	sb.WriteString("inductive Kind where\n  | read | write | atomic\n  deriving DecidableEq, Repr\n\n")
	sb.WriteString("structure Access where\n  fn : String\n  thread : Thread\n  obj : Nat      -- index into `objNames`\n  via : Nat      -- index into `viaNames` (content objects: the field the object was reached through)\n  kind : Kind\n  locks : List Lock\n  line : String\n\n")

	objIdx := map[string]int{}
	var objNames []string
	viaIdx := map[string]int{"": 0}
	viaNames := []string{""}
	type row struct {
		a       access
		threads string
		locks   lockset
	}
	var rows []row
	seen := map[string]bool{}
	var all []access
	for _, n := range names {
		all = append(all, funcs[n].accesses...)
	}
	sort.SliceStable(all, func(i, j int) bool {
		pi, pj := fset.Position(all[i].pos), fset.Position(all[j].pos)
		if pi.Filename != pj.Filename {
			return pi.Filename < pj.Filename
		}
		if pi.Line != pj.Line {
			return pi.Line < pj.Line
		}
		return pi.Column < pj.Column
	})
	for _, a := range all {
		for _, k := range sortedKinds(a.fn) {
			eff := down(up(entry[fk{a.fn, k}] | a.locks))
			kk := k
			if a.fn == "DB.Open" && k.kind == "opener" {
				kk.phase = a.phase
			}
			tstr := kindLean(kk)
			if k.kind == "closer" && eff&(dbR|dbW) == 0 {
				tstr = ".closerTail"
			}
			key := fmt.Sprintf("%s|%s|%s|%s|%d|%s", a.fn, a.obj, a.via, a.kind, eff, tstr)
			if seen[key] {
				continue
			}
			seen[key] = true
			if _, ok := objIdx[a.obj]; !ok {
				objIdx[a.obj] = len(objNames)
				objNames = append(objNames, a.obj)
			}
			if _, ok := viaIdx[a.via]; !ok {
				viaIdx[a.via] = len(viaNames)
				viaNames = append(viaNames, a.via)
			}
			rows = append(rows, row{a, tstr, eff})
		}
	}
	fmt.Fprintf(&sb, "def objNames : List String := %s\n\n", leanStrList(objNames))
	fmt.Fprintf(&sb, "def viaNames : List String := %s\n\n", leanStrList(viaNames))
	// named indices used by the hand-written rules (checked against the name tables by `C18.names_consistent`)
	idx := func(m map[string]int, k string) int {
		if v, ok := m[k]; ok {
			return v
		}
		return 1 << 20 // absent
	}
	fmt.Fprintf(&sb, "def objMemStore : Nat := %d\ndef objRwLock : Nat := %d\ndef objDatabaseLock : Nat := %d\ndef objManagerLock : Nat := %d\n", idx(objIdx, "MemStoreI→"), idx(objIdx, "DB.rwLock"), idx(objIdx, "SSTableManager.databaseLock"), idx(objIdx, "SSTableManager.managerLock"))
	fmt.Fprintf(&sb, "def viaHanded : Nat := %d\ndef viaWriteStore : Nat := %d\n\n", idx(viaIdx, "handed"), idx(viaIdx, "writeStore"))
	sb.WriteString("def accesses : List Access := [\n")
	for i, r := range rows {
		p := fset.Position(r.a.pos)
		comma := ","
		if i == len(rows)-1 {
			comma = ""
		}
		fmt.Fprintf(&sb, "  ⟨%s, %s, %d, %d, .%s, %s, %s⟩%s  -- %s%s\n", leanStr(r.a.fn), r.threads, objIdx[r.a.obj], viaIdx[r.a.via],
			r.a.kind, r.locks.lean(), leanStr(fmt.Sprintf("%s:%d", filepath.Base(p.Filename), p.Line)), comma, r.a.obj,
			map[bool]string{true: " via " + r.a.via, false: ""}[r.a.via != ""])
	}
	sb.WriteString("]\n\n")

	sb.WriteString("/-- static call graph inside the package, per thread kind: (caller, callee, thread kind of the callee, locks held at the\ncall site incl. the caller's entry locks) -/\n")
	sb.WriteString("def callEdges : List (String × String × Thread × List Lock) := [\n")
	var es []string
	seenE := map[string]bool{}
	for _, n := range names {
		for _, k := range sortedKinds(n) {
			for _, e := range funcs[n].edges {
				if e.spawn {
					continue
				}
				s := fmt.Sprintf("  (%s, %s, %s, %s)", leanStr(e.caller), leanStr(e.callee), kindLean(calleeKind(n, k, e)), down(up(entry[fk{n, k}]|e.locks)).lean())
				if !seenE[s] {
					seenE[s] = true
					es = append(es, s)
				}
			}
		}
	}
	sb.WriteString(strings.Join(es, ",\n"))
	sb.WriteString("\n]\n\n")

	sb.WriteString("/-- locks every caller of that thread kind holds when the function is entered (fixed point over `callEdges`; roots: none) -/\n")
	sb.WriteString("def entryLocks : List (String × Thread × List Lock) := [\n")
	es = nil
	for _, n := range names {
		for _, k := range sortedKinds(n) {
			es = append(es, fmt.Sprintf("  (%s, %s, %s)", leanStr(n), kindLean(k), down(entry[fk{n, k}]).lean()))
		}
	}
	sb.WriteString(strings.Join(es, ",\n"))
	sb.WriteString("\n]\n\n")

	sb.WriteString("/-- goroutines: (spawning function, goroutine body) in source order -/\n")
	es = nil
	for _, n := range names {
		for _, e := range funcs[n].edges {
			if e.spawn {
				es = append(es, fmt.Sprintf("(%s, %s)", leanStr(e.caller), leanStr(e.callee)))
			}
		}
	}
	fmt.Fprintf(&sb, "def spawns : List (String × String) := [%s]\n\n", strings.Join(es, ", "))

	sb.WriteString("/-- functions no root reaches inside the package (their accesses carry no thread) -/\n")
	var dead []string
	for _, n := range names {
		if len(threads[n]) == 0 {
			dead = append(dead, n)
		}
	}
	fmt.Fprintf(&sb, "def unreachable : List String := %s\n\n", leanStrList(dead))

	// client roots: lock first, then the open / closed checks, before anything else is touched
	sb.WriteString("/-- client entry points (exported methods of DB other than Open): the objects touched, in source order, up to and\nincluding the `closed` check — expected: the lock field, `DB.open`, `DB.closed` and nothing else (or nothing at all for\nthe string flavours that delegate).  Third component: locks held at the `closed` check. -/\n")
	sb.WriteString("def clientPrologues : List (String × List String × List Lock) := [\n")
	es = nil
	for _, n := range names {
		k := rootKind(n)
		if k != "client" && k != "closer" {
			continue
		}
		var pro []string
		var at lockset
		for _, a := range funcs[n].accesses {
			pro = append(pro, a.obj)
			if a.obj == "DB.closed" {
				at = a.locks
				break
			}
		}
		found := len(pro) > 0 && pro[len(pro)-1] == "DB.closed"
		if !found {
			pro = nil
			for _, a := range funcs[n].accesses {
				pro = append(pro, a.obj)
			}
		}
		es = append(es, fmt.Sprintf("  (%s, %s, %s)", leanStr(n), leanStrList(pro), at.lean()))
	}
	sb.WriteString(strings.Join(es, ",\n"))
	sb.WriteString("\n]\n\n")

	sb.WriteString("/-- order of the synchronisation-relevant events in DB.Open and DB.Close (source order) -/\n")
	fmt.Fprintf(&sb, "def openOrder : List String := %s\n\n", leanStrList(funcs["DB.Open"].events))
	fmt.Fprintf(&sb, "def closeOrder : List String := %s\n\n", leanStrList(funcs["DB.Close"].events))

	// hand-off facts
	var sends []string
	for _, n := range names {
		ast.Inspect(funcs[n].decl.Body, func(nd ast.Node) bool {
			if s, ok := nd.(*ast.SendStmt); ok {
				if sel, ok := s.Chan.(*ast.SelectorExpr); ok && sel.Sel.Name == "storeFlushChannel" {
					payload := alphaString(funcs[n].decl, s.Value)
					if cl, ok := s.Value.(*ast.CompositeLit); ok {
						for _, el := range cl.Elts {
							if kv, ok := el.(*ast.KeyValueExpr); ok && exprString(kv.Key) == "memStore" {
								payload = alphaString(funcs[n].decl, kv.Value)
							}
						}
					}
					sends = append(sends, fmt.Sprintf("(%s, %s)", leanStr(n), leanStr(payload)))
				}
			}
			return true
		})
	}
	sb.WriteString("/-- every send on the flush channel: (function, the memstore it hands over; receiver r, parameters p0 …, locals v0 …) -/\n")
	fmt.Fprintf(&sb, "def flushSends : List (String × String) := [%s]\n\n", strings.Join(sends, ", "))
	body := ""
	if f, ok := funcs["swapMemstore"]; ok {
		body = alphaString(f.decl, f.decl.Body)
	}
	sb.WriteString("/-- the body of swapMemstore, whitespace-normalised, parameters written p0 …, locals v0 … (order of declaration) -/\n")
	fmt.Fprintf(&sb, "def swapMemstoreBody : String := %s\n\n", leanStr(body))

	// the db lock of the manager is the db's own lock
	var newDB, newMgr *ast.FuncDecl
	if f, ok := funcs["NewSimpleDB"]; ok {
		newDB = f.decl
	}
	if f, ok := funcs["NewSSTableManager"]; ok {
		newMgr = f.decl
	}
	shared := lockShared(newDB, newMgr)
	// channels of the DB object: field ← make expression (capacity matters: the flush hand-off must be unbuffered)
	var chans []string
	if f, ok := funcs["NewSimpleDB"]; ok {
		makes := map[string]string{}
		ast.Inspect(f.decl.Body, func(nd ast.Node) bool {
			switch x := nd.(type) {
			case *ast.AssignStmt:
				if len(x.Lhs) == 1 && len(x.Rhs) == 1 {
					if id, ok := x.Lhs[0].(*ast.Ident); ok {
						if c, ok := x.Rhs[0].(*ast.CallExpr); ok {
							if fn, ok := c.Fun.(*ast.Ident); ok && fn.Name == "make" && len(c.Args) > 0 {
								if _, isChan := c.Args[0].(*ast.ChanType); isChan {
									makes[id.Name] = exprString(c)
								}
							}
						}
					}
				}
			case *ast.KeyValueExpr:
				if k, ok := x.Key.(*ast.Ident); ok {
					if structs["DB"] != nil && structs["DB"].fields[k.Name] != "" && strings.HasPrefix(structs["DB"].fields[k.Name], "threadsafe") || (structs["DB"] != nil && strings.HasPrefix(structs["DB"].fields[k.Name], "chan:")) {
						val := exprString(x.Value)
						if id, ok := x.Value.(*ast.Ident); ok {
							if m, ok := makes[id.Name]; ok {
								val = m
							}
						}
						if strings.Contains(val, "chan") {
							chans = append(chans, fmt.Sprintf("(%s, %s)", leanStr(k.Name), leanStr(val)))
						}
					}
				}
			}
			return true
		})
	}
	sort.Strings(chans)
	sb.WriteString("/-- the channels of a DB object as NewSimpleDB makes them: (field, make expression) — the capacity matters -/\n")
	fmt.Fprintf(&sb, "def dbChannels : List (String × String) := [%s]\n\n", strings.Join(chans, ", "))

	sb.WriteString("/-- `SSTableManager.databaseLock` is the very mutex `DB.rwLock` (constructor wiring) -/\n")
	fmt.Fprintf(&sb, "def dbLockShared : Bool := %v\n\n", shared)
	sb.WriteString("end SST.Generated\n")
	return sb.String()
}

// ---------------------------------------------------------------------------------------------------------
// rename-stability (syntactic: this tool has no type information)

// The PRIVATE functions of package simpledb that this tool, Spec/Access.lean, C05.lean or C18.lean name, with their signature
// as printed from the source without parameter names ("Recv|func(T…) R").  A listed private function that is not found by
// name is looked up as the ONE unexported function with the same receiver type and this signature whose own name is not
// listed here; it is then analysed UNDER THE LISTED NAME (declaration and all call sites renamed in the syntax tree before
// anything else looks at it), so that renaming a private helper changes nothing.  Exported functions: by name only.
var privateFns = map[string]string{
	"swapMemstore":                                "|func(*DB) *memstore.MemStoreI",
	"flushMemstoreContinuously":                   "|func(*DB)",
	"backgroundCompaction":                        "|func(*DB)",
	"executeFlush":                                "|func(*DB, memStoreFlushAction) error",
	"executeCompaction":                           "|func(*DB) (*dbproto.CompactionMetadata, error)",
	"saveCompactionMetadata":                      "|func(string, *dbproto.CompactionMetadata) error",
	"DB.rotateWalAndFlushMemstore":                "DB|func() error",
	"DB.repairCompactions":                        "DB|func() error",
	"DB.reconstructSSTables":                      "DB|func() error",
	"DB.replayAndSetupWriteAheadLog":              "DB|func() error",
	"SSTableManager.clearReaders":                 "SSTableManager|func()",
	"SSTableManager.currentSSTable":               "SSTableManager|func() sstables.SSTableReaderI",
	"SSTableManager.candidateTablesForCompaction": "SSTableManager|func(uint64, float32) compactionAction",
	"SSTableManager.addReader":                    "SSTableManager|func(sstables.SSTableReaderI)",
	"SSTableManager.reflectCompactionResult":      "SSTableManager|func(*dbproto.CompactionMetadata) error",
}

func syntacticSig(fd *ast.FuncDecl) string {
	list := func(fl *ast.FieldList) []string {
		var out []string
		if fl == nil {
			return out
		}
		for _, f := range fl.List {
			n := len(f.Names)
			if n == 0 {
				n = 1
			}
			for i := 0; i < n; i++ {
				out = append(out, exprString(f.Type))
			}
		}
		return out
	}
	s := recvName(fd) + "|func(" + strings.Join(list(fd.Type.Params), ", ") + ")"
	switch r := list(fd.Type.Results); len(r) {
	case 0:
	case 1:
		s += " " + r[0]
	default:
		s += " (" + strings.Join(r, ", ") + ")"
	}
	return s
}

func restorePrivateNames(files []*ast.File) (notes []string) {
	decls := map[string]*ast.FuncDecl{}
	var all []*ast.FuncDecl
	for _, f := range files {
		for _, d := range f.Decls {
			if fd, ok := d.(*ast.FuncDecl); ok {
				n := fd.Name.Name
				if r := recvName(fd); r != "" {
					n = r + "." + n
				}
				decls[n] = fd
				all = append(all, fd)
			}
		}
	}
	var keys []string
	for k := range privateFns {
		keys = append(keys, k)
	}
	sort.Strings(keys)
	for _, want := range keys {
		if decls[want] != nil {
			continue
		}
		var cands []*ast.FuncDecl
		for _, fd := range all {
			n := fd.Name.Name
			if r := recvName(fd); r != "" {
				n = r + "." + n
			}
			if ast.IsExported(fd.Name.Name) || privateFns[n] != "" {
				continue
			}
			if syntacticSig(fd) == privateFns[want] {
				cands = append(cands, fd)
			}
		}
		if len(cands) != 1 {
			continue
		}
		fd := cands[0]
		old, isMethod := fd.Name.Name, fd.Recv != nil
		short := want
		if i := strings.LastIndex(want, "."); i >= 0 {
			short = want[i+1:]
		}
		notes = append(notes, want+" is now called "+old)
		for _, f := range files {
			ast.Inspect(f, func(n ast.Node) bool {
				switch x := n.(type) {
				case *ast.SelectorExpr:
					if isMethod && x.Sel.Name == old {
						x.Sel.Name = short
					}
				case *ast.Ident:
					if !isMethod && x.Name == old && (x.Obj == nil || x.Obj.Kind == ast.Fun) {
						x.Name = short
					}
				}
				return true
			})
		}
		fd.Name.Name = short
	}
	return notes
}

// alphaString: the printed node with the receiver, the parameters and the local variables of the enclosing function
// replaced by r, p0, p1, …, v0, v1, … (locals in order of declaration) — independent of what they are called
func alphaString(fd *ast.FuncDecl, n ast.Node) string {
	names := map[*ast.Object]string{}
	if fd.Recv != nil {
		for _, f := range fd.Recv.List {
			for _, id := range f.Names {
				if id.Obj != nil {
					names[id.Obj] = "r"
				}
			}
		}
	}
	k := 0
	if fd.Type.Params != nil {
		for _, f := range fd.Type.Params.List {
			for _, id := range f.Names {
				if id.Obj != nil {
					names[id.Obj] = fmt.Sprintf("p%d", k)
				}
				k++
			}
		}
	}
	var locals []*ast.Object
	seen := map[*ast.Object]bool{}
	if fd.Body != nil {
		ast.Inspect(fd.Body, func(x ast.Node) bool {
			if id, ok := x.(*ast.Ident); ok && id.Obj != nil && id.Obj.Kind == ast.Var && !seen[id.Obj] {
				if _, known := names[id.Obj]; !known && id.Obj.Pos() >= fd.Body.Pos() && id.Obj.Pos() < fd.Body.End() {
					seen[id.Obj] = true
					locals = append(locals, id.Obj)
				}
			}
			return true
		})
	}
	sort.Slice(locals, func(i, j int) bool { return locals[i].Pos() < locals[j].Pos() })
	for i, o := range locals {
		names[o] = fmt.Sprintf("v%d", i)
	}
	var touched []*ast.Ident
	var old []string
	ast.Inspect(n, func(x ast.Node) bool {
		if id, ok := x.(*ast.Ident); ok && id.Obj != nil {
			if nm, ok := names[id.Obj]; ok {
				touched = append(touched, id)
				old = append(old, id.Name)
				id.Name = nm
			}
		}
		return true
	})
	s := exprString(n)
	for i, id := range touched {
		id.Name = old[i]
	}
	return s
}

// is the db lock of the manager the db's own lock?  NewSimpleDB makes ONE `&sync.RWMutex{}`, hands that very variable to
// NewSSTableManager as its second argument and stores it as the DB's `rwLock`; NewSSTableManager stores its second
// parameter as `databaseLock` — whatever the variables are called
func lockShared(newDB, newMgr *ast.FuncDecl) bool {
	if newDB == nil || newMgr == nil || newDB.Body == nil || newMgr.Body == nil {
		return false
	}
	var lock *ast.Object
	ast.Inspect(newDB.Body, func(n ast.Node) bool {
		if as, ok := n.(*ast.AssignStmt); ok && len(as.Lhs) == 1 && len(as.Rhs) == 1 {
			if id, ok := as.Lhs[0].(*ast.Ident); ok && id.Obj != nil && exprString(as.Rhs[0]) == "&sync.RWMutex{}" {
				lock = id.Obj
			}
		}
		return true
	})
	if lock == nil {
		return false
	}
	isLock := func(e ast.Expr) bool {
		id, ok := e.(*ast.Ident)
		return ok && id.Obj == lock
	}
	passed, stored := false, false
	ast.Inspect(newDB.Body, func(n ast.Node) bool {
		switch x := n.(type) {
		case *ast.CallExpr:
			if fn, ok := x.Fun.(*ast.Ident); ok && fn.Name == "NewSSTableManager" && len(x.Args) >= 2 && isLock(x.Args[1]) {
				passed = true
			}
		case *ast.KeyValueExpr:
			if k, ok := x.Key.(*ast.Ident); ok && k.Name == "rwLock" && isLock(x.Value) {
				stored = true
			}
		}
		return true
	})
	if !passed || !stored {
		return false
	}
	var params []*ast.Ident
	for _, f := range newMgr.Type.Params.List {
		params = append(params, f.Names...)
	}
	if len(params) < 2 || params[1].Obj == nil {
		return false
	}
	wired := false
	ast.Inspect(newMgr.Body, func(n ast.Node) bool {
		if kv, ok := n.(*ast.KeyValueExpr); ok {
			if k, ok := kv.Key.(*ast.Ident); ok && k.Name == "databaseLock" {
				if v, ok := kv.Value.(*ast.Ident); ok && v.Obj == params[1].Obj {
					wired = true
				}
			}
		}
		return true
	})
	return wired
}

// ---------------------------------------------------------------------------------------------------------
// Purity.lean

type pfn struct {
	name  string
	decl  *ast.FuncDecl
	recv  string
	pkg   string
	vars  map[string]bool // receiver / pointer-typed parameter names of the tracked reader types
	calls []string
	wr    []string
	ext   []string
}

func genPurity(repo string) string {
	type src struct {
		dir  string
		only map[string]bool
	}
	srcs := []src{{"recordio", nil}, {"sstables", nil}}
	pf := map[string]*pfn{}
	pkgVars := map[string]map[string]bool{}
	readerTypes := map[string]bool{"MMapReader": true, "SSTableReader": true, "SliceKeyIndex": true, "SuperSSTableReader": true}
	// interface-typed fields are resolved to the default implementations the property names
	dispatch := map[string]string{
		"SSTableReader.index":        "SliceKeyIndex",
		"SSTableReader.dataReader":   "MMapReader",
		"SuperSSTableReader.readers": "SSTableReader",
	}
	for _, s := range srcs {
		files := parseDir(filepath.Join(repo, s.dir), nil)
		pkgVars[s.dir] = map[string]bool{}
		for _, f := range files {
			for _, d := range f.Decls {
				switch x := d.(type) {
				case *ast.GenDecl:
					if x.Tok == token.VAR {
						for _, sp := range x.Specs {
							for _, n := range sp.(*ast.ValueSpec).Names {
								pkgVars[s.dir][n.Name] = true
							}
						}
					}
				case *ast.FuncDecl:
					if x.Body == nil {
						continue
					}
					r := recvName(x)
					name := s.dir + "/" + x.Name.Name
					if r != "" {
						name = r + "." + x.Name.Name
					}
					p := &pfn{name: name, decl: x, recv: r, pkg: s.dir, vars: map[string]bool{}}
					if x.Recv != nil && readerTypes[r] {
						for _, n := range x.Recv.List[0].Names {
							p.vars[n.Name] = true
						}
					}
					for _, prm := range x.Type.Params.List {
						if st, ok := prm.Type.(*ast.StarExpr); ok {
							if id, ok := st.X.(*ast.Ident); ok && readerTypes[id.Name] {
								for _, n := range prm.Names {
									p.vars[n.Name] = true
								}
							}
						}
					}
					pf[name] = p
				}
			}
		}
	}
	rangeVars := map[*pfn]map[string]string{}
	typeOfVar := func(p *pfn, name string) string {
		if t, ok := rangeVars[p][name]; ok {
			return t
		}
		if p.decl.Recv != nil {
			for _, n := range p.decl.Recv.List[0].Names {
				if n.Name == name {
					return p.recv
				}
			}
		}
		for _, prm := range p.decl.Type.Params.List {
			t := prm.Type
			if st, ok := t.(*ast.StarExpr); ok {
				t = st.X
			}
			if id, ok := t.(*ast.Ident); ok && readerTypes[id.Name] {
				for _, n := range prm.Names {
					if n.Name == name {
						return id.Name
					}
				}
			}
		}
		return ""
	}
	rootVar := func(e ast.Expr) (string, string) { // returns (variable, first field)
		field := ""
		for {
			switch x := e.(type) {
			case *ast.SelectorExpr:
				field = x.Sel.Name
				e = x.X
			case *ast.IndexExpr:
				e = x.X
			case *ast.StarExpr:
				e = x.X
			case *ast.ParenExpr:
				e = x.X
			case *ast.Ident:
				return x.Name, field
			default:
				return "", ""
			}
		}
	}
	for _, p := range pf {
		p := p
		rangeVars[p] = map[string]string{}
		// `for _, reader := range s.readers`: the loop variable has the default implementation's type
		ast.Inspect(p.decl.Body, func(n ast.Node) bool {
			if rs, ok := n.(*ast.RangeStmt); ok {
				if sel, ok := rs.X.(*ast.SelectorExpr); ok {
					if id, ok := sel.X.(*ast.Ident); ok {
						if impl, ok := dispatch[typeOfVar(p, id.Name)+"."+sel.Sel.Name]; ok {
							if v, ok := rs.Value.(*ast.Ident); ok {
								rangeVars[p][v.Name] = impl
							}
						}
					}
				}
			}
			return true
		})
		locals := map[string]bool{}
		ast.Inspect(p.decl.Body, func(n ast.Node) bool {
			if as, ok := n.(*ast.AssignStmt); ok && as.Tok == token.DEFINE {
				for _, l := range as.Lhs {
					if id, ok := l.(*ast.Ident); ok {
						locals[id.Name] = true
					}
				}
			}
			return true
		})
		note := func(l ast.Expr) {
			v, field := rootVar(l)
			if v == "" {
				return
			}
			if p.vars[v] && field != "" {
				p.wr = append(p.wr, typeOfVar(p, v)+"."+field)
			} else if field == "" && pkgVars[p.pkg][v] && !locals[v] {
				p.wr = append(p.wr, "var "+v)
			} else if field != "" && pkgVars[p.pkg][v] && !locals[v] {
				p.wr = append(p.wr, "var "+v+"."+field)
			}
		}
		ast.Inspect(p.decl.Body, func(n ast.Node) bool {
			switch x := n.(type) {
			case *ast.AssignStmt:
				for _, l := range x.Lhs {
					if _, isIdent := l.(*ast.Ident); isIdent && x.Tok == token.DEFINE {
						continue
					}
					note(l)
				}
			case *ast.IncDecStmt:
				note(x.X)
			case *ast.UnaryExpr:
				if x.Op == token.AND {
					if _, ok := x.X.(*ast.SelectorExpr); ok {
						note(x.X)
					}
				}
			case *ast.CallExpr:
				switch f := x.Fun.(type) {
				case *ast.Ident:
					if _, ok := pf[p.pkg+"/"+f.Name]; ok {
						p.calls = append(p.calls, p.pkg+"/"+f.Name)
					} else if f.Obj == nil && !isBuiltin(f.Name) && !locals[f.Name] {
						p.ext = append(p.ext, f.Name)
					}
				case *ast.SelectorExpr:
					v, field := rootVar(f.X)
					t := typeOfVar(p, v)
					if t == "" {
						break
					}
					if field == "" { // method on the receiver itself
						if _, ok := pf[t+"."+f.Sel.Name]; ok {
							p.calls = append(p.calls, t+"."+f.Sel.Name)
						}
					} else if impl, ok := dispatch[t+"."+field]; ok {
						if _, ok := pf[impl+"."+f.Sel.Name]; ok {
							p.calls = append(p.calls, impl+"."+f.Sel.Name)
						} else {
							p.ext = append(p.ext, t+"."+field+"."+f.Sel.Name)
						}
					} else {
						p.ext = append(p.ext, t+"."+field+"."+f.Sel.Name)
					}
				}
			}
			return true
		})
	}
	roots := []string{
		"MMapReader.ReadNextAt", "MMapReader.SeekNext",
		"SSTableReader.Get", "SSTableReader.Contains", "SSTableReader.ScanStartingAt", "SSTableReader.ScanRange", "SSTableReader.getValueAtOffset",
		"SliceKeyIndex.search", "SliceKeyIndex.Get", "SliceKeyIndex.Contains", "SliceKeyIndex.Iterator", "SliceKeyIndex.IteratorStartingAt", "SliceKeyIndex.IteratorBetween",
		"SuperSSTableReader.Get", "SuperSSTableReader.Contains", "SuperSSTableReader.ScanStartingAt", "SuperSSTableReader.ScanRange",
	}
	flagged := []string{"SSTableReader.Scan", "SuperSSTableReader.Scan", "MMapReader.Close", "SSTableReader.Close"}
	closure := func(root string) (fns, writes, ext []string, found bool) {
		if _, ok := pf[root]; !ok {
			return nil, nil, nil, false
		}
		seen := map[string]bool{root: true}
		q := []string{root}
		for len(q) > 0 {
			n := q[0]
			q = q[1:]
			fns = append(fns, n)
			for _, wv := range pf[n].wr {
				writes = append(writes, n+": "+wv)
			}
			ext = append(ext, pf[n].ext...)
			for _, c := range pf[n].calls {
				if !seen[c] {
					seen[c] = true
					q = append(q, c)
				}
			}
		}
		sort.Strings(fns)
		writes = uniq(writes)
		ext = uniq(ext)
		return fns, writes, ext, true
	}
	var sb strings.Builder
	sb.WriteString("-- GENERATED by tools/lockfacts from /repo/recordio/*.go and /repo/sstables/*.go (non-test): entry points in mmap_reader.go,\n-- sstable_reader.go, slice_key_index.go, super_sstable_reader.go; package-level helpers in the same packages are followed.\n")
	sb.WriteString("-- Do not edit; rewritten when the source changes.\n")
	sb.WriteString("-- For each documented thread-safe read entry point: the functions reachable inside these files (interface fields\n")
	sb.WriteString("-- resolved to the default implementations: index → SliceKeyIndex, dataReader → MMapReader, readers[] → SSTableReader),\n")
	sb.WriteString("-- every assignment / ++ / address-of on a receiver field or package-level variable on that path, and the callees\n")
	sb.WriteString("-- that are not followed (other files, other packages' objects).\n")
	sb.WriteString("namespace SST.Generated\n\n")
	sb.WriteString("structure ReadPath where\n  root : String\n  found : Bool             -- the entry point exists in the source\n  reach : List String      -- functions on the path\n  writes : List String     -- \"function: Type.field\" or \"function: var name\"\n  notFollowed : List String\n\n")
	emit := func(name string, list []string) {
		fmt.Fprintf(&sb, "def %s : List ReadPath := [\n", name)
		var rows []string
		for _, r := range list {
			fns, wr, ext, found := closure(r)
			rows = append(rows, fmt.Sprintf("  ⟨%s, %v, %s, %s, %s⟩", leanStr(r), found, leanStrList(fns), leanStrList(wr), leanStrList(ext)))
		}
		sb.WriteString(strings.Join(rows, ",\n"))
		sb.WriteString("\n]\n\n")
	}
	sb.WriteString("/-- the documented concurrent read set -/\n")
	emit("documentedReads", roots)
	sb.WriteString("/-- outside the documented set: listed to show that the extraction does see writes where there are some -/\n")
	emit("undocumented", flagged)
	sb.WriteString("end SST.Generated\n")
	return sb.String()
}

func uniq(l []string) []string {
	sort.Strings(l)
	var out []string
	for i, s := range l {
		if i == 0 || s != l[i-1] {
			out = append(out, s)
		}
	}
	return out
}

func isBuiltin(n string) bool {
	switch n {
	case "len", "cap", "make", "new", "append", "copy", "delete", "panic", "recover", "print", "println", "close", "min", "max",
		"uint64", "int64", "int", "uint32", "uint8", "byte", "string", "float64", "float32", "bool", "uint", "int32", "error":
		return true
	}
	return false
}
