module lockfacts

go 1.21
