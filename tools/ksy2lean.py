#!/usr/bin/env python3
"""
ksy2lean.py — regenerates lean/SST/Generated/Kaitai.lean from the repository's Kaitai schema (C20).

    python3 tools/ksy2lean.py [--repo /repo] [--ksy <recordio_v4.ksy>] [--vlq-ksy <vlq_base128_le.ksy>]
                              [--go <recordio_v4.go>] [--vlq-go <vlq_base128_le.go>]
                              [--out lean/SST/Generated/Kaitai.lean] [--stdout] [--no-go-check]

What is extracted (and re-extracted on every check run, so an edit of the schema changes the Lean value
the C20 theorems are about):
  * recordio_v4.ksy: top-level seq, the field sequences of every type (ids, types, enum, `contents`,
    `size` expression), value instances as an expression AST, the enum tables;
  * vlq_base128_le.ksy: the number of groups the `value` instance adds up (the vlq reader itself is part of
    the hand-written interpreter SST/Model/Kaitai.lean);
  * kaitai/gokaitai/recordio_v4.go + vlq_base128_le.go (the checked-in output of kaitai-struct-compiler):
    enum constants, the magic literal, the shape of LenPayload() (symbolically executed into the same AST),
    the number of groups in Value().  These are written into the Lean file as `goReader…` facts (theorem
    C20.go_reader_matches_schema compares them by `decide`) AND compared here: on divergence this program
    prints the difference and exits 3 (after writing the Lean file).

Python 3 standard library only.  The YAML subset parser below handles what the two .ksy files use: block
mappings and sequences by indentation, `- key: value` items, flow sequences `[a, b]`, quoted scalars,
block scalars (`|`, `>`, with chomping indicators), full-line comments.  When a `yaml` module happens to
be installed the result is cross-checked against it (never relied upon).
The output file is only rewritten when its content changes (keeps lake's build trace).
"""
import argparse
import os
import re
import sys


class KsyError(Exception):
    pass


# ------------------------------------------------------------------------------------------------------
# tiny YAML subset parser

def _scalar(s):
    s = s.strip()
    if s == "":
        return None
    if (s[0] == s[-1] == "'" or s[0] == s[-1] == '"') and len(s) >= 2:
        return s[1:-1]
    if s[0] == "[":
        if s[-1] != "]":
            raise KsyError("unterminated flow sequence: " + s)
        inner = s[1:-1].strip()
        return [] if inner == "" else [_scalar(x) for x in inner.split(",")]
    if re.fullmatch(r"-?(0x[0-9a-fA-F_]+|0b[01_]+|0o[0-7_]+|[0-9][0-9_]*)", s):
        return int(s.replace("_", ""), 0)
    if s in ("true", "false"):
        return s == "true"
    return s


def _strip_comment(s):
    # a comment starts with '#' at the start or after whitespace, outside quotes
    out, q = [], None
    for i, ch in enumerate(s):
        if q:
            if ch == q:
                q = None
        elif ch in "'\"":
            q = ch
        elif ch == "#" and (i == 0 or s[i - 1] in " \t"):
            break
        out.append(ch)
    return "".join(out).rstrip()


def _split_key(text):
    """'key: value' -> (key, value) or None; the colon must be followed by space or end of line, outside quotes"""
    q = None
    for i, ch in enumerate(text):
        if q:
            if ch == q:
                q = None
        elif ch in "'\"":
            q = ch
        elif ch == "[":
            return None
        elif ch == ":" and (i + 1 == len(text) or text[i + 1] == " "):
            return text[:i].strip(), text[i + 1:].strip()
    return None


class _Yaml:
    def __init__(self, src):
        self.lines = src.replace("\t", "    ").split("\n")
        self.i = 0

    def _peek(self):
        """(indent, text) of the next significant line without consuming it, or None"""
        while self.i < len(self.lines):
            raw = self.lines[self.i]
            st = raw.strip()
            if st == "" or st.startswith("#"):
                self.i += 1
                continue
            return len(raw) - len(raw.lstrip(" ")), _strip_comment(raw).strip()
        return None

    def _block_scalar(self, header, parent_indent):
        fold = header[0] == ">"
        chomp = "clip"
        if "-" in header[1:]:
            chomp = "strip"
        elif "+" in header[1:]:
            chomp = "keep"
        buf, base = [], None
        while self.i < len(self.lines):
            raw = self.lines[self.i]
            if raw.strip() == "":
                buf.append("")
                self.i += 1
                continue
            ind = len(raw) - len(raw.lstrip(" "))
            if ind <= parent_indent:
                break
            if base is None:
                base = ind
            buf.append(raw[base:])
            self.i += 1
        while buf and buf[-1] == "":
            buf.pop()
        text = (" ".join(x.strip() for x in buf) if fold else "\n".join(buf))
        if chomp != "strip":
            text += "\n"
        return text

    def _value(self, rest, indent):
        """value of a key whose inline remainder is `rest`; the key sits at column `indent`"""
        if rest != "" and rest[0] in "|>" and re.fullmatch(r"[|>][-+0-9]*", rest):
            return self._block_scalar(rest, indent)
        if rest != "":
            return _scalar(rest)
        nxt = self._peek()
        if nxt is None or nxt[0] < indent or (nxt[0] == indent and not nxt[1].startswith("- ")):
            return None
        if nxt[0] == indent:  # a sequence may sit at the indentation of its key
            return self._node(indent)
        return self._node(nxt[0])

    def _node(self, indent):
        nxt = self._peek()
        if nxt is None:
            return None
        if nxt[1].startswith("- ") or nxt[1] == "-":
            return self._seq(indent)
        return self._map(indent)

    def _seq(self, indent):
        out = []
        while True:
            nxt = self._peek()
            if nxt is None or nxt[0] != indent or not (nxt[1].startswith("- ") or nxt[1] == "-"):
                if nxt is not None and nxt[0] > indent:
                    raise KsyError(f"line {self.i + 1}: unexpected indentation in sequence")
                return out
            raw = self.lines[self.i]
            body = _strip_comment(raw).strip()[1:]
            pad = len(body) - len(body.lstrip(" "))
            body = body.strip()
            if body == "":
                self.i += 1
                out.append(self._node(self._peek()[0]))
            elif _split_key(body) is not None:
                # `- key: value` opens a mapping whose keys sit at column indent + 1 + pad
                col = indent + 1 + pad
                self.lines[self.i] = " " * col + body
                out.append(self._map(col))
            else:
                self.i += 1
                out.append(_scalar(body))

    def _map(self, indent):
        out = {}
        while True:
            nxt = self._peek()
            if nxt is None or nxt[0] < indent:
                return out
            if nxt[0] > indent:
                raise KsyError(f"line {self.i + 1}: unexpected indentation {nxt[0]} (mapping at {indent})")
            kv = _split_key(nxt[1])
            if kv is None:
                if nxt[1].startswith("- "):
                    return out
                raise KsyError(f"line {self.i + 1}: expected 'key: value', got {nxt[1]!r}")
            key, rest = kv
            key = _scalar(key)
            self.i += 1
            if key in out:
                raise KsyError(f"line {self.i}: duplicate key {key!r}")
            out[key] = self._value(rest, indent)


def parse_yaml(src):
    y = _Yaml(src)
    first = y._peek()
    if first is None:
        return None
    node = y._node(first[0])
    if y._peek() is not None:
        raise KsyError(f"line {y.i + 1}: trailing content the subset parser cannot place")
    return node


def load_ksy(path):
    src = open(path, encoding="utf-8").read()
    doc = parse_yaml(src)
    try:
        import yaml  # optional cross-check only
        ref = yaml.safe_load(src)

        def norm(x):  # scalar typing (0.7 vs "0.7") is irrelevant here: compare structure and spelling
            if isinstance(x, dict):
                return {str(k): norm(v) for k, v in x.items()}
            if isinstance(x, list):
                return [norm(v) for v in x]
            return str(x)
        if norm(ref) != norm(doc):
            raise KsyError(f"{path}: built-in YAML subset parser disagrees with the yaml module:\n  own: {doc!r}\n  ref: {ref!r}")
    except ImportError:
        pass
    if not isinstance(doc, dict):
        raise KsyError(f"{path}: top level is not a mapping")
    return doc


# ------------------------------------------------------------------------------------------------------
# expression AST (tuples): ("int", n) ("field", id) ("vlqValue", id) ("rootField", top, id)
# ("enumLit", enum, name) ("inst", id) ("eq"|"ne"|"xor"|"add", a, b) ("ite", c, t, e)

_TOK = re.compile(r"\s*(0x[0-9a-fA-F_]+|0b[01_]+|[0-9][0-9_]*|[A-Za-z_][A-Za-z0-9_]*(?:::[A-Za-z_][A-Za-z0-9_]*|(?:\.[A-Za-z_][A-Za-z0-9_]*)*)"
                  r"|==|!=|<=|>=|<<|>>|[?:()^+\-&|<>*/%~])")


def tokenize(src):
    toks, pos = [], 0
    src = src.strip()
    while pos < len(src):
        m = _TOK.match(src, pos)
        if not m:
            raise KsyError(f"expression {src!r}: cannot tokenize at {src[pos:]!r}")
        toks.append(m.group(1))
        pos = m.end()
    return toks


class ExprParser:
    """Kaitai expression precedence (Python like): ternary < comparison < | < ^ < & < shift < + -"""

    def __init__(self, src, resolve):
        self.src, self.toks, self.p, self.resolve = src, tokenize(src), 0, resolve

    def peek(self):
        return self.toks[self.p] if self.p < len(self.toks) else None

    def take(self, t=None):
        tok = self.peek()
        if tok is None or (t is not None and tok != t):
            raise KsyError(f"expression {self.src!r}: expected {t!r}, got {tok!r}")
        self.p += 1
        return tok

    def parse(self):
        e = self.ternary()
        if self.peek() is not None:
            raise KsyError(f"expression {self.src!r}: unexpected {self.peek()!r}")
        return e

    def ternary(self):
        c = self.comparison()
        if self.peek() == "?":
            self.take("?")
            t = self.ternary()
            self.take(":")
            e = self.ternary()
            return ("ite", c, t, e)
        return c

    def comparison(self):
        a = self.bitor()
        if self.peek() in ("==", "!="):
            op = self.take()
            b = self.bitor()
            return ("eq" if op == "==" else "ne", a, b)
        if self.peek() in ("<", ">", "<=", ">="):
            raise KsyError(f"expression {self.src!r}: operator {self.peek()!r} is not supported by ksy2lean / SST.Kaitai.KExpr")
        return a

    def bitor(self):
        a = self.bitxor()
        if self.peek() == "|":
            raise KsyError(f"expression {self.src!r}: operator '|' is not supported by ksy2lean / SST.Kaitai.KExpr")
        return a

    def bitxor(self):
        a = self.additive_guard()
        while self.peek() == "^":
            self.take()
            a = ("xor", a, self.additive_guard())
        return a

    def additive_guard(self):
        a = self.additive()
        if self.peek() in ("&", "<<", ">>"):
            raise KsyError(f"expression {self.src!r}: operator {self.peek()!r} is not supported by ksy2lean / SST.Kaitai.KExpr")
        return a

    def additive(self):
        a = self.atom()
        while self.peek() == "+":
            self.take()
            a = ("add", a, self.atom())
        if self.peek() in ("-", "*", "/", "%"):
            raise KsyError(f"expression {self.src!r}: operator {self.peek()!r} is not supported by ksy2lean / SST.Kaitai.KExpr")
        return a

    def atom(self):
        tok = self.take()
        if tok == "(":
            e = self.ternary()
            self.take(")")
            return e
        if re.fullmatch(r"0x[0-9a-fA-F_]+|0b[01_]+|[0-9][0-9_]*", tok):
            return ("int", int(tok.replace("_", ""), 0))
        if re.match(r"[A-Za-z_]", tok):
            return self.resolve(tok)
        raise KsyError(f"expression {self.src!r}: unexpected {tok!r}")


def make_resolver(ksy, type_name):
    ty = ksy["types"][type_name]
    fields = {f["id"]: f for f in ty.get("seq", [])}
    instances = ty.get("instances") or {}
    enums = ksy.get("enums") or {}
    top = {f["id"]: f for f in ksy.get("seq", [])}

    def int_field(f):
        return f.get("type") in ("u1", "u2", "u4", "u8") or False

    def resolve(name):
        if "::" in name:
            enum, lit = name.split("::")
            if enum not in enums:
                raise KsyError(f"{name}: unknown enum {enum!r}")
            # an unknown literal is NOT an error here: it is emitted, the interpreter fails on it and the
            # theorems stop building (that is the point of regenerating)
            return ("enumLit", enum, lit)
        parts = name.split(".")
        if parts[0] == "_root":
            if len(parts) != 3 or parts[1] not in top:
                raise KsyError(f"{name}: only _root.<top-level field>.<field> is supported")
            return ("rootField", parts[1], parts[2])
        if len(parts) == 1:
            if name in fields:
                if not int_field(fields[name]):
                    raise KsyError(f"{name}: only integer fields may be used directly in expressions")
                return ("field", name)
            if name in instances:
                return ("inst", name)
            raise KsyError(f"{name}: neither a seq field nor an instance of type {type_name}")
        if len(parts) == 2 and parts[1] == "value" and parts[0] in fields and fields[parts[0]].get("type") == "vlq_base128_le":
            return ("vlqValue", parts[0])
        raise KsyError(f"{name}: unsupported reference")

    return resolve


# ------------------------------------------------------------------------------------------------------
# schema extraction

def extract_schema(ksy, vlq):
    meta = ksy.get("meta") or {}
    if meta.get("endian") != "le":
        raise KsyError("meta.endian is not 'le' (the interpreter reads u4 little endian)")
    sch = {"id": meta.get("id"), "top": [], "types": [], "enums": []}
    for f in ksy.get("seq", []):
        extra = set(f) - {"id", "type", "repeat", "doc"}
        if extra or f.get("repeat") not in (None, "eos") or f.get("type") not in (ksy.get("types") or {}):
            raise KsyError(f"top-level seq entry {f!r}: only `type: <user type>` with optional `repeat: eos` is supported")
        sch["top"].append((f["id"], f["type"], f.get("repeat") == "eos"))
    for tname, ty in (ksy.get("types") or {}).items():
        resolve = make_resolver(ksy, tname)
        seq = []
        for f in ty.get("seq", []):
            extra = set(f) - {"id", "type", "enum", "contents", "size", "doc"}
            if extra:
                raise KsyError(f"type {tname}, field {f.get('id')}: unsupported attributes {sorted(extra)}")
            if "contents" in f:
                c = f["contents"]
                if not (isinstance(c, list) and all(isinstance(x, int) and 0 <= x < 256 for x in c)):
                    raise KsyError(f"type {tname}, field {f['id']}: contents must be a list of byte values")
                kind = ("contents", c)
            elif "size" in f and "type" not in f:
                kind = ("sized", ExprParser(str(f["size"]), resolve).parse())
            elif f.get("type") == "u1":
                kind = ("u1",)
            elif f.get("type") == "u4":
                if f.get("enum") is not None and f["enum"] not in (ksy.get("enums") or {}):
                    raise KsyError(f"type {tname}, field {f['id']}: unknown enum {f['enum']!r}")
                kind = ("u4le", f.get("enum"))
            elif f.get("type") == "vlq_base128_le":
                if "vlq_base128_le" not in (meta.get("imports") or []):
                    raise KsyError("vlq_base128_le used but not imported")
                kind = ("vlq",)
            else:
                raise KsyError(f"type {tname}, field {f.get('id')}: unsupported field {f!r}")
            seq.append((f["id"], kind))
        insts = []
        for iname, inst in (ty.get("instances") or {}).items():
            if set(inst) - {"value", "doc"} or "value" not in inst:
                raise KsyError(f"type {tname}, instance {iname}: only value instances are supported")
            insts.append((iname, ExprParser(str(inst["value"]), resolve).parse()))
        sch["types"].append((tname, seq, insts))
    for ename, tab in (ksy.get("enums") or {}).items():
        rows = []
        for code, name in tab.items():
            if not isinstance(code, int) or not isinstance(name, str):
                raise KsyError(f"enum {ename}: entry {code!r}: {name!r} is not <int>: <name>")
            rows.append((code, name))
        sch["enums"].append((ename, rows))
    sch["vlqMaxGroups"] = vlq_groups_ksy(vlq)
    return sch


def vlq_groups_ksy(vlq):
    """number of groups the `value` instance of vlq_base128_le.ksy adds up; checks the published shape"""
    seq = vlq.get("seq") or []
    if not (len(seq) == 1 and seq[0].get("type") == "group" and seq[0].get("repeat") == "until"
            and re.sub(r"\s+", " ", str(seq[0].get("repeat-until"))).strip() == "not _.has_next"):
        raise KsyError("vlq_base128_le.ksy: seq is not `groups: group, repeat until not _.has_next`")
    g = vlq["types"]["group"]
    if [f.get("type") for f in g["seq"]] != ["u1"]:
        raise KsyError("vlq_base128_le.ksy: group is not a single u1")
    norm = lambda s: re.sub(r"[\s_]", "", str(s))
    if norm(g["instances"]["has_next"]["value"]) != "(b&0b10000000)!=0" or norm(g["instances"]["value"]["value"]) != "b&0b01111111":
        raise KsyError("vlq_base128_le.ksy: group.has_next / group.value are not `(b & 0x80) != 0` / `b & 0x7f`")
    if norm(vlq["instances"]["len"]["value"]) != "groups.size":
        raise KsyError("vlq_base128_le.ksy: len is not groups.size")
    val = re.sub(r"\s+", "", str(vlq["instances"]["value"]["value"]))
    terms = val.split("+")
    if terms[0] != "groups[0].value":
        raise KsyError("vlq_base128_le.ksy: value does not start with groups[0].value")
    for i, t in enumerate(terms[1:], start=1):
        if t != f"(len>={i + 1}?(groups[{i}].value<<{7 * i}):0)":
            raise KsyError(f"vlq_base128_le.ksy: term {i} of value has an unexpected shape: {t}")
    return len(terms)


# ------------------------------------------------------------------------------------------------------
# facts of the checked-in Go reader

def snake(camel):
    return re.sub(r"(?<!^)([A-Z])", r"_\1", camel).lower()


def go_facts(go_src, vlq_go_src, ksy):
    facts = {}
    # enum constants
    rows = re.findall(r"^\s*RecordioV4_Compression__(\w+)\s+RecordioV4_Compression\s*=\s*(\d+)\s*$", go_src, flags=re.M)
    if not rows:
        raise KsyError("recordio_v4.go: no RecordioV4_Compression__* constants found")
    facts["enum"] = [(int(v), snake(n)) for n, v in rows]
    # magic literal: the bytes.Equal check and the ReadBytes length must agree
    m = re.search(r"ReadBytes\(int\((\d+)\)\)\s*\n(?:.*\n){1,6}?\s*if !\(bytes\.Equal\(this\.Magic, \[\]uint8\{([0-9, ]+)\}\)\)", go_src)
    if not m:
        raise KsyError("recordio_v4.go: magic check (ReadBytes + bytes.Equal on this.Magic) not found")
    magic = [int(x) for x in m.group(2).split(",")]
    if int(m.group(1)) != len(magic):
        raise KsyError("recordio_v4.go: ReadBytes length differs from the magic literal length")
    facts["magic"] = magic
    # order of the reads in RecordioV4_Record.Read
    body = re.search(r"func \(this \*RecordioV4_Record\) Read\(.*?\n}\n", go_src, flags=re.S)
    if not body:
        raise KsyError("recordio_v4.go: RecordioV4_Record.Read not found")
    facts["record_fields"] = [snake(x) for x in re.findall(r"^\tthis\.(\w+) = tmp\d+$", body.group(0), flags=re.M)]
    hbody = re.search(r"func \(this \*RecordioV4_FileHeader\) Read\(.*?\n}\n", go_src, flags=re.S)
    if not hbody:
        raise KsyError("recordio_v4.go: RecordioV4_FileHeader.Read not found")
    facts["header_reads"] = re.findall(r"this\._io\.(Read\w+)\(\)", hbody.group(0))
    facts["header_fields"] = [snake(x) for x in re.findall(r"^\tthis\.(\w+) = \w+\(tmp\d+\)$", hbody.group(0), flags=re.M)]
    # LenPayload, symbolically executed
    lp = re.search(r"func \(this \*RecordioV4_Record\) LenPayload\(\) \(v int, err error\) \{\n(.*?)\n}\n", go_src, flags=re.S)
    if not lp:
        raise KsyError("recordio_v4.go: LenPayload not found")
    facts["lenPayload"] = go_len_payload(lp.group(1), ksy)
    # payload read uses LenPayload
    if not re.search(r"(tmp\d+), err := this\.LenPayload\(\)\s*\n(?:.*\n){1,4}?\s*tmp\d+, err := this\._io\.ReadBytes\(int\(\1\)\)", go_src):
        raise KsyError("recordio_v4.go: payload is not read with ReadBytes(LenPayload())")
    # vlq Value(): groups used
    idx = [int(x) for x in re.findall(r"this\.Groups\[(\d+)\]\.Value\(\)", vlq_go_src)]
    shifts = [int(x) for x in re.findall(r"= \(tmp\d+ << (\d+)\)", vlq_go_src)]
    if idx != list(range(len(idx))) or shifts != [7 * i for i in range(1, len(idx))]:
        raise KsyError(f"vlq_base128_le.go: Value() has an unexpected shape (groups {idx}, shifts {shifts})")
    if "(this.B & 128) != 0" not in vlq_go_src or "int((this.B & 127))" not in vlq_go_src:
        raise KsyError("vlq_base128_le.go: HasNext/Value of a group are not (B & 128) != 0 / B & 127")
    facts["vlqMaxGroups"] = len(idx)
    return facts


def go_len_payload(body, ksy):
    """symbolic execution of the if/else tree kaitai-struct-compiler emits for the ternaries"""
    env = {}
    enum_name = "compression"
    toks = re.findall(r"[A-Za-z_][A-Za-z0-9_.]*|\d+|==|!=|:=|[{}()^+=;,]", body)
    pos = [0]

    def peek(k=0):
        return toks[pos[0] + k] if pos[0] + k < len(toks) else None

    def take(t=None):
        tok = peek()
        if tok is None or (t is not None and tok != t):
            raise KsyError(f"recordio_v4.go LenPayload: expected {t!r}, got {tok!r} (token {pos[0]})")
        pos[0] += 1
        return tok

    def operand():
        tok = take()
        if tok == "(":
            e = expr()
            take(")")
            return e
        if tok == "int":
            take("(")
            e = expr()
            take(")")
            return e
        if tok.isdigit():
            return ("int", int(tok))
        if tok in env:
            return env[tok]
        if tok.startswith("RecordioV4_Compression__"):
            return ("enumLit", enum_name, snake(tok[len("RecordioV4_Compression__"):]))
        m = re.fullmatch(r"this\._root\.(\w+)\.(\w+)", tok)
        if m:
            return ("rootField", snake(m.group(1)), snake(m.group(2)))
        m = re.fullmatch(r"this\.([A-Z]\w*)", tok)
        if m:
            return ("field", snake(m.group(1)))
        raise KsyError(f"recordio_v4.go LenPayload: unknown operand {tok!r}")

    def expr():
        a = operand()
        while peek() in ("==", "!=", "^", "+"):
            op = take()
            b = operand()
            a = ({"==": "eq", "!=": "ne", "^": "xor", "+": "add"}[op], a, b)
        return a

    def block():
        """statements up to the closing brace / the final assignment; returns {var: expr} of assignments made"""
        assigned = {}
        local = set()
        while peek() not in (None, "}"):
            tok = peek()
            if tok == "if":
                take("if")
                if peek() == "(" and peek(1) == "this._f_lenPayload":
                    # memoisation prologue: if (this._f_lenPayload) { return this.lenPayload, nil }
                    while take() != "}":
                        pass
                    continue
                if peek() == "err":
                    # if err != nil { return 0, err }
                    while take() != "}":
                        pass
                    continue
                take("(")
                cond = expr()
                take(")")
                take("{")
                a = block()
                take("}")
                take("else")
                take("{")
                b = block()
                take("}")
                if set(a) != set(b):
                    raise KsyError("recordio_v4.go LenPayload: if/else branches assign different variables")
                for v in a:
                    env[v] = ("ite", cond, a[v], b[v])
                    assigned[v] = env[v]
            elif tok == "var":
                take("var")
                local.add(take())
                take("int")
                if peek() == ";":
                    take(";")
            elif tok == "return":
                while peek() not in (None, "}"):
                    take()
            elif re.fullmatch(r"tmp\d+", tok) and peek(1) == ",":
                # tmpN, err := this.X.Value()
                take()
                take(",")
                take("err")
                take(":=")
                call = take()
                m = re.fullmatch(r"this\.(\w+)\.Value", call)
                if not m:
                    raise KsyError(f"recordio_v4.go LenPayload: unexpected call {call!r}")
                take("(")
                take(")")
                env[tok] = ("vlqValue", snake(m.group(1)))
            elif re.fullmatch(r"tmp\d+|this\.lenPayload|this\._f_lenPayload", tok) and peek(1) == "=":
                take()
                take("=")
                if tok == "this._f_lenPayload":
                    take()
                    continue
                e = expr()
                env[tok] = e
                assigned[tok] = e
            else:
                raise KsyError(f"recordio_v4.go LenPayload: unexpected token {tok!r}")
        return {v: e for v, e in assigned.items() if v not in local}

    block()
    if "this.lenPayload" not in env:
        raise KsyError("recordio_v4.go LenPayload: this.lenPayload is never assigned")
    return env["this.lenPayload"]


def compare_go(sch, facts):
    """differences between the checked-in Go reader and the .ksy; empty list = consistent"""
    diffs = []
    enums = dict(sch["enums"])
    if sorted(facts["enum"]) != sorted(enums.get("compression", [])):
        diffs.append(f"compression enum: ksy {sorted(enums.get('compression', []))} vs Go constants {sorted(facts['enum'])}")
    types = {t: (seq, insts) for t, seq, insts in sch["types"]}
    rseq, rinst = types.get("record", ([], []))
    hseq, _ = types.get("file_header", ([], []))
    magic = [k[1] for _, k in rseq if k[0] == "contents"]
    if magic != [facts["magic"]]:
        diffs.append(f"magic contents: ksy {magic} vs Go {facts['magic']}")
    if [i for i, _ in rseq] != facts["record_fields"]:
        diffs.append(f"record fields: ksy {[i for i, _ in rseq]} vs Go {facts['record_fields']}")
    if [i for i, _ in hseq] != facts["header_fields"] or facts["header_reads"] != ["ReadU4le"] * len(hseq):
        diffs.append(f"file_header fields: ksy {hseq} vs Go {facts['header_fields']} read with {facts['header_reads']}")
    lp = dict(rinst).get("len_payload")
    if lp != facts["lenPayload"]:
        diffs.append(f"len_payload: ksy {lp} vs Go LenPayload() {facts['lenPayload']}")
    if sch["vlqMaxGroups"] != facts["vlqMaxGroups"]:
        diffs.append(f"vlq groups: ksy {sch['vlqMaxGroups']} vs Go {facts['vlqMaxGroups']}")
    return diffs


# ------------------------------------------------------------------------------------------------------
# Lean output

def lstr(s):
    return '"' + s.replace("\\", "\\\\").replace('"', '\\"') + '"'


def lexpr(e):
    k = e[0]
    if k == "int":
        return f"(.int {e[1]})"
    if k in ("field", "vlqValue", "inst"):
        return f"(.{k} {lstr(e[1])})"
    if k in ("rootField", "enumLit"):
        return f"(.{k} {lstr(e[1])} {lstr(e[2])})"
    if k in ("eq", "ne", "xor", "add"):
        return f"(.{k} {lexpr(e[1])} {lexpr(e[2])})"
    if k == "ite":
        return f"(.ite {lexpr(e[1])} {lexpr(e[2])} {lexpr(e[3])})"
    raise KsyError(f"cannot print {e!r}")


def lkind(k):
    if k[0] == "u1":
        return ".u1"
    if k[0] == "vlq":
        return ".vlq"
    if k[0] == "u4le":
        return ".u4le " + ("none" if k[1] is None else f"(some {lstr(k[1])})")
    if k[0] == "contents":
        return ".contents [" + ", ".join(f"0x{x:02x}" for x in k[1]) + "]"
    if k[0] == "sized":
        return ".sized " + lexpr(k[1])
    raise KsyError(f"cannot print {k!r}")


def lenum(rows):
    return "[" + ", ".join(f"({c}, {lstr(n)})" for c, n in rows) + "]"


def render(sch, facts, sources):
    o = []
    o.append("-- GENERATED by tools/ksy2lean.py from " + ", ".join(sources) + ".")
    o.append("-- Do not edit; rewritten on every check run (only when the content changes).")
    o.append("import SST.Model.Kaitai")
    o.append("namespace SST.Generated")
    o.append("open SST.Kaitai")
    o.append("")
    o.append("/-- recordio_v4.ksy as a value of the schema AST interpreted by `SST.Kaitai.kaitaiParse` -/")
    o.append("def schema : Schema := {")
    o.append(f"  id := {lstr(str(sch['id']))}")
    o.append("  top := [" + ", ".join(f"{{ id := {lstr(i)}, type := {lstr(t)}, repeatEos := {'true' if r else 'false'} }}" for i, t, r in sch["top"]) + "]")
    o.append("  types := [")
    tl = []
    for tname, seq, insts in sch["types"]:
        s = f"    ({lstr(tname)}, {{\n      seq := [\n"
        s += ",\n".join(f"        {{ id := {lstr(i)}, kind := {lkind(k)} }}" for i, k in seq)
        s += "],\n      instances := ["
        s += ", ".join(f"({lstr(i)},\n        {lexpr(e)})" for i, e in insts)
        s += "] })"
        tl.append(s)
    o.append(",\n".join(tl) + "]")
    o.append("  enums := [" + ", ".join(f"({lstr(n)}, {lenum(rows)})" for n, rows in sch["enums"]) + "]")
    o.append(f"  vlqMaxGroups := {sch['vlqMaxGroups']} }}")
    o.append("")
    if facts is not None:
        o.append("/-! facts of the checked-in generated Go reader kaitai/gokaitai/{recordio_v4,vlq_base128_le}.go -/")
        o.append("")
        o.append("/-- `RecordioV4_Compression__*` constants (names in snake case) -/")
        o.append(f"def goReaderEnum : List (Nat × String) := {lenum(facts['enum'])}")
        o.append("/-- the literal the Go reader compares `Magic` with -/")
        o.append("def goReaderMagic : List UInt8 := [" + ", ".join(f"0x{x:02x}" for x in facts["magic"]) + "]")
        o.append("/-- field order of `RecordioV4_FileHeader.Read` / `RecordioV4_Record.Read` -/")
        o.append("def goReaderHeaderFields : List String := [" + ", ".join(lstr(x) for x in facts["header_fields"]) + "]")
        o.append("def goReaderRecordFields : List String := [" + ", ".join(lstr(x) for x in facts["record_fields"]) + "]")
        o.append("/-- `RecordioV4_Record.LenPayload()`, its if/else tree read back as an expression -/")
        o.append(f"def goReaderLenPayload : KExpr :=\n  {lexpr(facts['lenPayload'])}")
        o.append("/-- number of groups `VlqBase128Le.Value()` adds up -/")
        o.append(f"def goReaderVlqMaxGroups : Nat := {facts['vlqMaxGroups']}")
        o.append("")
    o.append("end SST.Generated")
    return "\n".join(o) + "\n"


def main():
    root = os.path.dirname(os.path.dirname(os.path.abspath(__file__)))
    ap = argparse.ArgumentParser(description=__doc__, formatter_class=argparse.RawDescriptionHelpFormatter)
    ap.add_argument("--repo", default="/repo")
    ap.add_argument("--ksy", help="recordio_v4.ksy (default <repo>/kaitai/recordio_v4.ksy)")
    ap.add_argument("--vlq-ksy", help="vlq_base128_le.ksy (default <repo>/kaitai/vlq_base128_le.ksy)")
    ap.add_argument("--go", help="generated Go reader (default <repo>/kaitai/gokaitai/recordio_v4.go)")
    ap.add_argument("--vlq-go", help="generated Go vlq reader (default <repo>/kaitai/gokaitai/vlq_base128_le.go)")
    ap.add_argument("--out", default=os.path.join(root, "lean", "SST", "Generated", "Kaitai.lean"))
    ap.add_argument("--stdout", action="store_true", help="print instead of writing --out")
    ap.add_argument("--no-go-check", action="store_true", help="write the file but do not fail on a Go/ksy divergence")
    a = ap.parse_args()
    kdir = os.path.join(a.repo, "kaitai")
    ksy_path = a.ksy or os.path.join(kdir, "recordio_v4.ksy")
    vlq_path = a.vlq_ksy or os.path.join(kdir, "vlq_base128_le.ksy")
    go_path = a.go or os.path.join(kdir, "gokaitai", "recordio_v4.go")
    vlq_go_path = a.vlq_go or os.path.join(kdir, "gokaitai", "vlq_base128_le.go")
    try:
        ksy = load_ksy(ksy_path)
        vlq = load_ksy(vlq_path)
        sch = extract_schema(ksy, vlq)
        facts = go_facts(open(go_path, encoding="utf-8").read(), open(vlq_go_path, encoding="utf-8").read(), ksy)
        rel = lambda p: os.path.relpath(p, a.repo) if os.path.abspath(p).startswith(os.path.abspath(a.repo) + os.sep) else os.path.basename(p) + " (copy)"
        text = render(sch, facts, [rel(ksy_path), rel(vlq_path), rel(go_path), rel(vlq_go_path)])
    except (KsyError, KeyError, OSError, TypeError) as e:
        print(f"ksy2lean: FAILED: {type(e).__name__}: {e}", file=sys.stderr)
        return 2
    if a.stdout:
        sys.stdout.write(text)
    else:
        old = None
        if os.path.exists(a.out):
            old = open(a.out, encoding="utf-8").read()
        if old != text:
            tmp = a.out + ".tmp"
            with open(tmp, "w", encoding="utf-8") as fh:
                fh.write(text)
            os.replace(tmp, a.out)
            print(f"ksy2lean: wrote {a.out}")
        else:
            print(f"ksy2lean: {a.out} unchanged")
    diffs = compare_go(sch, facts)
    if diffs:
        print("ksy2lean: the checked-in Go reader DIVERGES from the .ksy:", file=sys.stderr)
        for d in diffs:
            print("  - " + d, file=sys.stderr)
        if not a.no_go_check:
            return 3
    return 0


if __name__ == "__main__":
    sys.exit(main())
