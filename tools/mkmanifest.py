#!/usr/bin/env python3
"""writes /verif/MANIFEST.json from tools/props.py (+ the not_applicable list below)"""
import json, os, sys
ROOT = os.path.dirname(os.path.dirname(os.path.abspath(__file__)))
sys.path.insert(0, os.path.join(ROOT, "tools"))
from props import PROPS
try:
    from props import NOT_APPLICABLE
except ImportError:
    NOT_APPLICABLE = {}
all_ids = [json.loads(l)["id"] for l in open(os.path.join(ROOT, "properties.jsonl"))]
checks = []
for pid in all_ids:
    if pid not in PROPS:
        continue
    c = PROPS[pid]
    checks.append({
        "property_id": pid,
        "quick_cmd": f"./check {pid} --tier quick",
        "thorough_cmd": f"./check {pid} --tier thorough",
        "evidence_file": f"/verif/evidence/{pid}.json",
        "replay_cmd_template": f"./check {pid} --replay {{path}}",
        "engine": "lean4+correspondence",
        "level_claimed": {"category": c.get("level", "proof"), "text": c["text"], "design_ref": c.get("design_ref", "")},
        "level_note": c["note"],
        "technique": c["technique"],
    })
na = [{"property_id": pid, "reason": NOT_APPLICABLE.get(pid, "not yet covered by the Lean model in this build; see DESIGN.md")}
      for pid in all_ids if pid not in PROPS]
m = {
    "version": 1,
    "setup_cmd": "./setup.sh",
    "hooks": {
        "guard": "verif",
        "enable": "go build -tags verif (the harness module under /verif/harness replaces the module path with /repo)",
        "baseline_off_cmd": "cd /repo && go test -vet=off -count=1 -timeout 25m ./...",
        "source_commits": json.load(open(os.path.join(ROOT, "tools", "hook_commits.json"))) if os.path.exists(os.path.join(ROOT, "tools", "hook_commits.json")) else [],
        "add_only": True,
    },
    "engines": [{"name": "lean4+correspondence", "path": "/verif/check", "serves_properties": [c["property_id"] for c in checks],
                 "kind_free_text": "Lean 4 theorems over an executable model (lean/), tied to the Go source by regenerated facts and a differential harness (harness/)"}],
    "checks": checks,
    "notes": "see DESIGN.md; known findings in known_findings.json",
    "not_applicable": na,
}
json.dump(m, open(os.path.join(ROOT, "MANIFEST.json"), "w"), indent=1)
print("checks:", [c["property_id"] for c in checks], "not claimed:", [x["property_id"] for x in na])
