package main

// The walk: a forward pass over the structured control flow of one function (or function literal) that follows ONE
// resource — in acquisition mode the value a call handed out (the variables / fields of local objects / local slices that
// hold it), in release mode one owned field of the receiver — to every exit of the function.

import (
	"fmt"
	"go/ast"
	"go/token"
	"go/types"
	"sort"
	"strings"
)

type site struct {
	kind   string // direct | return | defer | deferGuarded(<cond>)
	via    string // Close | Stop | recv | close | send
	cond   string // canonical condition the site (for a deferred literal: the defer statement) stands under
	g      guard  // the same, structurally
	onErr  bool   // a deferred site guarded by `<named error result> != nil` and by nothing else
	inLoop bool
	pos    token.Pos
}

type state struct {
	pre      bool
	hold     []apath
	deferred bool // a deferred statement that releases it has been registered
	defErr   bool // … one that releases it when the function returns an error (`if err != nil { x.Close() }` on the named result)
	stored   bool // ownership has moved to state that outlives the call
	errObj   types.Object
	errVal   int // what is known about errObj: 0 nothing, 1 nil, 2 non-nil
	pend     int // error class of the function literal that has just been run in place (1 nil, 2 non-nil)
}

func (s state) key() string {
	var b strings.Builder
	fmt.Fprintf(&b, "%v|%v|%v|%v|%d|%d|", s.pre, s.deferred, s.defErr, s.stored, s.errVal, s.pend)
	if s.errObj != nil {
		fmt.Fprintf(&b, "e%d|", s.errObj.Pos())
	}
	for _, h := range s.hold {
		b.WriteString(h.key() + ",")
	}
	return b.String()
}

func (s state) holds(p apath) bool {
	for _, h := range s.hold {
		if h.equal(p) {
			return true
		}
	}
	return false
}

func (s state) with(p apath) state {
	if s.holds(p) {
		return s
	}
	n := s
	n.hold = append(append([]apath{}, s.hold...), p)
	sort.Slice(n.hold, func(i, j int) bool { return n.hold[i].key() < n.hold[j].key() })
	return n
}

type kind int

const (
	fall kind = iota
	brk
	cont
	ret
)

type exit struct {
	k   kind
	st  state
	ret *ast.ReturnStmt
}

type unreleased struct {
	early bool
	desc  step
	line  int
}

type engine struct {
	a     *analyzer
	fn    ast.Node
	rel   bool
	state bool // acquisition mode for a call that leaves resources in a longer-lived object: releases are Close() calls on (parts of) it
	def   ast.Node
	bind  []apath
	errO  types.Object
	start state // state right after the defining statement (acquisition mode)

	out       map[string]bool // closed stored returned handed leakErr leakOk
	where     []string
	sites     []site
	leakOn    []step
	leakLines []int
	leakOk    []step
	errAfter  []step
	places    []apath // fields of local objects / slots of local collections the value was put into
	unknowns  []string
	unrel     []unreleased
	preDefers []*ast.DeferStmt
	reached   bool
}

func (e *engine) unknown(why string) { e.unknowns = addUnique(e.unknowns, why) }

func (e *engine) addSite(s site) {
	for _, x := range e.sites {
		if x.pos == s.pos {
			return
		}
	}
	e.sites = append(e.sites, s)
}

func (e *engine) run() {
	_, body := funcParts(e.fn)
	st := state{pre: true}
	if e.rel {
		st = state{hold: e.bind}
	}
	for _, x := range e.block(body.List, st) {
		switch x.k {
		case fall:
			e.atExit(x.st, nil)
		case ret:
			e.atExit(x.st, x.ret)
		default:
			if !x.st.pre {
				e.unknown("break / continue outside a loop")
			}
		}
	}
	if !e.rel && !e.reached {
		e.unknown("the defining statement was not reached by the walk")
	}
}

// ---------------------------------------------------------------------------------------------------------
// exits

func (e *engine) isFinal(r *ast.ReturnStmt) bool {
	if r == nil {
		return true
	}
	_, body := funcParts(e.a.enclosingFunc(r))
	return body != nil && len(body.List) > 0 && body.List[len(body.List)-1] == ast.Stmt(r)
}

func (e *engine) isErrorReturn(st state, r *ast.ReturnStmt) bool {
	if r == nil {
		return false
	}
	fn := e.a.enclosingFunc(r)
	if !e.a.hasErrorResult(fn) {
		return false
	}
	if len(r.Results) == 0 {
		named := e.a.namedErrorResult(fn)
		return !(named != nil && named == st.errObj && st.errVal == 1)
	}
	last := r.Results[len(r.Results)-1]
	if isNil(last) {
		return false
	}
	if _, isCall := last.(*ast.CallExpr); isCall && len(r.Results) == 1 {
		if ft, _ := funcParts(fn); ft != nil && ft.Results.NumFields() > 1 {
			return false // `return f(…)`: the outcome is the callee's
		}
	}
	if o := e.a.objOf(last); o != nil && o == st.errObj && st.errVal == 1 {
		return false
	}
	return true
}

func (e *engine) line(n ast.Node) int {
	if n == nil {
		return 0
	}
	return fset.Position(n.Pos()).Line
}

func (e *engine) atExit(st state, r *ast.ReturnStmt) {
	if st.pre {
		return
	}
	if e.rel {
		if st.deferred || (st.defErr && e.isErrorReturn(st, r)) {
			return
		}
		e.unrel = append(e.unrel, unreleased{early: !e.isFinal(r), desc: e.a.exitStep(r), line: e.line(r)})
		return
	}
	if st.deferred {
		e.out["closed"] = true
		return
	}
	errRet := e.isErrorReturn(st, r)
	if st.defErr && errRet {
		e.out["closed"] = true
		return
	}
	if st.stored {
		e.out["stored"] = true
		if errRet {
			e.errAfter = addStep(e.errAfter, e.a.exitStep(r))
		}
		return
	}
	if r != nil {
		for _, x := range r.Results {
			if e.carries(x, st) {
				e.out["returned"] = true
				return
			}
		}
	}
	if errRet {
		e.out["leakErr"] = true
		e.leakOn = addStep(e.leakOn, e.a.exitStep(r))
		e.leakLines = append(e.leakLines, e.line(r))
	} else {
		e.out["leakOk"] = true
		e.leakOk = addStep(e.leakOk, e.a.exitStep(r))
	}
}

// no holder is left on a path that goes on
func (e *engine) lost(why string, at ast.Node) {
	e.out["leakOk"] = true
	pos := endPos
	if at != nil {
		pos = at.Pos()
	}
	e.leakOk = addStep(e.leakOk, step{why, pos})
}

// ---------------------------------------------------------------------------------------------------------
// what an expression does to the resource

func (e *engine) matches(p apath, st state) bool {
	for _, h := range st.hold {
		if e.rel || e.state {
			if p.hasPrefix(h) {
				return true
			}
		} else if h.hasPrefix(p) {
			return true
		}
	}
	return false
}

func (e *engine) skipPaths(st state) []apath { return st.hold }

// the value of x is (or contains) the resource
func (e *engine) carries(x ast.Expr, st state) bool {
	switch v := x.(type) {
	case *ast.ParenExpr:
		return e.carries(v.X, st)
	case *ast.UnaryExpr:
		if v.Op == token.AND {
			return e.carries(v.X, st)
		}
		return false
	case *ast.CompositeLit:
		for _, el := range v.Elts {
			if kv, ok := el.(*ast.KeyValueExpr); ok {
				el = kv.Value
			}
			if e.carries(el, st) {
				return true
			}
		}
		return false
	case *ast.CallExpr:
		if _, isRel := e.releaseCall(v, st); isRel {
			return false
		}
		if tv, ok := e.a.info.Types[v.Fun]; ok && tv.IsType() {
			// a conversion carries its operand
		} else if ok && tv.IsBuiltin() {
			if !e.a.isBuiltin(v, "append") {
				return false
			}
		} else if e.a.cn.pureCall(v) {
			return false // formatting, logging, error wrapping …: decided by WHAT is called (canon.pureCall)
		}
		for _, arg := range v.Args {
			if e.carries(arg, st) {
				return true
			}
		}
		return false
	case *ast.Ident, *ast.SelectorExpr, *ast.IndexExpr, *ast.StarExpr:
		p, ok := e.a.pathOf(x)
		if !ok {
			return false
		}
		for _, h := range st.hold {
			if h.hasPrefix(p) {
				return true
			}
		}
	}
	return false
}

// c is X.Close() / X.Stop() (release mode also close(X)) on the resource
func (e *engine) releaseCall(c *ast.CallExpr, st state) (string, bool) {
	if s, ok := c.Fun.(*ast.SelectorExpr); ok && len(c.Args) == 0 && (s.Sel.Name == "Close" || s.Sel.Name == "Stop") {
		if p, ok := e.a.pathOf(s.X); ok && e.matches(p, st) {
			return s.Sel.Name, true
		}
	}
	if e.rel && e.a.isBuiltin(c, "close") && len(c.Args) == 1 {
		if p, ok := e.a.pathOf(c.Args[0]); ok && e.matches(p, st) {
			return "close", true
		}
	}
	return e.helperRelease(c, st)
}

// c calls a function / method of the module whose body (one level, no further helpers) does X.Close() / X.Stop() on an
// operand of the call — `closeQuietly(x)`, `w.closeFiles()` — unconditionally (a nil check of X itself does not count as a
// condition).  Anything conditional inside a helper is NOT taken for a release: the row then shows the value as left open.
func (e *engine) helperRelease(c *ast.CallExpr, st state) (string, bool) {
	if len(st.hold) == 0 {
		return "", false
	}
	if _, isLit := unparen(c.Fun).(*ast.FuncLit); isLit {
		return "", false
	}
	h := e.a.helperOf(c)
	if h == nil {
		return "", false
	}
	bind := e.a.helperBinding(c, h)
	if len(bind) == 0 {
		return "", false
	}
	ha := e.a.helperAnalyzer(h)
	via := ""
	ast.Inspect(h.fd.Body, func(n ast.Node) bool {
		switch x := n.(type) {
		case *ast.GoStmt:
			return false
		case *ast.FuncLit:
			call, ok := ha.parents[x].(*ast.CallExpr)
			return ok && call.Fun == ast.Expr(x) // called in place or deferred
		case *ast.CallExpr:
			s, ok := x.Fun.(*ast.SelectorExpr)
			if !ok || len(x.Args) != 0 || (s.Sel.Name != "Close" && s.Sel.Name != "Stop") {
				return true
			}
			p, ok := ha.pathOf(s.X)
			if !ok {
				return true
			}
			cp, ok := bind[p.root]
			if !ok {
				return true
			}
			q := apath{cp.root, append(append([]string{}, cp.segs...), p.segs...)}
			if e.matches(q, st) && ha.condsOf(x, h.fd, []apath{p}).text == "" && via == "" {
				via = s.Sel.Name
			}
		}
		return true
	})
	return via, via != ""
}

// release events inside n (function literals are entered only when `lits` is set); stop = the node conditions are
// collected up to
func (e *engine) findReleases(n ast.Node, st state, lits bool, stop ast.Node) []site {
	var out []site
	if n == nil {
		return nil
	}
	ast.Inspect(n, func(m ast.Node) bool {
		switch x := m.(type) {
		case *ast.FuncLit:
			if ast.Node(x) == n {
				return true
			}
			return lits
		case *ast.CallExpr:
			if via, ok := e.releaseCall(x, st); ok {
				g := e.a.condsOf(x, stop, e.skipPaths(st))
				out = append(out, site{via: via, pos: x.Pos(), cond: g.text, g: g, inLoop: e.a.inLoop(x, stop)})
			}
		case *ast.UnaryExpr:
			if e.rel && x.Op == token.ARROW {
				if p, ok := e.a.pathOf(x.X); ok && e.matches(p, st) {
					g := e.a.condsOf(x, stop, e.skipPaths(st))
					out = append(out, site{via: "recv", pos: x.Pos(), cond: g.text, g: g, inLoop: e.a.inLoop(x, stop)})
				}
			}
		case *ast.SendStmt:
			if e.rel {
				if p, ok := e.a.pathOf(x.Chan); ok && e.matches(p, st) {
					g := e.a.condsOf(x, stop, e.skipPaths(st))
					out = append(out, site{via: "send", pos: x.Pos(), cond: g.text, g: g, inLoop: e.a.inLoop(x, stop)})
				}
			}
		}
		return true
	})
	return out
}

// effects of evaluating the expressions under n on a live state: (state, still to be followed)
func (e *engine) effects(n ast.Node, st state, kindName string) (state, bool) {
	if n == nil || st.pre {
		return st, true
	}
	if rs := e.findReleases(n, st, false, e.fn); len(rs) > 0 {
		for _, s := range rs {
			s.kind = kindName
			e.addSite(s)
		}
		if !e.rel {
			e.out["closed"] = true
		}
		return st, false
	}
	if e.rel || st.stored {
		return st, true
	}
	alive := true
	ast.Inspect(n, func(m ast.Node) bool {
		if !alive {
			return false
		}
		if _, ok := m.(*ast.FuncLit); ok {
			return false
		}
		c, ok := m.(*ast.CallExpr)
		if !ok {
			return true
		}
		carried := false
		for _, arg := range c.Args {
			if e.carries(arg, st) {
				carried = true
			}
		}
		if !carried {
			return true
		}
		if s, ok := c.Fun.(*ast.SelectorExpr); ok {
			if p, ok := e.a.pathOf(s.X); ok && (e.a.outlives(p) || (e.a.roots[p.root] && len(p.segs) == 0)) && !closable(e.a.info.Types[c].Type) {
				// handed to a method of the receiver / of a parameter
				if sel := e.a.info.Selections[s]; sel != nil && sel.Kind() == types.MethodVal {
					st.stored = true
					e.where = addUnique(e.where, e.a.cn.callee(c))
					return false
				}
			}
		}
		if e.a.acquires(c) {
			e.out["handed"] = true
			e.where = addUnique(e.where, e.a.cn.callee(c))
			alive = false
			return false
		}
		return true
	})
	return st, alive
}

func (e *engine) deferEffects(d *ast.DeferStmt, st state) state {
	rs := e.deferSites(d, st)
	if len(rs) == 0 {
		return st
	}
	onErrOnly := e.onErrorOnly(rs)
	for _, s := range rs {
		e.addSite(s)
	}
	if onErrOnly {
		st.defErr = true
	} else {
		st.deferred = true
	}
	return st
}

// every site is guarded by `<named error result> != nil` and by nothing else (decided on the condition's structure and
// the identity of the variable, not on its text)
func (e *engine) onErrorOnly(rs []site) bool {
	for _, s := range rs {
		if !s.onErr {
			return false
		}
	}
	return len(rs) > 0
}

// the release sites of the resource inside a deferred statement (nothing is recorded)
func (e *engine) deferSites(d *ast.DeferStmt, st state) []site {
	var rs []site
	if lit, ok := d.Call.Fun.(*ast.FuncLit); ok {
		named := e.a.namedErrorResult(e.fn)
		for _, s := range e.findReleases(lit.Body, st, true, lit) {
			outer := e.a.condsOf(d, e.fn, e.skipPaths(st))
			if s.cond != "" {
				s.kind = "deferGuarded(" + s.cond + ")"
				s.onErr = e.a.guardIsNonNilOf(s.g, named)
			} else {
				s.kind = "defer"
			}
			s.cond, s.g = outer.text, outer
			s.inLoop = s.inLoop || e.a.inLoop(d, e.fn)
			rs = append(rs, s)
		}
	} else {
		for _, s := range e.findReleases(d.Call, st, false, e.fn) {
			s.kind = "defer"
			rs = append(rs, s)
		}
	}
	return rs
}

// ---------------------------------------------------------------------------------------------------------
// assignments

func plainType(t types.Type) bool {
	if t == nil {
		return true
	}
	switch x := t.Underlying().(type) {
	case *types.Basic:
		return true
	case *types.Slice:
		return plainType(x.Elem()) && !closable(x.Elem())
	case *types.Interface:
		return types.Identical(t, errorType)
	}
	return false
}

func (e *engine) assign(lhs, rhs []ast.Expr, st state, at ast.Node) (state, bool) {
	st, alive := e.effects(&ast.ExprStmt{X: &ast.CompositeLit{Elts: rhs}}, st, "direct")
	if !alive {
		return st, false
	}
	n := st
	for i, l := range lhs {
		lo := e.a.objOf(l)
		if lo != nil && lo == n.errObj {
			n.errObj, n.errVal = nil, 0
		}
		var r ast.Expr
		if len(lhs) == len(rhs) {
			r = rhs[i]
		}
		lp, lok := e.a.pathOf(l)
		if id, ok := l.(*ast.Ident); ok && id.Name == "_" {
			lok = false
		}
		if r != nil && !n.stored && e.carries(r, st) {
			if !lok {
				continue
			}
			if tv, ok := e.a.info.Types[l]; ok && plainType(tv.Type) {
				continue
			}
			if lo != nil && plainType(lo.Type()) {
				continue
			}
			// where inside the target does it sit?
			target := lp
			if c, ok := r.(*ast.CallExpr); ok && e.a.isBuiltin(c, "append") {
				target = lp.with("[*]")
			} else if f := compositeField(r, func(x ast.Expr) bool { return e.carries(x, st) }); f != "" {
				target = lp.with(f)
			}
			if e.a.outlives(lp) {
				n.stored = true
				e.where = addUnique(e.where, e.a.placeName(lp))
				// a deferred statement registered earlier (in a block this statement belongs to) may give the stored value
				// back when — and only when — the function returns an error: `defer func() { if err != nil { X.f.Close() } }()`
				// (SSTableStreamWriter.Open since 3b4867f).  Anything else a deferred statement does with the field is ignored.
				if !e.rel && !e.state {
					probe := state{hold: []apath{lp}}
					for _, d := range e.preDefers {
						if d.Pos() < at.Pos() && contains(e.a.parents[d], at) {
							if rs := e.deferSites(d, probe); e.onErrorOnly(rs) {
								for _, s := range rs {
									e.addSite(s)
								}
								n.defErr = true
							}
						}
					}
				}
				continue
			}
			if len(target.segs) > 0 {
				e.places = append(e.places, target)
			}
			n = n.with(target)
			continue
		}
		if !lok || n.stored {
			continue
		}
		// the target is overwritten with something else: holders below it are gone
		var keep []apath
		for _, h := range n.hold {
			if !h.hasPrefix(lp) {
				keep = append(keep, h)
			}
		}
		n.hold = keep
	}
	if len(n.hold) == 0 && !n.stored && !n.deferred && !n.defErr && !e.rel {
		e.lost("overwritten", at)
		return n, false
	}
	if len(n.hold) > len(st.hold) && !n.deferred && !e.rel {
		// a deferred statement registered earlier (in a block this statement belongs to) may release the new holder
		for _, d := range e.preDefers {
			if d.Pos() < at.Pos() && contains(e.a.parents[d], at) {
				n = e.deferEffects(d, n)
			}
		}
	}
	return n, true
}

func compositeField(r ast.Expr, carries func(ast.Expr) bool) string {
	for {
		switch x := r.(type) {
		case *ast.ParenExpr:
			r = x.X
			continue
		case *ast.UnaryExpr:
			r = x.X
			continue
		}
		break
	}
	cl, ok := r.(*ast.CompositeLit)
	if !ok {
		return ""
	}
	for _, el := range cl.Elts {
		if kv, ok := el.(*ast.KeyValueExpr); ok {
			if carries(kv.Value) {
				if id, ok := kv.Key.(*ast.Ident); ok {
					return "." + id.Name
				}
				return ".*"
			}
		} else if carries(el) {
			return ".*"
		}
	}
	return ""
}

// ---------------------------------------------------------------------------------------------------------
// statements

func (e *engine) declared(s ast.Stmt) []types.Object {
	var out []types.Object
	add := func(x ast.Expr) {
		if id, ok := x.(*ast.Ident); ok {
			if o := e.a.info.Defs[id]; o != nil {
				out = append(out, o)
			}
		}
	}
	switch x := s.(type) {
	case *ast.AssignStmt:
		if x.Tok == token.DEFINE {
			for _, l := range x.Lhs {
				add(l)
			}
		}
	case *ast.DeclStmt:
		if gd, ok := x.Decl.(*ast.GenDecl); ok {
			for _, sp := range gd.Specs {
				if vs, ok := sp.(*ast.ValueSpec); ok {
					for _, n := range vs.Names {
						add(n)
					}
				}
			}
		}
	case *ast.RangeStmt:
		if x.Tok == token.DEFINE {
			add(x.Key)
			add(x.Value)
		}
	case *ast.LabeledStmt:
		return e.declared(x.Stmt)
	}
	return out
}

func (e *engine) endScope(xs []exit, objs []types.Object) []exit {
	if len(objs) == 0 || e.rel {
		return xs
	}
	var out []exit
	for _, x := range xs {
		st := x.st
		if !st.pre && x.k != ret {
			var keep []apath
			for _, h := range st.hold {
				gone := false
				for _, o := range objs {
					if h.root == o {
						gone = true
					}
				}
				if !gone {
					keep = append(keep, h)
				}
			}
			if len(keep) == 0 && len(st.hold) > 0 && !st.stored && !st.deferred {
				e.lost("its variable goes out of scope", nil)
				continue
			}
			st.hold = keep
		}
		out = append(out, exit{x.k, st, x.ret})
	}
	return out
}

func retPos(r *ast.ReturnStmt) token.Pos {
	if r == nil {
		return token.NoPos
	}
	return r.Pos()
}

func dedupe(xs []exit) []exit {
	seen := map[string]bool{}
	var out []exit
	for _, x := range xs {
		k := fmt.Sprintf("%d|%d|%s", x.k, retPos(x.ret), x.st.key())
		if !seen[k] {
			seen[k] = true
			out = append(out, x)
		}
	}
	return out
}

func (e *engine) block(list []ast.Stmt, st state) []exit {
	cur := []state{st}
	var out []exit
	var decl []types.Object
	for _, s := range list {
		var next []state
		for _, c := range cur {
			for _, x := range e.stmt(s, c) {
				if x.k == fall {
					next = append(next, x.st)
				} else {
					out = append(out, x)
				}
			}
		}
		decl = append(decl, e.declared(s)...)
		seen := map[string]bool{}
		cur = nil
		for _, n := range next {
			if k := n.key(); !seen[k] {
				seen[k] = true
				cur = append(cur, n)
			}
		}
		if len(cur) == 0 {
			break
		}
	}
	for _, c := range cur {
		out = append(out, exit{fall, c, nil})
	}
	return dedupe(e.endScope(out, decl))
}

// run a function literal that is called where it stands; its returns become fall-through states that remember whether
// the returned error was nil
func (e *engine) inline(lit *ast.FuncLit, st state) []exit {
	var out []exit
	for _, x := range e.block(lit.Body.List, st) {
		switch x.k {
		case fall:
			out = append(out, x)
		case ret:
			n := x.st
			n.pend = 0
			if x.ret != nil && e.a.enclosingFunc(x.ret) == ast.Node(lit) {
				if e.a.hasErrorResult(lit) && len(x.ret.Results) > 0 {
					if e.isErrorReturn(x.st, x.ret) {
						n.pend = 2
					} else {
						n.pend = 1
					}
				}
				out = append(out, exit{fall, n, nil})
			} else {
				out = append(out, x)
			}
		default:
			if !x.st.pre {
				e.unknown("break / continue leaves a function literal")
			}
		}
	}
	return out
}

func (e *engine) afterDef(st state) state {
	n := state{hold: e.bind, errObj: e.errO}
	if e.errO != nil {
		n.errVal = 1
	}
	n.stored = e.start.stored
	for _, d := range e.preDefers {
		if contains(e.a.parents[d], e.def) {
			n = e.deferEffects(d, n)
		}
	}
	return n
}

func (e *engine) stmt(s ast.Stmt, st state) []exit {
	if s == nil {
		return []exit{{fall, st, nil}}
	}
	if st.pre {
		if d, ok := s.(*ast.DeferStmt); ok {
			e.preDefers = append(e.preDefers, d)
		}
		if !contains(s, e.def) {
			return []exit{{fall, st, nil}}
		}
		if ast.Node(s) == e.def {
			e.reached = true
			return []exit{{fall, e.afterDef(st), nil}}
		}
	}
	switch x := s.(type) {
	case *ast.ExprStmt:
		if c, ok := x.X.(*ast.CallExpr); ok && e.a.isTerminator(c) {
			return nil
		}
		if lit := iife(x.X); lit != nil {
			return e.inline(lit, st)
		}
		n, alive := e.effects(x.X, st, "direct")
		if !alive {
			return nil
		}
		return []exit{{fall, n, nil}}
	case *ast.SendStmt:
		n, alive := e.effects(x, st, "direct")
		if !alive {
			return nil
		}
		return []exit{{fall, n, nil}}
	case *ast.AssignStmt:
		if len(x.Rhs) == 1 {
			if lit := iife(x.Rhs[0]); lit != nil {
				var out []exit
				for _, i := range e.inline(lit, st) {
					if i.k != fall {
						out = append(out, i)
						continue
					}
					n := i.st
					if !n.pre && len(x.Lhs) > 0 {
						if o := e.a.objOf(x.Lhs[len(x.Lhs)-1]); o != nil && types.Identical(o.Type(), errorType) {
							n.errObj, n.errVal = o, n.pend
						}
					}
					n.pend = 0
					out = append(out, exit{fall, n, nil})
				}
				return out
			}
		}
		if st.pre {
			return []exit{{fall, st, nil}}
		}
		n, alive := e.assign(x.Lhs, x.Rhs, st, x)
		if !alive {
			return nil
		}
		return []exit{{fall, n, nil}}
	case *ast.DeclStmt:
		cur := st
		if gd, ok := x.Decl.(*ast.GenDecl); ok && !st.pre {
			for _, sp := range gd.Specs {
				vs, ok := sp.(*ast.ValueSpec)
				if !ok || len(vs.Values) == 0 {
					continue
				}
				var lhs []ast.Expr
				for _, n := range vs.Names {
					lhs = append(lhs, n)
				}
				n, alive := e.assign(lhs, vs.Values, cur, x)
				if !alive {
					return nil
				}
				cur = n
			}
		}
		return []exit{{fall, cur, nil}}
	case *ast.IncDecStmt, *ast.EmptyStmt:
		return []exit{{fall, st, nil}}
	case *ast.GoStmt:
		if !st.pre && !e.rel && !st.stored {
			for _, arg := range x.Call.Args {
				if e.carries(arg, st) {
					e.unknown("handed to a goroutine")
				}
			}
		}
		return []exit{{fall, st, nil}}
	case *ast.DeferStmt:
		if st.pre {
			return []exit{{fall, st, nil}}
		}
		known := false
		for _, d := range e.preDefers {
			known = known || d == x
		}
		if !known {
			e.preDefers = append(e.preDefers, x)
		}
		return []exit{{fall, e.deferEffects(x, st), nil}}
	case *ast.ReturnStmt:
		if len(x.Results) == 1 {
			if lit := iife(x.Results[0]); lit != nil {
				var out []exit
				for _, i := range e.block(lit.Body.List, st) {
					if i.k == fall {
						i.k = ret
					}
					out = append(out, i)
				}
				return out
			}
		}
		if st.pre {
			return nil
		}
		n, alive := e.effects(x, st, "return")
		if !alive {
			return nil
		}
		return []exit{{ret, n, x}}
	case *ast.BranchStmt:
		if x.Label == nil && x.Tok == token.BREAK {
			return []exit{{brk, st, nil}}
		}
		if x.Label == nil && x.Tok == token.CONTINUE {
			return []exit{{cont, st, nil}}
		}
		if x.Tok == token.CONTINUE || x.Tok == token.BREAK {
			// a labelled branch: treated like the plain one of the innermost loop (good enough for `continue outer`)
			if x.Tok == token.BREAK {
				return []exit{{brk, st, nil}}
			}
			return []exit{{cont, st, nil}}
		}
		if !st.pre {
			e.unknown("goto / fallthrough while the resource is live")
		}
		return nil
	case *ast.BlockStmt:
		return e.block(x.List, st)
	case *ast.LabeledStmt:
		return e.stmt(x.Stmt, st)
	case *ast.IfStmt:
		var out []exit
		for _, i := range e.stmt(x.Init, st) {
			if i.k != fall {
				out = append(out, i)
				continue
			}
			cs, alive := e.effects(x.Cond, i.st, "direct")
			if !alive {
				continue
			}
			ts, fs := e.refine(x.Cond, cs)
			for _, t := range ts {
				out = append(out, e.block(x.Body.List, t)...)
			}
			for _, f := range fs {
				if x.Else != nil {
					out = append(out, e.stmt(x.Else, f)...)
				} else {
					out = append(out, exit{fall, f, nil})
				}
			}
		}
		if x.Init != nil {
			out = e.endScope(out, e.declared(x.Init))
		}
		return dedupe(out)
	case *ast.ForStmt:
		var out []exit
		var work []state
		for _, i := range e.stmt(x.Init, st) {
			if i.k == fall {
				work = append(work, i.st)
			} else {
				out = append(out, i)
			}
		}
		seen := map[string]bool{}
		for len(work) > 0 {
			c := work[len(work)-1]
			work = work[:len(work)-1]
			if seen[c.key()] {
				continue
			}
			seen[c.key()] = true
			ts, fs := []state{c}, []state(nil)
			if x.Cond != nil {
				ts, fs = e.refine(x.Cond, c)
			}
			for _, f := range fs {
				out = append(out, exit{fall, f, nil})
			}
			for _, t := range ts {
				for _, b := range e.block(x.Body.List, t) {
					switch b.k {
					case brk:
						out = append(out, exit{fall, b.st, nil})
					case ret:
						out = append(out, b)
					default:
						for _, p := range e.stmt(x.Post, b.st) {
							work = append(work, p.st)
						}
					}
				}
			}
		}
		if x.Init != nil {
			out = e.endScope(out, e.declared(x.Init))
		}
		return dedupe(out)
	case *ast.RangeStmt:
		var out []exit
		work := []state{st}
		seen := map[string]bool{}
		decl := e.declared(x)
		// release mode: a loop over the owned collection itself releases it even when it is empty
		overOwn := false
		if e.rel && !st.pre {
			if p, ok := e.a.pathOf(x.X); ok && e.matches(p, st) {
				overOwn = true
			}
		}
		first := true
		for len(work) > 0 {
			c := work[len(work)-1]
			work = work[:len(work)-1]
			if seen[c.key()] {
				continue
			}
			seen[c.key()] = true
			if !(overOwn && first) {
				out = append(out, exit{fall, c, nil})
			}
			first = false
			for _, b := range e.block(x.Body.List, c) {
				switch b.k {
				case brk:
					out = append(out, exit{fall, b.st, nil})
				case ret:
					out = append(out, b)
				default:
					work = append(work, b.st)
				}
			}
		}
		return dedupe(e.endScope(out, decl))
	case *ast.SwitchStmt:
		return e.clauses(x.Init, x.Body, st)
	case *ast.TypeSwitchStmt:
		return e.clauses(x.Init, x.Body, st)
	case *ast.SelectStmt:
		return e.clauses(nil, x.Body, st)
	}
	if !st.pre {
		e.unknown(fmt.Sprintf("statement %T while the resource is live", s))
	}
	return nil
}

func (e *engine) clauses(init ast.Stmt, body *ast.BlockStmt, st state) []exit {
	var out []exit
	var decl []types.Object
	if init != nil {
		decl = append(decl, e.declared(init)...)
	}
	for _, i := range e.stmt(init, st) {
		if i.k != fall {
			out = append(out, i)
			continue
		}
		hasDefault := false
		for _, c := range body.List {
			var list []ast.Stmt
			var comm ast.Stmt
			switch cc := c.(type) {
			case *ast.CaseClause:
				list = cc.Body
				if cc.List == nil {
					hasDefault = true
				}
			case *ast.CommClause:
				list = cc.Body
				comm = cc.Comm
				hasDefault = true
			}
			for _, cs := range e.stmt(comm, i.st) {
				if cs.k != fall {
					out = append(out, cs)
					continue
				}
				var cdecl []types.Object
				if comm != nil {
					cdecl = e.declared(comm)
				}
				for _, b := range e.endScope(e.block(list, cs.st), cdecl) {
					if b.k == brk {
						b.k = fall
					}
					out = append(out, b)
				}
			}
		}
		if !hasDefault {
			out = append(out, exit{fall, i.st, nil})
		}
	}
	return dedupe(e.endScope(out, decl))
}

// the states in which the condition is true / false
func (e *engine) refine(c ast.Expr, st state) (ts, fs []state) {
	if st.pre {
		return []state{st}, []state{st}
	}
	switch x := c.(type) {
	case *ast.ParenExpr:
		return e.refine(x.X, st)
	case *ast.UnaryExpr:
		if x.Op == token.NOT {
			ts, fs = e.refine(x.X, st)
			return fs, ts
		}
	case *ast.BinaryExpr:
		switch x.Op {
		case token.LAND:
			at, af := e.refine(x.X, st)
			fs = append(fs, af...)
			for _, a := range at {
				bt, bf := e.refine(x.Y, a)
				ts = append(ts, bt...)
				fs = append(fs, bf...)
			}
			return ts, fs
		case token.LOR:
			at, af := e.refine(x.X, st)
			ts = append(ts, at...)
			for _, a := range af {
				bt, bf := e.refine(x.Y, a)
				ts = append(ts, bt...)
				fs = append(fs, bf...)
			}
			return ts, fs
		case token.EQL, token.NEQ:
			var other ast.Expr
			if isNil(x.Y) {
				other = x.X
			} else if isNil(x.X) {
				other = x.Y
			}
			if other == nil {
				break
			}
			isNilKnown := 0 // 1: other is nil, 2: other is not nil
			if o := e.a.objOf(other); o != nil && o == st.errObj && st.errVal != 0 {
				isNilKnown = st.errVal
			} else if p, ok := e.a.pathOf(other); ok {
				for _, h := range st.hold {
					if h.hasPrefix(p) {
						isNilKnown = 2
					}
				}
			}
			if isNilKnown == 0 {
				// learn about the error variable
				if o := e.a.objOf(other); o != nil && o == st.errObj {
					t, f := st, st
					t.errVal, f.errVal = 1, 2
					if x.Op == token.NEQ {
						t, f = f, t
					}
					return []state{t}, []state{f}
				}
				break
			}
			eq := isNilKnown == 1
			if x.Op == token.NEQ {
				eq = !eq
			}
			if eq {
				return []state{st}, nil
			}
			return nil, []state{st}
		}
	}
	return []state{st}, []state{st}
}
