package main

import (
	"fmt"
	"go/ast"
	"go/token"
	"go/types"
	"sort"
	"strings"
)

type acqRow struct {
	fn, callee, kind, bound string
	idx, line               int
	disp, arg               string // closedOnAllPaths storedIn returned handedTo joinedVia leakedOnErrorPath neverClosed unknown
	sites                   []string
	leakOn                  []string
	leakLines               []int
	errAfterStore           []string
	cond                    string
	inLoop                  bool
	stores                  bool // ownership moves into longer-lived state on some path
	pos                     token.Pos
}

type relRow struct {
	fn, field, ftype string
	idx              int
	disp, arg        string // closedUnconditionally closedInBranch promoted notClosed
	via              []string
	skippable        bool
	skippedBy        []string
	inLoop, inDefer  bool
	order            int
	firstPos         token.Pos
}

func siteStrings(ss []site) []string {
	sort.Slice(ss, func(i, j int) bool { return ss[i].pos < ss[j].pos })
	var out []string
	for _, s := range ss {
		out = append(out, s.kind)
	}
	return out
}

// ---------------------------------------------------------------------------------------------------------
// acquisitions

func (a *analyzer) acquisitions(storing map[string]bool) []acqRow {
	var rows []acqRow
	var nodes []ast.Node
	ast.Inspect(a.fd.Body, func(n ast.Node) bool {
		switch x := n.(type) {
		case *ast.CallExpr:
			if _, isGo := a.parents[x].(*ast.GoStmt); isGo {
				return true
			}
			if a.acquires(x) || a.storingCall(x, storing) != "" {
				nodes = append(nodes, x)
			}
		case *ast.GoStmt:
			nodes = append(nodes, x)
		}
		return true
	})
	sort.SliceStable(nodes, func(i, j int) bool { return nodes[i].Pos() < nodes[j].Pos() })
	for _, n := range nodes {
		var r acqRow
		switch x := n.(type) {
		case *ast.GoStmt:
			r = a.goroutine(x)
		case *ast.CallExpr:
			if a.acquires(x) {
				r = a.acquisition(x)
			} else {
				r = a.stateCall(x, a.storingCall(x, storing))
			}
		}
		r.fn = a.name
		r.line = fset.Position(n.Pos()).Line
		r.pos = n.Pos()
		stop := a.enclosingFunc(n)
		r.cond = a.condsOf(n, ast.Node(a.fd), nil).text
		r.inLoop = a.inLoop(n, stop)
		rows = append(rows, r)
	}
	for i := range rows {
		rows[i].idx = i
	}
	return rows
}

// a call of a listed function that leaves acquired resources in the receiver / a parameter of THIS function
func (a *analyzer) storingCall(c *ast.CallExpr, storing map[string]bool) string {
	if storing == nil {
		return ""
	}
	_, obj := a.qualified(c.Fun)
	if obj == nil {
		return ""
	}
	name, ok := a.fnNames[obj]
	if !ok || !storing[name] {
		return ""
	}
	// the state it is left in must outlive this function
	if s, ok := c.Fun.(*ast.SelectorExpr); ok {
		if p, ok := a.pathOf(s.X); ok && a.roots[p.root] {
			return name
		}
	}
	for _, arg := range c.Args {
		if p, ok := a.pathOf(arg); ok && a.roots[p.root] {
			if _, isPtr := p.root.Type().Underlying().(*types.Pointer); isPtr {
				return name
			}
		}
	}
	return ""
}

func (a *analyzer) stateCall(c *ast.CallExpr, name string) acqRow {
	r := acqRow{callee: a.cn.callee(c), kind: "state", bound: ""}
	def := a.stmtOf(c)
	if def == nil {
		r.disp, r.arg = "unknown", "the call is not a statement of its own"
		return r
	}
	fn := a.enclosingFunc(c)
	e := &engine{a: a, fn: fn, def: def, state: true, out: map[string]bool{}}
	e.start.stored = true
	e.where = []string{"via " + name}
	// a Close() on the object the state was left in (direct or deferred) takes it back
	if s, ok := c.Fun.(*ast.SelectorExpr); ok {
		if p, ok := a.pathOf(s.X); ok {
			e.bind = []apath{p}
		}
	}
	e.run()
	a.verdict(e, &r)
	return r
}

func (a *analyzer) goroutine(g *ast.GoStmt) acqRow {
	r := acqRow{callee: a.cn.callee(g.Call), kind: "goroutine"}
	// the function the goroutine runs: a literal, or a function / method of the module (its declaration is looked up by the
	// identity of the called object, so its own name, receiver and parameter names do not matter)
	ga := a
	var body *ast.BlockStmt
	if lit, ok := unparen(g.Call.Fun).(*ast.FuncLit); ok {
		body = lit.Body
	} else if h := a.helperOf(g.Call); h != nil {
		ga = a.helperAnalyzer(h)
		body = h.fd.Body
	} else if f := a.cn.calledFunc(g.Call); f != nil && a.lookup != nil {
		if h := a.lookup(f); h != nil && h.fd == a.fd { // the function starts itself
			body = h.fd.Body
		}
	}
	if body == nil {
		r.disp, r.arg = "unknown", "the goroutine's function is not a function of this module"
		return r
	}
	// its completion signal: a deferred send on a channel (sites: "defer") …
	ch := ""
	chanName := func(snd *ast.SendStmt) string { return ga.placeOf(snd.Chan) }
	for _, s := range body.List {
		d, ok := s.(*ast.DeferStmt)
		if !ok {
			continue
		}
		ast.Inspect(d, func(n ast.Node) bool {
			if snd, ok := n.(*ast.SendStmt); ok && ch == "" {
				ch = chanName(snd)
			}
			return true
		})
	}
	if ch != "" {
		r.disp, r.arg, r.sites = "joinedVia", ch, []string{"defer"}
		return r
	}
	// … or (6dd9211) a plain send on one and the same channel as the LAST statement before EVERY normal exit of the function:
	// before each `return` of the function itself (not of a nested literal) and at the end of its body (sites: one "direct"
	// per exit).  A path that ends in log.Panicf & co. is not a normal exit: the process stops there.  Statements between
	// the send and the exit that only call pure / logging functions (canon.pureCall) do not count.
	why := ""
	var sites []string
	signalBefore := func(list []ast.Stmt, i int, what string) {
		for i > 0 {
			if es, ok := list[i-1].(*ast.ExprStmt); ok {
				if c, ok := unparen(es.X).(*ast.CallExpr); ok && ga.cn.pureCall(c) && !ga.isTerminator(c) {
					i--
					continue
				}
			}
			break
		}
		if i > 0 {
			if snd, ok := list[i-1].(*ast.SendStmt); ok {
				c := chanName(snd)
				if ch == "" || ch == c {
					ch = c
					sites = append(sites, "direct")
					return
				}
				why = "the exits of the goroutine's function signal on different channels"
				return
			}
		}
		if why == "" {
			why = "no completion signal before " + what + " of the goroutine's function"
		}
	}
	var walk func(list []ast.Stmt)
	walk = func(list []ast.Stmt) {
		for i, s := range list {
			switch x := s.(type) {
			case *ast.ReturnStmt:
				signalBefore(list, i, "a return")
			case *ast.BlockStmt:
				walk(x.List)
			case *ast.IfStmt:
				walk(x.Body.List)
				for el := x.Else; el != nil; {
					switch y := el.(type) {
					case *ast.BlockStmt:
						walk(y.List)
						el = nil
					case *ast.IfStmt:
						walk(y.Body.List)
						el = y.Else
					default:
						el = nil
					}
				}
			case *ast.ForStmt:
				walk(x.Body.List)
			case *ast.RangeStmt:
				walk(x.Body.List)
			case *ast.SwitchStmt:
				for _, c := range x.Body.List {
					walk(c.(*ast.CaseClause).Body)
				}
			case *ast.TypeSwitchStmt:
				for _, c := range x.Body.List {
					walk(c.(*ast.CaseClause).Body)
				}
			case *ast.SelectStmt:
				for _, c := range x.Body.List {
					walk(c.(*ast.CommClause).Body)
				}
			case *ast.LabeledStmt:
				walk([]ast.Stmt{x.Stmt})
			}
		}
	}
	walk(body.List)
	// the end of the body, unless the last statement leaves the function anyway
	endsElsewhere := false
	if n := len(body.List); n > 0 {
		switch x := body.List[n-1].(type) {
		case *ast.ReturnStmt:
			endsElsewhere = true
		case *ast.ExprStmt:
			if c, ok := x.X.(*ast.CallExpr); ok && ga.isTerminator(c) {
				endsElsewhere = true
			}
		}
	}
	if !endsElsewhere {
		signalBefore(body.List, len(body.List), "the end")
	}
	if why != "" || ch == "" {
		if why == "" {
			why = "no completion signal in the goroutine's function"
		}
		r.disp, r.arg = "unknown", why
		return r
	}
	r.disp, r.arg, r.sites = "joinedVia", ch, sites
	return r
}

// the statement (assignment, declaration, expression statement, return) a call belongs to
func (a *analyzer) stmtOf(n ast.Node) ast.Node {
	for p := a.parents[n]; p != nil; p = a.parents[p] {
		switch p.(type) {
		case *ast.AssignStmt, *ast.DeclStmt, *ast.ExprStmt, *ast.ReturnStmt, *ast.DeferStmt, *ast.GoStmt:
			return p
		case *ast.FuncLit, *ast.FuncDecl, *ast.BlockStmt:
			return nil
		}
	}
	return nil
}

func (a *analyzer) acquisition(c *ast.CallExpr) acqRow {
	r := acqRow{callee: a.cn.callee(c), kind: a.kindOf(c)}
	if r.kind == "object" {
		for _, arg := range c.Args {
			if tv, ok := a.info.Types[arg]; ok && tv.Type != nil && !tv.IsType() && a.owned(tv.Type, 2) {
				r.kind = "wrapper" // built around resources that exist already
			}
		}
	}
	unknown := func(why string) acqRow { r.disp, r.arg = "unknown", why; return r }
	// climb through parentheses, &, composite literals (the literal is then the value)
	var top ast.Expr = c
	wrapped := false
	for {
		p := a.parents[top]
		switch x := p.(type) {
		case *ast.ParenExpr:
			top = x
			continue
		case *ast.UnaryExpr:
			if x.Op == token.AND {
				top = x
				continue
			}
		case *ast.KeyValueExpr:
			if cl, ok := a.parents[x].(*ast.CompositeLit); ok {
				top, wrapped = cl, true
				continue
			}
		case *ast.CompositeLit:
			top, wrapped = x, true
			continue
		}
		break
	}
	// the function whose paths are followed: the innermost one — but a function literal that is CALLED WHERE IT STANDS (as a
	// statement, as the single right-hand side of an assignment, as the single result of a return) is a part of the function
	// around it (the engine walks into it: `inline`), so a value acquired inside such a literal and handed back to the
	// enclosing function is followed there (expand.go turns single-use private helpers into this form)
	fn := a.enclosingFunc(c)
	for {
		lit, ok := fn.(*ast.FuncLit)
		if !ok {
			break
		}
		call, ok := a.parents[lit].(*ast.CallExpr)
		if !ok || call.Fun != ast.Expr(lit) {
			break
		}
		inPlace := false
		switch p := a.parents[call].(type) {
		case *ast.ExprStmt:
			inPlace = true
		case *ast.AssignStmt:
			inPlace = len(p.Rhs) == 1
		case *ast.ReturnStmt:
			inPlace = len(p.Results) == 1
		}
		if !inPlace {
			break
		}
		fn = a.enclosingFunc(call)
	}
	var lhs []ast.Expr
	var def ast.Node
	switch p := a.parents[top].(type) {
	case *ast.ReturnStmt:
		r.disp = "returned"
		return r
	case *ast.ExprStmt:
		r.disp = "neverClosed"
		r.leakOn = []string{"the result is dropped"}
		return r
	case *ast.AssignStmt:
		def = p
		if len(p.Lhs) == len(p.Rhs) {
			for i, x := range p.Rhs {
				if x == top {
					lhs = []ast.Expr{p.Lhs[i]}
				}
			}
		} else if len(p.Rhs) == 1 {
			lhs = p.Lhs
		}
	case *ast.ValueSpec:
		def = p
		if gd, ok := a.parents[p].(*ast.GenDecl); ok {
			if ds, ok := a.parents[gd].(*ast.DeclStmt); ok {
				def = ds
			}
		}
		if len(p.Names) == len(p.Values) {
			for i, x := range p.Values {
				if x == top {
					lhs = []ast.Expr{p.Names[i]}
				}
			}
		} else if len(p.Values) == 1 {
			for _, n := range p.Names {
				lhs = append(lhs, n)
			}
		}
	case *ast.CallExpr:
		if p.Fun != top {
			if a.acquires(p) {
				r.disp, r.arg = "handedTo", a.cn.callee(p)
				return r
			}
			if a.isBuiltin(p, "append") {
				return unknown("appended where it is created")
			}
			if s, ok := p.Fun.(*ast.SelectorExpr); ok {
				if q, ok := a.pathOf(s.X); ok && a.roots[q.root] {
					r.disp, r.arg = "storedIn", a.cn.callee(p)
					return r
				}
			}
			// an argument of some other call: follow that call's statement
			if rs, ok := a.parents[p].(*ast.ReturnStmt); ok && rs != nil {
				r.disp = "returned"
				return r
			}
		}
		return unknown(fmt.Sprintf("the value is used in a call of %s", a.cn.callee(p)))
	default:
		return unknown(fmt.Sprintf("the value is used in a %T", p))
	}
	if len(lhs) == 0 {
		return unknown("cannot tell which variable receives the value")
	}
	e := &engine{a: a, fn: fn, def: def, out: map[string]bool{}}
	var bound []string
	for _, l := range lhs {
		if id, ok := l.(*ast.Ident); ok && id.Name == "_" {
			if tv, ok := a.info.Types[l]; ok && closable(tv.Type) {
				r.disp = "neverClosed"
				r.leakOn = []string{"assigned to _"}
				return r
			}
			continue
		}
		var t types.Type
		if o := a.objOf(l); o != nil {
			t = o.Type()
		} else if tv, ok := a.info.Types[l]; ok {
			t = tv.Type
		}
		if types.Identical(t, errorType) {
			if o := a.objOf(l); o != nil && len(lhs) > 1 {
				e.errO = o
			}
			continue
		}
		if !wrapped && !closable(t) {
			continue
		}
		p, ok := a.pathOf(l)
		if !ok {
			return unknown("the value is stored in " + a.cn.expr(l))
		}
		bound = append(bound, a.placeName(p))
		if a.outlives(p) {
			e.start.stored = true
			e.where = addUnique(e.where, a.placeName(p))
			continue
		}
		e.bind = append(e.bind, p)
	}
	r.bound = strings.Join(bound, ", ")
	if len(e.bind) == 0 && !e.start.stored {
		// closable result assigned to `_` among several results, or not bound at all
		r.disp = "neverClosed"
		r.leakOn = []string{"no variable receives the value"}
		return r
	}
	sort.Slice(e.bind, func(i, j int) bool { return e.bind[i].root.Pos() < e.bind[j].root.Pos() })
	if wrapped && len(lhs) == 1 {
		// the value sits in a field of the object built around it
		if f := compositeField(top, func(x ast.Expr) bool { return unparen(x) == ast.Expr(c) }); f != "" && len(e.bind) == 1 {
			e.places = append(e.places, e.bind[0].with(f))
		}
	}
	e.run()
	// a local that only carries the value to a field of a local object (slot of a local collection) is named by that place
	if len(e.places) > 0 {
		var ps []string
		for _, p := range e.places {
			ps = addUnique(ps, a.placeName(p))
		}
		sort.Strings(ps)
		r.bound = strings.Join(ps, ", ")
	}
	a.verdict(e, &r)
	return r
}

func (a *analyzer) verdict(e *engine, r *acqRow) {
	r.sites = siteStrings(e.sites)
	r.leakOn = stepTexts(e.leakOn)
	r.stores = e.out["stored"]
	sort.Ints(e.leakLines)
	r.leakLines = nil
	for i, l := range e.leakLines {
		if i == 0 || l != e.leakLines[i-1] {
			r.leakLines = append(r.leakLines, l)
		}
	}
	r.errAfterStore = stepTexts(e.errAfter)
	switch {
	case len(e.unknowns) > 0:
		sort.Strings(e.unknowns)
		r.disp, r.arg = "unknown", strings.Join(e.unknowns, "; ")
	case e.out["leakOk"]:
		r.disp = "neverClosed"
		r.leakOn = append(stepTexts(e.leakOk), stepTexts(e.leakOn)...)
	case e.out["leakErr"]:
		r.disp = "leakedOnErrorPath"
	case e.out["returned"]:
		r.disp = "returned"
	case e.out["stored"]:
		r.disp, r.arg = "storedIn", strings.Join(e.where, ", ")
	case e.out["handed"]:
		r.disp, r.arg = "handedTo", strings.Join(e.where, ", ")
	case e.out["closed"]:
		r.disp = "closedOnAllPaths"
	default:
		r.disp, r.arg = "unknown", "no path from the acquisition to an exit was found"
	}
	if r.disp != "storedIn" && e.out["stored"] && len(e.where) > 0 {
		// stored on some paths: keep the place visible
		r.bound = strings.TrimPrefix(r.bound+" -> "+strings.Join(e.where, ", "), " -> ")
	}
}

// ---------------------------------------------------------------------------------------------------------
// releases: what a Close-like method does with every owned field of its receiver

func (a *analyzer) recvStruct() (types.Object, *types.Struct) {
	if a.fd.Recv == nil || len(a.fd.Recv.List) == 0 || len(a.fd.Recv.List[0].Names) == 0 {
		return nil, nil
	}
	o := a.info.Defs[a.fd.Recv.List[0].Names[0]]
	if o == nil {
		return nil, nil
	}
	t := o.Type()
	if p, ok := t.(*types.Pointer); ok {
		t = p.Elem()
	}
	st, _ := t.Underlying().(*types.Struct)
	return o, st
}

func (a *analyzer) releases() []relRow {
	recv, st := a.recvStruct()
	if recv == nil || st == nil {
		return nil
	}
	var rows []relRow
	type ev struct {
		pos token.Pos
		row int
	}
	var evs []ev
	for i := 0; i < st.NumFields(); i++ {
		f := st.Field(i)
		if !a.owned(f.Type(), 0) {
			continue
		}
		field := apath{root: recv, segs: []string{"." + f.Name()}}
		e := &engine{a: a, fn: a.fd, rel: true, bind: []apath{field}, out: map[string]bool{}}
		e.run()
		r := relRow{fn: a.name, field: f.Name(), ftype: typeString(f.Type())}
		sort.Slice(e.sites, func(i, j int) bool { return e.sites[i].pos < e.sites[j].pos })
		conds := []string{}
		uncond := false
		for _, s := range e.sites {
			v := s.via
			if strings.HasPrefix(s.kind, "defer") {
				r.inDefer = true
				v = s.kind + " " + v
			}
			r.via = append(r.via, v)
			r.inLoop = r.inLoop || s.inLoop
			c := s.cond
			if strings.HasPrefix(s.kind, "deferGuarded(") {
				g := strings.TrimSuffix(strings.TrimPrefix(s.kind, "deferGuarded("), ")")
				if c != "" {
					c += " && "
				}
				c += g
			}
			if c == "" {
				uncond = true
			} else {
				conds = addUnique(conds, c)
			}
		}
		var skipped []step
		for _, u := range e.unrel {
			if u.early {
				r.skippable = true
				skipped = addStep(skipped, u.desc)
			}
		}
		r.skippedBy = stepTexts(skipped)
		allEarly := true
		for _, u := range e.unrel {
			if !u.early {
				allEarly = false
			}
		}
		switch {
		case len(e.unknowns) > 0:
			r.disp, r.arg = "notClosed", "unknown: "+strings.Join(e.unknowns, "; ")
		case len(e.sites) == 0:
			r.disp = "notClosed"
			r.skippable, r.skippedBy = false, nil
		case len(e.unrel) == 0 || (allEarly && uncond):
			r.disp = "closedUnconditionally"
		default:
			r.disp, r.arg = "closedInBranch", strings.Join(conds, " | ")
		}
		if len(e.sites) > 0 {
			r.firstPos = e.sites[0].pos
			evs = append(evs, ev{e.sites[0].pos, len(rows)})
		}
		rows = append(rows, r)
	}
	sort.Slice(evs, func(i, j int) bool { return evs[i].pos < evs[j].pos })
	for k, v := range evs {
		rows[v.row].order = k + 1
	}
	for i := range rows {
		rows[i].idx = i
	}
	return rows
}
