package main

// Everything a row SAYS about the source goes through canon.go: callees, places (fields / element slots / locals by type),
// conditions, failing steps.  Nothing here prints a local identifier, a receiver name, an import alias or a position.

import (
	"go/ast"
	"go/token"
	"go/types"
	"sort"
	"strings"
)

// ---------------------------------------------------------------------------------------------------------
// places

// canonical name of an access path: the root variable by its TYPE (a package variable by its name), then the selections;
// an element slot is "[]"
func (a *analyzer) placeName(p apath) string {
	if p.root == nil {
		return "?"
	}
	var s string
	if v, ok := p.root.(*types.Var); ok && isPkgLevel(v) {
		s = a.cn.pkgName(v.Pkg()) + "." + v.Name()
	} else {
		s = a.cn.rootType(p.root.Type())
	}
	for _, seg := range p.segs {
		if seg == "[*]" {
			seg = "[]"
		}
		s += seg
	}
	return s
}

// canonical name of whatever an expression denotes as a place (falls back to the canonical expression)
func (a *analyzer) placeOf(e ast.Expr) string {
	if p, ok := a.pathOf(e); ok {
		return a.placeName(p)
	}
	return a.cn.expr(e)
}

// ---------------------------------------------------------------------------------------------------------
// conditions

// one conjunct of a guard: the expression, possibly negated
type gatom struct {
	e   ast.Expr
	neg bool
}

// what a statement stands under: the canonical text (conjuncts joined by " && ", outermost first), the conjuncts that are
// plain boolean expressions (for structural tests), and whether something else (a case clause) is part of it
type guard struct {
	text  string
	atoms []gatom
	other bool
}

func unparen(e ast.Expr) ast.Expr {
	for {
		p, ok := e.(*ast.ParenExpr)
		if !ok {
			return e
		}
		e = p.X
	}
}

// the conjuncts of (neg ? !e : e)
func conjuncts(e ast.Expr, neg bool) []gatom {
	switch x := e.(type) {
	case *ast.ParenExpr:
		return conjuncts(x.X, neg)
	case *ast.UnaryExpr:
		if x.Op == token.NOT {
			return conjuncts(x.X, !neg)
		}
	case *ast.BinaryExpr:
		if (x.Op == token.LAND && !neg) || (x.Op == token.LOR && neg) {
			return append(conjuncts(x.X, neg), conjuncts(x.Y, neg)...)
		}
	}
	return []gatom{{e, neg}}
}

// g is `X != nil` / `X == nil` (either operand order, under its polarity): X and whether g says "X is not nil"
func nilTest(g gatom) (ast.Expr, bool, bool) {
	b, ok := unparen(g.e).(*ast.BinaryExpr)
	if !ok || (b.Op != token.NEQ && b.Op != token.EQL) {
		return nil, false, false
	}
	var other ast.Expr
	if isNil(unparen(b.Y)) {
		other = unparen(b.X)
	} else if isNil(unparen(b.X)) {
		other = unparen(b.Y)
	} else {
		return nil, false, false
	}
	return other, (b.Op == token.NEQ) != g.neg, true
}

// a conjunct that only says "the followed resource (or something it sits in / that sits in it) is not nil"
func (a *analyzer) isNilGuard(g gatom, skip []apath) bool {
	other, nonNil, ok := nilTest(g)
	if !ok || !nonNil {
		return false
	}
	p, ok := a.pathOf(other)
	if !ok {
		return false
	}
	for _, s := range skip {
		if s.hasPrefix(p) || p.hasPrefix(s) {
			return true
		}
	}
	return false
}

// the guard says exactly `<obj> != nil`
func (a *analyzer) guardIsNonNilOf(g guard, obj types.Object) bool {
	if obj == nil || g.other || len(g.atoms) != 1 {
		return false
	}
	other, nonNil, ok := nilTest(g.atoms[0])
	return ok && nonNil && a.objOf(other) == obj
}

func (a *analyzer) atomText(g gatom) string {
	n := a.cn.cond(g.e)
	if g.neg {
		n = n.not()
	}
	s := n.String()
	if n.kind == "or" {
		s = "(" + s + ")"
	}
	return s
}

func (g *guard) addFront(a *analyzer, atoms []gatom, skip []apath) {
	var keep []gatom
	var texts []string
	for _, at := range atoms {
		if a.isNilGuard(at, skip) {
			continue
		}
		keep = append(keep, at)
		texts = append(texts, a.atomText(at))
	}
	if len(keep) == 0 {
		return
	}
	g.atoms = append(keep, g.atoms...)
	t := strings.Join(texts, " && ")
	if g.text != "" {
		t += " && " + g.text
	}
	g.text = t
}

func (g *guard) addFrontText(t string) {
	g.other = true
	if g.text != "" {
		t += " && " + g.text
	}
	g.text = t
}

// `if C { return }` — no init, no else, a bare return as the only statement: C
func earlyReturnCond(s ast.Stmt) ast.Expr {
	is, ok := s.(*ast.IfStmt)
	if !ok || is.Init != nil || is.Else != nil || len(is.Body.List) != 1 {
		return nil
	}
	r, ok := is.Body.List[0].(*ast.ReturnStmt)
	if !ok || len(r.Results) != 0 {
		return nil
	}
	return is.Cond
}

// the communication of a select clause
func (a *analyzer) commText(s ast.Stmt) string {
	switch x := s.(type) {
	case nil:
		return "default"
	case *ast.SendStmt:
		return "case send(" + a.cn.expr(x.Chan) + ")"
	case *ast.ExprStmt:
		if u, ok := unparen(x.X).(*ast.UnaryExpr); ok && u.Op == token.ARROW {
			return "case recv(" + a.cn.expr(u.X) + ")"
		}
	case *ast.AssignStmt:
		if len(x.Rhs) == 1 {
			if u, ok := unparen(x.Rhs[0]).(*ast.UnaryExpr); ok && u.Op == token.ARROW {
				return "case recv(" + a.cn.expr(u.X) + ")"
			}
		}
	}
	return "case ?"
}

// conditions of the enclosing if statements / case clauses between n and stop (exclusive), outermost first, in canonical
// form (canon.cond; an else branch is the negated condition, so `if X {A} else {B}` and `if !X {B} else {A}` read alike).
// Conjuncts that only say that `skip` (a path) is not nil are left out.  Inside a function literal a statement that follows
// `if C { return }` (bare return) stands under !C — the early-return spelling of `if !C { … }`.
func (a *analyzer) condsOf(n ast.Node, stop ast.Node, skip []apath) guard {
	var g guard
	child := n
	for p := a.parents[n]; p != nil && child != stop; child, p = p, a.parents[p] {
		switch x := p.(type) {
		case *ast.BlockStmt:
			if _, isLit := a.parents[x].(*ast.FuncLit); isLit {
				var early [][]gatom
				for _, s := range x.List {
					if ast.Node(s) == child {
						break
					}
					if c := earlyReturnCond(s); c != nil {
						early = append(early, conjuncts(c, true))
					}
				}
				for i := len(early) - 1; i >= 0; i-- {
					g.addFront(a, early[i], skip)
				}
			}
		case *ast.IfStmt:
			if child == ast.Node(x.Body) {
				g.addFront(a, conjuncts(x.Cond, false), skip)
			} else if x.Else != nil && child == ast.Node(x.Else) {
				g.addFront(a, conjuncts(x.Cond, true), skip)
			}
		case *ast.CaseClause:
			tagless := false
			if b, ok := a.parents[x].(*ast.BlockStmt); ok {
				if sw, ok := a.parents[b].(*ast.SwitchStmt); ok && sw.Tag == nil {
					tagless = true
				}
			}
			var cs []string
			for _, e := range x.List {
				if tagless {
					cs = append(cs, a.cn.cond(e).String())
				} else {
					cs = append(cs, a.cn.expr(e))
				}
			}
			if len(cs) == 0 {
				cs = []string{"default"}
			}
			g.addFrontText("case " + strings.Join(cs, ", "))
		case *ast.CommClause:
			g.addFrontText(a.commText(x.Comm))
		}
	}
	return g
}

// ---------------------------------------------------------------------------------------------------------
// failing steps

// the failing step of an exit: canonical text, and where that step stands in the source (only used to ORDER the steps of a
// row; never printed)
type step struct {
	text string
	pos  token.Pos
}

const endPos = token.Pos(1 << 40)

func addStep(xs []step, s step) []step {
	for _, x := range xs {
		if x.text == s.text {
			return xs
		}
	}
	return append(xs, s)
}

// texts in the order in which the steps stand in the source
func stepTexts(xs []step) []string {
	ys := append([]step{}, xs...)
	sort.SliceStable(ys, func(i, j int) bool {
		if ys[i].pos != ys[j].pos {
			return ys[i].pos < ys[j].pos
		}
		return ys[i].text < ys[j].text
	})
	var out []string
	for _, y := range ys {
		out = addUnique(out, y.text)
	}
	return out
}

// which failing step (or which condition) leads to this return: the CALL WHOSE ERROR THE RETURN REPORTS — the returned
// error expression is followed back through wrappers (fmt.Errorf("…%w", err), errors.Join) and through the error variable
// to the call that assigned it last before the return —, however the surrounding `if` is spelled; when there is no such
// call (a sentinel, a fresh error, no error at all) the canonical condition of the innermost enclosing `if`, else "end"
func (a *analyzer) exitStep(ret *ast.ReturnStmt) step {
	if ret == nil {
		return step{"end", endPos}
	}
	if s, ok := a.steps[ret]; ok {
		return s
	}
	s := a.exitStep1(ret)
	if a.steps == nil {
		a.steps = map[*ast.ReturnStmt]step{}
	}
	a.steps[ret] = s
	return s
}

func (a *analyzer) exitStep1(ret *ast.ReturnStmt) step {
	fn := a.enclosingFunc(ret)
	if a.hasErrorResult(fn) {
		if len(ret.Results) == 0 {
			if named := a.namedErrorResult(fn); named != nil {
				if s, ok := a.defBefore(named, ret, 0); ok {
					return s
				}
			}
		} else if s, ok := a.srcOfExpr(ret.Results[len(ret.Results)-1], ret, 0); ok {
			return s
		}
	}
	var child ast.Node = ret
	for p := a.parents[ret]; p != nil; child, p = p, a.parents[p] {
		switch x := p.(type) {
		case *ast.FuncLit, *ast.FuncDecl:
			return step{"end", endPos}
		case *ast.IfStmt:
			if child == ast.Node(x.Body) {
				return step{a.cn.cond(x.Cond).String(), x.Cond.Pos()}
			}
			if x.Else != nil && child == ast.Node(x.Else) {
				return step{a.cn.cond(x.Cond).not().String(), x.Cond.Pos()}
			}
		}
	}
	return step{"end", endPos}
}

// the name of a failing step: the canonical callee; for a function literal that is called where it stands, additionally
// WHICH of its own exits return an error ("func literal: !simpledb.DB.open, simpledb.DB.closed") — so that a step added to
// or removed from the literal (DB.Close: the WAL rotation no longer returns early since b2bab73) shows in the table
func (a *analyzer) stepName(c *ast.CallExpr) step {
	lit := iife(c)
	if lit == nil {
		return step{a.cn.callee(c), c.Pos()}
	}
	var descs []step
	ast.Inspect(lit.Body, func(n ast.Node) bool {
		r, ok := n.(*ast.ReturnStmt)
		if !ok || a.enclosingFunc(r) != ast.Node(lit) || len(r.Results) == 0 || isNil(r.Results[len(r.Results)-1]) {
			return true
		}
		descs = addStep(descs, a.exitStep(r))
		return true
	})
	return step{"func literal: " + strings.Join(stepTexts(descs), ", "), c.Pos()}
}

func (a *analyzer) isErrorTyped(e ast.Expr) bool {
	if tv, ok := a.info.Types[e]; ok && tv.Type != nil {
		return types.Identical(tv.Type, errorType)
	}
	if o := a.objOf(e); o != nil {
		return types.Identical(o.Type(), errorType)
	}
	return false
}

// the call an error-valued expression gets its value from, seen from statement `at`
func (a *analyzer) srcOfExpr(e ast.Expr, at ast.Node, depth int) (step, bool) {
	if depth > 6 {
		return step{}, false
	}
	switch x := unparen(e).(type) {
	case *ast.Ident:
		if isNil(x) {
			return step{}, false
		}
		if v, ok := a.objOf(x).(*types.Var); ok && !isPkgLevel(v) && types.Identical(v.Type(), errorType) {
			return a.defBefore(v, at, depth+1)
		}
	case *ast.CallExpr:
		if iife(x) != nil {
			return a.stepName(x), true
		}
		if tv, ok := a.info.Types[x.Fun]; ok && tv.IsType() && len(x.Args) == 1 {
			return a.srcOfExpr(x.Args[0], at, depth+1)
		}
		if a.cn.pureCall(x) && a.isErrorTyped(x) {
			// a wrapper (single result: the error) carries the error it wraps; a fresh error (no error-typed operand) has no
			// source
			for _, arg := range x.Args {
				if a.isErrorTyped(arg) {
					if s, ok := a.srcOfExpr(arg, at, depth+1); ok {
						return s, true
					}
				}
			}
			return step{}, false
		}
		return a.stepName(x), true
	}
	return step{}, false
}

func (a *analyzer) assignedRHS(s ast.Stmt, obj types.Object) (ast.Expr, bool, bool) { // rhs, declaredWithoutValue, found
	switch x := s.(type) {
	case *ast.LabeledStmt:
		return a.assignedRHS(x.Stmt, obj)
	case *ast.AssignStmt:
		for i, l := range x.Lhs {
			if a.objOf(l) == obj && obj != nil {
				if len(x.Lhs) == len(x.Rhs) {
					return x.Rhs[i], false, true
				}
				if len(x.Rhs) == 1 {
					return x.Rhs[0], false, true
				}
			}
		}
	case *ast.DeclStmt:
		if gd, ok := x.Decl.(*ast.GenDecl); ok {
			for _, sp := range gd.Specs {
				vs, ok := sp.(*ast.ValueSpec)
				if !ok {
					continue
				}
				for i, n := range vs.Names {
					if a.info.Defs[n] == obj {
						if len(vs.Values) == 0 {
							return nil, true, true
						}
						if len(vs.Values) == len(vs.Names) {
							return vs.Values[i], false, true
						}
						return vs.Values[0], false, true
					}
				}
			}
		}
	}
	return nil, false, false
}

// ---------------------------------------------------------------------------------------------------------
// reaching definitions of one variable over the structured control flow of a function: which assignments can be the last
// one before a given statement.  Path-sensitive in the shape of the code (an assignment inside a branch that ends in
// `continue` / `return` does not reach what follows the branch), so the answer does not depend on which arm of an
// if / else carries the `return`.

type defset map[ast.Node]bool // nil: not reachable

var entryMark ast.Node = &ast.BadStmt{} // "whatever the variable held when the function was entered"

func union(a, b defset) defset {
	if a == nil {
		return b
	}
	if b == nil {
		return a
	}
	out := defset{}
	for k := range a {
		out[k] = true
	}
	for k := range b {
		out[k] = true
	}
	return out
}

type flowRes struct{ fall, brk, cont, ret defset }

func (x flowRes) merge(y flowRes) flowRes {
	return flowRes{union(x.fall, y.fall), union(x.brk, y.brk), union(x.cont, y.cont), union(x.ret, y.ret)}
}

type rdef struct {
	a      *analyzer
	obj    types.Object
	target ast.Node
	at     defset
}

func (r *rdef) inline(lit *ast.FuncLit, in defset) defset {
	res := r.stmts(lit.Body.List, in)
	return union(res.fall, res.ret)
}

func (r *rdef) stmts(list []ast.Stmt, in defset) flowRes {
	out := flowRes{}
	cur := in
	for _, s := range list {
		if cur == nil {
			break
		}
		x := r.stmt(s, cur)
		out.brk, out.cont, out.ret = union(out.brk, x.brk), union(out.cont, x.cont), union(out.ret, x.ret)
		cur = x.fall
	}
	out.fall = cur
	return out
}

func (r *rdef) stmt(s ast.Stmt, in defset) flowRes {
	if s == nil || in == nil {
		return flowRes{fall: in}
	}
	if ast.Node(s) == r.target {
		r.at = union(r.at, in)
	}
	switch x := s.(type) {
	case *ast.ExprStmt:
		if c, ok := unparen(x.X).(*ast.CallExpr); ok {
			if r.a.isTerminator(c) {
				return flowRes{}
			}
			if lit := iife(c); lit != nil {
				return flowRes{fall: r.inline(lit, in)}
			}
		}
	case *ast.AssignStmt:
		if len(x.Rhs) == 1 {
			if lit := iife(x.Rhs[0]); lit != nil {
				in = r.inline(lit, in)
				if in == nil {
					return flowRes{}
				}
			}
		}
		if _, _, ok := r.a.assignedRHS(x, r.obj); ok {
			return flowRes{fall: defset{x: true}}
		}
	case *ast.DeclStmt:
		if _, _, ok := r.a.assignedRHS(x, r.obj); ok {
			return flowRes{fall: defset{x: true}}
		}
	case *ast.ReturnStmt:
		if len(x.Results) == 1 {
			if lit := iife(x.Results[0]); lit != nil {
				in = r.inline(lit, in)
			}
		}
		return flowRes{ret: in}
	case *ast.BranchStmt:
		switch x.Tok {
		case token.BREAK:
			return flowRes{brk: in}
		case token.CONTINUE:
			return flowRes{cont: in}
		}
	case *ast.BlockStmt:
		return r.stmts(x.List, in)
	case *ast.LabeledStmt:
		return r.stmt(x.Stmt, in)
	case *ast.IfStmt:
		i := r.stmt(x.Init, in)
		out := flowRes{brk: i.brk, cont: i.cont, ret: i.ret}
		out = out.merge(r.stmts(x.Body.List, i.fall))
		if x.Else != nil {
			out = out.merge(r.stmt(x.Else, i.fall))
		} else {
			out.fall = union(out.fall, i.fall)
		}
		return out
	case *ast.ForStmt:
		head := r.stmt(x.Init, in).fall
		out := flowRes{}
		for round := 0; round < 8 && head != nil; round++ {
			b := r.stmts(x.Body.List, head)
			out.ret, out.brk = union(out.ret, b.ret), union(out.brk, b.brk)
			next := union(head, r.stmt(x.Post, union(b.fall, b.cont)).fall)
			if len(next) == len(head) {
				break
			}
			head = next
		}
		res := flowRes{ret: out.ret, fall: out.brk}
		if x.Cond != nil {
			res.fall = union(res.fall, head)
		}
		return res
	case *ast.RangeStmt:
		head := in
		out := flowRes{}
		for round := 0; round < 8; round++ {
			b := r.stmts(x.Body.List, head)
			out.ret, out.brk = union(out.ret, b.ret), union(out.brk, b.brk)
			next := union(head, union(b.fall, b.cont))
			if len(next) == len(head) {
				break
			}
			head = next
		}
		return flowRes{ret: out.ret, fall: union(out.brk, head)}
	case *ast.SwitchStmt:
		return r.clauses(x.Init, x.Body, in)
	case *ast.TypeSwitchStmt:
		return r.clauses(x.Init, x.Body, in)
	case *ast.SelectStmt:
		return r.clauses(nil, x.Body, in)
	}
	return flowRes{fall: in}
}

func (r *rdef) clauses(init ast.Stmt, body *ast.BlockStmt, in defset) flowRes {
	i := r.stmt(init, in)
	out := flowRes{brk: nil, cont: i.cont, ret: i.ret}
	hasDefault := false
	for _, c := range body.List {
		var list []ast.Stmt
		start := i.fall
		switch cc := c.(type) {
		case *ast.CaseClause:
			list = cc.Body
			hasDefault = hasDefault || cc.List == nil
		case *ast.CommClause:
			list = cc.Body
			hasDefault = true // a select runs exactly one of its clauses
			start = r.stmt(cc.Comm, start).fall
		}
		b := r.stmts(list, start)
		out.fall = union(out.fall, union(b.fall, b.brk))
		out.cont, out.ret = union(out.cont, b.cont), union(out.ret, b.ret)
	}
	if !hasDefault {
		out.fall = union(out.fall, i.fall)
	}
	return out
}

// the definition(s) of obj that reach statement `at`: the call(s) the value comes from ("f | g" when several can be the
// last one), seen over the function `at` belongs to (a literal that is called where it stands is part of its surroundings)
func (a *analyzer) defBefore(obj types.Object, at ast.Node, depth int) (step, bool) {
	if depth > 6 || obj == nil {
		return step{}, false
	}
	fn := a.enclosingFunc(at)
	for {
		lit, ok := fn.(*ast.FuncLit)
		if !ok {
			break
		}
		c, ok := a.parents[lit].(*ast.CallExpr)
		if !ok || c.Fun != ast.Expr(lit) {
			break
		}
		if _, isDefer := a.parents[c].(*ast.DeferStmt); isDefer {
			break
		}
		if _, isGo := a.parents[c].(*ast.GoStmt); isGo {
			break
		}
		outer := a.enclosingFunc(lit)
		if outer == nil {
			break
		}
		fn = outer
	}
	_, body := funcParts(fn)
	if body == nil {
		return step{}, false
	}
	r := &rdef{a: a, obj: obj, target: at}
	r.stmts(body.List, defset{entryMark: true})
	var defs []ast.Node
	for d := range r.at {
		if d != entryMark {
			defs = append(defs, d)
		}
	}
	sort.Slice(defs, func(i, j int) bool { return defs[i].Pos() < defs[j].Pos() })
	var parts []step
	for _, d := range defs {
		if rhs, zero, ok := a.assignedRHS(d.(ast.Stmt), obj); ok && !zero {
			if st, ok := a.srcOfExpr(rhs, d, depth+1); ok {
				parts = addStep(parts, st)
			}
		}
	}
	if len(parts) == 0 {
		return step{}, false
	}
	return step{strings.Join(stepTexts(parts), " | "), parts[0].pos}, true
}

// ---------------------------------------------------------------------------------------------------------
// helpers of the module, one level

// an analyzer for the body of another declaration of the module (paths inside it; identities through its own canon)
func (a *analyzer) helperAnalyzer(h *helperDecl) *analyzer {
	if a.helpers == nil {
		a.helpers = map[*ast.FuncDecl]*analyzer{}
	}
	if x, ok := a.helpers[h.fd]; ok {
		return x
	}
	x := &analyzer{info: h.info, fd: h.fd, mod: a.mod, lookup: a.lookup, parents: map[ast.Node]ast.Node{}, fnNames: a.fnNames}
	var stack []ast.Node
	ast.Inspect(h.fd, func(n ast.Node) bool {
		if n == nil {
			stack = stack[:len(stack)-1]
			return true
		}
		if len(stack) > 0 {
			x.parents[n] = stack[len(stack)-1]
		}
		stack = append(stack, n)
		return true
	})
	x.cn = newCanon(a.mod, h.info, h.fd.Body, a.lookup)
	x.computeAliases()
	a.helpers[h.fd] = x
	return x
}

func (a *analyzer) helperOf(c *ast.CallExpr) *helperDecl {
	if a.lookup == nil {
		return nil
	}
	f := a.cn.calledFunc(c)
	if f == nil {
		return nil
	}
	h := a.lookup(f)
	if h == nil || h.fd.Body == nil || h.fd == a.fd {
		return nil
	}
	return h
}

// the receiver and parameters of a helper, with the caller's paths of the corresponding operands of call c
func (a *analyzer) helperBinding(c *ast.CallExpr, h *helperDecl) map[types.Object]apath {
	out := map[types.Object]apath{}
	if h.fd.Recv != nil && len(h.fd.Recv.List) == 1 && len(h.fd.Recv.List[0].Names) == 1 {
		if s, ok := unparen(c.Fun).(*ast.SelectorExpr); ok {
			if p, ok := a.pathOf(s.X); ok {
				if o := h.info.Defs[h.fd.Recv.List[0].Names[0]]; o != nil {
					out[o] = p
				}
			}
		}
	}
	if h.fd.Type.Params != nil {
		i := 0
		for _, f := range h.fd.Type.Params.List {
			if _, variadic := f.Type.(*ast.Ellipsis); variadic {
				break
			}
			for _, nm := range f.Names {
				if i < len(c.Args) {
					if p, ok := a.pathOf(c.Args[i]); ok {
						if o := h.info.Defs[nm]; o != nil {
							out[o] = p
						}
					}
				}
				i++
			}
			if len(f.Names) == 0 {
				i++
			}
		}
	}
	return out
}

// a method / function of the module that only hands out what exists already: every `return` of its body gives a field
// (element, …) of its receiver / of a parameter, or a package variable, as its closable result
func (a *analyzer) isAccessor(c *ast.CallExpr) bool {
	h := a.helperOf(c)
	if h == nil {
		return false
	}
	ha := a.helperAnalyzer(h)
	found, all := false, true
	ast.Inspect(h.fd.Body, func(n ast.Node) bool {
		if _, ok := n.(*ast.FuncLit); ok {
			return false
		}
		r, ok := n.(*ast.ReturnStmt)
		if !ok {
			return true
		}
		for _, x := range r.Results {
			tv, ok := ha.info.Types[x]
			if !ok || !closable(tv.Type) {
				continue
			}
			if isNil(unparen(x)) {
				continue
			}
			p, ok := ha.pathOf(x)
			if ok && ha.outlives(p) {
				found = true
			} else {
				all = false
			}
		}
		return true
	})
	return found && all
}
