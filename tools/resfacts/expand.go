// expand.go: "a private helper with a single call site is the same thing as a function literal called in place".
//
// Before the analysis proper, every call `x.helper(a, b)` / `helper(a, b)` of an UNEXPORTED function or method of the
// module that
//   - no theorem can name (not in `required`, not in canon.go's `privateSigs`),
//   - is referenced exactly once in its package, as the callee of an ordinary call (not go / defer / a value) that is the
//     whole expression of an expression statement, the single right-hand side of an assignment, or the single result of
//     a return, in ANOTHER function of a file that is analysed,
//   - is not variadic / generic, uses no label, no recover, and whose file-level names (imports) mean the same in the
//     caller's file,
//
// is replaced IN A SCRATCH COPY OF THE SOURCE by `func(<params that had to stay>) <results> { <body> }(<their arguments>)`
// and the helper's declaration is blanked out.  The scratch copy is then loaded and analysed instead (it is an overlay like
// --root; /repo is not touched; if the rewritten package does not type-check exactly as cleanly as the original the
// rewrite is abandoned).  The engine already follows function literals that are called where they stand, so resources
// acquired, stored, released or skipped inside such a helper show up in the rows of the CALLER, exactly as if the code
// stood there: extracting a stretch of a function into a private helper, or turning a called literal into a method,
// changes no row.
//
// Receiver / parameters whose argument is a plain identifier are not passed but SUBSTITUTED (the helper's `db` IS the
// caller's `db`; field paths keep their root) — provided the helper never assigns to them and declares nothing of that
// name.  Named results whose value is assigned (`=`) to a variable of the caller that was declared `var v T`, is assigned
// nowhere else in the caller, whose address is not taken, with the call outside every loop, stand for that variable
// (it is still zero when the call starts, so appending to the result inside the helper and handing it back IS appending
// to the caller's variable); all other named results become locals of the literal.  Positions: the helper's
// declaration is replaced by as many newlines as it had, and a `/*line …*/` directive after the inserted literal puts the
// rest of the caller's file back to its own line numbers.
package main

import (
	"bytes"
	"fmt"
	"go/ast"
	"go/printer"
	"go/token"
	"go/types"
	"os"
	"path/filepath"
	"sort"
	"strings"
)

type textEdit struct {
	from, to int // byte offsets in the file
	text     string
}

func nodeText(n ast.Node) string {
	var b bytes.Buffer
	printer.Fprint(&b, fset, n)
	return b.String()
}

// one round: returns the rewritten files (relative path -> new content), nil when there is nothing to do
func expandOnce(l *loader, analysed map[string]bool) map[string]string {
	reqNames := map[string]bool{}
	for _, r := range required {
		reqNames[r] = true
	}
	edits := map[string][]textEdit{} // relative file -> edits
	srcOf := map[string][]byte{}
	read := func(rel string) []byte {
		if b, ok := srcOf[rel]; ok {
			return b
		}
		b, err := os.ReadFile(l.pick(rel))
		if err != nil {
			return nil
		}
		srcOf[rel] = b
		return b
	}
	var pkgPaths []string
	for p := range l.files {
		pkgPaths = append(pkgPaths, p)
	}
	sort.Strings(pkgPaths)
	for _, path := range pkgPaths {
		info := l.infos[path]
		byRel := l.files[path]
		var rels []string
		for r := range byRel {
			rels = append(rels, r)
		}
		sort.Strings(rels)
		pkgName := filepath.Base(path)
		// references of every function object of the package
		type ref struct {
			id  *ast.Ident
			rel string
		}
		refs := map[types.Object][]ref{}
		for _, rel := range rels {
			ast.Inspect(byRel[rel], func(n ast.Node) bool {
				if id, ok := n.(*ast.Ident); ok {
					if f, ok := info.Uses[id].(*types.Func); ok {
						refs[f.Origin()] = append(refs[f.Origin()], ref{id, rel})
					}
				}
				return true
			})
		}
		usedCaller := map[*ast.FuncDecl]bool{} // one expansion per caller and round (offsets stay simple)
		for _, hrel := range rels {
			hf := byRel[hrel]
			for _, d := range hf.Decls {
				h, ok := d.(*ast.FuncDecl)
				if !ok || h.Body == nil || ast.IsExported(h.Name.Name) || h.Type.TypeParams != nil || h.Name.Name == "init" || h.Name.Name == "main" {
					continue
				}
				hobj, _ := info.Defs[h.Name].(*types.Func)
				if hobj == nil {
					continue
				}
				spec := h.Name.Name
				if r := recvName(h); r != "" {
					spec = r + "." + spec
				}
				if _, named := privateSigs[pkgName+":"+spec]; named || reqNames[spec] || reqNames[pkgName+"."+spec] || reqNames[pkgPrefix(hrel)+"."+spec] {
					continue
				}
				sig := hobj.Type().(*types.Signature)
				if sig.Variadic() || (sig.Recv() != nil && sig.RecvTypeParams() != nil) {
					continue
				}
				rs := refs[hobj]
				if len(rs) != 1 {
					continue
				}
				crel := rs[0].rel
				if !analysed[filepath.ToSlash(crel)] || !analysed[filepath.ToSlash(hrel)] {
					continue
				}
				cf := byRel[crel]
				parents := parentsOf(cf)
				// the call
				var call *ast.CallExpr
				var recvExpr ast.Expr
				switch p := parents[rs[0].id].(type) {
				case *ast.CallExpr:
					if p.Fun == ast.Expr(rs[0].id) {
						call = p
					}
				case *ast.SelectorExpr:
					if p.Sel == rs[0].id {
						if c, ok := parents[p].(*ast.CallExpr); ok && c.Fun == ast.Expr(p) {
							if _, isSel := info.Selections[p]; isSel {
								call, recvExpr = c, p.X
							}
						}
					}
				}
				if call == nil || (sig.Recv() != nil) != (recvExpr != nil) || len(call.Args) != sig.Params().Len() {
					continue
				}
				var stmt ast.Stmt
				switch p := parents[call].(type) {
				case *ast.ExprStmt:
					stmt = p
				case *ast.AssignStmt:
					if len(p.Rhs) == 1 && (p.Tok == token.ASSIGN || p.Tok == token.DEFINE) {
						stmt = p
					}
				case *ast.ReturnStmt:
					if len(p.Results) == 1 {
						stmt = p
					}
				}
				if stmt == nil {
					continue
				}
				// the calling function
				var caller *ast.FuncDecl
				inLoop := false
				for n := ast.Node(stmt); n != nil; n = parents[n] {
					switch x := n.(type) {
					case *ast.ForStmt, *ast.RangeStmt:
						inLoop = true
					case *ast.FuncDecl:
						caller = x
					}
				}
				if caller == nil || caller == h || caller.Body == nil || usedCaller[caller] {
					continue
				}
				// the helper's body: nothing the rewrite cannot carry over
				bad := false
				naked := false
				declared := map[string]bool{}
				ast.Inspect(h.Body, func(n ast.Node) bool {
					switch x := n.(type) {
					case *ast.LabeledStmt:
						bad = true
					case *ast.BranchStmt:
						if x.Label != nil {
							bad = true
						}
					case *ast.CallExpr:
						if id, ok := x.Fun.(*ast.Ident); ok && id.Name == "recover" {
							bad = true
						}
					case *ast.ReturnStmt:
						if len(x.Results) == 0 && sig.Results().Len() > 0 {
							naked = true // (also when it belongs to a nested literal: rare, and then nothing is rewritten)
						}
					case *ast.Ident:
						if o := info.Defs[x]; o != nil {
							declared[x.Name] = true
						}
					}
					return true
				})
				if bad || naked {
					continue
				}
				// names of the file scope (imports) used by the helper mean the same in the caller's file
				if crel != hrel {
					imports := func(f *ast.File) map[string]string {
						m := map[string]string{}
						for _, is := range f.Imports {
							p := strings.Trim(is.Path.Value, "\"")
							n := filepath.Base(p)
							if pk, err := l.Import(p); err == nil && pk != nil {
								n = pk.Name()
							}
							if is.Name != nil {
								n = is.Name.Name
							}
							m[n] = p
						}
						return m
					}
					ci := imports(cf)
					okImp := true
					ast.Inspect(h, func(n ast.Node) bool {
						if id, ok := n.(*ast.Ident); ok {
							if pn, ok := info.Uses[id].(*types.PkgName); ok {
								if ci[id.Name] != pn.Imported().Path() {
									okImp = false
								}
							}
						}
						return true
					})
					if !okImp {
						continue
					}
				}
				// receiver and parameters: substituted or passed
				assignedIn := func(o types.Object) bool {
					found := false
					ast.Inspect(h.Body, func(n ast.Node) bool {
						switch x := n.(type) {
						case *ast.AssignStmt:
							for _, lh := range x.Lhs {
								if id, ok := lh.(*ast.Ident); ok && (info.Uses[id] == o || info.Defs[id] == o) {
									found = true
								}
							}
						case *ast.IncDecStmt:
							if id, ok := x.X.(*ast.Ident); ok && info.Uses[id] == o {
								found = true
							}
						case *ast.UnaryExpr:
							if id, ok := x.X.(*ast.Ident); ok && x.Op == token.AND && info.Uses[id] == o {
								found = true
							}
						case *ast.RangeStmt:
							for _, e := range []ast.Expr{x.Key, x.Value} {
								if id, ok := e.(*ast.Ident); ok && info.Uses[id] == o {
									found = true
								}
							}
						}
						return true
					})
					return found
				}
				rename := map[types.Object]string{}
				var litParams, litArgs []string
				type pa struct {
					v    *types.Var
					typ  ast.Expr
					arg  ast.Expr
					name string
				}
				var pas []pa
				if sig.Recv() != nil && h.Recv != nil && len(h.Recv.List) == 1 {
					f := h.Recv.List[0]
					nm := "_"
					if len(f.Names) == 1 {
						nm = f.Names[0].Name
					}
					pas = append(pas, pa{sig.Recv(), f.Type, recvExpr, nm})
				}
				k := 0
				for _, f := range h.Type.Params.List {
					names := f.Names
					if len(names) == 0 {
						names = []*ast.Ident{{Name: "_"}}
					}
					for _, nm := range names {
						pas = append(pas, pa{sig.Params().At(k), f.Type, call.Args[k], nm.Name})
						k++
					}
				}
				callerNames := map[string]bool{} // identifiers the arguments mention
				for _, p := range pas {
					ast.Inspect(p.arg, func(n ast.Node) bool {
						if id, ok := n.(*ast.Ident); ok {
							callerNames[id.Name] = true
						}
						return true
					})
				}
				capture := false
				for n := range callerNames {
					if declared[n] {
						capture = true // a local of the helper would capture a name an argument mentions
					}
				}
				if capture {
					continue
				}
				for _, p := range pas {
					if p.name == "_" {
						// evaluated for its effects only: keep as an argument
						litParams = append(litParams, "_ "+nodeText(p.typ))
						litArgs = append(litArgs, nodeText(p.arg))
						continue
					}
					if id, ok := ast.Unparen(p.arg).(*ast.Ident); ok && !assignedIn(p.v) {
						if _, isVar := info.Uses[id].(*types.Var); isVar {
							// pointer receiver called on an addressable value (`x.m()` for `(&x).m()`) or the reverse: pass it
							at := info.TypeOf(id)
							if at != nil && types.Identical(at, p.v.Type()) {
								rename[p.v] = id.Name
								continue
							}
						}
					}
					litParams = append(litParams, p.name+" "+nodeText(p.typ))
					litArgs = append(litArgs, nodeText(p.arg))
				}
				// results
				var resTypes, resDecls []string
				if h.Type.Results != nil {
					as, isAssign := stmt.(*ast.AssignStmt)
					k = 0
					for _, f := range h.Type.Results.List {
						names := f.Names
						if len(names) == 0 {
							names = []*ast.Ident{nil}
						}
						for _, nm := range names {
							resTypes = append(resTypes, nodeText(f.Type))
							if nm != nil && nm.Name != "_" {
								rv := sig.Results().At(k)
								aliased := false
								if isAssign && as.Tok == token.ASSIGN && len(as.Lhs) == sig.Results().Len() && !inLoop &&
									!types.Identical(rv.Type(), errorType) {
									if id, ok := as.Lhs[k].(*ast.Ident); ok && id.Name != "_" && !declared[id.Name] {
										if ov, ok := info.Uses[id].(*types.Var); ok && types.Identical(ov.Type(), rv.Type()) &&
											zeroUntil(info, caller, ov, as) {
											rename[rv] = id.Name
											aliased = true
										}
									}
								}
								if !aliased {
									resDecls = append(resDecls, "var "+nm.Name+" "+nodeText(f.Type)+"; _ = "+nm.Name)
								}
							}
							k++
						}
					}
				}
				// the body text with the renames applied
				hsrc, csrc := read(hrel), read(crel)
				if hsrc == nil || csrc == nil {
					continue
				}
				off := func(p token.Pos) int { return fset.PositionFor(p, false).Offset }
				var ren []textEdit
				ast.Inspect(h.Body, func(n ast.Node) bool {
					if id, ok := n.(*ast.Ident); ok {
						if o := info.Uses[id]; o != nil {
							if to, ok := rename[o]; ok && to != id.Name {
								ren = append(ren, textEdit{off(id.Pos()), off(id.End()), to})
							}
						}
					}
					return true
				})
				sort.Slice(ren, func(i, j int) bool { return ren[i].from < ren[j].from })
				b0, b1 := off(h.Body.Lbrace)+1, off(h.Body.Rbrace)
				var body strings.Builder
				at := b0
				for _, e := range ren {
					body.WriteString(string(hsrc[at:e.from]))
					body.WriteString(e.text)
					at = e.to
				}
				body.WriteString(string(hsrc[at:b1]))
				res := ""
				switch len(resTypes) {
				case 0:
				case 1:
					res = " " + resTypes[0]
				default:
					res = " (" + strings.Join(resTypes, ", ") + ")"
				}
				hp := fset.Position(h.Body.Lbrace)
				ce := fset.Position(call.End())
				lit := "func(" + strings.Join(litParams, ", ") + ")" + res + " {"
				if len(resDecls) > 0 {
					lit += " " + strings.Join(resDecls, "; ") + ";"
				}
				lit += fmt.Sprintf("/*line %s:%d:%d*/", hp.Filename, hp.Line, hp.Column+1)
				lit += body.String() + "}(" + strings.Join(litArgs, ", ") + ")"
				lit += fmt.Sprintf("/*line %s:%d:%d*/", ce.Filename, ce.Line, ce.Column)
				edits[crel] = append(edits[crel], textEdit{off(call.Pos()), off(call.End()), lit})
				// blank the declaration (doc comment stays: comments are not parsed)
				d0, d1 := off(h.Pos()), off(h.End())
				edits[hrel] = append(edits[hrel], textEdit{d0, d1, strings.Repeat("\n", bytes.Count(hsrc[d0:d1], []byte("\n")))})
				usedCaller[caller] = true
				usedCaller[h] = true
				fmt.Fprintf(os.Stderr, "resfacts: note: helper %s.%s is examined as part of its only caller %s\n", pkgName, spec, caller.Name.Name)
			}
		}
	}
	if len(edits) == 0 {
		return nil
	}
	out := map[string]string{}
	for rel, es := range edits {
		src := read(rel)
		sort.Slice(es, func(i, j int) bool { return es[i].from < es[j].from })
		var sb strings.Builder
		at := 0
		okE := true
		for _, e := range es {
			if e.from < at {
				okE = false
				break
			}
			sb.Write(src[at:e.from])
			sb.WriteString(e.text)
			at = e.to
		}
		if !okE {
			return nil
		}
		sb.Write(src[at:])
		out[rel] = sb.String()
	}
	return out
}

// the caller's variable `v` (declared `var v T` without a value) is assigned nowhere in `fn` except by statement `at`,
// and its address is never taken: it still holds its zero value when `at` starts (given that `at` is outside every loop)
func zeroUntil(info *types.Info, fn *ast.FuncDecl, v *types.Var, at *ast.AssignStmt) bool {
	declOK := false
	ok := true
	ast.Inspect(fn, func(n ast.Node) bool {
		switch x := n.(type) {
		case *ast.ValueSpec:
			for _, nm := range x.Names {
				if info.Defs[nm] == types.Object(v) {
					declOK = len(x.Values) == 0
				}
			}
		case *ast.AssignStmt:
			if x == at {
				return true
			}
			for _, lh := range x.Lhs {
				if id, isId := lh.(*ast.Ident); isId && (info.Uses[id] == types.Object(v) || info.Defs[id] == types.Object(v)) {
					ok = false
				}
			}
		case *ast.IncDecStmt:
			if id, isId := x.X.(*ast.Ident); isId && info.Uses[id] == types.Object(v) {
				ok = false
			}
		case *ast.UnaryExpr:
			if id, isId := ast.Unparen(x.X).(*ast.Ident); isId && x.Op == token.AND && info.Uses[id] == types.Object(v) {
				ok = false
			}
		case *ast.RangeStmt:
			for _, e := range []ast.Expr{x.Key, x.Value} {
				if id, isId := e.(*ast.Ident); isId && info.Uses[id] == types.Object(v) {
					ok = false
				}
			}
		}
		return true
	})
	return declOK && ok
}

// expandHelpers: up to three rounds of expandOnce; returns the overlay directory to analyse (the given one when nothing
// was rewritten) — a scratch directory that the caller removes
func expandHelpers(repo, root, mod string, newLoader func(root string) *loader) (string, func()) {
	cleanup := func() {}
	analysed := map[string]bool{}
	for _, f := range files {
		analysed[f] = true
	}
	cur := root
	tmp := ""
	for round := 0; round < 3; round++ {
		l := newLoader(cur)
		seen := map[string]bool{}
		for _, file := range files {
			path := l.mod + "/" + filepath.ToSlash(filepath.Dir(file))
			if !seen[path] {
				seen[path] = true
				if _, ok := l.infos[path]; !ok {
					l.check(path)
				}
			}
		}
		before := len(l.problems)
		out := expandOnce(l, analysed)
		if out == nil {
			break
		}
		next, err := os.MkdirTemp("", "resfacts-expand-")
		if err != nil {
			break
		}
		// carry the current overlay over
		if cur != "" {
			filepath.Walk(cur, func(p string, fi os.FileInfo, err error) error {
				if err != nil || fi.IsDir() {
					return nil
				}
				rel, _ := filepath.Rel(cur, p)
				if b, err := os.ReadFile(p); err == nil {
					os.MkdirAll(filepath.Dir(filepath.Join(next, rel)), 0o755)
					os.WriteFile(filepath.Join(next, rel), b, 0o644)
				}
				return nil
			})
		}
		for rel, content := range out {
			os.MkdirAll(filepath.Dir(filepath.Join(next, rel)), 0o755)
			os.WriteFile(filepath.Join(next, rel), []byte(content), 0o644)
		}
		// the rewritten tree must type-check exactly as cleanly as before
		l2 := newLoader(next)
		for path := range seen {
			if _, ok := l2.infos[path]; !ok {
				l2.check(path)
			}
		}
		if len(l2.problems) > before {
			fmt.Fprintf(os.Stderr, "resfacts: note: helper expansion abandoned (round %d): %s\n", round, l2.problems[len(l2.problems)-1])
			os.RemoveAll(next)
			break
		}
		if tmp != "" {
			os.RemoveAll(tmp)
		}
		tmp, cur = next, next
		cleanup = func() { os.RemoveAll(tmp) }
	}
	return cur, cleanup
}
