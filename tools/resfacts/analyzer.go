package main

import (
	"go/ast"
	"go/token"
	"go/types"
	"strings"
)

// calls after which the path ends with the process (or goroutine) stopping: no release is owed on such a path
var terminators = map[string]bool{"log.Panicf": true, "log.Panic": true, "log.Panicln": true, "log.Fatalf": true, "log.Fatal": true,
	"log.Fatalln": true, "os.Exit": true}

// calls that return a closable value they do not create (getters): never rows.  Canonical method identities (canon.method);
// a method / function of the module whose every `return` hands out a field of its receiver / of a parameter or a package
// variable is recognised as an accessor by its BODY as well (analyzer.isAccessor), whatever it is called
var accessors = map[string]bool{"simpledb.SSTableManager.currentSSTable": true}

var errorType = types.Universe.Lookup("error").Type()

type analyzer struct {
	info    *types.Info
	parents map[ast.Node]ast.Node
	fd      *ast.FuncDecl
	name    string
	mod     string
	aliases map[types.Object]apath  // range variables and parameters of literals called on the spot / deferred
	roots   map[types.Object]bool   // receiver and parameters of the declaration: objects that outlive the call
	fnNames map[types.Object]string // function object -> row name (listed functions)
	cn      *canon                  // rename-stable identities inside this declaration (canon.go)
	lookup  func(*types.Func) *helperDecl
	steps   map[*ast.ReturnStmt]step
	helpers map[*ast.FuncDecl]*analyzer
}

// ---------------------------------------------------------------------------------------------------------
// access paths: a variable followed by field selections / element accesses / parameterless method calls

type apath struct {
	root types.Object
	segs []string
}

func (p apath) key() string {
	if p.root == nil {
		return "?"
	}
	return "#" + itoa(int(p.root.Pos())) + strings.Join(p.segs, "") // the declaration's position: no name enters any ordering
}

func itoa(i int) string {
	if i == 0 {
		return "0"
	}
	neg := i < 0
	if neg {
		i = -i
	}
	var b []byte
	for i > 0 {
		b = append([]byte{byte('0' + i%10)}, b...)
		i /= 10
	}
	if neg {
		b = append([]byte{'-'}, b...)
	}
	return string(b)
}

func (p apath) with(seg string) apath {
	return apath{p.root, append(append([]string{}, p.segs...), seg)}
}

// q is a prefix of p (or equal)
func (p apath) hasPrefix(q apath) bool {
	if p.root == nil || p.root != q.root || len(q.segs) > len(p.segs) {
		return false
	}
	for i, s := range q.segs {
		if p.segs[i] != s && s != ".*" && p.segs[i] != ".*" {
			return false
		}
	}
	return true
}

func (p apath) equal(q apath) bool { return len(p.segs) == len(q.segs) && p.hasPrefix(q) }

func (a *analyzer) objOf(e ast.Expr) types.Object {
	id, ok := e.(*ast.Ident)
	if !ok || id.Name == "_" {
		return nil
	}
	if o := a.info.Defs[id]; o != nil {
		return o
	}
	return a.info.Uses[id]
}

func (a *analyzer) pathOf(e ast.Expr) (apath, bool) {
	switch x := e.(type) {
	case *ast.Ident:
		o := a.objOf(x)
		if o == nil {
			return apath{}, false
		}
		if al, ok := a.aliases[o]; ok {
			return al, true
		}
		if _, isVar := o.(*types.Var); !isVar {
			return apath{}, false
		}
		return apath{root: o}, true
	case *ast.ParenExpr:
		return a.pathOf(x.X)
	case *ast.StarExpr:
		return a.pathOf(x.X)
	case *ast.UnaryExpr:
		if x.Op == token.AND {
			return a.pathOf(x.X)
		}
	case *ast.SelectorExpr:
		if p, ok := a.pathOf(x.X); ok {
			return p.with("." + x.Sel.Name), true
		}
		if o := a.info.Uses[x.Sel]; o != nil { // pkg.Var
			if v, isVar := o.(*types.Var); isVar && !v.IsField() {
				return apath{root: o}, true
			}
		}
	case *ast.IndexExpr:
		if p, ok := a.pathOf(x.X); ok {
			return p.with("[*]"), true
		}
	case *ast.CallExpr:
		if len(x.Args) == 0 {
			if s, ok := x.Fun.(*ast.SelectorExpr); ok {
				if p, ok := a.pathOf(s.X); ok {
					return p.with("." + s.Sel.Name + "()"), true
				}
			}
		}
	}
	return apath{}, false
}

// the path denotes state that outlives the call: a field (element, …) of the receiver or of a parameter, or a package variable
func (a *analyzer) outlives(p apath) bool {
	if p.root == nil {
		return false
	}
	if a.roots[p.root] {
		return len(p.segs) > 0
	}
	if p.root.Pkg() != nil && p.root.Parent() == p.root.Pkg().Scope() {
		return true
	}
	return false
}

func (a *analyzer) computeAliases() {
	a.aliases = map[types.Object]apath{}
	a.roots = map[types.Object]bool{}
	if a.fd.Recv != nil {
		for _, f := range a.fd.Recv.List {
			for _, n := range f.Names {
				if o := a.info.Defs[n]; o != nil {
					a.roots[o] = true
				}
			}
		}
	}
	for _, f := range a.fd.Type.Params.List {
		for _, n := range f.Names {
			if o := a.info.Defs[n]; o != nil {
				a.roots[o] = true
			}
		}
	}
	ast.Inspect(a.fd.Body, func(n ast.Node) bool {
		switch x := n.(type) {
		case *ast.RangeStmt:
			if x.Value != nil {
				if o := a.objOf(x.Value); o != nil {
					if p, ok := a.pathOf(x.X); ok {
						a.aliases[o] = p.with("[*]")
					}
				}
			}
		case *ast.CallExpr:
			if lit, ok := x.Fun.(*ast.FuncLit); ok {
				i := 0
				for _, f := range lit.Type.Params.List {
					for _, nm := range f.Names {
						if i < len(x.Args) {
							if o := a.info.Defs[nm]; o != nil {
								if p, ok := a.pathOf(x.Args[i]); ok {
									a.aliases[o] = p
								}
							}
						}
						i++
					}
				}
			}
		}
		return true
	})
}

// ---------------------------------------------------------------------------------------------------------
// types

func hasMethod(t types.Type, name string) bool {
	if t == nil {
		return false
	}
	obj, _, _ := types.LookupFieldOrMethod(t, true, nil, name)
	f, ok := obj.(*types.Func)
	if !ok {
		return false
	}
	sig, ok := f.Type().(*types.Signature)
	return ok && sig.Params().Len() == 0
}

func fromTime(t types.Type) bool {
	if p, ok := t.(*types.Pointer); ok {
		t = p.Elem()
	}
	n, ok := t.(*types.Named)
	return ok && n.Obj().Pkg() != nil && n.Obj().Pkg().Path() == "time"
}

// a value of this type has to be given back: it has Close(), or it is a time.Ticker / time.Timer (Stop())
func closable(t types.Type) bool {
	if t == nil {
		return false
	}
	if b, ok := t.(*types.Basic); ok && b.Kind() == types.Invalid {
		return false
	}
	if hasMethod(t, "Close") {
		return true
	}
	return fromTime(t) && hasMethod(t, "Stop")
}

// a struct field of this type is OWNED by the struct: closable, a channel, a collection of owned values, or a pointer to a
// struct of this module that owns something itself
func (a *analyzer) owned(t types.Type, depth int) bool {
	if t == nil {
		return false
	}
	if closable(t) {
		return true
	}
	switch x := t.Underlying().(type) {
	case *types.Chan:
		return true
	case *types.Slice:
		return a.owned(x.Elem(), depth)
	case *types.Array:
		return a.owned(x.Elem(), depth)
	case *types.Map:
		return a.owned(x.Elem(), depth)
	case *types.Pointer:
		if depth >= 2 {
			return false
		}
		n, ok := x.Elem().(*types.Named)
		if !ok || n.Obj().Pkg() == nil || !strings.HasPrefix(n.Obj().Pkg().Path(), a.mod) {
			return false
		}
		st, ok := n.Underlying().(*types.Struct)
		if !ok {
			return false
		}
		for i := 0; i < st.NumFields(); i++ {
			if a.owned(st.Field(i).Type(), depth+1) {
				return true
			}
		}
	}
	return false
}

// packages of the module by their module-relative path, others by their import path (as canon.go does)
var modPath string

func typeString(t types.Type) string {
	return types.TypeString(t, func(p *types.Package) string {
		if p.Path() == modPath {
			return p.Name()
		}
		return strings.TrimPrefix(p.Path(), modPath+"/")
	})
}

// qualified name of the function / package-level object an expression denotes ("os.OpenFile"), "" if none
func (a *analyzer) qualified(e ast.Expr) (string, types.Object) {
	var id *ast.Ident
	switch x := e.(type) {
	case *ast.Ident:
		id = x
	case *ast.SelectorExpr:
		id = x.Sel
	case *ast.ParenExpr:
		return a.qualified(x.X)
	case *ast.IndexExpr:
		return a.qualified(x.X)
	case *ast.IndexListExpr:
		return a.qualified(x.X)
	default:
		return "", nil
	}
	obj := a.info.Uses[id]
	if obj == nil {
		return "", nil
	}
	if obj.Pkg() == nil {
		return obj.Name(), obj
	}
	if obj.Parent() != obj.Pkg().Scope() {
		return "", obj
	}
	return obj.Pkg().Name() + "." + obj.Name(), obj
}

func (a *analyzer) isTerminator(c *ast.CallExpr) bool {
	if a.isBuiltin(c, "panic") {
		return true
	}
	return terminators[a.cn.callee(c)]
}

func (a *analyzer) isBuiltin(c *ast.CallExpr, name string) bool {
	id, ok := c.Fun.(*ast.Ident)
	if !ok || id.Name != name {
		return false
	}
	_, isB := a.info.Uses[id].(*types.Builtin)
	return isB
}

// the result types of a call (nil for conversions / builtins / unresolved)
func (a *analyzer) results(c *ast.CallExpr) []types.Type {
	if tv, ok := a.info.Types[c.Fun]; ok && (tv.IsType() || tv.IsBuiltin()) {
		return nil
	}
	tv, ok := a.info.Types[c]
	if !ok || tv.Type == nil {
		return nil
	}
	if tup, ok := tv.Type.(*types.Tuple); ok {
		var out []types.Type
		for i := 0; i < tup.Len(); i++ {
			out = append(out, tup.At(i).Type())
		}
		return out
	}
	return []types.Type{tv.Type}
}

func methodOf(e ast.Expr) string {
	switch x := e.(type) {
	case *ast.SelectorExpr:
		return x.Sel.Name
	case *ast.ParenExpr:
		return methodOf(x.X)
	case *ast.IndexExpr:
		return methodOf(x.X)
	case *ast.IndexListExpr:
		return methodOf(x.X)
	case *ast.Ident:
		return x.Name
	}
	return ""
}

// a call that hands out something that has to be given back
func (a *analyzer) acquires(c *ast.CallExpr) bool {
	m := methodOf(c.Fun)
	if m == "Close" || m == "Stop" {
		return false
	}
	for _, t := range a.results(c) {
		if closable(t) {
			return !accessors[a.cn.method(c)] && !a.isAccessor(c)
		}
	}
	return false
}

func (a *analyzer) kindOf(c *ast.CallExpr) string {
	switch a.cn.callee(c) {
	case "os.Open", "os.OpenFile", "os.Create", "os.CreateTemp", "github.com/ncw/directio.OpenFile":
		return "file"
	case "golang.org/x/exp/mmap.Open":
		return "mmap"
	case "time.NewTicker", "time.NewTimer":
		return "ticker"
	}
	return "object"
}

func (a *analyzer) enclosingFunc(n ast.Node) ast.Node {
	for p := a.parents[n]; p != nil; p = a.parents[p] {
		switch p.(type) {
		case *ast.FuncLit, *ast.FuncDecl:
			return p
		}
	}
	return nil
}

func funcParts(fn ast.Node) (*ast.FuncType, *ast.BlockStmt) {
	switch x := fn.(type) {
	case *ast.FuncLit:
		return x.Type, x.Body
	case *ast.FuncDecl:
		return x.Type, x.Body
	}
	return nil, nil
}

func (a *analyzer) hasErrorResult(fn ast.Node) bool {
	ft, _ := funcParts(fn)
	if ft == nil || ft.Results == nil || len(ft.Results.List) == 0 {
		return false
	}
	last := ft.Results.List[len(ft.Results.List)-1]
	tv, ok := a.info.Types[last.Type]
	return ok && tv.Type != nil && types.Identical(tv.Type, errorType)
}

func (a *analyzer) namedErrorResult(fn ast.Node) types.Object {
	ft, _ := funcParts(fn)
	if ft == nil || ft.Results == nil || len(ft.Results.List) == 0 {
		return nil
	}
	last := ft.Results.List[len(ft.Results.List)-1]
	if len(last.Names) == 0 {
		return nil
	}
	return a.info.Defs[last.Names[len(last.Names)-1]]
}

// a function literal that is called where it stands: `func(…) … {…}(…)`
func iife(e ast.Expr) *ast.FuncLit {
	for {
		p, ok := e.(*ast.ParenExpr)
		if !ok {
			break
		}
		e = p.X
	}
	c, ok := e.(*ast.CallExpr)
	if !ok {
		return nil
	}
	f := c.Fun
	for {
		p, ok := f.(*ast.ParenExpr)
		if !ok {
			break
		}
		f = p.X
	}
	lit, _ := f.(*ast.FuncLit)
	return lit
}

func (a *analyzer) inLoop(n ast.Node, stop ast.Node) bool {
	child := n
	for p := a.parents[n]; p != nil && child != stop; child, p = p, a.parents[p] {
		switch x := p.(type) {
		case *ast.ForStmt:
			if child != ast.Node(x.Init) {
				return true
			}
		case *ast.RangeStmt:
			if child == ast.Node(x.Body) {
				return true
			}
		}
	}
	return false
}
