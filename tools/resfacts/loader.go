package main

// loading + type checking: same scheme as tools/errfacts (module packages from source with the overlay applied, everything
// else through the "source" importer, offline)

import (
	"bytes"
	"fmt"
	"go/ast"
	"go/build"
	"go/parser"
	"go/printer"
	"go/token"
	"go/types"
	"os"
	"path/filepath"
	"sort"
	"strings"
)

var fset = token.NewFileSet()

type loader struct {
	repo, root, mod string
	src             types.ImporterFrom
	pkgs            map[string]*types.Package
	infos           map[string]*types.Info
	files           map[string]map[string]*ast.File // import path -> relative file -> AST
	problems        []string
}

func (l *loader) Import(path string) (*types.Package, error) { return l.ImportFrom(path, l.repo, 0) }

func (l *loader) ImportFrom(path, dir string, mode types.ImportMode) (*types.Package, error) {
	if p, ok := l.pkgs[path]; ok {
		return p, nil
	}
	if path == l.mod || strings.HasPrefix(path, l.mod+"/") {
		return l.check(path), nil
	}
	p, err := l.src.ImportFrom(path, l.repo, 0)
	if err != nil || p == nil {
		l.problems = append(l.problems, fmt.Sprintf("import %s: %v", path, err))
		p = types.NewPackage(path, filepath.Base(path))
		p.MarkComplete()
	}
	l.pkgs[path] = p
	return p, nil
}

func (l *loader) pick(rel string) string {
	if l.root != "" {
		if _, err := os.Stat(filepath.Join(l.root, rel)); err == nil {
			return filepath.Join(l.root, rel)
		}
	}
	return filepath.Join(l.repo, rel)
}

func (l *loader) check(path string) *types.Package {
	rel := strings.TrimPrefix(strings.TrimPrefix(path, l.mod), "/")
	dir := filepath.Join(l.repo, rel)
	names := map[string]bool{}
	dirs := []string{dir}
	if l.root != "" {
		dirs = append(dirs, filepath.Join(l.root, rel))
	}
	for _, d := range dirs {
		ents, _ := os.ReadDir(d)
		for _, e := range ents {
			n := e.Name()
			if e.IsDir() || !strings.HasSuffix(n, ".go") || strings.HasSuffix(n, "_test.go") {
				continue
			}
			if ok, err := build.Default.MatchFile(d, n); err == nil && ok {
				names[n] = true
			}
		}
	}
	var sorted []string
	for n := range names {
		sorted = append(sorted, n)
	}
	sort.Strings(sorted)
	var files []*ast.File
	byRel := map[string]*ast.File{}
	for _, n := range sorted {
		f, err := parser.ParseFile(fset, l.pick(filepath.Join(rel, n)), nil, 0)
		if err != nil {
			l.problems = append(l.problems, err.Error())
			continue
		}
		files = append(files, f)
		byRel[filepath.Join(rel, n)] = f
	}
	info := &types.Info{Types: map[ast.Expr]types.TypeAndValue{}, Defs: map[*ast.Ident]types.Object{}, Uses: map[*ast.Ident]types.Object{},
		Selections: map[*ast.SelectorExpr]*types.Selection{}}
	conf := types.Config{Importer: l, Error: func(err error) { l.problems = append(l.problems, err.Error()) }}
	p, _ := conf.Check(path, fset, files, info)
	if p == nil {
		p = types.NewPackage(path, filepath.Base(path))
	}
	l.pkgs[path] = p
	l.infos[path] = info
	l.files[path] = byRel
	return p
}

func exprString(n ast.Node) string {
	var b bytes.Buffer
	_ = printer.Fprint(&b, fset, n)
	return strings.Join(strings.Fields(b.String()), " ")
}

// calleeName: printed function expression; a call in receiver position is replaced by "(<its callee>)", type arguments
// are dropped, a function literal is "func literal"
func calleeName(e ast.Expr) string {
	switch x := e.(type) {
	case *ast.SelectorExpr:
		if c, ok := x.X.(*ast.CallExpr); ok {
			return "(" + calleeName(c.Fun) + ")." + x.Sel.Name
		}
		return exprString(x)
	case *ast.ParenExpr:
		return calleeName(x.X)
	case *ast.IndexExpr:
		return calleeName(x.X)
	case *ast.IndexListExpr:
		return calleeName(x.X)
	case *ast.FuncLit:
		return "func literal"
	default:
		return exprString(e)
	}
}

func recvName(fd *ast.FuncDecl) string {
	if fd.Recv == nil || len(fd.Recv.List) == 0 {
		return ""
	}
	t := fd.Recv.List[0].Type
	for {
		switch x := t.(type) {
		case *ast.StarExpr:
			t = x.X
			continue
		case *ast.ParenExpr:
			t = x.X
			continue
		case *ast.IndexExpr:
			t = x.X
			continue
		case *ast.IndexListExpr:
			t = x.X
			continue
		}
		break
	}
	if id, ok := t.(*ast.Ident); ok {
		return id.Name
	}
	return ""
}

func leanStr(s string) string {
	s = strings.ReplaceAll(s, "\\", "\\\\")
	s = strings.ReplaceAll(s, "\"", "\\\"")
	s = strings.ReplaceAll(s, "--", "-\\x2d") // ./check strips `--` comments line-wise before it looks for forbidden words
	return "\"" + s + "\""
}

func leanStrs(ss []string) string {
	var out []string
	for _, s := range ss {
		out = append(out, leanStr(s))
	}
	return "[" + strings.Join(out, ", ") + "]"
}

func fatal(a ...any) {
	fmt.Fprintln(os.Stderr, append([]any{"resfacts:"}, a...)...)
	os.Exit(1)
}

func writeIfChanged(path, content string) {
	old, err := os.ReadFile(path)
	if err == nil && string(old) == content {
		return
	}
	if err := os.WriteFile(path, []byte(content), 0o644); err != nil {
		fatal(err)
	}
}

func moduleOf(repo string) string {
	b, err := os.ReadFile(filepath.Join(repo, "go.mod"))
	if err != nil {
		fatal(err)
	}
	for _, l := range strings.Split(string(b), "\n") {
		if f := strings.Fields(l); len(f) == 2 && f[0] == "module" {
			return f[1]
		}
	}
	fatal("no module line in go.mod")
	return ""
}

func isNil(e ast.Expr) bool {
	id, ok := e.(*ast.Ident)
	return ok && id.Name == "nil"
}

func contains(outer, inner ast.Node) bool {
	return outer != nil && inner != nil && outer.Pos() <= inner.Pos() && inner.End() <= outer.End()
}

func addUnique(xs []string, s string) []string {
	for _, x := range xs {
		if x == s {
			return xs
		}
	}
	return append(xs, s)
}
