module resfacts

go 1.22
