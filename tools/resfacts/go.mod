module resfacts

go 1.21
