#!/bin/bash
# Validation of the resource-flow tie: applies seeded changes / hand-written regressions to SCRATCH copies of the touched
# source files (never /repo), runs resfacts with --root on them, rebuilds Props/C19_Resources.lean in a SCRATCH copy of the
# Lean project (never /verif/lean) and prints which theorems no longer build.
#   usage: tools/resfacts/validate.sh [mutant ...]      (default: all below)
# Mutants: baseline        the unchanged tree (expected: every theorem builds)
#          Cxx-mk          /verif/seeded/Cxx-mk/patch.diff
#          R<k>-<name>     /verif/tools/resfacts/regressions/R<k>-<name>.diff  (shapes no applicable seeded change has)
#          <commit>-R      that fix of /repo reversed on today's files (git show <commit> | patch -R; read-only use of git)
# Scratch directory: $RESVAL_DIR (default /root/scratch-resfacts/val); remove it afterwards.
set -u
VERIF=${VERIF:-/verif}
SEEDED=${SEEDED:-$VERIF/seeded}
REPO=/repo
WORK=${RESVAL_DIR:-/root/scratch-resfacts/val}
BIN=$WORK/resfacts
PROJ=$WORK/lean
export GOFLAGS=-mod=mod GOPROXY=off

mkdir -p "$WORK" "$PROJ/SST/Generated" "$PROJ/SST/Props"
(cd $VERIF/tools/resfacts && timeout 300 go build -o "$BIN" .) || { echo "resfacts does not build"; exit 2; }
cp $VERIF/lean/lean-toolchain $VERIF/lean/lake-manifest.json "$PROJ/"
printf 'name = "SST"\nversion = "0.1.0"\ndefaultTargets = ["SST"]\n\n[[lean_lib]]\nname = "SST"\n' > "$PROJ/lakefile.toml"
cp $VERIF/lean/SST/Props/C19_Resources.lean "$PROJ/SST/Props/"

theorem_at() { # file line -> name of the enclosing theorem
  awk -v L="$2" '/^theorem /{n=$2} NR==L{print n; exit}' "$1"
}

# rows without the (informational) line-number columns
rows() { grep '⟨' "$1" | sed -E 's/^(  ⟨"[^"]*", [0-9]+), [0-9]+, /\1, /; s/, \[[0-9, ]*\], (\[[^]]*\], "[^"]*", (true|false)⟩)/, \1/'; }

run_one() {
  local m=$1 root=$WORK/root_$1 patch=""
  rm -rf "$root"; mkdir -p "$root"
  case $m in
    baseline) ;;
    C??-m?) patch=$SEEDED/$m/patch.diff ;;
    R*)     patch=$VERIF/tools/resfacts/regressions/$m.diff ;;
    *-R)
      local c=${m%-R}
      for f in $(git -C $REPO show --format= --name-only $c | grep '\.go$' | grep -v '_test\.go$'); do
        mkdir -p "$root/$(dirname $f)"; cp "$REPO/$f" "$root/$f"
      done
      (git -C $REPO show --format= $c -- $(git -C $REPO show --format= --name-only $c | grep '\.go$' | grep -v '_test\.go$') | (cd "$root" && timeout 30 patch -s -R -p1 >/dev/null 2>&1)) || { echo "== $m | reverse patch does not apply"; return; } ;;
    *) echo "== $m | unknown mutant"; return ;;
  esac
  if [ -n "$patch" ]; then
    [ -f "$patch" ] || { echo "== $m | no such patch: $patch"; return; }
    for f in $(grep '^+++ b/' "$patch" | sed 's#^+++ b/##'); do
      mkdir -p "$root/$(dirname $f)"; cp "$REPO/$f" "$root/$f"
    done
    (cd "$root" && grep -v '^#' "$patch" | timeout 30 patch -s -p1 >/dev/null 2>&1) || { echo "== $m | patch does not apply to the current tree (the code it changes was rewritten since it was seeded)"; return; }
  fi
  local strict="ok"
  mkdir -p "$WORK/strict_out"
  timeout 120 "$BIN" --root "$root" $REPO "$WORK/strict_out" >/dev/null 2>"$WORK/strict_err" || strict="exit $? ($(head -c 300 $WORK/strict_err | tr '\n' ' '))"
  timeout 120 "$BIN" --root "$root" --allow-missing $REPO "$PROJ/SST/Generated" 2>/dev/null
  local changed
  changed=$(diff <(rows "$WORK/base/ResFlow.lean" 2>/dev/null) <(rows "$PROJ/SST/Generated/ResFlow.lean") | grep -c '^>')
  (cd "$PROJ" && timeout 1500 lake build SST.Props.C19_Resources 2>&1) > "$WORK/build_$m.log"
  local failed=""
  while IFS= read -r line; do
    f=$(echo "$line" | sed -E 's/^error: ([^:]+):([0-9]+):.*/\1/'); l=$(echo "$line" | sed -E 's/^error: ([^:]+):([0-9]+):.*/\2/')
    case $f in /*) ;; *) f="$PROJ/$f" ;; esac
    failed="$failed $(theorem_at "$f" "$l")"
  done < <(grep -E '^error: [^ ]+\.lean:[0-9]+:[0-9]+' "$WORK/build_$m.log")
  failed=$(echo $failed | tr ' ' '\n' | sort -u | tr '\n' ' ' | sed 's/^ *//;s/ *$//')
  echo "== $m | resfacts (strict): $strict | rows that differ from the unchanged tree: $changed"
  [ "$m" != baseline ] && diff <(rows "$WORK/base/ResFlow.lean") <(rows "$PROJ/SST/Generated/ResFlow.lean") | grep '^>' | cut -c1-330 | sed 's/^> */     now: /'
  echo "   failing theorems: ${failed:-none}"
}

# reference table of the unchanged tree
mkdir -p "$WORK/base"
timeout 120 "$BIN" $REPO "$WORK/base" || { echo "resfacts fails on the unchanged tree"; exit 2; }

REGS=$(cd $VERIF/tools/resfacts/regressions 2>/dev/null && ls *.diff 2>/dev/null | sed 's/\.diff$//')
# the repairs of the former FINDINGs, each reversed: F1 ef70dba, F5 8cb5d77, F2 5d579b7, F3 3b4867f, F4 a9ebc7d + a7ed007,
# F9 bfb8835, F7 edfc7e7, F8 b2bab73, F10 9faa0b1, done signal 6dd9211 (F6 2af272a closes a file that is passed in: no row)
FIXES="ef70dba-R 8cb5d77-R 5d579b7-R 3b4867f-R a9ebc7d-R a7ed007-R bfb8835-R edfc7e7-R b2bab73-R 9faa0b1-R 6dd9211-R"
ALL="baseline C19-m1 C19-m2 C19-m3 C19-m4 C19-m5 C19-m6 C11-m4 C02-m2 $REGS $FIXES"
for m in ${@:-$ALL}; do run_one $m; done
