// resfacts: regenerates lean/SST/Generated/ResFlow.lean from /repo's working tree.
//
//	resfacts [--root <overlay dir>] [--allow-missing] <repo> <outdir>
//
// Standard library only; the packages of /repo are parsed and TYPE-CHECKED exactly as tools/errfacts does (go/types,
// module packages from source with the overlay applied, everything else through the offline "source" importer).
//
// For EVERY function declared in a fixed list of files it emits
//
//   - `acquisitions`: one row per call that hands out something that has to be given back — a call with a result whose type
//     has Close() (os.Open/OpenFile/Create, directio.OpenFile, mmap.Open, the repo's own constructors and factories, index
//     loaders …) or that is a time.Ticker, every `go` statement, and every call of a listed function that leaves acquired
//     resources behind in the receiver / a parameter of the calling function (kind "state") — with what becomes of the value
//     on EVERY path from the acquisition to every exit of the enclosing function (or function literal), worst first:
//     unknown "<why>"    a construct the walk does not understand (kept visible)
//     neverClosed        some path that does NOT end in an error return loses it (dropped result, `_`, variable overwritten
//     or out of scope, plain return without it); `leakOn` says where
//     leakedOnErrorPath  some error return between the acquisition and its release / hand-over leaves it open; `leakOn` names
//     the failing step(s) (the call whose error that return reports, else the condition), `leakLines` the lines
//     returned            ownership moves to the caller (the value, an object built around it, or a call it is passed to is
//     returned); every other path closes it
//     storedIn "<where>"  ownership moves into state that outlives the call (field of the receiver / of a parameter, element of
//     such a slice, argument of a method of such an object); `errAfterStore` names the failing steps of the
//     same function that return an error AFTER the store (a half-built owner is left behind)
//     handedTo "<callee>" passed to another acquiring call, which takes it over
//     joinedVia "<chan>"  goroutines: the started function signals completion on that channel field — by a deferred send
//     (`sites` = ["defer"]), or by a plain send that is the last statement before EVERY normal exit of the function (each
//     `return` of the function itself and the end of its body; `sites` = one "direct" per exit; a path that ends in
//     log.Panicf & co. is not a normal exit); anything else: unknown
//     closedOnAllPaths    Close()/Stop() is reached on every path, directly, inside a return expression, or by `defer`;
//     `sites` lists the release sites in source order: direct | return | defer | deferGuarded(<cond>); a deferred literal
//     whose body starts with `if X == nil { return }` guards the rest of its body by `X != nil`.  A value stored in a field
//     of the receiver / a parameter that an EARLIER-registered deferred statement closes under `<named error result> != nil`
//     only (the clean-up of a failing constructor / Open) is storedIn with that site and no `errAfterStore`
//   - `releases`: for every method named Close (plus SSTableManager.reflectCompactionResult and Appender.Rotate) one row per
//     OWNED field of the receiver (closable type, channel, collection of such, pointer to a struct of this module that owns
//     something): closedUnconditionally | closedInBranch "<cond>" | promoted (the type has no Close of its own, the embedded
//     field's is promoted) | notClosed; `via` = the release operations in source order (Close, Stop, recv, close, send,
//     prefixed with defer / deferGuarded(..)), `skippable`/`skippedBy` = an early return can leave the method before the
//     field is released (the failing step; for a function literal called in place "func literal: <its failing exits>"),
//     `order` = rank of its first release site among the fields of the method.
//
// A tree that does not type-check or a REQUIRED function that is missing is an error (exit 1) unless --allow-missing.
// The output is deterministic and rewritten only when its content changes.
package main

import (
	"fmt"
	"go/ast"
	"go/build"
	"go/importer"
	"go/types"
	"os"
	"path/filepath"
	"sort"
	"strings"
)

var files = []string{
	"recordio/file_reader.go", "recordio/file_writer.go", "recordio/mmap_reader.go", "recordio/buffered_io.go", "recordio/direct_io.go",
	"recordio/proto/mmap_proto_reader.go", "recordio/proto/proto_reader.go", "recordio/proto/proto_writer.go",
	"sstables/sstable_reader.go", "sstables/sstable_writer.go", "sstables/sstable_iterator.go", "sstables/super_sstable_reader.go",
	"sstables/disk_key_index.go", "sstables/map_key_index.go", "sstables/slice_key_index.go", "sstables/skiplist_index.go",
	"sstables/sstable_index.go", "sstables/sstable_merger.go", "memstore/memstore.go",
	"wal/appender.go", "wal/replayer.go", "wal/write_ahead_log.go", "wal/cleaner.go",
	"simpledb/db.go", "simpledb/flush.go", "simpledb/compaction.go", "simpledb/sstable_manager.go", "simpledb/recovery.go",
}

// functions the theorems speak about: they must exist
var required = []string{
	"recordio.NewFileReader", "recordio.NewFileReaderWithFile", "recordio.NewMemoryMappedReaderWithPath", "recordio.NewFileWriter",
	"BufferedIOFactory.CreateNewReader", "BufferedIOFactory.CreateNewWriter", "DirectIOFactory.CreateNewReader", "DirectIOFactory.CreateNewWriter",
	"FileReader.Close", "MMapReader.Close", "FileWriter.Close",
	"rproto.NewReader", "rproto.NewWriter", "rproto.NewMMapProtoReaderWithPath", "rproto.Writer.Close",
	"sstables.NewSSTableReader", "SSTableReader.Scan", "SSTableReader.Close", "sstables.readMetaDataIfExists",
	"SSTableStreamWriter.Open", "SSTableStreamWriter.Close", "SSTableSimpleWriter.WriteSkipListMap", "SuperSSTableReader.Close",
	"DiskIndexLoader.Load", "DiskKeyIndex.Close", "SliceKeyIndexLoader.Load", "MapKeyIndexLoader.Load", "SkipListIndexLoader.Load",
	"memstore.flushMemstore",
	"wal.NewAppender", "wal.setupNextWriter", "Appender.Rotate", "Appender.Close", "Replayer.replayFile", "wal.NewWriteAheadLog",
	"DB.Open", "DB.Close", "simpledb.executeFlush", "simpledb.executeCompaction", "simpledb.saveCompactionMetadata",
	"SSTableManager.reflectCompactionResult", "SSTableManager.addReader", "DB.repairCompactions", "DB.reconstructSSTables",
	"DB.replayAndSetupWriteAheadLog", "simpledb.flushMemstoreContinuously", "simpledb.backgroundCompaction",
}

var relExtras = map[string]bool{"SSTableManager.reflectCompactionResult": true, "Appender.Rotate": true}

type fnOut struct {
	name, file string
	found      bool
	acq        []acqRow
	rel        []relRow
}

func pkgPrefix(file string) string {
	d := filepath.ToSlash(filepath.Dir(file))
	if d == "recordio/proto" {
		return "rproto"
	}
	return filepath.Base(d)
}

func main() {
	var root string
	allowMissing := false
	var pos []string
	for i := 1; i < len(os.Args); i++ {
		switch a := os.Args[i]; {
		case a == "--root" && i+1 < len(os.Args):
			root = os.Args[i+1]
			i++
		case strings.HasPrefix(a, "--root="):
			root = strings.TrimPrefix(a, "--root=")
		case a == "--allow-missing":
			allowMissing = true
		default:
			pos = append(pos, a)
		}
	}
	if len(pos) != 2 {
		fmt.Fprintln(os.Stderr, "usage: resfacts [--root <overlay dir>] [--allow-missing] <repo> <outdir>")
		os.Exit(2)
	}
	repo, err := filepath.Abs(pos[0])
	if err != nil {
		fatal(err)
	}
	out := pos[1]
	if root != "" {
		if root, err = filepath.Abs(root); err != nil {
			fatal(err)
		}
	}
	if err := os.MkdirAll(out, 0o755); err != nil {
		fatal(err)
	}
	build.Default.Dir = repo
	os.Setenv("GOFLAGS", "-mod=readonly")
	os.Setenv("GOPROXY", "off")
	l := &loader{repo: repo, root: root, mod: moduleOf(repo), pkgs: map[string]*types.Package{}, infos: map[string]*types.Info{},
		files: map[string]map[string]*ast.File{}}
	l.src = importer.ForCompiler(fset, "source", nil).(types.ImporterFrom)

	type unit struct {
		a    *analyzer
		file string
	}
	var units []unit
	var fileFound []bool
	fnNames := map[types.Object]string{}
	var promoted []relRow
	promotedFile := map[string]string{}
	for _, file := range files {
		path := l.mod + "/" + filepath.ToSlash(filepath.Dir(file))
		if _, ok := l.infos[path]; !ok {
			l.check(path)
		}
		f := l.files[path][file]
		fileFound = append(fileFound, f != nil)
		if f == nil {
			continue
		}
		info := l.infos[path]
		parents := map[ast.Node]ast.Node{}
		var stack []ast.Node
		ast.Inspect(f, func(n ast.Node) bool {
			if n == nil {
				stack = stack[:len(stack)-1]
				return true
			}
			if len(stack) > 0 {
				parents[n] = stack[len(stack)-1]
			}
			stack = append(stack, n)
			return true
		})
		pkgFns := map[string]*ast.FuncDecl{}
		closeOf := map[string]bool{}
		for _, pf := range l.files[path] {
			for _, d := range pf.Decls {
				if fd, ok := d.(*ast.FuncDecl); ok && fd.Body != nil {
					if fd.Recv == nil {
						pkgFns[fd.Name.Name] = fd
					} else if fd.Name.Name == "Close" {
						closeOf[recvName(fd)] = true
					}
				}
			}
		}
		pre := pkgPrefix(file)
		qual := pre == "rproto"
		for _, d := range f.Decls {
			switch x := d.(type) {
			case *ast.FuncDecl:
				if x.Body == nil {
					continue
				}
				n := x.Name.Name
				if r := recvName(x); r != "" {
					n = r + "." + n
					if qual {
						n = pre + "." + n
					}
				} else {
					n = pre + "." + n
				}
				a := &analyzer{info: info, parents: parents, fd: x, name: n, mod: l.mod, pkgFns: pkgFns, fnNames: fnNames}
				a.computeAliases()
				if o := info.Defs[x.Name]; o != nil {
					fnNames[o] = n
				}
				units = append(units, unit{a, file})
			case *ast.GenDecl:
				// struct types that are closable only through an embedded field
				for _, sp := range x.Specs {
					ts, ok := sp.(*ast.TypeSpec)
					if !ok {
						continue
					}
					if _, ok := ts.Type.(*ast.StructType); !ok || closeOf[ts.Name.Name] {
						continue
					}
					o := info.Defs[ts.Name]
					if o == nil {
						continue
					}
					st, ok := o.Type().Underlying().(*types.Struct)
					if !ok {
						continue
					}
					obj, index, _ := types.LookupFieldOrMethod(types.NewPointer(o.Type()), true, nil, "Close")
					if _, isFn := obj.(*types.Func); !isFn || len(index) < 2 {
						continue
					}
					tn := ts.Name.Name
					if qual {
						tn = pre + "." + tn
					}
					a := &analyzer{info: info, mod: l.mod}
					k := 0
					for i := 0; i < st.NumFields(); i++ {
						fl := st.Field(i)
						if !a.owned(fl.Type(), 0) {
							continue
						}
						r := relRow{fn: tn + ".Close", idx: k, field: fl.Name(), ftype: typeString(fl.Type()), disp: "notClosed"}
						if i == index[0] {
							r.disp, r.via, r.order = "promoted", []string{"Close"}, 1
						}
						promoted = append(promoted, r)
						promotedFile[tn+".Close"] = file
						k++
					}
				}
			}
		}
	}

	// acquisitions, with the "leaves resources behind in its receiver / parameter" set computed to a fixpoint
	storing := map[string]bool{}
	acq := map[string][]acqRow{}
	for round := 0; round < 8; round++ {
		changed := false
		for _, u := range units {
			rows := u.a.acquisitions(storing)
			acq[u.a.name] = rows
			for _, r := range rows {
				if (r.disp == "storedIn" || r.stores) && r.kind != "wrapper" && !storing[u.a.name] {
					storing[u.a.name] = true
					changed = true
				}
			}
		}
		if !changed {
			break
		}
	}
	var fns []fnOut
	seen := map[string]bool{}
	for _, u := range units {
		fo := fnOut{name: u.a.name, file: u.file, found: true, acq: acq[u.a.name]}
		if u.a.fd.Name.Name == "Close" || relExtras[u.a.name] {
			fo.rel = u.a.releases()
		}
		seen[fo.name] = true
		isReq := false
		for _, r := range required {
			if r == fo.name {
				isReq = true
			}
		}
		if len(fo.acq) > 0 || len(fo.rel) > 0 || isReq {
			fns = append(fns, fo)
		}
	}
	// promoted Close methods
	var pnames []string
	byName := map[string][]relRow{}
	for _, r := range promoted {
		if _, ok := byName[r.fn]; !ok {
			pnames = append(pnames, r.fn)
		}
		byName[r.fn] = append(byName[r.fn], r)
	}
	for _, n := range pnames {
		fns = append(fns, fnOut{name: n, file: promotedFile[n], found: true, rel: byName[n]})
		seen[n] = true
	}
	var missing []string
	for _, r := range required {
		if !seen[r] {
			missing = append(missing, r)
			fns = append(fns, fnOut{name: r})
		}
	}
	for i, ok := range fileFound {
		if !ok {
			missing = append(missing, "file "+files[i])
		}
	}
	if len(l.problems) > 0 {
		msg := "the source does not type-check (or an import could not be resolved offline):\n  " + strings.Join(l.problems, "\n  ")
		if !allowMissing {
			fatal(msg)
		}
		fmt.Fprintln(os.Stderr, "resfacts: warning:", msg)
	}
	if len(missing) > 0 && !allowMissing {
		fatal("required function(s) / file(s) not found in the source — the resource-flow tie is broken:\n  " + strings.Join(missing, "\n  "))
	}
	for _, m := range missing {
		fmt.Fprintln(os.Stderr, "resfacts: warning: missing", m)
	}
	writeIfChanged(filepath.Join(out, "ResFlow.lean"), render(fns, fileFound))
	if os.Getenv("RESFACTS_SUMMARY") != "" {
		summary(fns)
	}
}

func summary(fns []fnOut) {
	tot := map[string]int{}
	for _, f := range fns {
		c := map[string]int{}
		for _, r := range f.acq {
			c[r.disp]++
			tot[r.disp]++
		}
		for _, r := range f.rel {
			c["rel:"+r.disp]++
			tot["rel:"+r.disp]++
		}
		var ks []string
		for k := range c {
			ks = append(ks, k)
		}
		sort.Strings(ks)
		var parts []string
		for _, k := range ks {
			parts = append(parts, fmt.Sprintf("%s=%d", k, c[k]))
		}
		fmt.Printf("%-48s %s\n", f.name, strings.Join(parts, " "))
	}
	var ks []string
	for k := range tot {
		ks = append(ks, k)
	}
	sort.Strings(ks)
	for _, k := range ks {
		fmt.Printf("TOTAL %s=%d\n", k, tot[k])
	}
}
