// resfacts: regenerates lean/SST/Generated/ResFlow.lean from /repo's working tree.
//
//	resfacts [--root <overlay dir>] [--allow-missing] <repo> <outdir>
//
// Standard library only; the packages of /repo are parsed and TYPE-CHECKED exactly as tools/errfacts does (go/types,
// module packages from source with the overlay applied, everything else through the offline "source" importer).
//
// EVERYTHING a row says about the source is a go/types IDENTITY (canon.go, shared verbatim with tools/orderfacts and
// tools/errfacts), never the spelling of a local variable, a receiver, a parameter or an import alias, and never a position
// (the `line` / `leakLines` columns excepted, which are information for the reader and used by no theorem):
//
//	callee / handedTo / failing steps   canon.callee: pkg.Func with the package by module-relative / import path
//	                ("recordio/proto.NewReader", "github.com/ncw/directio.OpenFile"), <type of the root variable>.<field path>.
//	                Method for methods and func-typed fields ("sstables.SSTableStreamWriter.Open",
//	                "wal.Appender.walOptions.writerFactory"); a renamed PRIVATE function keeps the name the specification
//	                knows (canon.go: privateSigs / resolveFunc) — also in the `fn` column and in "via <fn>"
//	places (bound, storedIn, joinedVia) the field path under the TYPE of its root ("sstables.SSTableStreamWriter.indexWriter",
//	                "simpledb.SSTableManager.allSSTableReaders[]"); `bound` of a value that a local receives: the field(s) of
//	                local objects / slots of local collections the value is put into if there are any
//	                ("sstables.SSTableReader.index"), else the local's type
//	conditions      canon.cond: errNonNil / errNil, nonNil(x) / isNil(x), isSentinel(S), comparisons by == and <, a local with
//	                one definition replaced by its defining expression, other locals by their type; the else branch of `if X`
//	                is the negation of X in the same normal form, so `if X {A} else {B}` and `if !X {B} else {A}` read alike;
//	                nested conditions are joined by " && ", outermost first
//	failing step    of an error return: THE CALL WHOSE ERROR THE RETURN REPORTS — the returned expression is followed through
//	                wrappers (fmt.Errorf("…%w", err), errors.Join: pure calls whose only result is the error) and through the
//	                error variable to the assignment(s) that can be the last one before the return (reaching definitions over
//	                the structured control flow of the function: an assignment inside a branch that ends in continue / return
//	                does not reach what follows the branch; "f | g" when several reach) — however the `if` around the return
//	                is spelled; a function literal called in place: "func literal: <its own failing exits>"; only when there
//	                is no such call (a sentinel, a fresh error) the canonical condition of the innermost enclosing if, else
//	                "end".  The steps of a row are listed in the order in which they stand in the source.
//
// Pure / logging calls are recognised by WHAT is called (canon.pureCall), e.g. a log line between a goroutine's done signal
// and its return does not count.  Helpers of the module are looked into ONE level where that decides a row: a call
// `closeQuietly(x)` / `w.closeFiles()` whose body does X.Close() / X.Stop() on an operand unconditionally (nil check of X
// aside) is a release; a method whose every return hands out a field of its receiver is an accessor, not an acquisition; the
// function a `go` statement starts is found by the identity of the called object; condition helpers (`isEOF(err)`) are
// inlined by canon.cond.  A helper that releases CONDITIONALLY is not taken for a release: the row then shows the value as
// left open — visible, never silently accepted.
//
// For EVERY function declared in a fixed list of files (and for a REQUIRED function wherever in its package it is declared
// now) it emits
//
//   - `acquisitions`: one row per call that hands out something that has to be given back — a call with a result whose type
//     has Close() (os.Open/OpenFile/Create, directio.OpenFile, mmap.Open, the repo's own constructors and factories, index
//     loaders …) or that is a time.Ticker, every `go` statement, and every call of a listed function that leaves acquired
//     resources behind in the receiver / a parameter of the calling function (kind "state") — with what becomes of the value
//     on EVERY path from the acquisition to every exit of the enclosing function (or function literal), worst first:
//     unknown "<why>"    a construct the walk does not understand (kept visible)
//     neverClosed        some path that does NOT end in an error return loses it (dropped result, `_`, variable overwritten
//     or out of scope, plain return without it); `leakOn` says where
//     leakedOnErrorPath  some error return between the acquisition and its release / hand-over leaves it open; `leakOn` names
//     the failing step(s) (the call whose error that return reports, else the condition), `leakLines` the lines
//     returned            ownership moves to the caller (the value, an object built around it, or a call it is passed to is
//     returned); every other path closes it
//     storedIn "<where>"  ownership moves into state that outlives the call (field of the receiver / of a parameter, element of
//     such a slice, argument of a method of such an object); `errAfterStore` names the failing steps of the
//     same function that return an error AFTER the store (a half-built owner is left behind)
//     handedTo "<callee>" passed to another acquiring call, which takes it over
//     joinedVia "<chan>"  goroutines: the started function signals completion on that channel field — by a deferred send
//     (`sites` = ["defer"]), or by a plain send that is the last statement before EVERY normal exit of the function (each
//     `return` of the function itself and the end of its body; `sites` = one "direct" per exit; a path that ends in
//     log.Panicf & co. is not a normal exit); anything else: unknown
//     closedOnAllPaths    Close()/Stop() is reached on every path, directly, inside a return expression, or by `defer`;
//     `sites` lists the release sites in source order: direct | return | defer | deferGuarded(<cond>); in a deferred literal
//     `if C { return }` (bare return) guards what follows it by !C, so `if err != nil { clean-up }` and
//     `if err == nil { return }; clean-up` both read deferGuarded(errNonNil).  A value stored in a field of the receiver / a
//     parameter that an EARLIER-registered deferred statement closes under `<named error result> != nil` only — decided on
//     the structure of the guard and the identity of the variable, not on its text — (the clean-up of a failing constructor /
//     Open) is storedIn with that site and no `errAfterStore`
//   - `releases`: for every method named Close (plus SSTableManager.reflectCompactionResult and Appender.Rotate) one row per
//     OWNED field of the receiver (closable type, channel, collection of such, pointer to a struct of this module that owns
//     something): closedUnconditionally | closedInBranch "<cond>" | promoted (the type has no Close of its own, the embedded
//     field's is promoted) | notClosed; `via` = the release operations in source order (Close, Stop, recv, close, send,
//     prefixed with defer / deferGuarded(..)), `skippable`/`skippedBy` = an early return can leave the method before the
//     field is released (the failing step as above; for a function literal called in place "func literal: <its failing exits>"),
//     `order` = rank of its first release site among the fields of the method.
//
// A tree that does not type-check or a REQUIRED function that is missing is an error (exit 1) unless --allow-missing.
// The output is deterministic and rewritten only when its content changes.
// HELPERS WITH A SINGLE CALL SITE (expand.go): an unexported function / method that no theorem names and that is called
// exactly once (as a statement, the single right-hand side of an assignment or the single result of a return) is examined
// as part of its caller — on a scratch overlay in which the call is a function literal called in place — and an
// acquisition inside such a literal is followed in the function around it (rows.go `acquisition`).  Rows therefore do not
// change when a stretch of a function is extracted into a private helper (resources appended to a result that the caller
// closes in a deferred block) or when a called literal becomes a method (DB.Close: the releases, their order and the
// "func literal: <failing exits>" step stay).
package main

import (
	"fmt"
	"go/ast"
	"go/build"
	"go/importer"
	"go/types"
	"os"
	"path/filepath"
	"sort"
	"strings"
)

var files = []string{
	"recordio/file_reader.go", "recordio/file_writer.go", "recordio/mmap_reader.go", "recordio/buffered_io.go", "recordio/direct_io.go",
	"recordio/proto/mmap_proto_reader.go", "recordio/proto/proto_reader.go", "recordio/proto/proto_writer.go",
	"sstables/sstable_reader.go", "sstables/sstable_writer.go", "sstables/sstable_iterator.go", "sstables/super_sstable_reader.go",
	"sstables/disk_key_index.go", "sstables/map_key_index.go", "sstables/slice_key_index.go", "sstables/skiplist_index.go",
	"sstables/sstable_index.go", "sstables/sstable_merger.go", "memstore/memstore.go",
	"wal/appender.go", "wal/replayer.go", "wal/write_ahead_log.go", "wal/cleaner.go",
	"simpledb/db.go", "simpledb/flush.go", "simpledb/compaction.go", "simpledb/sstable_manager.go", "simpledb/recovery.go",
}

// functions the theorems speak about: they must exist
var required = []string{
	"recordio.NewFileReader", "recordio.NewFileReaderWithFile", "recordio.NewMemoryMappedReaderWithPath", "recordio.NewFileWriter",
	"BufferedIOFactory.CreateNewReader", "BufferedIOFactory.CreateNewWriter", "DirectIOFactory.CreateNewReader", "DirectIOFactory.CreateNewWriter",
	"FileReader.Close", "MMapReader.Close", "FileWriter.Close",
	"rproto.NewReader", "rproto.NewWriter", "rproto.NewMMapProtoReaderWithPath", "rproto.Writer.Close",
	"sstables.NewSSTableReader", "SSTableReader.Scan", "SSTableReader.Close", "sstables.readMetaDataIfExists",
	"SSTableStreamWriter.Open", "SSTableStreamWriter.Close", "SSTableSimpleWriter.WriteSkipListMap", "SuperSSTableReader.Close",
	"DiskIndexLoader.Load", "DiskKeyIndex.Close", "SliceKeyIndexLoader.Load", "MapKeyIndexLoader.Load", "SkipListIndexLoader.Load",
	"memstore.flushMemstore",
	"wal.NewAppender", "wal.setupNextWriter", "Appender.Rotate", "Appender.Close", "Replayer.replayFile", "wal.NewWriteAheadLog",
	"DB.Open", "DB.Close", "simpledb.executeFlush", "simpledb.executeCompaction", "simpledb.saveCompactionMetadata",
	"SSTableManager.reflectCompactionResult", "SSTableManager.addReader", "DB.repairCompactions", "DB.reconstructSSTables",
	"DB.replayAndSetupWriteAheadLog", "simpledb.flushMemstoreContinuously", "simpledb.backgroundCompaction",
}

var relExtras = map[string]bool{"SSTableManager.reflectCompactionResult": true, "Appender.Rotate": true}

type fnOut struct {
	name, file string
	found      bool
	acq        []acqRow
	rel        []relRow
}

func pkgPrefix(file string) string {
	d := filepath.ToSlash(filepath.Dir(file))
	if d == "recordio/proto" {
		return "rproto"
	}
	return filepath.Base(d)
}

func main() {
	var root string
	allowMissing := false
	var pos []string
	for i := 1; i < len(os.Args); i++ {
		switch a := os.Args[i]; {
		case a == "--root" && i+1 < len(os.Args):
			root = os.Args[i+1]
			i++
		case strings.HasPrefix(a, "--root="):
			root = strings.TrimPrefix(a, "--root=")
		case a == "--allow-missing":
			allowMissing = true
		default:
			pos = append(pos, a)
		}
	}
	if len(pos) != 2 {
		fmt.Fprintln(os.Stderr, "usage: resfacts [--root <overlay dir>] [--allow-missing] <repo> <outdir>")
		os.Exit(2)
	}
	repo, err := filepath.Abs(pos[0])
	if err != nil {
		fatal(err)
	}
	out := pos[1]
	if root != "" {
		if root, err = filepath.Abs(root); err != nil {
			fatal(err)
		}
	}
	if err := os.MkdirAll(out, 0o755); err != nil {
		fatal(err)
	}
	build.Default.Dir = repo
	os.Setenv("GOFLAGS", "-mod=readonly")
	os.Setenv("GOPROXY", "off")
	newLoader := func(root string) *loader {
		l := &loader{repo: repo, root: root, mod: moduleOf(repo), pkgs: map[string]*types.Package{}, infos: map[string]*types.Info{},
			files: map[string]map[string]*ast.File{}, decls: map[*types.Func]*helperDecl{}}
		l.src = importer.ForCompiler(fset, "source", nil).(types.ImporterFrom)
		return l
	}
	// private helpers with a single call site are examined as part of their caller (expand.go): the analysis runs on a
	// scratch overlay in which they are function literals called in place
	root, cleanupExpand := expandHelpers(repo, root, moduleOf(repo), newLoader)
	defer cleanupExpand()
	l := newLoader(root)
	modPath = l.mod

	type unit struct {
		a    *analyzer
		file string
	}
	var units []unit
	declSeen := map[*ast.FuncDecl]bool{}
	var fileFound []bool
	fnNames := map[types.Object]string{}
	var promoted []relRow
	promotedFile := map[string]string{}
	for _, file := range files {
		path := l.mod + "/" + filepath.ToSlash(filepath.Dir(file))
		if _, ok := l.infos[path]; !ok {
			l.check(path)
		}
		f := l.files[path][file]
		fileFound = append(fileFound, f != nil)
		if f == nil {
			continue
		}
		info := l.infos[path]
		parents := parentsOf(f)
		closeOf := map[string]bool{}
		for _, pf := range l.files[path] {
			for _, d := range pf.Decls {
				if fd, ok := d.(*ast.FuncDecl); ok && fd.Body != nil && fd.Recv != nil && fd.Name.Name == "Close" {
					closeOf[recvName(fd)] = true
				}
			}
		}
		pre := pkgPrefix(file)
		qual := pre == "rproto"
		for _, d := range f.Decls {
			switch x := d.(type) {
			case *ast.FuncDecl:
				if x.Body == nil {
					continue
				}
				units = append(units, unit{newUnit(l, info, parents, x, pre, fnNames), file})
				declSeen[x] = true
			case *ast.GenDecl:
				// struct types that are closable only through an embedded field
				for _, sp := range x.Specs {
					ts, ok := sp.(*ast.TypeSpec)
					if !ok {
						continue
					}
					if _, ok := ts.Type.(*ast.StructType); !ok || closeOf[ts.Name.Name] {
						continue
					}
					o := info.Defs[ts.Name]
					if o == nil {
						continue
					}
					st, ok := o.Type().Underlying().(*types.Struct)
					if !ok {
						continue
					}
					obj, index, _ := types.LookupFieldOrMethod(types.NewPointer(o.Type()), true, nil, "Close")
					if _, isFn := obj.(*types.Func); !isFn || len(index) < 2 {
						continue
					}
					tn := ts.Name.Name
					if qual {
						tn = pre + "." + tn
					}
					a := &analyzer{info: info, mod: l.mod}
					k := 0
					for i := 0; i < st.NumFields(); i++ {
						fl := st.Field(i)
						if !a.owned(fl.Type(), 0) {
							continue
						}
						r := relRow{fn: tn + ".Close", idx: k, field: fl.Name(), ftype: typeString(fl.Type()), disp: "notClosed"}
						if i == index[0] {
							r.disp, r.via, r.order = "promoted", []string{"Close"}, 1
						}
						promoted = append(promoted, r)
						promotedFile[tn+".Close"] = file
						k++
					}
				}
			}
		}
	}

	// a REQUIRED function that is not declared in one of the listed files any more (moved to another file of its package) is
	// looked up by package + name — a private one that was renamed by its role (canon.go: resolveFunc) — and examined where
	// it is now
	for _, r := range required {
		f, relPkg := resolveRequired(l, r)
		if f == nil {
			continue
		}
		h := l.lookup(f)
		if h == nil || declSeen[h.fd] {
			continue
		}
		path := l.mod + "/" + relPkg
		for rel, pf := range l.files[path] {
			if pf.Pos() <= h.fd.Pos() && h.fd.End() <= pf.End() {
				pre := pkgPrefix(rel)
				units = append(units, unit{newUnit(l, h.info, parentsOf(pf), h.fd, pre, fnNames), filepath.ToSlash(rel)})
				declSeen[h.fd] = true
				fmt.Fprintf(os.Stderr, "resfacts: note: %s is now declared in %s\n", r, filepath.ToSlash(rel))
			}
		}
	}
	for _, n := range l.renamed {
		fmt.Fprintln(os.Stderr, "resfacts: note:", n, "(found by receiver + signature; its rows keep the old name)")
	}

	// acquisitions, with the "leaves resources behind in its receiver / parameter" set computed to a fixpoint
	storing := map[string]bool{}
	acq := map[string][]acqRow{}
	for round := 0; round < 8; round++ {
		changed := false
		for _, u := range units {
			rows := u.a.acquisitions(storing)
			acq[u.a.name] = rows
			for _, r := range rows {
				if (r.disp == "storedIn" || r.stores) && r.kind != "wrapper" && !storing[u.a.name] {
					storing[u.a.name] = true
					changed = true
				}
			}
		}
		if !changed {
			break
		}
	}
	var fns []fnOut
	seen := map[string]bool{}
	for _, u := range units {
		fo := fnOut{name: u.a.name, file: u.file, found: true, acq: acq[u.a.name]}
		if u.a.fd.Name.Name == "Close" || relExtras[u.a.name] {
			fo.rel = u.a.releases()
		}
		seen[fo.name] = true
		isReq := false
		for _, r := range required {
			if r == fo.name {
				isReq = true
			}
		}
		if len(fo.acq) > 0 || len(fo.rel) > 0 || isReq {
			fns = append(fns, fo)
		}
	}
	// promoted Close methods
	var pnames []string
	byName := map[string][]relRow{}
	for _, r := range promoted {
		if _, ok := byName[r.fn]; !ok {
			pnames = append(pnames, r.fn)
		}
		byName[r.fn] = append(byName[r.fn], r)
	}
	for _, n := range pnames {
		fns = append(fns, fnOut{name: n, file: promotedFile[n], found: true, rel: byName[n]})
		seen[n] = true
	}
	var missing []string
	for _, r := range required {
		if !seen[r] {
			missing = append(missing, r)
			fns = append(fns, fnOut{name: r})
		}
	}
	for i, ok := range fileFound {
		if !ok {
			missing = append(missing, "file "+files[i])
		}
	}
	if len(l.problems) > 0 {
		msg := "the source does not type-check (or an import could not be resolved offline):\n  " + strings.Join(l.problems, "\n  ")
		if !allowMissing {
			fatal(msg)
		}
		fmt.Fprintln(os.Stderr, "resfacts: warning:", msg)
	}
	if len(missing) > 0 && !allowMissing {
		fatal("required function(s) / file(s) not found in the source — the resource-flow tie is broken:\n  " + strings.Join(missing, "\n  "))
	}
	for _, m := range missing {
		fmt.Fprintln(os.Stderr, "resfacts: warning: missing", m)
	}
	writeIfChanged(filepath.Join(out, "ResFlow.lean"), render(fns, fileFound))
	if os.Getenv("RESFACTS_SUMMARY") != "" {
		summary(fns)
	}
}

var parentMaps = map[*ast.File]map[ast.Node]ast.Node{}

func parentsOf(f *ast.File) map[ast.Node]ast.Node {
	if m, ok := parentMaps[f]; ok {
		return m
	}
	parents := map[ast.Node]ast.Node{}
	var stack []ast.Node
	ast.Inspect(f, func(n ast.Node) bool {
		if n == nil {
			stack = stack[:len(stack)-1]
			return true
		}
		if len(stack) > 0 {
			parents[n] = stack[len(stack)-1]
		}
		stack = append(stack, n)
		return true
	})
	parentMaps[f] = parents
	return parents
}

// the analyzer of one declaration.  Row name: <package prefix>.<func> / <Type>.<Method> (methods of recordio/proto:
// rproto.<Type>.<Method>) — the function's name as the SPECIFICATION knows it (objName: a renamed private function keeps it)
func newUnit(l *loader, info *types.Info, parents map[ast.Node]ast.Node, x *ast.FuncDecl, pre string, fnNames map[types.Object]string) *analyzer {
	n := x.Name.Name
	o := info.Defs[x.Name]
	if o != nil {
		n = objName(o)
	}
	if r := recvName(x); r != "" {
		n = r + "." + n
		if pre == "rproto" {
			n = pre + "." + n
		}
	} else {
		n = pre + "." + n
	}
	a := &analyzer{info: info, parents: parents, fd: x, name: n, mod: l.mod, fnNames: fnNames, lookup: l.lookup}
	a.cn = newCanon(l.mod, info, x.Body, l.lookup) // one per declaration: rename-stable identities (canon.go)
	a.computeAliases()
	if o != nil {
		fnNames[o] = n
	}
	return a
}

var prefixPkg = map[string]string{"recordio": "recordio", "rproto": "recordio/proto", "sstables": "sstables", "memstore": "memstore",
	"wal": "wal", "simpledb": "simpledb"}

// the function a name of `required` denotes, and the (module-relative) package it lives in
func resolveRequired(l *loader, name string) (*types.Func, string) {
	try := func(rel, spec string) *types.Func {
		p := l.pkgs[l.mod+"/"+rel]
		if p == nil {
			return nil
		}
		f, _ := resolveFunc(l.mod, p, spec)
		return f
	}
	if i := strings.Index(name, "."); i > 0 {
		if rel, ok := prefixPkg[name[:i]]; ok {
			if f := try(rel, name[i+1:]); f != nil {
				return f, rel
			}
		}
	}
	seen := map[string]bool{}
	for _, file := range files {
		rel := filepath.ToSlash(filepath.Dir(file))
		if seen[rel] || rel == "recordio/proto" { // methods of recordio/proto carry the rproto prefix
			continue
		}
		seen[rel] = true
		if f := try(rel, name); f != nil {
			return f, rel
		}
	}
	return nil, ""
}

func summary(fns []fnOut) {
	tot := map[string]int{}
	for _, f := range fns {
		c := map[string]int{}
		for _, r := range f.acq {
			c[r.disp]++
			tot[r.disp]++
		}
		for _, r := range f.rel {
			c["rel:"+r.disp]++
			tot["rel:"+r.disp]++
		}
		var ks []string
		for k := range c {
			ks = append(ks, k)
		}
		sort.Strings(ks)
		var parts []string
		for _, k := range ks {
			parts = append(parts, fmt.Sprintf("%s=%d", k, c[k]))
		}
		fmt.Printf("%-48s %s\n", f.name, strings.Join(parts, " "))
	}
	var ks []string
	for k := range tot {
		ks = append(ks, k)
	}
	sort.Strings(ks)
	for _, k := range ks {
		fmt.Printf("TOTAL %s=%d\n", k, tot[k])
	}
}
