# Per-property configuration used by ./check and tools/mkmanifest.py.
# streams: correspondence streams (harness) the property's theorems are tied to the code with.

COMMON_TB = [
    "Lean 4.33.0 kernel (thorough tier re-checks the .olean files with leanchecker)",
    "axioms allowed per theorem: propext, Classical.choice, Quot.sound (audited on every run with #print axioms; no sorry/admit/native_decide/bv_decide/own axioms)",
    "the Lean compiler for the driver executable sstdrv (compiled from the same definitions the theorems are about)",
    "translator harness/cmd/gofacts (constants taken from the compiled /repo packages) and the correspondence harness harness/cmd/sstcheck with its generators and canonicalisation",
]

RIO_MODELLED = "modelled, not verified: gzip/snappy/lzw (law dec (enc x) = some x; real compressors run on the Go side and are handed to the model as an oracle table), the vendored buffered reader (ideal byte stream), x/exp/mmap, the OS file system"

PROPS = {
    "C04": {
        "title": "RecordIO returns written records unchanged through every reader and access path",
        "streams": [{"name": "rio", "quick": 350, "thorough": 12000, "thorough_seeds": 3}],
        "technique": "Lean 4 proof (induction over writer programs and record lists) + differential correspondence model/Go on byte-exact file images",
        "level": "proof",
        "design_ref": "§5 C04",
        "text": "Theorems over the Lean model of the V4 format, writer state machine, sequential/mmap readers for ALL record lists, compressors (any lawful one) and writer programs with seeks to record boundaries: closed file = header ++ survivors, sequential read = survivors then EOF, ReadNextAt(offset_k) = record k, skip = read-and-discard, zero tail = EOF. The model is the same code the driver executable runs; it is tied to the Go code on every run by byte-exact comparison of written files, returned offsets and every reader result (incl. SeekNext from every offset of small files) on generated programs.",
        "note": "Trusted: Lean kernel, the three standard axioms, harness + generators; compressors, buffered reader, mmap, OS modelled as parameters. SeekNext is tied by correspondence and an implementation oracle (spec theorem pending); the format cannot distinguish a payload that embeds a complete valid record (known finding).",
        "trusted_base": COMMON_TB + [RIO_MODELLED],
        "assumptions": [RIO_MODELLED, "record sizes fit 64-bit header fields", "seeks go back to record boundaries (what the property states)"],
        "explanation": "proof over the model for all inputs; correspondence run ties the model to the current source",
    },
    "C16": {
        "title": "Skip-list map and merge heap behave as a sorted map and a sorted k-way merge",
        "streams": [{"name": "skip", "quick": 600, "thorough": 20000, "thorough_seeds": 2},
                    {"name": "pq", "quick": 2000, "thorough": 100000, "thorough_seeds": 2}],
        "technique": "Lean 4 proof (descent invariant of findGreaterOrEqual; binary-heap order invariant + multiset bookkeeping) + differential correspondence model/Go",
        "level": "proof",
        "design_ref": "§5 C16",
        "text": "Theorems for ALL insertion orders of distinct keys, ALL node heights >= 1 and ANY consistent comparator: the skip list's size/Get/Contains/Iterator/IteratorStartingAt/IteratorBetween equal the sorted map's answers (lower > upper rejected, duplicate insert refused); for ANY number of non-descending inputs the heap (upHeap/downHeap/Next as coded, slot 0 unused) returns a permutation of all (key,value,input) triples in non-descending key order and keeps each input's order. Tied to the Go code by running the same insertion sequences / input lists through both (all permutations of up to 5 (quick) / 7 (thorough) keys, random beyond; int, string and byte comparators; every probe and bound pair).",
        "note": "Trusted: Lean kernel, three standard axioms, harness. Modelled: the skip list is represented by its level-0 order with explicit heights (next node at level l = next node of height > l); pointer surgery of Insert is therefore tied only by the correspondence run, the descent and the iterators are as coded. math/rand heights are a parameter (quantified).",
        "trusted_base": COMMON_TB + ["modelled, not verified: Go pointer manipulation inside skiplist.Insert (abstracted to a height-annotated ordered list), math/rand"],
        "assumptions": ["comparator is a consistent total preorder (LawfulCmp)", "inputs of the queue are non-descending"],
        "explanation": "proof over the model for all inputs; correspondence run ties the model to the current source",
    },
    "C12": {
        "title": "A cut or header-damaged RecordIO file yields only genuine records, in order",
        "streams": [{"name": "riodmg", "quick": 60, "thorough": 1500, "thorough_seeds": 2}],
        "technique": "Lean 4 proof (prefix lemma for every cut length; CRC-32C single-byte law via a kernel-checked 256-entry table fact) + differential correspondence on damaged files",
        "level": "proof",
        "design_ref": "§5 C12",
        "text": "Theorems for ALL record lists, compressors and cut lengths n: a file cut at n reads (sequentially and at every recorded offset) as exactly the records wholly inside the first n bytes, then EOF/error; CRC-32C changes under every single-byte change; every frame-preserving alteration of any header byte makes both readers fail on that record (partial: continuation-bit flips move the frame and are covered by the correspondence run + oracle only); unsupported file-header versions/compression codes are rejected. The correspondence run reads every truncation and header alteration (all 255 values on short files in the thorough tier) with both real readers and the model and evaluates the property oracle on the real results.",
        "note": "Trusted: Lean kernel, three standard axioms, harness. The frame-shifting residual (a crafted payload that embeds the CRC of the shifted header) is a 32-bit coincidence by format design; not reachable by the generators, would be reported with its input if hit.",
        "trusted_base": COMMON_TB + [RIO_MODELLED],
        "assumptions": [RIO_MODELLED, "record sizes fit 64-bit header fields"],
        "explanation": "proof over the model for all inputs; correspondence run ties the model to the current source",
    },
}
