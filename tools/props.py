# Per-property configuration used by ./check and tools/mkmanifest.py.
# streams: correspondence streams (harness) the property's theorems are tied to the code with.

COMMON_TB = [
    "Lean 4.33.0 kernel (thorough tier re-checks the .olean files with leanchecker)",
    "axioms allowed per theorem: propext, Classical.choice, Quot.sound (audited on every run with #print axioms; no sorry/admit/native_decide/bv_decide/own axioms)",
    "the Lean compiler for the driver executable sstdrv (compiled from the same definitions the theorems are about)",
    "translator harness/cmd/gofacts (constants taken from the compiled /repo packages) and the correspondence harness harness/cmd/sstcheck with its generators and canonicalisation",
]

RIO_MODELLED = "modelled, not verified: gzip/snappy/lzw (law dec (enc x) = some x; real compressors run on the Go side and are handed to the model as an oracle table), the vendored buffered reader (ideal byte stream), x/exp/mmap, the OS file system"

PROPS = {
    "C04": {
        "title": "RecordIO returns written records unchanged through every reader and access path",
        "streams": [{"name": "rio", "quick": 350, "thorough": 12000, "thorough_seeds": 3}],
        "technique": "Lean 4 proof (induction over writer programs and record lists) + differential correspondence model/Go on byte-exact file images",
        "level": "proof",
        "design_ref": "§5 C04",
        "text": "Theorems over the Lean model of the V4 format, writer state machine, sequential/mmap readers for ALL record lists, compressors (any lawful one) and writer programs with seeks to record boundaries: closed file = header ++ survivors, sequential read = survivors then EOF, ReadNextAt(offset_k) = record k, skip = read-and-discard, zero tail = EOF. The model is the same code the driver executable runs; it is tied to the Go code on every run by byte-exact comparison of written files, returned offsets and every reader result (incl. SeekNext from every offset of small files) on generated programs.",
        "note": "Trusted: Lean kernel, the three standard axioms, harness + generators; compressors, buffered reader, mmap, OS modelled as parameters. SeekNext is tied by correspondence and an implementation oracle (spec theorem pending); the format cannot distinguish a payload that embeds a complete valid record (known finding).",
        "trusted_base": COMMON_TB + [RIO_MODELLED],
        "assumptions": [RIO_MODELLED, "record sizes fit 64-bit header fields", "seeks go back to record boundaries (what the property states)"],
        "explanation": "proof over the model for all inputs; correspondence run ties the model to the current source",
    },
}
