# Per-property configuration used by ./check and tools/mkmanifest.py.
# streams: correspondence streams (harness) the property's theorems are tied to the code with.

COMMON_TB = [
    "Lean 4.33.0 kernel (thorough tier re-checks the .olean files with leanchecker)",
    "axioms allowed per theorem: propext, Classical.choice, Quot.sound (audited on every run with #print axioms; no sorry/admit/native_decide/bv_decide/own axioms)",
    "the Lean compiler for the driver executable sstdrv (compiled from the same definitions the theorems are about)",
    "translator harness/cmd/gofacts (constants taken from the compiled /repo packages) and the correspondence harness harness/cmd/sstcheck with its generators and canonicalisation",
]

RIO_MODELLED = "modelled, not verified: gzip/snappy/lzw (law dec (enc x) = some x; real compressors run on the Go side and are handed to the model as an oracle table), the vendored buffered reader (ideal byte stream), x/exp/mmap, the OS file system"

PROPS = {
    "C04": {
        "title": "RecordIO returns written records unchanged through every reader and access path",
        "streams": [{"name": "rio", "quick": 350, "thorough": 12000, "thorough_seeds": 3}],
        "technique": "Lean 4 proof (induction over writer programs and record lists) + differential correspondence model/Go on byte-exact file images",
        "level": "proof",
        "design_ref": "§5 C04",
        "text": "Theorems over the Lean model of the V4 format, writer state machine, sequential/mmap readers for ALL record lists, compressors (any lawful one) and writer programs with seeks to record boundaries: closed file = header ++ survivors, sequential read = survivors then EOF, ReadNextAt(offset_k) = record k, skip = read-and-discard, zero tail = EOF. The model is the same code the driver executable runs; it is tied to the Go code on every run by byte-exact comparison of written files, returned offsets and every reader result (incl. SeekNext from every offset of small files) on generated programs. EXTENSIONS: C04_Direct (the direct-I/O writer path with the aligned buffered writer: direct_close_exact = header ++ records ++ zero padding to the block size, direct_seq_roundtrip, direct_readAt_offset, direct_writesync_rejected, direct_close_exact_seeks, and the finding direct_seek_breaks_alignment).",
        "note": "Trusted: Lean kernel, the three standard axioms, harness + generators; compressors, buffered reader, mmap, OS modelled as parameters. SeekNext is tied by correspondence and an implementation oracle (spec theorem pending); the format cannot distinguish a payload that embeds a complete valid record (known finding).",
        "trusted_base": COMMON_TB + [RIO_MODELLED],
        "assumptions": [RIO_MODELLED, "record sizes fit 64-bit header fields", "seeks go back to record boundaries (what the property states)"],
        "explanation": "proof over the model for all inputs; correspondence run ties the model to the current source",
    },
    "C16": {
        "title": "Skip-list map and merge heap behave as a sorted map and a sorted k-way merge",
        "streams": [{"name": "skip", "quick": 600, "thorough": 20000, "thorough_seeds": 2},
                    {"name": "pq", "quick": 2000, "thorough": 100000, "thorough_seeds": 2}],
        "technique": "Lean 4 proof (descent invariant of findGreaterOrEqual; binary-heap order invariant + multiset bookkeeping) + differential correspondence model/Go",
        "level": "proof",
        "design_ref": "§5 C16",
        "text": "Theorems for ALL insertion orders of distinct keys, ALL node heights >= 1 and ANY consistent comparator: the skip list's size/Get/Contains/Iterator/IteratorStartingAt/IteratorBetween equal the sorted map's answers (lower > upper rejected, duplicate insert refused); for ANY number of non-descending inputs the heap (upHeap/downHeap/Next as coded, slot 0 unused) returns a permutation of all (key,value,input) triples in non-descending key order and keeps each input's order. Tied to the Go code by running the same insertion sequences / input lists through both (all permutations of up to 5 (quick) / 7 (thorough) keys, random beyond; int, string and byte comparators; every probe and bound pair). EXTENSIONS: C16_Ptr: a POINTER-LEVEL model of the skip list (arena of nodes with per-level next pointers, findGreaterOrEqual with prevTable, Insert\'s pointer surgery, iterators as coded) refines the height-list model and hence the sorted map (findGE_refines, insert_refines, skiplist_ptr_refines, skiplist_ptr_sorted_map, insert_duplicate_panics).",
        "note": "Trusted: Lean kernel, three standard axioms, harness. Modelled: the skip list is represented by its level-0 order with explicit heights (next node at level l = next node of height > l); pointer surgery of Insert is therefore tied only by the correspondence run, the descent and the iterators are as coded. math/rand heights are a parameter (quantified).",
        "trusted_base": COMMON_TB + ["modelled, not verified: Go pointer manipulation inside skiplist.Insert (abstracted to a height-annotated ordered list), math/rand"],
        "assumptions": ["comparator is a consistent total preorder (LawfulCmp)", "inputs of the queue are non-descending"],
        "explanation": "proof over the model for all inputs; correspondence run ties the model to the current source",
    },
    "C12": {
        "title": "A cut or header-damaged RecordIO file yields only genuine records, in order",
        "streams": [{"name": "riodmg", "quick": 60, "thorough": 1500, "thorough_seeds": 2}],
        "technique": "Lean 4 proof (prefix lemma for every cut length; CRC-32C single-byte law via a kernel-checked 256-entry table fact) + differential correspondence on damaged files",
        "level": "proof",
        "design_ref": "§5 C12",
        "text": "Theorems for ALL record lists, compressors and cut lengths n: a file cut at n reads (sequentially and at every recorded offset) as exactly the records wholly inside the first n bytes, then EOF/error; CRC-32C changes under every single-byte change; every frame-preserving alteration of any header byte makes both readers fail on that record (partial: continuation-bit flips move the frame and are covered by the correspondence run + oracle only); unsupported file-header versions/compression codes are rejected. The correspondence run reads every truncation and header alteration (all 255 values on short files in the thorough tier) with both real readers and the model and evaluates the property oracle on the real results. EXTENSIONS: C12_Shift states the header clause at full strength with an explicit residual: header_alter_detected_or_coincides (ANY alteration of ANY header byte makes both readers fail OR the alteration is frame-shifting and the altered stream begins with a correctly checksummed, canonically encoded header over different bytes = a genuine 32-bit CRC coincidence).",
        "note": "Trusted: Lean kernel, three standard axioms, harness. The frame-shifting residual (a crafted payload that embeds the CRC of the shifted header) is a 32-bit coincidence by format design; not reachable by the generators, would be reported with its input if hit.",
        "trusted_base": COMMON_TB + [RIO_MODELLED],
        "assumptions": [RIO_MODELLED, "record sizes fit 64-bit header fields"],
        "explanation": "proof over the model for all inputs; correspondence run ties the model to the current source",
    },
    "C01": {
        "title": "SimpleDB reads like a map, whatever flushes, compactions and restarts happen",
        "streams": [{"name": "db", "quick": 250, "thorough": 12000, "thorough_seeds": 3},
                    {"name": "stack", "quick": 150, "thorough": 600, "thorough_seeds": 2}],
        "technique": "Lean 4 proof (refinement of the layer model to a map by induction over arbitrary step lists: programs x schedules x configurations) + differential correspondence on real SimpleDB sessions",
        "level": "proof",
        "design_ref": "§5 C01",
        "text": "MAIN THEOREM db_refines_map: for EVERY list of steps (client Put/Delete/Get/Close/re-Open through both API flavours, valid and rejected, interleaved with ANY placement of rotations, flush completions and compaction cycles, ANY table sizes fed to the selection and ANY options per session) every client call of the Lean model of simpledb returns what the reference map returns; plus get_refines, reads_stable, reads_stable_close_reopen and gens_ok (table numbers stay strictly increasing, so name order = stacking order after a restart). The model (memstore pair, table stack, GetBytes read path incl. the empty-value rule, size/ratio selection + floodFill as coded, reducer choice, reflectCompactionResult, generation counter) runs in the driver and is compared on every run with real sessions: every key read after every step, selected tables and live table names of every compaction cycle. EXTENSIONS: Props/C01_Stack.lean composes the byte-level layers: the concrete stack (C14 memstores, byte-level tables written by the SstW model and read by the slice-loader reader, C08 merger with the reducer simpledb chooses) refines the layer model and hence the map for ALL step lists (stack_refines_layers, stack_refines_map), and no flush/compaction/re-open step fails (stack_no_step_fails); stream stack compares the three files of every live table with the model after every flush/compaction/re-open.",
        "note": "Trusted: Lean kernel, three standard axioms, harness. " + "modelled, not verified: the byte-level tables, merge heap, skip list, memstore and WAL are represented by their abstract layers (their own refinement theorems are C03/C08/C14/C16/C07); float32 arithmetic of the size estimate and tombstone ratio (rotation points and table sizes are inputs, quantified in the theorems); Go scheduler (sequential client; concurrency is C05)" + " 'no flush or compaction cycle fails' is covered by the correspondence run (any failure/panic is a violation), not by a theorem.",
        "trusted_base": COMMON_TB + ["modelled, not verified: the byte-level tables, merge heap, skip list, memstore and WAL are represented by their abstract layers (their own refinement theorems are C03/C08/C14/C16/C07); float32 arithmetic of the size estimate and tombstone ratio (rotation points and table sizes are inputs, quantified in the theorems); Go scheduler (sequential client; concurrency is C05)"],
        "assumptions": ["modelled, not verified: the byte-level tables, merge heap, skip list, memstore and WAL are represented by their abstract layers (their own refinement theorems are C03/C08/C14/C16/C07); float32 arithmetic of the size estimate and tombstone ratio (rotation points and table sizes are inputs, quantified in the theorems); Go scheduler (sequential client; concurrency is C05)"],
        "also": ["C06", "C17"],
        "explanation": "proof over the layer model for all step lists; correspondence run ties the model to the current source",
    },
    "C06": {
        "title": "Compaction never changes what a key reads as; deleted keys stay deleted",
        "streams": [{"name": "db", "quick": 250, "thorough": 12000, "thorough_seeds": 3}],
        "technique": "Lean 4 proof (floodFill loop = fill-between; contiguous-run replacement preserves the visible map; induction over step lists) + differential correspondence on table lineages that exclude the oldest table",
        "level": "proof",
        "design_ref": "§5 C06",
        "text": "floodFill_spec and selection_contiguous (the loop as coded selects a gap-free run for every flag vector); compact_preserves_reads (for every reachable state, every table-size vector, every option set, one compaction cycle changes abs and Get for no key, including runs that exclude the oldest table, where tombstones are carried over); deleted_stays_deleted (after an accepted Delete, any sequence of rotations/flushes/compactions leaves the key not-found); the whole-history statement is C01.db_refines_map. Correspondence: real sessions incl. dedicated lineages (large oldest table excluded by the size limit, newer tables shadowing it), every key read before/after every cycle, selected paths compared with the model.",
        "note": "Trusted as C01. Table byte sizes are inputs (quantified).",
        "trusted_base": COMMON_TB + ["modelled, not verified: the byte-level tables, merge heap, skip list, memstore and WAL are represented by their abstract layers (their own refinement theorems are C03/C08/C14/C16/C07); float32 arithmetic of the size estimate and tombstone ratio (rotation points and table sizes are inputs, quantified in the theorems); Go scheduler (sequential client; concurrency is C05)"],
        "assumptions": ["modelled, not verified: the byte-level tables, merge heap, skip list, memstore and WAL are represented by their abstract layers (their own refinement theorems are C03/C08/C14/C16/C07); float32 arithmetic of the size estimate and tombstone ratio (rotation points and table sizes are inputs, quantified in the theorems); Go scheduler (sequential client; concurrency is C05)"],
        "explanation": "proof over the layer model; correspondence run ties the model to the current source",
    },
    "C17": {
        "title": "A SimpleDB call that returns an error has no effect; string and byte APIs agree",
        "streams": [{"name": "db", "quick": 250, "thorough": 12000, "thorough_seeds": 3},
                    {"name": "crash", "args": ["--flavour", "reject"], "quick": 6, "thorough": 18, "thorough_seeds": 2}],
        "technique": "Lean 4 proof (case analysis of every step: rejected calls leave the state unchanged; flavour equality; read stability) + differential correspondence mixing rejected/accepted calls through both flavours",
        "level": "proof",
        "design_ref": "§5 C17",
        "text": "api_flavours_agree (Put = PutBytes, Delete = DeleteBytes on the same bytes), empty_or_nil_rejected, rejected_call_no_effect (any step whose result is an error leaves memstores, tables, generation and flags exactly unchanged), reads_stable_across_flush / _across_restart. The crash-recovery observation point of this property is decided with the crash-image machinery of C02 (stream crash, flavour reject). EXTENSIONS: C17_Order (put_validates_before_logging, string_api_validates_then_delegates, state_checks_before_logging: regenerated from the source).",
        "note": "Trusted as C01; the 'after a crash followed by recovery' part rests on the C02 machinery (abstract file system model + real crash images).",
        "trusted_base": COMMON_TB + ["modelled, not verified: the byte-level tables, merge heap, skip list, memstore and WAL are represented by their abstract layers (their own refinement theorems are C03/C08/C14/C16/C07); float32 arithmetic of the size estimate and tombstone ratio (rotation points and table sizes are inputs, quantified in the theorems); Go scheduler (sequential client; concurrency is C05)"],
        "assumptions": ["modelled, not verified: the byte-level tables, merge heap, skip list, memstore and WAL are represented by their abstract layers (their own refinement theorems are C03/C08/C14/C16/C07); float32 arithmetic of the size estimate and tombstone ratio (rotation points and table sizes are inputs, quantified in the theorems); Go scheduler (sequential client; concurrency is C05)"],
        "explanation": "proof over the layer model; correspondence run ties the model to the current source",
    },
    "C20": {
        "title": "The published Kaitai schema decodes every written file to the same records",
        "streams": [{"name": "kaitai", "quick": 400, "thorough": 20000, "thorough_seeds": 2}],
        "technique": "Lean 4 proof about an interpreter of the schema value regenerated from recordio_v4.ksy (tools/ksy2lean.py) + decide over the regenerated enum / Go-reader fact tables + differential correspondence generated Go reader / native reader / Lean interpreter",
        "level": "proof",
        "design_ref": "§5 C20",
        "text": "Theorems for ALL compressors (lawful or not), ALL record lists incl. nil and empty records and every header code ct with ct = 0 <-> uncompressed: interpreting the regenerated schema over header ++ records succeeds with version 4, code ct and per record the nil flag, header numbers and the STORED payload bytes (nothing for nil); same nil flags / stored payloads / count as the native reader; every code 0..maxCompression is in the schema's enum (decide over the regenerated table); the checked-in generated Go reader (enum constants, field order, magic, LenPayload tree, vlq groups) equals the schema (decide). Tied on every run: record lists x 4 compression types written by recordio.FileWriter, parsed by kaitai/gokaitai, the native reader (oracle) and the Lean interpreter; cut, magic-damaged and direct-I/O images by correspondence.",
        "note": "Sizes < 2^56 (vlq_base128_le adds 8 groups; sharpness proved). Direct-I/O zero padding makes the Kaitai reader fail (theorem kaitai_rejects_zero_padding): known finding.",
        "trusted_base": COMMON_TB + ["translator tools/ksy2lean.py (YAML subset parser, expression parser, regex extraction from the generated Go reader)", "modelled, not verified: kaitai_struct_go_runtime stream (io.ReadFull semantics), gzip/snappy/lzw as arbitrary functions"],
        "assumptions": ["record and stored sizes < 2^56", "header compression code is 0 exactly for uncompressed files (what the writer does)"],
        "explanation": "proof over the interpreter of the regenerated schema for all inputs; correspondence run ties interpreter and generated Go reader to the current source",
    },
    "C08": {
        "title": "Merging or stacking tables equals the latest-wins union of their contents",
        "streams": [{"name": "merge", "quick": 150, "thorough": 2000, "thorough_seeds": 2}],
        "technique": "Lean 4 proof (heap theorems of C16 + adjacency of equal keys in the sorted merge + reducer picks the largest context; extensionality of strictly ascending maps) + differential correspondence model/Go on real on-disk tables",
        "level": "proof",
        "design_ref": "§5 C08",
        "text": "Theorems for ALL lists of strictly ascending tables (any overlap, empty tables, the empty key, tombstones over values and vice versa): SuperSSTableReader.Get/Contains = lookup in the overlay (apply tables in order, later overriding); Scan/ScanStartingAt/ScanRange drained to Done = the overlay's non-tombstone entries (in range), each key once, ascending, never a value under a different key; MergeCompact with ScanReduceLatestWins writes the overlay without tombstoned keys, with ...SkipTombstones additionally without empty values; plain Merge on pairwise disjoint tables writes the sorted union, on overlapping tables returns the writer's rejection. Tied to the Go code by building real tables, stacking/merging them and comparing every result with the model and with an independent map overlay.",
        "note": "As coded and stated in the theorems: Get on a tombstoned key returns (nil,nil) not NotFound; Contains is true for tombstoned keys; scans return empty non-nil values; latest-wins compaction drops tombstone records. Trusted: Lean kernel, three standard axioms, harness. Modelled: a table is an abstract sorted reader (byte-level tables: C03), protobuf decoding of the empty key as nil, the stream writer as an order-enforcing WriteNext.",
        "trusted_base": COMMON_TB + ["modelled, not verified at this layer: the byte-level table reader/writer (abstract sorted reader; protobuf-decoded empty key = nil), bloom filter (no false negatives)"],
        "assumptions": ["comparator is skiplist.BytesComparator (bytes.Compare; proved consistent)", "each input table is strictly ascending", "writer opened and fresh for the merge theorems"],
        "explanation": "proof over the model for all inputs; correspondence run ties the model to the current source",
    },
    "C11": {
        "title": "I/O failures during merge, compaction and flush are reported, never absorbed",
        "streams": [{"name": "merge", "quick": 150, "thorough": 2000, "thorough_seeds": 2},
                    {"name": "dbfault", "quick": 12, "thorough": 300, "thorough_seeds": 2}],
        "technique": "Lean 4 proof (heap over fallible iterators simulated by the C16 heap; an input with a pending error never leaves the heap, so Done is unreachable; writer call accounting) + fault-injection correspondence (exhaustive single faults, sampled double faults) on the real merger",
        "level": "proof",
        "design_ref": "§5 C11",
        "text": "Merger half: for ALL input sets, every failing Next position of every input and every set of failing WriteNext calls, Merge and MergeCompact (any reduce function) return an error whenever a reachable read fault or a write fault among the performed writes exists; if they return nil the writer received exactly the complete merge (resp. its compaction), one call per record; no I/O error is invented without a fault. The fallible heap coincides with the C16 heap when nothing fails. Tied to the Go code by wrapping real table iterators and the real stream writer with failing ones and comparing error kind, WriteNext count and accepted records with the model; oracle: a hit fault must yield a non-nil error, nil error must come with the reference output. EXTENSIONS: C11_Stack proves the system-level half on the composed byte-level model: flush_fault_reported, compaction_fault_not_installed (any consumed read fault, any WriteNext fault, any Close fault => the cycle returns an error and the live tables and every read are unchanged), *_success_complete, fault_free_is_existing_step.",
        "note": "PARTIAL with respect to the whole property: the system-level half (a failing write inside flush/compaction/Close is reported and an incomplete output is never installed) is exercised by fault injection through the writer hook (streams sst / dbfault), not by a theorem.",
        "trusted_base": COMMON_TB + ["modelled, not verified at this layer: input iterators as (items, failing call) and the stream writer as an abstract WriteNext whose I/O fault precedes the ordering check"],
        "assumptions": ["comparator is skiplist.BytesComparator", "an iterator is not called again after it returned a non-Done error (true for Merge/MergeCompact)"],
        "explanation": "proof over the model for all inputs and fault sets; correspondence run ties the model to the current source",
    },
    "C14": {
        "title": "The memstore behaves as a map with tombstones and flushes to an equal table",
        "streams": [{"name": "mem", "quick": 300, "thorough": 10000, "thorough_seeds": 1}],
        "technique": "Lean 4 proof (simulation between the pointer-based model - skip list of value pointers + heap of slices + Int size estimate - and a reference map, by induction over call programs; reuses the skip-list invariant of C16) + differential correspondence model/Go + reference-map oracle",
        "level": "proof",
        "design_ref": "§5 C14",
        "text": "Theorems for ALL call programs over Add/Upsert/Delete/DeleteIfExists/Tombstone/Get/Contains/IsTombstoned/Size with ALL keys/values (nil, empty, non-empty) and ALL node heights >= 1: every result and error equals the reference map's (no Go panic reachable), the SStableIterator yields exactly the reference entries strictly ascending with nil for tombstones, Size = live + tombstoned keys, the size estimate computed in Int with the Go expressions = sum(|key|+|value|) >= 0 (no uint64 wrap), and the WriteNext call sequences of Flush / FlushWithTombstones are the reference's live / all entries, strictly ascending and accepted by the writer's key-order check. Tied to the Go code on every run: all programs of <= 4 (quick) / 5 (thorough) mutating calls over {nil, empty, 61} x {nil, empty, 07} and <= 3/4 over three distinct keys, each followed by all observers, plus random programs over small and large universes; per-call results, iterator, Size, raw and scaled estimate, observed WriteNext calls and the tables read back (Scan/Get/Contains) compared with the model and a Go reference map.",
        "note": "Trusted: Lean kernel, three standard axioms, harness. As coded, only Add/Upsert reject nil keys (as documented); the other calls treat a nil key as the empty key (modelled, witnessed by tombstone_nil_key_is_empty_key, counted in the stats). EstimatedSizeInBytes' float32 scaling is outside the model (the harness applies the same Go expression to the model's integer). The byte-level table is C03/C15: flush theorems are about the WriteNext call sequence; the read-back is tied by the run.",
        "trusted_base": COMMON_TB + ["modelled, not verified: Go pointer manipulation inside skiplist.Insert (height-annotated ordered list, C16), math/rand, the sstable writer/reader behind WriteNext (observed through the verif writer hook and read back by the run)"],
        "assumptions": ["node heights >= 1 (randomHeight)", "callers do not mutate key/value slices handed to or returned by the store (it keeps references)", "sum of key and value lengths < 2^64"],
        "explanation": "proof over the model for all inputs; correspondence run ties the model to the current source",
    },
    "C19": {
        "title": "Descriptors, mappings and goroutines stay bounded and are released by Close",
        "streams": [{"name": "handles", "quick": 200, "thorough": 1400, "thorough_seeds": 1}],
        "technique": "Lean 4 proof (multiset bookkeeping of open/close phases per step, invariant 'open handles = steady set' by induction over arbitrary step lists) + differential correspondence of /proc/self/fd, /proc/self/maps and the goroutine profile against the model after every step",
        "level": "proof",
        "design_ref": "§5 C19",
        "text": "handles_bounded / handles_exact: for EVERY step list (client calls, rotations, flush completions, compaction cycles with any sizes, Close, Open with any options, compaction goroutine on/off) the open handles of the model are exactly {current WAL file} + {one data mapping per live table} + {flusher, ticker-if-enabled}: <= live+1 descriptors/mappings, <= live+3 in total, whatever the number of cycles; close_releases_all + reopen_after_close; reader_close_releases_scanners (any sequence of Scan complete/abandoned, range scans, earlier Closes, then Close => nothing left); compaction_peak_bounded (during a cycle over k tables at most 2k+4 more). Tied on every run: sessions with hook-placed rotations/flushes/compactions compared step by step (handle set, live tables, WAL files left on disk), real-ticker sessions (bound + release), table-reader programs, recordio/WAL open-close cases, 1000-cycle soak (thorough).",
        "note": "PARTIAL by nature: the theorems carry the bookkeeping of the model; the kernel descriptor table/VMAs, finalizers (GC is off while a case runs so a leak cannot hide), the goroutine scheduler, error paths and crash recovery are runtime facts observed only by the stream. Measured constant: 1 (WAL file). Quirks stated as theorems/stats, outside the property: Scan() after Close leaks until a second Close.",
        "trusted_base": COMMON_TB + ["Linux /proc/self/fd, /proc/self/maps and runtime/pprof goroutine profile as observation of the process", "modelled, not verified: layer model of C01 (tables abstract), x/exp/mmap, os.File"],
        "assumptions": ["Open on a directory left by a clean Close (crash recovery: C02/C10)", "no I/O error in the library calls"],
        "explanation": "proof over the handle model for all step lists; correspondence run ties the model to the current source and evaluates the bound/release oracles on the real process",
    },
    "C05": {'title': 'Concurrent Get/Put/Delete are linearizable while flushes and compactions run',
 'streams': [{'name': 'conc', 'quick': 40, 'thorough': 500, 'thorough_seeds': 2}, {'name': 'race', 'quick': 2, 'thorough': 16, 'thorough_seeds': 1}],
 'technique': 'Lean 4 proof over an interleaving semantics at lock granularity (invariant over all lock-admissible micro-step schedules; constructive '
              'sequential witness) + regenerated lock facts (decide over the extracted access table) + recorded concurrent histories of the real DB checked '
              'with porcupine and replayed through the L6 and L7 models',
 'level': 'proof',
 'design_ref': '§5 C05',
 'text': 'Theorems over SST/Model/Conc.lean (threads: any number of clients, flusher, compactor, rotation hook; micro-steps = lock-protected sections of '
         'simpledb): for EVERY reachable database state and EVERY schedule the locks admit, the history (invocations, completed calls with invocation/response '
         'indices and results) has a sequential witness: duplicate-free, made of real calls, containing every completed call with its result, respecting real '
         'time, legal for the reference map of C01 (linearizable_partial); background micro-steps (addReader, reflection of a possibly stale selection, forced '
         'rotation) never change abs or the answer of Get (bg_steps_preserve_abs); the two-phase Get (tables snapshot, then memstore after any number of '
         'addReader steps) returns the atomic answer (get_two_phase_ok); the lock structure the model assumes is the one extracted from the source today '
         '(lock_facts_as_modelled). Tie: 2-8 goroutines on the real DB with size-triggered and forced rotations and compaction cycles, histories checked with '
         'porcupine; a sequential witness is replayed through `db.run`, a lock-admissible micro-step schedule with the recorded invocation/response order and '
         'random background steps through `conc.exec`, results compared call by call.',
 'note': 'PARTIAL by nature: the theorem is about the lock-granularity model; that sync.RWMutex/channels/the scheduler implement mutual exclusion and hand-off '
         'is assumed, and the recorded histories validate the model against the code (they are not the theorem).',
 'assumptions': ['modelled, not verified: sync.RWMutex (mutual exclusion, release/acquire ordering), the unbuffered flush channel (hand-off only when the '
                 'flusher receives), `go` statements / channel joins as happens-before edges, the Go scheduler and memory model; the interleaving semantics '
                 'has lock granularity and cannot exhibit finer-grained behaviour',
                 'every client method takes db.rwLock as extracted (re-checked on every run by lock_facts_as_modelled / C18.race_free)',
                 'hooks (verif build tag) are not called concurrently with Open/Close (harness obligation)'],
 'explanation': 'proof over the lock-granularity model for all schedules; lock facts regenerated from the source; recorded histories tie the model to the '
                'running code',
 'trusted_base': COMMON_TB + ['translator tools/lockfacts (stdlib go/parser, go/ast, go/token, go/printer; syntactic receiver/field resolution; caller-held locks as a fixed point over the '
 "package call graph) — rebuilt and run on /repo's working tree before every proof build",
 'modelled, not verified: sync.RWMutex (mutual exclusion, release/acquire ordering), the unbuffered flush channel (hand-off only when the flusher receives), '
 '`go` statements / channel joins as happens-before edges, the Go scheduler and memory model; the interleaving semantics has lock granularity and cannot '
 'exhibit finer-grained behaviour',
 "porcupine (linearizability checker, vendored through /repo's replace directive) as validation oracle only"]},
    "C18": {'title': 'Documented concurrent use is data-race free and gives single-threaded answers',
 'streams': [{'name': 'race', 'quick': 3, 'thorough': 32, 'thorough_seeds': 1}, {'name': 'conc', 'quick': 10, 'thorough': 100, 'thorough_seeds': 1}],
 'technique': 'Lean 4 `decide` over the access table and purity facts REGENERATED from the source on every run (the quantifier is the table) + purity of the '
              'read operations in the models + `go build -race` stress of the three handles against precomputed single-threaded answers',
 'level': 'proof',
 'design_ref': '§5 C18',
 'text': 'race_free: any two accesses of the regenerated table (fields of DB/SSTableManager/RWMemstore and the content of memstores, WAL, table readers; with '
         'kind, held locks incl. caller-held ones, thread kind) that conflict and can overlap hold a common lock in a compatible mode or are ordered by the '
         'memstore-ownership or closed-flag hand-off; order_facts_as_expected pins the Open/Close/flush hand-off order the rules rest on; '
         'documented_reads_write_nothing: no assignment to a receiver field or package variable on the '
         "ReadNextAt/SeekNext/Get/Contains/ScanRange/ScanStartingAt paths (Scan is flagged); reads_are_pure + reads_alone: the model's read operations leave "
         'the handle unchanged, so in any sequence each returns what it returns alone; concurrent_gets_return_the_sequential_answer (from C05).',
 'note': "PARTIAL by nature: the Go memory model, sync primitives, the buffer pool, mmap and the race detector's coverage are runtime facts; the stress stream "
         'validates the extracted table against the code (a race report, panic or wrong answer is a violation with the report as detail).',
 'assumptions': ['modelled, not verified: sync.RWMutex (mutual exclusion, release/acquire ordering), the unbuffered flush channel (hand-off only when the '
                 'flusher receives), `go` statements / channel joins as happens-before edges, the Go scheduler and memory model; the interleaving semantics '
                 'has lock granularity and cannot exhibit finer-grained behaviour',
                 'default (slice) index loader; Scan / Close are outside the documented concurrent set',
                 'hooks (verif build tag) are not called concurrently with Open/Close (harness obligation)'],
 'explanation': 'decide over tables regenerated from the source (a proof about the table); model-level purity; race-detector stress as validation of the table',
 'trusted_base': COMMON_TB + ['translator tools/lockfacts (stdlib go/parser, go/ast, go/token, go/printer; syntactic receiver/field resolution; caller-held locks as a fixed point over the '
 "package call graph) — rebuilt and run on /repo's working tree before every proof build",
 'modelled, not verified: sync.RWMutex (mutual exclusion, release/acquire ordering), the unbuffered flush channel (hand-off only when the flusher receives), '
 '`go` statements / channel joins as happens-before edges, the Go scheduler and memory model; the interleaving semantics has lock granularity and cannot '
 'exhibit finer-grained behaviour',
 'modelled, not verified: capnp bufferpool.Pool (internally synchronised), x/exp/mmap.ReaderAt, bloomfilter.Contains, slice aliasing below field granularity, '
 'the Go race detector']},
    "C07": {
        "title": "WAL replay yields the appended records in order; synced appends survive a kill",
        "streams": [{"name": "wal", "quick": 300, "thorough": 1500, "thorough_seeds": 2},
                    {"name": "crash", "args": ["--flavour", "wal"], "quick": 20, "thorough": 80, "thorough_seeds": 2}],
        "technique": "Lean 4 proof (appender invariant + admissible-event/crash-image invariant over every event prefix; truncation lemma of C12; buffered-writer transparency) + differential correspondence model/Go on byte-exact WAL files, per-operation on-disk sizes, every byte-level cut of every file, and real system-call-boundary images (strace)",
        "level": "proof",
        "design_ref": "§5 C07",
        "text": "Theorems for ALL max sizes, buffer sizes, lawful compressors and programs of Append/AppendSync/Rotate (nil, empty, larger-than-limit and larger-than-buffer records): replay (dirOf prog) = the appended records in order (replay_eq_appends, million_guard); the events of AppendSync r end with the record's bytes written and an fsync of its file before it returns (sync_is_durable); for EVERY prefix of the file-system event list (incl. during Close) replay succeeds and returns a prefix of the appended records containing every record whose AppendSync had returned (replay_after_crash, crash_image_shape); the vendored buffered writer is transparent for every buffer size and write/flush sequence (bufw_transparent, bufw_flush_boundaries, bufw_aligned). Tied on every run: byte-exact WAL files and sizes after every operation, replay before/after Close, every byte-level cut of the last file read by the real replayer, and (stream crash, flavour wal) the image at every real system-call boundary of a traced appender process compared with the model's event list. EXTENSIONS: C07_Order (regenerated call order: sync_append_flushes_then_fsyncs, rotate_closes_before_creating_next, replay_closes_each_file, replay_files_in_name_order, model_order_matches_source).",
        "note": "Trusted: Lean kernel, three standard axioms, harness, strace. The OS has no resource limits in the model (descriptor exhaustion was a real defect, fixed: 17d987b). The one-million-files guard is proved on the model only.",
        "trusted_base": COMMON_TB + [RIO_MODELLED, "strace and the image replayer of the crash stream (kill-9 model: a completed system call is retained, each call is atomic)"],
        "assumptions": ["compressors lawful (dec (enc x) = some x)", "record sizes fit 64-bit header fields", "flat WAL directory written only by the appender", "OS resources (descriptors, memory) unbounded in the model"],
        "explanation": "proof over the model for all programs and crash prefixes; correspondence runs tie the model to the current source",
    },
    "C15": {
        "title": "A table holds exactly the accepted writes, ascending, with truthful metadata",
        "streams": [{"name": "sst", "quick": 250, "thorough": 600, "thorough_seeds": 2}],
        "technique": "Lean 4 proof (writer state machine over the recordio writer model with fault inputs and Seek rollback; induction over call programs) + differential correspondence on byte-exact index.rio/data.rio/meta.pb.bin with injected faults",
        "level": "proof",
        "design_ref": "§5 C15",
        "text": "Theorems for ALL WriteNext programs (arbitrary keys) x ALL fault subsets (data-append / index-append) x any comparator and compressors: a fault-free call is accepted iff its key is strictly greater than the last ACCEPTED key or it is the first (writer_accepts_iff_ascending); a faulted call leaves the closed files and metadata exactly as if it had not been made and the same key can be retried (fault_rolled_back, call_results); after Close index.rio/data.rio decode to exactly the accepted pairs, strictly ascending (closed_table_eq_accepted); NumRecords, NullValues, MinKey, MaxKey, DataBytes/IndexBytes = file lengths, TotalBytes (metadata_truthful, metaOf_fields). The model predicts the three files byte for byte (compressor oracle); tied on every run through generated programs with fault masks injected via the tag-guarded writer hook.",
        "note": "Trusted: Lean kernel, three standard axioms, harness. " + "modelled, not verified: gzip/snappy/lzw (law dec (enc x) = some x; oracle table from the real compressors), the bloom filter library (abstract predicate without false negatives; bloom.bf.gz is opaque), the protobuf runtime (wire codec of IndexEntry/MetaData modelled in Model/Proto.lean and tied by byte-exact files), x/exp/mmap, the OS; recordio V1-V3 readers and version-0 tables are not modelled",
        "trusted_base": COMMON_TB + ["modelled, not verified: gzip/snappy/lzw (law dec (enc x) = some x; oracle table from the real compressors), the bloom filter library (abstract predicate without false negatives; bloom.bf.gz is opaque), the protobuf runtime (wire codec of IndexEntry/MetaData modelled in Model/Proto.lean and tied by byte-exact files), x/exp/mmap, the OS; recordio V1-V3 readers and version-0 tables are not modelled"],
        "assumptions": ["compressors lawful", "sizes fit 64-bit fields"],
        "explanation": "proof over the model for all programs and fault sets; correspondence run ties the model to the current source",
    },
    "C03": {
        "title": "An SSTable returns exactly what was written, for every index type and option",
        "streams": [{"name": "sst", "quick": 250, "thorough": 600, "thorough_seeds": 2}],
        "technique": "Lean 4 proof (binary-search spec, skip-list refinement of C16, padded-map lookup, recordio round trips of C04; readers per index loader) + differential correspondence on byte-exact tables and every reader configuration",
        "level": "proof",
        "design_ref": "§5 C03",
        "text": "Theorems for ALL strictly ascending key lists, ALL values (nil, empty, marker bytes), any lawful compressor pair, any bloom filter without false negatives: Contains/Get/Scan/ScanStartingAt/ScanRange of open(write kvs) equal the sorted-map answers for the slice (default) and skip-list loaders (table_reads_as_map_slice/_skip, contains_no_false_negative); for the padded map loader the scans always and Get/Contains under PadInjective (…_map_partial + counterexample map_index_pad_collision); for the EXPERIMENTAL disk loader open + full Scan under NoPhantom (…_disk_partial) with four counterexample theorems for what is false of the code. Tied on every run: generated tables x 4x4 compression pairs x buffer sizes x bloom sizing x six reader configurations with all probes/bounds, byte-exact files.",
        "note": "PARTIAL for the map loader (zero-padding collisions) and the experimental disk loader (known findings with signatures). Trusted: Lean kernel, three standard axioms, harness. " + "modelled, not verified: gzip/snappy/lzw (law dec (enc x) = some x; oracle table from the real compressors), the bloom filter library (abstract predicate without false negatives; bloom.bf.gz is opaque), the protobuf runtime (wire codec of IndexEntry/MetaData modelled in Model/Proto.lean and tied by byte-exact files), x/exp/mmap, the OS; recordio V1-V3 readers and version-0 tables are not modelled",
        "trusted_base": COMMON_TB + ["modelled, not verified: gzip/snappy/lzw (law dec (enc x) = some x; oracle table from the real compressors), the bloom filter library (abstract predicate without false negatives; bloom.bf.gz is opaque), the protobuf runtime (wire codec of IndexEntry/MetaData modelled in Model/Proto.lean and tied by byte-exact files), x/exp/mmap, the OS; recordio V1-V3 readers and version-0 tables are not modelled"],
        "assumptions": ["keys strictly ascending under bytes.Compare", "compressors lawful", "bloom filter has no false negatives"],
        "explanation": "proof over the model for all inputs; correspondence run ties the model to the current source",
    },
    "C09": {
        "title": "A damaged SSTable data file is detected, never served as different data",
        "streams": [{"name": "sstdmg", "quick": 20, "thorough": 100, "thorough_seeds": 2}],
        "technique": "Lean 4 proof (decision logic of verified reads; CRC-64/ISO single-byte law via a kernel-checked 256-entry table fact; truncation lemma of C12) + differential correspondence on exhaustively damaged data files",
        "level": "proof",
        "design_ref": "§5 C09",
        "text": "verified_read_sound / load_verified_sound (a value returned without error has the stored CRC-64 or the stored checksum is 0 — as coded incl. the swallowed EOF and the legacy bypass); payload_alteration_detected (compression none: ANY single-byte change inside a payload makes the verified read fail); truncation_detected (ANY cut length, any lawful compressor: original or error); damage_sound (error, original, or the explicit Crc64Coincides residual) — all under valueSum v != 0 (zero_checksum_unprotected shows why). Tied on every run: every byte offset x {bit flips, 0x00, 0xFF, marker bytes}, every truncation length, swapped records, under each compression type, verify-on-load and verify-on-read; never a different value without error.",
        "note": "Values whose CRC-64 is 0 are unprotected by format design (known finding, sig value-crc64-zero:checksum-bypass). For header/compressed-payload damage detection is a 64-bit CRC comparison (explicit residual). Trusted: Lean kernel, three standard axioms, harness. " + "modelled, not verified: gzip/snappy/lzw (law dec (enc x) = some x; oracle table from the real compressors), the bloom filter library (abstract predicate without false negatives; bloom.bf.gz is opaque), the protobuf runtime (wire codec of IndexEntry/MetaData modelled in Model/Proto.lean and tied by byte-exact files), x/exp/mmap, the OS; recordio V1-V3 readers and version-0 tables are not modelled",
        "trusted_base": COMMON_TB + ["modelled, not verified: gzip/snappy/lzw (law dec (enc x) = some x; oracle table from the real compressors), the bloom filter library (abstract predicate without false negatives; bloom.bf.gz is opaque), the protobuf runtime (wire codec of IndexEntry/MetaData modelled in Model/Proto.lean and tied by byte-exact files), x/exp/mmap, the OS; recordio V1-V3 readers and version-0 tables are not modelled"],
        "assumptions": ["stored checksum of the value is non-zero", "compressors lawful"],
        "explanation": "proof over the model; correspondence run ties the model to the current source",
    },
    "C02": {
        "title": "Acknowledged writes survive a process kill at any instant (synchronous WAL)",
        "streams": [{"name": "crash", "args": ["--flavour", "sync"], "quick": 8, "thorough": 24, "thorough_seeds": 2}],
        "technique": "Lean 4 proof (invariant over every prefix of the file-system event sequence of every session of the abstract-disk model; recovery as a pure function) + real crash images at every system-call boundary (strace) re-opened by the real code and compared with the model's recover",
        "level": "proof",
        "design_ref": "§5 C02",
        "text": "crash_safe_sync: for EVERY step list (client ops, rotations, flushes, compaction cycles, close, re-open) and EVERY prefix n of its file-system event sequence, the disk image satisfies DiskOk, recover succeeds and the recovered map equals the reference after the acknowledged ops, or after those plus the one in flight; crash_safe_sync_after_recovery (composes across crash/reopen cycles); recover_total (DiskOk d -> recover d succeeds with abs = logical d); rejected_call_no_disk_effect. Tie: sessions of the real DB traced with strace, the directory image rebuilt at EVERY mutating system call of any thread, each image re-opened by the real Open in a child process: Open must succeed, every acknowledged op present, in-flight op present-or-absent, one forced compaction cycle after recovery must succeed and change no read; each distinct image is abstracted (tables loaded by the real reader, WAL files decoded, flags decoded) and compared with the model's fs.recover. EXTENSIONS: C02_Interleave (crash_safe_sync_interleaved: every prefix of EVERY admissible interleaving of client thread, flusher and compactor under the lock/hand-off constraints as coded), C02_Order (the order of file-system-relevant actions REGENERATED from the source by tools/orderfacts satisfies the order constraints the model relies on and equals the model\'s event order: flag_after_table_closed, meta_written_last, wal_removed_after_table_complete, model_order_matches_source, ... by decide over the regenerated table), C02_Wal (the byte-level WAL of C07 refines the abstract WAL files: replay_refines_abstract, appender_events_refine, sync_log_durable).",
        "note": "Trusted: Lean kernel, three standard axioms, harness, strace. " + "modelled, not verified: the operating system and file system (kill-9 model: a completed system call is retained, each system call is atomic, rename is atomic, no power loss); table directories, WAL files and compaction directories as abstract objects (partial / complete with content); flusher and compactor steps at operation boundaries in the model (finer interleavings are sampled by the real traces); strace and the image replayer of the crash stream",
        "trusted_base": COMMON_TB + ["modelled, not verified: the operating system and file system (kill-9 model: a completed system call is retained, each system call is atomic, rename is atomic, no power loss); table directories, WAL files and compaction directories as abstract objects (partial / complete with content); flusher and compactor steps at operation boundaries in the model (finer interleavings are sampled by the real traces); strace and the image replayer of the crash stream"],
        "assumptions": ["modelled, not verified: the operating system and file system (kill-9 model: a completed system call is retained, each system call is atomic, rename is atomic, no power loss); table directories, WAL files and compaction directories as abstract objects (partial / complete with content); flusher and compactor steps at operation boundaries in the model (finer interleavings are sampled by the real traces); strace and the image replayer of the crash stream"],
        "explanation": "proof over the abstract-disk model for all sessions and crash points; real crash images tie recover and the event shapes to the current source",
    },
    "C10": {
        "title": "Recovery may be killed at any instant and repeated without changing the outcome",
        "streams": [{"name": "crash", "args": ["--flavour", "nested"], "quick": 6, "thorough": 8, "thorough_seeds": 2}],
        "technique": "Lean 4 proof (recovery as an event sequence; every prefix leaves a DiskOk disk with the same logical content; induction over interrupted attempts) + nested real crash images (recovery itself traced and interrupted at every system call, unlink orders permuted)",
        "level": "proof",
        "design_ref": "§5 C10",
        "text": "recover_events_sound (the event sequence of Open produces exactly the disk recover computes); recover_idempotent_under_crash (for EVERY DiskOk disk and EVERY prefix m of recovery's events: the disk is DiskOk, recovers, same content; every unlink order of a directory removal is covered because every intermediate state is 'partial'); recover_after_interruptions (any number of interrupted attempts = none). Tie: depth-2 images from real traces of the recovery of real depth-1 images, other directory-listing orders emulated by permuting unlink runs; each must re-open with the content of the uninterrupted recovery. EXTENSIONS: C10_Order (regenerated call order of recovery: recovery_phases_in_order, repair_/reflect_deletes_before_rename, wal_files_removed_oldest_first, unfinished_table_index_removed_first, empty_metadata_checked_before_load, model_recovery_order_matches_source).",
        "note": "Depth 3 is not run. Trusted as C02.",
        "trusted_base": COMMON_TB + ["modelled, not verified: the operating system and file system (kill-9 model: a completed system call is retained, each system call is atomic, rename is atomic, no power loss); table directories, WAL files and compaction directories as abstract objects (partial / complete with content); flusher and compactor steps at operation boundaries in the model (finer interleavings are sampled by the real traces); strace and the image replayer of the crash stream"],
        "assumptions": ["modelled, not verified: the operating system and file system (kill-9 model: a completed system call is retained, each system call is atomic, rename is atomic, no power loss); table directories, WAL files and compaction directories as abstract objects (partial / complete with content); flusher and compactor steps at operation boundaries in the model (finer interleavings are sampled by the real traces); strace and the image replayer of the crash stream"],
        "explanation": "proof over the abstract-disk model; nested real crash images tie it to the current source",
    },
    "C13": {
        "title": "Asynchronous WAL: a kill loses only a suffix of recent writes, not the database",
        "streams": [{"name": "crash", "args": ["--flavour", "async"], "quick": 6, "thorough": 18, "thorough_seeds": 2}],
        "technique": "Lean 4 proof (volatile queue of unwritten log records; file content = prefix of the issued records at every event prefix; rotation drains the queue) + real crash images of async sessions incl. > 4 MiB logs",
        "level": "proof",
        "design_ref": "§5 C13",
        "text": "async_crash_prefix: for every session with the asynchronous WAL, every buffer-flush schedule and every event prefix, recovery succeeds and the recovered map equals the reference after SOME prefix p of the issued mutations with rotMark <= p (every op acknowledged before the last completed rotation is included; no holes, no reordering); issued_is_reference; async_crash_prefix_after_recovery. Tie: traced async sessions (values > the 4 MiB WAL buffer so that buffer flushes cut records), every image re-opened by the real code and checked against the prefix oracle. EXTENSIONS: C13_Interleave (async_crash_prefix_interleaved over every admissible interleaving), C13_Order (put_logs_before_memstore, put_memstore_before_rotate, rotate_before_handoff, model_order_matches_source), C13_Wal (async_log_prefix, disk_plus_buffer: the on-disk bytes followed by the appender\'s buffer are the logical log).",
        "note": "Trusted as C02.",
        "trusted_base": COMMON_TB + ["modelled, not verified: the operating system and file system (kill-9 model: a completed system call is retained, each system call is atomic, rename is atomic, no power loss); table directories, WAL files and compaction directories as abstract objects (partial / complete with content); flusher and compactor steps at operation boundaries in the model (finer interleavings are sampled by the real traces); strace and the image replayer of the crash stream"],
        "assumptions": ["modelled, not verified: the operating system and file system (kill-9 model: a completed system call is retained, each system call is atomic, rename is atomic, no power loss); table directories, WAL files and compaction directories as abstract objects (partial / complete with content); flusher and compactor steps at operation boundaries in the model (finer interleavings are sampled by the real traces); strace and the image replayer of the crash stream"],
        "explanation": "proof over the abstract-disk model; real crash images tie it to the current source",
    },
}
