#!/usr/bin/env python3
"""Applies every seeded change to /repo in turn, runs the related quick checks, reverts, records the outcome
(seeded/RESULTS.json, seeded/RESULTS.md and each meta.json). Run only when nothing else is using /repo."""
import json, os, subprocess, sys, time, glob
ROOT = os.path.dirname(os.path.dirname(os.path.abspath(__file__)))
RELATED = {
 "C01": ["C01", "C06", "C05"], "C02": ["C02", "C10"], "C03": ["C03", "C04"], "C04": ["C04"], "C05": ["C05", "C18", "C01"],
 "C06": ["C06", "C01"], "C07": ["C07", "C04"], "C08": ["C08"], "C09": ["C09", "C03"], "C10": ["C10", "C02"],
 "C11": ["C11", "C16"], "C12": ["C12"], "C13": ["C13", "C02", "C07"], "C14": ["C14"], "C15": ["C15"], "C16": ["C16"],
 "C17": ["C17", "C01"], "C18": ["C18", "C05"], "C19": ["C19"], "C20": ["C20", "C04"],
}
def sh(cmd, **kw):
    return subprocess.run(cmd, shell=True, text=True, capture_output=True, **kw)
only = sys.argv[1:]
results = json.load(open(os.path.join(ROOT, "seeded", "RESULTS.json"))) if os.path.exists(os.path.join(ROOT, "seeded", "RESULTS.json")) else {}
assert sh("git -C /repo status --porcelain").stdout.strip() == "", "/repo is not clean"
for d in sorted(glob.glob(os.path.join(ROOT, "seeded", "C*-m*"))):
    name = os.path.basename(d)
    if only and name not in only:
        continue
    pid = name.split("-")[0]
    r = sh(f"git -C /repo apply {d}/patch.diff")
    if r.returncode != 0:
        r = sh(f"git -C /repo apply -C1 {d}/patch.diff")
    if r.returncode != 0:
        results[name] = {"applied": False, "error": r.stderr[-500:]}
        sh("git -C /repo checkout -- . && git -C /repo clean -fdq")
        continue
    out = {"applied": True, "checks": {}}
    try:
        for chk in RELATED[pid]:
            t0 = time.time()
            c = sh(f"timeout 1500 ./check {chk} --tier quick", cwd=ROOT)
            lines = [l for l in c.stdout.splitlines() if l.startswith("VIOLATION")]
            detail = []
            for l in lines[:3]:
                rp = l.split("replay=")[1].split()[0]
                try:
                    j = json.load(open(rp))
                    detail.append({"sig": j.get("sig"), "no_failing_input_found": j.get("no_failing_input_found", False),
                                   "what": (j.get("detail") or (j.get("broken") or [{}])[0].get("what", ""))[:300]})
                except Exception as e:
                    detail.append({"replay": rp})
            out["checks"][chk] = {"exit": c.returncode, "violation_lines": len(lines), "wall_s": round(time.time() - t0, 1), "first": detail}
            print(name, chk, "exit", c.returncode, len(lines), "violation line(s)", flush=True)
    finally:
        sh("git -C /repo checkout -- . && git -C /repo clean -fdq")
    out["detected_by"] = [k for k, v in out["checks"].items() if v["exit"] == 1]
    results[name] = out
    json.dump(results, open(os.path.join(ROOT, "seeded", "RESULTS.json"), "w"), indent=1)
    m = json.load(open(os.path.join(d, "meta.json")))
    m["our_checks"] = out
    json.dump(m, open(os.path.join(d, "meta.json"), "w"), indent=1)
assert sh("git -C /repo status --porcelain").stdout.strip() == "", "/repo left dirty!"
with open(os.path.join(ROOT, "seeded", "RESULTS.md"), "w") as f:
    f.write("# Seeded changes: which quick checks report them\n\n| change | breaks | detected by (exit 1) | not detected by |\n|---|---|---|---|\n")
    for name in sorted(results):
        r = results[name]
        if not r.get("applied"):
            f.write(f"| {name} | | patch does not apply to HEAD | |\n"); continue
        miss = [k for k, v in r["checks"].items() if v["exit"] != 1]
        f.write(f"| {name} | {name.split('-')[0]} | {', '.join(r['detected_by']) or '—'} | {', '.join(miss) or '—'} |\n")
print("done")
