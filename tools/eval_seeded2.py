#!/usr/bin/env python3
"""Evaluates seeded changes WITHOUT touching /repo: for each change tools/mutant_check.sh makes a scratch worktree of
/repo with the patch and a scratch copy of /verif, and runs the real ./check of the related properties there.
Several changes are evaluated in parallel.  Usage: eval_seeded2.py [-j N] [--own] [names...]
  --own: only the check of the change's own property.  Results are merged into seeded/RESULTS.json / RESULTS.md
and `our_checks` of each meta.json."""
import json, os, subprocess, sys, time, glob, re
from concurrent.futures import ThreadPoolExecutor
ROOT = os.path.dirname(os.path.dirname(os.path.abspath(__file__)))
RELATED = {
 "C01": ["C01", "C06", "C05"], "C02": ["C02", "C10"], "C03": ["C03", "C04"], "C04": ["C04"], "C05": ["C05", "C18", "C01"],
 "C06": ["C06", "C01"], "C07": ["C07", "C04"], "C08": ["C08"], "C09": ["C09", "C03"], "C10": ["C10", "C02"],
 "C11": ["C11", "C16"], "C12": ["C12"], "C13": ["C13", "C02", "C07"], "C14": ["C14"], "C15": ["C15"], "C16": ["C16"],
 "C17": ["C17", "C01"], "C18": ["C18", "C05"], "C19": ["C19"], "C20": ["C20", "C04"],
}
args = sys.argv[1:]
jobs = 4
own = False
names = []
i = 0
while i < len(args):
    if args[i] == "-j":
        jobs = int(args[i + 1]); i += 2
    elif args[i] == "--own":
        own = True; i += 1
    else:
        names.append(args[i]); i += 1
RES = os.path.join(ROOT, "seeded", "RESULTS.json")
results = json.load(open(RES)) if os.path.exists(RES) else {}

def one(d):
    name = os.path.basename(d)
    pid = name.split("-")[0]
    checks = [pid] if own else RELATED[pid]
    t0 = time.time()
    p = subprocess.run([os.path.join(ROOT, "tools", "mutant_check.sh"), os.path.join(d, "patch.diff")] + checks,
                       text=True, capture_output=True, timeout=4 * 3600)
    out = {"applied": True, "checks": {}, "how": "tools/mutant_check.sh (scratch worktree + scratch copy of /verif, real ./check)"}
    for line in p.stdout.splitlines():
        m = re.match(r"RESULT (\S+) exit=(\d+) violations=(\d+) known=(\d+)(.*)", line)
        if m:
            out["checks"][m.group(1)] = {"exit": int(m.group(2)), "violation_lines": int(m.group(3)),
                                          "no_failing_input_found": "no-failing-input-found" in m.group(5),
                                          "first": m.group(5).strip()[:300]}
        elif line.startswith("RESULT -"):
            out = {"applied": False, "error": line}
    out["wall_s"] = round(time.time() - t0, 1)
    if out.get("applied"):
        out["detected_by"] = [k for k, v in out["checks"].items() if v["exit"] == 1]
        out["other_exit"] = [k for k, v in out["checks"].items() if v["exit"] not in (0, 1)]
    print(name, {k: v["exit"] for k, v in out.get("checks", {}).items()} if out.get("applied") else out, flush=True)
    return name, d, out

dirs = [d for d in sorted(glob.glob(os.path.join(ROOT, "seeded", "C*-m*"))) if not names or os.path.basename(d) in names]
with ThreadPoolExecutor(max_workers=jobs) as ex:
    for name, d, out in ex.map(one, dirs):
        if own and name in results and results[name].get("applied") and out.get("applied"):
            # keep the neighbours' earlier results, refresh the own check
            merged = results[name]
            merged["checks"].update(out["checks"])
            merged["detected_by"] = [k for k, v in merged["checks"].items() if v["exit"] == 1]
            out = merged
        results[name] = out
        json.dump(results, open(RES, "w"), indent=1)
        mp = os.path.join(d, "meta.json")
        m = json.load(open(mp))
        m["our_checks"] = out
        json.dump(m, open(mp, "w"), indent=1)
with open(os.path.join(ROOT, "seeded", "RESULTS.md"), "w") as f:
    f.write("# Seeded changes: which quick checks report them\n\n| change | breaks | detected by (exit 1) | not detected by |\n|---|---|---|---|\n")
    for name in sorted(results):
        r = results[name]
        if not r.get("applied"):
            f.write(f"| {name} | | patch does not apply to HEAD | |\n"); continue
        miss = [k for k, v in r["checks"].items() if v["exit"] != 1]
        f.write(f"| {name} | {name.split('-')[0]} | {', '.join(r['detected_by']) or '—'} | {', '.join(miss) or '—'} |\n")
print("done")
