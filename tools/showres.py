import json,sys
d=json.load(open(sys.argv[1]))
print({k:d[k] for k in ['cases','evaluations','nontrivial','model_lines','wall_s']})
print(d['stats'])
for x in (d['disagreements'] or [])[:int(sys.argv[2]) if len(sys.argv)>2 else 5]:
    print('DIS',x['what'],'idx',x['case_idx'],'model=',x['model'][:300],'impl=',x['impl'][:300],'|',x['case'][:300])
for v in (d['violations'] or [])[:int(sys.argv[3]) if len(sys.argv)>3 else 10]:
    print('VIO',v['property'],v['sig'],'idx',v['case_idx'],v['detail'][:300],'|', v['case'][:300])
