// canon.go — rename-stable identities for calls, expressions and conditions.
//
// SHARED VERBATIM by tools/orderfacts, tools/errfacts and tools/resfacts (copy the file; each tool is its own module).
// Everything here is computed from go/types objects, never from the spelling of a local identifier:
//
//	package      module-relative path for packages of the module ("simpledb", "recordio/proto"), the import path otherwise
//	             ("os", "path/filepath", "google.golang.org/protobuf/proto") — import aliases do not matter
//	callee       pkg.Func for a package-level function; <receiver path>.Method for a method (interface or concrete) or a
//	             call through a func-typed field, where the receiver path is the selector chain with its ROOT VARIABLE
//	             replaced by the variable's named type (pointer dropped): `writer.indexWriter.Close` →
//	             "sstables.SSTableStreamWriter.indexWriter.Close", `reader.Close` (reader sstables.SSTableReaderI) →
//	             "sstables.SSTableReaderI.Close", `s.readers[i].Get` → "sstables.SuperSSTableReader.readers[].Get",
//	             `db.sstableManager.currentSSTable().Close` → "(simpledb.DB.sstableManager.currentSSTable).Close";
//	             a call of a func-typed local / parameter → "‹func(T…) R›"; a function literal → "func literal";
//	             builtins by name; conversions → "conv"
//	method       static receiver type + method name ("recordio.WriterI.Size"); for functions the same as callee
//	expression   selector chains as above; package-level objects as pkg.Name; a LOCAL variable with exactly one assignment
//	             (its definition; never address-taken) is replaced by the canonical form of its defining expression
//	             (depth-limited; "#i" picks the i-th result of a multi-value call), a range variable by elem(X) / key(X), any
//	             other local / parameter / receiver by its type "‹T›"
//	private functions  A PRIVATE function / method the tools refer to by name (a listed function, a callee a label is bound
//	             to) is found by that name or — when the name is gone — as the ONE unexported function of the package with the
//	             same receiver type and the signature recorded in `privateSigs` whose own name the specification does not
//	             use (`resolveFunc`): a renamed private function keeps its role, and every identity printed for it uses the
//	             specification's name (`funcAlias`).  Exported functions are found by name only.
//	condition    negation normal form over atoms: errNonNil (any error-typed expression compared with nil, whatever it is
//	             called), nonNil(x), isSentinel(pkg.Var) for errors.Is(x, S) / x == S / a package-local one-line helper whose
//	             body is exactly that (helpers `return <expr>` are inlined one level, parameters substituted), comparisons
//	             reduced to == and < (a > b is b < a; a >= b is !(a < b); a <= b is !(b < a)), other boolean expressions as
//	             they are; &&, || flattened; rendering of a negated node: != , >=, errNil, isNil(x), notSentinel(S), !x,
//	             De Morgan for && / ||.
package main

import (
	"fmt"
	"go/ast"
	"go/constant"
	"go/token"
	"go/types"
	"sort"
	"strings"
)

type defSite struct {
	rhs ast.Expr
	idx int // -1: the whole value; i: the i-th result of a multi-value expression
}

type rangeSite struct {
	x   ast.Expr
	key bool
}

type helperDecl struct {
	fd   *ast.FuncDecl
	info *types.Info
}

type canon struct {
	mod    string
	info   *types.Info
	defs   map[types.Object]defSite
	nasg   map[types.Object]int
	decl   map[types.Object]bool // the (single) assignment is the declaration itself (`x := e`, `var x = e`)
	addr   map[types.Object]bool
	rng    map[types.Object]rangeSite
	subst  map[types.Object]string
	lookup func(*types.Func) *helperDecl // declaration of a function of the module (nil: unknown)
	depth  int
}

var errorIface = types.Universe.Lookup("error").Type().Underlying().(*types.Interface)

// newCanon: identities inside `body` (a function declaration's body; nested literals included)
func newCanon(mod string, info *types.Info, body ast.Node, lookup func(*types.Func) *helperDecl) *canon {
	c := &canon{mod: mod, info: info, defs: map[types.Object]defSite{}, nasg: map[types.Object]int{}, decl: map[types.Object]bool{},
		addr: map[types.Object]bool{}, rng: map[types.Object]rangeSite{}, subst: map[types.Object]string{}, lookup: lookup}
	if body != nil {
		c.scanDefs(body)
	}
	return c
}

func (c *canon) objOfIdent(id *ast.Ident) types.Object {
	if o := c.info.Defs[id]; o != nil {
		return o
	}
	return c.info.Uses[id]
}

func (c *canon) scanDefs(body ast.Node) {
	def := func(lhs ast.Expr, rhs ast.Expr, idx int) {
		id, ok := lhs.(*ast.Ident)
		if !ok || id.Name == "_" {
			return
		}
		o := c.objOfIdent(id)
		if o == nil {
			return
		}
		c.nasg[o]++
		c.defs[o] = defSite{rhs, idx}
		if c.info.Defs[id] == o {
			c.decl[o] = true
		}
	}
	ast.Inspect(body, func(n ast.Node) bool {
		switch x := n.(type) {
		case *ast.AssignStmt:
			if x.Tok != token.ASSIGN && x.Tok != token.DEFINE {
				for _, l := range x.Lhs { // op-assignment
					if id, ok := l.(*ast.Ident); ok {
						if o := c.objOfIdent(id); o != nil {
							c.nasg[o] += 2
						}
					}
				}
				return true
			}
			if len(x.Lhs) == len(x.Rhs) {
				for i := range x.Lhs {
					def(x.Lhs[i], x.Rhs[i], -1)
				}
			} else if len(x.Rhs) == 1 {
				for i := range x.Lhs {
					def(x.Lhs[i], x.Rhs[0], i)
				}
			}
		case *ast.ValueSpec:
			if len(x.Values) == 0 {
				for _, n := range x.Names {
					if o := c.info.Defs[n]; o != nil {
						c.nasg[o] += 0 // zero value: a later single assignment is still "the" definition only if it is the only one
					}
				}
				return true
			}
			if len(x.Names) == len(x.Values) {
				for i := range x.Names {
					def(x.Names[i], x.Values[i], -1)
				}
			} else if len(x.Values) == 1 {
				for i := range x.Names {
					def(x.Names[i], x.Values[0], i)
				}
			}
		case *ast.IncDecStmt:
			if id, ok := x.X.(*ast.Ident); ok {
				if o := c.objOfIdent(id); o != nil {
					c.nasg[o] += 2
				}
			}
		case *ast.UnaryExpr:
			if x.Op == token.AND {
				if id, ok := ast.Unparen(x.X).(*ast.Ident); ok {
					if o := c.objOfIdent(id); o != nil {
						c.addr[o] = true
					}
				}
			}
		case *ast.RangeStmt:
			if id, ok := x.Key.(*ast.Ident); ok && id.Name != "_" {
				if o := c.objOfIdent(id); o != nil {
					c.nasg[o] += 2
					c.rng[o] = rangeSite{x.X, true}
				}
			}
			if id, ok := x.Value.(*ast.Ident); ok && id.Name != "_" {
				if o := c.objOfIdent(id); o != nil {
					c.nasg[o] += 2
					c.rng[o] = rangeSite{x.X, false}
				}
			}
		case *ast.TypeSwitchStmt:
			// the symbolic variable of `switch u := x.(type)`: one implicit object per clause, typed by the clause
		}
		return true
	})
}

// ---------------------------------------------------------------------------------------------------------
// packages and types

func (c *canon) pkgName(p *types.Package) string {
	if p == nil {
		return ""
	}
	path := p.Path()
	if path == c.mod {
		return p.Name()
	}
	if strings.HasPrefix(path, c.mod+"/") {
		return strings.TrimPrefix(path, c.mod+"/")
	}
	return path
}

func (c *canon) qual(p *types.Package) string { return c.pkgName(p) }

func (c *canon) typeStr(t types.Type) string {
	if t == nil {
		return "?"
	}
	if s, ok := t.(*types.Signature); ok {
		return c.sigStr(s)
	}
	return types.TypeString(t, c.qual)
}

func (c *canon) sigStr(s *types.Signature) string {
	tup := func(t *types.Tuple, variadic bool) string {
		var p []string
		for i := 0; i < t.Len(); i++ {
			ts := c.typeStr(t.At(i).Type())
			if variadic && i == t.Len()-1 {
				if sl, ok := t.At(i).Type().(*types.Slice); ok {
					ts = "..." + c.typeStr(sl.Elem())
				}
			}
			p = append(p, ts)
		}
		return strings.Join(p, ", ")
	}
	out := "func(" + tup(s.Params(), s.Variadic()) + ")"
	switch s.Results().Len() {
	case 0:
	case 1:
		out += " " + tup(s.Results(), false)
	default:
		out += " (" + tup(s.Results(), false) + ")"
	}
	return out
}

// the named type behind a (pointer to a) value, without type arguments: "simpledb.DB"; "‹T›" for unnamed types
func (c *canon) rootType(t types.Type) string {
	if t == nil {
		return "‹?›"
	}
	t = types.Unalias(t)
	if p, ok := t.(*types.Pointer); ok {
		t = types.Unalias(p.Elem())
	}
	if n, ok := t.(*types.Named); ok {
		o := n.Obj()
		if o.Pkg() == nil {
			return o.Name()
		}
		return c.pkgName(o.Pkg()) + "." + o.Name()
	}
	if tp, ok := t.(*types.TypeParam); ok {
		return "‹" + tp.Obj().Name() + "›"
	}
	return "‹" + c.typeStr(t) + "›"
}

func (c *canon) typeOf(e ast.Expr) types.Type {
	if tv, ok := c.info.Types[e]; ok {
		return tv.Type
	}
	if id, ok := e.(*ast.Ident); ok {
		if o := c.objOfIdent(id); o != nil {
			return o.Type()
		}
	}
	return nil
}

func (c *canon) isErrorTyped(e ast.Expr) bool {
	t := c.typeOf(e)
	return t != nil && types.Identical(t, types.Universe.Lookup("error").Type())
}

// a package-level variable whose type implements error (io.EOF, sstables.Done …): its canonical name, else ""
func (c *canon) sentinelName(e ast.Expr) string {
	var id *ast.Ident
	switch x := ast.Unparen(e).(type) {
	case *ast.Ident:
		id = x
	case *ast.SelectorExpr:
		id = x.Sel
	default:
		return ""
	}
	v, ok := c.info.Uses[id].(*types.Var)
	if !ok || v.Pkg() == nil || v.Parent() != v.Pkg().Scope() {
		return ""
	}
	if !types.Implements(v.Type(), errorIface) {
		return ""
	}
	return c.pkgName(v.Pkg()) + "." + v.Name()
}

// ---------------------------------------------------------------------------------------------------------
// callees

func isPkgLevel(o types.Object) bool {
	return o != nil && o.Pkg() != nil && o.Parent() == o.Pkg().Scope()
}

// ---------------------------------------------------------------------------------------------------------
// private functions the specification names: found by name, else by role (receiver + recorded signature)

// resolved renamed private function → the name the specification uses for it
var funcAlias = map[*types.Func]string{}

// the name to print for an object: the specification's name for a renamed private function
func objName(o types.Object) string {
	if f, ok := o.(*types.Func); ok {
		if a, ok := funcAlias[f.Origin()]; ok {
			return a
		}
	}
	return o.Name()
}

// canonical signatures (receiver excluded, parameter names dropped, packages module-relative) of the PRIVATE functions the
// translators refer to by name: "<package>:<Recv.Method | func>".  Only used when the name is not found any more.
var privateSigs = map[string]string{
	"memstore:flushMemstore":                               "func(*memstore.MemStore, bool, ...sstables.WriterOption) error",
	"pq:PriorityQueue.fillNext":                            "func(*pq.Element[K, V, CTX]) error",
	"pq:PriorityQueue.init":                                "func([]pq.IteratorWithContext[K, V, CTX]) error",
	"recordio:fileHeaderAsByteSlice":                       "func(uint32) []byte",
	"recordio:fillRecordHeaderV4":                          "func([]byte, uint64, uint64, bool) []byte",
	"recordio:newCompressedFileWriterWithFile":             "func(*os.File, recordio.WriteSeekerCloserFlusher, int, bool) (recordio.WriterI, error)",
	"recordio:writeFileHeader":                             "func(*recordio.FileWriter) (int, error)",
	"recordio:writeRecordHeaderV4":                         "func(*recordio.FileWriter, uint64, uint64, bool) (int, error)",
	"simpledb:DB.reconstructSSTables":                      "func() error",
	"simpledb:DB.repairCompactions":                        "func() error",
	"simpledb:DB.replayAndSetupWriteAheadLog":              "func() error",
	"simpledb:DB.rotateWalAndFlushMemstore":                "func() error",
	"simpledb:SSTableManager.addReader":                    "func(sstables.SSTableReaderI)",
	"simpledb:SSTableManager.candidateTablesForCompaction": "func(uint64, float32) simpledb.compactionAction",
	"simpledb:SSTableManager.clearReaders":                 "func()",
	"simpledb:SSTableManager.currentSSTable":               "func() sstables.SSTableReaderI",
	"simpledb:SSTableManager.reflectCompactionResult":      "func(*simpledb/proto.CompactionMetadata) error",
	"simpledb:backgroundCompaction":                        "func(*simpledb.DB)",
	"simpledb:executeCompaction":                           "func(*simpledb.DB) (*simpledb/proto.CompactionMetadata, error)",
	"simpledb:executeFlush":                                "func(*simpledb.DB, simpledb.memStoreFlushAction) error",
	"simpledb:flushMemstoreContinuously":                   "func(*simpledb.DB)",
	"simpledb:hasEmptyMetadata":                            "func(string) bool",
	"simpledb:indexOfReader":                               "func([]sstables.SSTableReaderI, string) int",
	"simpledb:isUnfinishedTable":                           "func(string) bool",
	"simpledb:removeReaderAt":                              "func([]sstables.SSTableReaderI, int) []sstables.SSTableReaderI",
	"simpledb:removeUnfinishedTable":                       "func(string) error",
	"simpledb:saveCompactionMetadata":                      "func(string, *simpledb/proto.CompactionMetadata) error",
	"simpledb:swapMemstore":                                "func(*simpledb.DB) *memstore.MemStoreI",
	"sstables:SSTableReader.getValueAtOffset":              "func(sstables.IndexVal, bool) ([]byte, error)",
	"sstables:checksumValue":                               "func([]byte) (uint64, error)",
	"sstables:readMetaDataIfExists":                        "func(string) (*sstables/proto.MetaData, error)",
	"sstables:verifWriterOpened":                           "func(*sstables.SSTableStreamWriter)",
	"wal:Replayer.replayFile":                              "func(string, bool, func([]byte) error) error",
	"wal:checkSizeAndRotate":                               "func(*wal.Appender, int) error",
	"wal:setupNextWriter":                                  "func(*wal.Appender) error",
}

func splitSpecName(name string) (recv, fn string) {
	if i := strings.LastIndex(name, "."); i >= 0 {
		return name[:i], name[i+1:]
	}
	return "", name
}

// all functions (recv == "") or methods of type `recv` declared in the package
func pkgFuncs(pkg *types.Package, recv string) []*types.Func {
	var out []*types.Func
	if recv == "" {
		for _, n := range pkg.Scope().Names() {
			if f, ok := pkg.Scope().Lookup(n).(*types.Func); ok {
				out = append(out, f)
			}
		}
		return out
	}
	tn, ok := pkg.Scope().Lookup(recv).(*types.TypeName)
	if !ok {
		return nil
	}
	named, ok := types.Unalias(tn.Type()).(*types.Named)
	if !ok {
		return nil
	}
	for i := 0; i < named.NumMethods(); i++ {
		out = append(out, named.Method(i))
	}
	return out
}

// resolveFunc: the function the specification calls `name` ("Recv.Method" or "func") in package `pkg`; `renamedTo` is set
// when it was found by role (receiver + recorded signature) under another name.  nil: not found / ambiguous.
func resolveFunc(mod string, pkg *types.Package, name string) (f *types.Func, renamedTo string) {
	recv, fn := splitSpecName(name)
	all := pkgFuncs(pkg, recv)
	for _, c := range all {
		if c.Name() == fn {
			return c, ""
		}
	}
	if token.IsExported(fn) {
		return nil, ""
	}
	cn := &canon{mod: mod}
	rel := cn.pkgName(pkg)
	want, ok := privateSigs[rel+":"+name]
	if !ok {
		return nil, ""
	}
	var cands []*types.Func
	for _, c := range all {
		if token.IsExported(c.Name()) {
			continue
		}
		other := c.Name()
		if recv != "" {
			other = recv + "." + other
		}
		if _, named := privateSigs[rel+":"+other]; named {
			continue // the specification knows this one under its own name
		}
		sig, _ := c.Type().(*types.Signature)
		if sig != nil && cn.sigStr(sig) == want {
			cands = append(cands, c)
		}
	}
	if len(cands) != 1 {
		return nil, ""
	}
	funcAlias[cands[0].Origin()] = fn
	return cands[0], cands[0].Name()
}

// resolveAllPrivate: resolve every private function of `privateSigs` that lives in this package, so that calls of a renamed
// one are printed (and classified) under the specification's name even when the caller is what is being analysed
func resolveAllPrivate(mod string, pkg *types.Package) (renamed []string) {
	cn := &canon{mod: mod}
	rel := cn.pkgName(pkg)
	var keys []string
	for k := range privateSigs {
		if strings.HasPrefix(k, rel+":") {
			keys = append(keys, k)
		}
	}
	sort.Strings(keys)
	for _, k := range keys {
		name := strings.TrimPrefix(k, rel+":")
		if f, to := resolveFunc(mod, pkg, name); f != nil && to != "" {
			renamed = append(renamed, rel+"."+name+" is now called "+to)
		}
	}
	return renamed
}

// the *types.Func a call invokes statically (function, concrete or interface method), nil otherwise
func (c *canon) calledFunc(call *ast.CallExpr) *types.Func {
	fun := ast.Unparen(call.Fun)
	for {
		switch x := fun.(type) {
		case *ast.IndexExpr:
			if tv, ok := c.info.Types[x.X]; ok && tv.IsValue() {
				if _, isSig := tv.Type.Underlying().(*types.Signature); isSig {
					fun = ast.Unparen(x.X)
					continue
				}
			}
		case *ast.IndexListExpr:
			fun = ast.Unparen(x.X)
			continue
		}
		break
	}
	switch x := fun.(type) {
	case *ast.Ident:
		f, _ := c.info.Uses[x].(*types.Func)
		return f
	case *ast.SelectorExpr:
		f, _ := c.info.Uses[x.Sel].(*types.Func)
		return f
	}
	return nil
}

// receiver path: the root variable by its type
func (c *canon) recvPath(e ast.Expr) string {
	switch x := e.(type) {
	case *ast.ParenExpr:
		return c.recvPath(x.X)
	case *ast.StarExpr:
		return c.recvPath(x.X)
	case *ast.UnaryExpr:
		if x.Op == token.AND {
			return c.recvPath(x.X)
		}
	case *ast.Ident:
		o := c.objOfIdent(x)
		switch v := o.(type) {
		case *types.Var:
			if isPkgLevel(v) {
				return c.pkgName(v.Pkg()) + "." + v.Name()
			}
			return c.rootType(v.Type())
		case *types.PkgName:
			return c.pkgName(v.Imported())
		}
	case *ast.SelectorExpr:
		if sel, ok := c.info.Selections[x]; ok {
			return c.recvPath(x.X) + "." + objName(sel.Obj())
		}
		if o := c.info.Uses[x.Sel]; o != nil && o.Pkg() != nil {
			return c.pkgName(o.Pkg()) + "." + objName(o)
		}
	case *ast.IndexExpr:
		return c.recvPath(x.X) + "[]"
	case *ast.SliceExpr:
		return c.recvPath(x.X) + "[:]"
	case *ast.CallExpr:
		if tv, ok := c.info.Types[x.Fun]; ok && tv.IsType() && len(x.Args) == 1 {
			return c.recvPath(x.Args[0])
		}
		return "(" + c.callee(x) + ")"
	case *ast.TypeAssertExpr:
		if x.Type != nil {
			return c.rootType(c.typeOf(x.Type))
		}
	}
	return c.rootType(c.typeOf(e))
}

// canonical callee identity of a call (see the file header)
func (c *canon) callee(call *ast.CallExpr) string {
	fun := ast.Unparen(call.Fun)
	if tv, ok := c.info.Types[fun]; ok {
		if tv.IsType() {
			return "conv"
		}
	}
	switch f := fun.(type) {
	case *ast.FuncLit:
		return "func literal"
	case *ast.IndexExpr:
		if tv, ok := c.info.Types[f.X]; ok && tv.IsValue() {
			if _, isSig := tv.Type.Underlying().(*types.Signature); isSig {
				return c.callee(&ast.CallExpr{Fun: f.X})
			}
		}
	case *ast.IndexListExpr:
		return c.callee(&ast.CallExpr{Fun: f.X})
	case *ast.Ident:
		switch o := c.info.Uses[f].(type) {
		case *types.Builtin:
			return o.Name()
		case *types.Func:
			if o.Pkg() == nil {
				return o.Name()
			}
			return c.pkgName(o.Pkg()) + "." + objName(o)
		case *types.Var:
			if isPkgLevel(o) {
				return c.pkgName(o.Pkg()) + "." + o.Name()
			}
			return "‹" + c.typeStr(o.Type()) + "›"
		}
	case *ast.SelectorExpr:
		if sel, ok := c.info.Selections[f]; ok {
			return c.recvPath(f.X) + "." + objName(sel.Obj())
		}
		if o := c.info.Uses[f.Sel]; o != nil && o.Pkg() != nil {
			return c.pkgName(o.Pkg()) + "." + objName(o)
		}
	}
	return "‹" + c.typeStr(c.typeOf(fun)) + "›"
}

// static receiver type + method name; for plain functions the callee; "" for calls of func values
func (c *canon) method(call *ast.CallExpr) string {
	fun := ast.Unparen(call.Fun)
	if sx, ok := fun.(*ast.SelectorExpr); ok {
		if sel, ok := c.info.Selections[sx]; ok {
			if sel.Kind() == types.MethodVal {
				return c.rootType(sel.Recv()) + "." + objName(sel.Obj())
			}
			return ""
		}
	}
	if f := c.calledFunc(call); f != nil {
		return c.callee(call)
	}
	if id, ok := fun.(*ast.Ident); ok {
		if _, ok := c.info.Uses[id].(*types.Builtin); ok {
			return id.Name
		}
	}
	if tv, ok := c.info.Types[fun]; ok && tv.IsType() {
		return "conv"
	}
	return ""
}

// last name of the called function / method / field ("" for literals and conversions)
func (c *canon) lastName(call *ast.CallExpr) string {
	switch f := ast.Unparen(call.Fun).(type) {
	case *ast.Ident:
		if tv, ok := c.info.Types[f]; ok && tv.IsType() {
			return ""
		}
		if v, ok := c.info.Uses[f].(*types.Var); ok && !isPkgLevel(v) {
			return ""
		}
		if o := c.info.Uses[f]; o != nil {
			return objName(o)
		}
		return f.Name
	case *ast.SelectorExpr:
		if tv, ok := c.info.Types[f]; ok && tv.IsType() {
			return ""
		}
		if o := c.info.Uses[f.Sel]; o != nil {
			return objName(o)
		}
		return f.Sel.Name
	case *ast.IndexExpr:
		return c.lastName(&ast.CallExpr{Fun: f.X})
	case *ast.IndexListExpr:
		return c.lastName(&ast.CallExpr{Fun: f.X})
	}
	return ""
}

// ---------------------------------------------------------------------------------------------------------
// expressions

const maxExpand = 4

func (c *canon) local(o *types.Var) string {
	if s, ok := c.subst[o]; ok {
		return s
	}
	if r, ok := c.rng[o]; ok && c.depth < maxExpand {
		c.depth++
		defer func() { c.depth-- }()
		isChan := false
		if t := c.typeOf(r.x); t != nil {
			_, isChan = t.Underlying().(*types.Chan)
		}
		if r.key && !isChan {
			return "key(" + c.expr(r.x) + ")"
		}
		return "elem(" + c.expr(r.x) + ")"
	}
	if types.Identical(o.Type(), types.Universe.Lookup("error").Type()) {
		return "‹error›"
	}
	if d, ok := c.defs[o]; ok && c.expandable(o) && c.depth < maxExpand {
		c.depth++
		defer func() { c.depth-- }()
		s := c.expr(d.rhs)
		if d.idx >= 0 {
			s += fmt.Sprintf("#%d", d.idx)
		}
		return s
	}
	return "‹" + c.typeStr(o.Type()) + "›"
}

// a local with exactly one assignment, which is its declaration, never address-taken
func (c *canon) expandable(o types.Object) bool { return c.nasg[o] == 1 && c.decl[o] && !c.addr[o] }

func (c *canon) exprs(es []ast.Expr) string {
	var p []string
	for _, e := range es {
		p = append(p, c.expr(e))
	}
	return strings.Join(p, ", ")
}

// canonical text of an expression
func (c *canon) expr(e ast.Expr) string {
	switch x := e.(type) {
	case nil:
		return ""
	case *ast.ParenExpr:
		return c.expr(x.X)
	case *ast.BasicLit:
		return x.Value
	case *ast.Ident:
		switch o := c.objOfIdent(x).(type) {
		case *types.Nil:
			return "nil"
		case *types.Const:
			if isPkgLevel(o) {
				return c.pkgName(o.Pkg()) + "." + o.Name()
			}
			if o.Pkg() == nil {
				return o.Name() // true, false, iota
			}
			if o.Val() != nil && o.Val().Kind() != constant.Unknown {
				return o.Val().ExactString()
			}
			return "‹" + c.typeStr(o.Type()) + "›"
		case *types.Var:
			if isPkgLevel(o) {
				return c.pkgName(o.Pkg()) + "." + o.Name()
			}
			return c.local(o)
		case *types.Func:
			if o.Pkg() != nil {
				return c.pkgName(o.Pkg()) + "." + objName(o)
			}
			return o.Name()
		case *types.TypeName:
			return c.typeStr(o.Type())
		case *types.Builtin:
			return o.Name()
		case *types.PkgName:
			return c.pkgName(o.Imported())
		}
		return x.Name
	case *ast.SelectorExpr:
		if sel, ok := c.info.Selections[x]; ok {
			return c.selRoot(x.X) + "." + objName(sel.Obj())
		}
		if o := c.info.Uses[x.Sel]; o != nil && o.Pkg() != nil {
			return c.pkgName(o.Pkg()) + "." + objName(o)
		}
		return c.expr(x.X) + "." + x.Sel.Name
	case *ast.CallExpr:
		if tv, ok := c.info.Types[x.Fun]; ok && tv.IsType() {
			return c.typeStr(tv.Type) + "(" + c.exprs(x.Args) + ")"
		}
		return c.callee(x) + "(" + c.exprs(x.Args) + ")"
	case *ast.BinaryExpr:
		return c.operand(x.X) + " " + x.Op.String() + " " + c.operand(x.Y)
	case *ast.UnaryExpr:
		return x.Op.String() + c.operand(x.X)
	case *ast.StarExpr:
		return "*" + c.operand(x.X)
	case *ast.IndexExpr:
		return c.operand(x.X) + "[" + c.expr(x.Index) + "]"
	case *ast.SliceExpr:
		return c.operand(x.X) + "[" + c.expr(x.Low) + ":" + c.expr(x.High) + "]"
	case *ast.TypeAssertExpr:
		if x.Type == nil {
			return c.operand(x.X) + ".(type)"
		}
		return c.operand(x.X) + ".(" + c.typeStr(c.typeOf(x.Type)) + ")"
	case *ast.CompositeLit:
		return c.typeStr(c.typeOf(x)) + "{…}"
	case *ast.FuncLit:
		return "func literal"
	case *ast.KeyValueExpr:
		return c.expr(x.Key) + ": " + c.expr(x.Value)
	}
	if tv, ok := c.info.Types[e]; ok && tv.IsType() {
		return c.typeStr(tv.Type)
	}
	return "‹" + c.typeStr(c.typeOf(e)) + "›"
}

func (c *canon) operand(e ast.Expr) string {
	s := c.expr(e)
	switch ast.Unparen(e).(type) {
	case *ast.BinaryExpr:
		return "(" + s + ")"
	}
	return s
}

// the X of a field selection X.f: a local struct variable (receiver, parameter, range variable …) is named by its type
func (c *canon) selRoot(e ast.Expr) string {
	switch x := e.(type) {
	case *ast.ParenExpr:
		return c.selRoot(x.X)
	case *ast.StarExpr:
		return c.selRoot(x.X)
	case *ast.Ident:
		if v, ok := c.objOfIdent(x).(*types.Var); ok && !isPkgLevel(v) {
			if s, ok := c.subst[v]; ok {
				return s
			}
			return c.rootType(v.Type())
		}
	case *ast.SelectorExpr:
		if _, ok := c.info.Selections[x]; ok {
			return c.selRoot(x.X) + "." + x.Sel.Name
		}
	case *ast.IndexExpr:
		return c.selRoot(x.X) + "[" + c.expr(x.Index) + "]"
	case *ast.CallExpr:
		return c.expr(x)
	}
	return c.expr(e)
}

// ---------------------------------------------------------------------------------------------------------
// conditions

type cnode struct {
	kind string // atom | and | or
	neg  bool   // atom only
	text string // atom: positive rendering
	ntxt string // atom: rendering of the negation ("" → "!" + text)
	kids []*cnode
}

func atom(text, ntxt string) *cnode { return &cnode{kind: "atom", text: text, ntxt: ntxt} }

func (n *cnode) not() *cnode {
	switch n.kind {
	case "atom":
		m := *n
		m.neg = !n.neg
		return &m
	case "and", "or":
		m := &cnode{kind: "or"}
		if n.kind == "or" {
			m.kind = "and"
		}
		for _, k := range n.kids {
			m.kids = append(m.kids, k.not())
		}
		return m
	}
	return n
}

func (n *cnode) String() string {
	switch n.kind {
	case "atom":
		if !n.neg {
			return n.text
		}
		if n.ntxt != "" {
			return n.ntxt
		}
		if strings.ContainsAny(n.text, " ") && !strings.HasSuffix(n.text, ")") {
			return "!(" + n.text + ")"
		}
		return "!" + n.text
	case "and", "or":
		op := " && "
		if n.kind == "or" {
			op = " || "
		}
		var p []string
		for _, k := range n.kids {
			s := k.String()
			if k.kind == "and" || k.kind == "or" {
				s = "(" + s + ")"
			}
			p = append(p, s)
		}
		return strings.Join(p, op)
	}
	return "?"
}

func (n *cnode) negCount() int {
	if n.kind == "atom" {
		if n.neg {
			return 1
		}
		return 0
	}
	t := 0
	for _, k := range n.kids {
		t += k.negCount()
	}
	return t
}

// is this form the preferred polarity (of the node and its negation)?  fewer negated atoms; tie: a conjunction / a positive atom
func (n *cnode) preferred() bool {
	a, b := n.negCount(), n.not().negCount()
	if a != b {
		return a < b
	}
	if n.kind == "atom" {
		return !n.neg
	}
	return n.kind == "and"
}

// the atoms in order (for "is exactly errNonNil" tests)
func (n *cnode) isAtom(text string, neg bool) bool {
	return n.kind == "atom" && n.text == text && n.neg == neg
}

func join(kind string, a, b *cnode) *cnode {
	out := &cnode{kind: kind}
	for _, k := range []*cnode{a, b} {
		if k.kind == kind {
			out.kids = append(out.kids, k.kids...)
		} else {
			out.kids = append(out.kids, k)
		}
	}
	return out
}

func (c *canon) cond(e ast.Expr) *cnode {
	switch x := e.(type) {
	case *ast.ParenExpr:
		return c.cond(x.X)
	case *ast.UnaryExpr:
		if x.Op == token.NOT {
			return c.cond(x.X).not()
		}
	case *ast.BinaryExpr:
		switch x.Op {
		case token.LAND:
			return join("and", c.cond(x.X), c.cond(x.Y))
		case token.LOR:
			return join("or", c.cond(x.X), c.cond(x.Y))
		case token.EQL, token.NEQ:
			n := c.equality(x.X, x.Y)
			if x.Op == token.NEQ {
				return n.not()
			}
			return n
		case token.LSS:
			return c.less(x.X, x.Y)
		case token.GTR:
			return c.less(x.Y, x.X)
		case token.GEQ:
			return c.less(x.X, x.Y).not()
		case token.LEQ:
			return c.less(x.Y, x.X).not()
		}
	case *ast.CallExpr:
		if n := c.condCall(x); n != nil {
			return n
		}
	case *ast.Ident:
		// a boolean local defined once by a condition-like expression: look through it
		if v, ok := c.objOfIdent(x).(*types.Var); ok && !isPkgLevel(v) {
			if _, sub := c.subst[v]; !sub {
				if d, ok := c.defs[v]; ok && d.idx < 0 && c.expandable(v) && c.depth < maxExpand {
					switch ast.Unparen(d.rhs).(type) {
					case *ast.BinaryExpr, *ast.UnaryExpr, *ast.CallExpr:
						c.depth++
						defer func() { c.depth-- }()
						return c.cond(d.rhs)
					}
				}
			}
		}
	}
	return atom(c.expr(e), "")
}

func isNilIdent(e ast.Expr) bool {
	id, ok := ast.Unparen(e).(*ast.Ident)
	return ok && id.Name == "nil"
}

// a == b
func (c *canon) equality(a, b ast.Expr) *cnode {
	if isNilIdent(a) {
		a, b = b, a
	}
	if isNilIdent(b) {
		if c.isErrorTyped(a) {
			return atom("errNonNil", "errNil").not()
		}
		x := c.expr(a)
		return atom("nonNil("+x+")", "isNil("+x+")").not()
	}
	if s := c.sentinelName(b); s != "" && c.isErrorTyped(a) {
		return atom("isSentinel("+s+")", "notSentinel("+s+")")
	}
	if s := c.sentinelName(a); s != "" && c.isErrorTyped(b) {
		return atom("isSentinel("+s+")", "notSentinel("+s+")")
	}
	l, r := c.operand(a), c.operand(b)
	if _, lit := ast.Unparen(a).(*ast.BasicLit); lit {
		l, r = r, l
	}
	return atom(l+" == "+r, l+" != "+r)
}

// a < b
func (c *canon) less(a, b ast.Expr) *cnode {
	l, r := c.operand(a), c.operand(b)
	if _, lit := ast.Unparen(a).(*ast.BasicLit); lit {
		return atom(r+" > "+l, r+" <= "+l) // same node, written with the literal on the right
	}
	return atom(l+" < "+r, l+" >= "+r)
}

func (c *canon) condCall(x *ast.CallExpr) *cnode {
	f := c.calledFunc(x)
	if f != nil && f.Pkg() != nil && f.Pkg().Path() == "errors" && f.Name() == "Is" && len(x.Args) == 2 {
		if s := c.sentinelName(x.Args[1]); s != "" {
			return atom("isSentinel("+s+")", "notSentinel("+s+")")
		}
	}
	// a helper of the module whose body is `return <expr>`, possibly after declarations of locals that are assigned once
	// (`info, err := os.Stat(p); return err == nil && info.Size() == 0`): inline it (one level), parameters ↦ arguments,
	// such locals ↦ their defining expressions — the same text the condition has when it is written out at the call site
	if f != nil && c.lookup != nil && c.depth < 2 {
		if h := c.lookup(f); h != nil && h.fd.Body != nil && len(h.fd.Body.List) >= 1 && len(h.fd.Body.List) <= 4 {
			list := h.fd.Body.List
			declsOnly := true
			for _, st := range list[:len(list)-1] {
				as, ok := st.(*ast.AssignStmt)
				if !ok || as.Tok != token.DEFINE {
					declsOnly = false
				}
			}
			if rs, ok := list[len(list)-1].(*ast.ReturnStmt); ok && len(rs.Results) == 1 && declsOnly {
				sig, _ := f.Type().(*types.Signature)
				if sig != nil && !sig.Variadic() && sig.Params().Len() == len(x.Args) {
					hc := &canon{mod: c.mod, info: h.info, defs: map[types.Object]defSite{}, nasg: map[types.Object]int{},
						decl: map[types.Object]bool{}, addr: map[types.Object]bool{}, rng: map[types.Object]rangeSite{},
						subst: map[types.Object]string{}, lookup: c.lookup, depth: c.depth + 1}
					if len(list) > 1 {
						hc.scanDefs(h.fd.Body)
					}
					errParam := map[types.Object]bool{}
					for i := 0; i < sig.Params().Len(); i++ {
						hc.subst[sig.Params().At(i)] = c.expr(x.Args[i])
						if c.isErrorTyped(x.Args[i]) {
							errParam[sig.Params().At(i)] = true
						}
					}
					if sig.Recv() != nil {
						if sx, ok := ast.Unparen(x.Fun).(*ast.SelectorExpr); ok {
							hc.subst[sig.Recv()] = c.selRoot(sx.X)
						}
					}
					return hc.cond(rs.Results[0])
				}
			}
		}
	}
	return nil
}

// ---------------------------------------------------------------------------------------------------------
// pure calls, decided by the identity of the callee (package / declaring type), not by a list of spellings

var purePkgs = map[string]bool{
	"strings": true, "strconv": true, "errors": true, "math": true, "math/bits": true, "bytes": true, "unicode": true,
	"unicode/utf8": true, "encoding/binary": true, "hash": true, "hash/fnv": true, "hash/crc32": true, "hash/crc64": true,
	"path": true, "slices": true, "maps": true, "cmp": true, "reflect": true, "unsafe": true, "sort": true,
}

// effectful members of otherwise pure packages
var notPure = map[string]bool{
	"path/filepath.Walk": true, "path/filepath.WalkDir": true, "path/filepath.Glob": true, "path/filepath.Abs": true,
	"path/filepath.EvalSymlinks": true, "time.NewTicker": true, "time.NewTimer": true, "time.Sleep": true, "time.After": true,
	"time.AfterFunc": true, "time.Tick": true, "time.Ticker.Stop": true, "time.Ticker.Reset": true, "time.Timer.Stop": true,
	"time.Timer.Reset": true, "sort.Strings": true, "sort.Sort": true, "sort.Slice": true, "sort.SliceStable": true, "sort.Stable": true,
	"sort.Ints": true, "sort.Float64s": true, "sort.StringSlice.Sort": true, "sort.IntSlice.Sort": true,
	// package slices: everything that writes into its argument
	"slices.Sort": true, "slices.SortFunc": true, "slices.SortStableFunc": true, "slices.Reverse": true,
}

// stringSortArg: the list when the call is one of the standard ways of sorting a []string in place into ascending order —
// sort.Strings(x), slices.Sort(x), sort.Sort / sort.Stable(sort.StringSlice(x)), sort.StringSlice(x).Sort(),
// slices.SortFunc / slices.SortStableFunc(x, strings.Compare | cmp.Compare[string]) — else nil.  All of them leave the same
// slice behind (strings are totally ordered, equal strings are indistinguishable).
func (c *canon) stringSortArg(call *ast.CallExpr) ast.Expr {
	isStrings := func(e ast.Expr) bool {
		t := c.typeOf(e)
		if t == nil {
			return false
		}
		sl, ok := t.Underlying().(*types.Slice)
		if !ok {
			return false
		}
		b, ok := sl.Elem().Underlying().(*types.Basic)
		return ok && b.Kind() == types.String
	}
	// sort.StringSlice(x) → x
	conv := func(e ast.Expr) ast.Expr {
		ce, ok := ast.Unparen(e).(*ast.CallExpr)
		if !ok || len(ce.Args) != 1 {
			return nil
		}
		if tv, ok := c.info.Types[ce.Fun]; ok && tv.IsType() && c.typeStr(tv.Type) == "sort.StringSlice" && isStrings(ce.Args[0]) {
			return ce.Args[0]
		}
		return nil
	}
	// method form: sort.StringSlice(x).Sort()
	if sx, ok := ast.Unparen(call.Fun).(*ast.SelectorExpr); ok && len(call.Args) == 0 && sx.Sel.Name == "Sort" {
		if _, isSel := c.info.Selections[sx]; isSel {
			return conv(sx.X)
		}
	}
	f := c.calledFunc(call)
	if f == nil || f.Pkg() == nil {
		return nil
	}
	name := f.Pkg().Path() + "." + f.Name()
	switch name {
	case "sort.Strings", "slices.Sort":
		if len(call.Args) == 1 && isStrings(call.Args[0]) {
			return call.Args[0]
		}
	case "sort.Sort", "sort.Stable":
		if len(call.Args) == 1 {
			return conv(call.Args[0])
		}
	case "slices.SortFunc", "slices.SortStableFunc":
		if len(call.Args) == 2 && isStrings(call.Args[0]) {
			cmpf := ast.Unparen(call.Args[1])
			if ix, ok := cmpf.(*ast.IndexExpr); ok { // cmp.Compare[string]
				cmpf = ix.X
			}
			var id *ast.Ident
			switch y := cmpf.(type) {
			case *ast.SelectorExpr:
				id = y.Sel
			case *ast.Ident:
				id = y
			}
			if id != nil {
				if g, ok := c.info.Uses[id].(*types.Func); ok && g.Pkg() != nil {
					if n := g.Pkg().Path() + "." + g.Name(); n == "strings.Compare" || n == "cmp.Compare" {
						return call.Args[0]
					}
				}
			}
		}
	}
	return nil
}

var logTerminators = map[string]bool{"Panic": true, "Panicf": true, "Panicln": true, "Fatal": true, "Fatalf": true, "Fatalln": true}

// getters of standard-library interfaces that only read: os.FileInfo / fs.DirEntry
var pureIfaceMethods = map[string]bool{
	"io/fs.FileInfo.IsDir": true, "io/fs.FileInfo.Name": true, "io/fs.FileInfo.Size": true, "io/fs.FileInfo.Mode": true,
	"io/fs.FileInfo.ModTime": true, "io/fs.DirEntry.Name": true, "io/fs.DirEntry.IsDir": true, "io/fs.DirEntry.Type": true,
	"os.File.Name": true, "os.File.Fd": true,
}

// is the call free of effects on files, locks, channels and the data structures of the library?  Decided by WHAT is called:
// builtins and conversions; functions and methods of the pure standard packages (strings, strconv, errors, fmt.Sprint*/
// Errorf, path/filepath without Walk/Glob/Abs, hash/*, encoding/binary, time without tickers/timers/sleep, sort.Search*);
// logging that does not stop the process (log.Print*, fmt.Print*); os.IsNotExist & co.; read-only getters of os.FileInfo
func (c *canon) pureCall(call *ast.CallExpr) bool {
	fun := ast.Unparen(call.Fun)
	if tv, ok := c.info.Types[fun]; ok && (tv.IsType() || tv.IsBuiltin()) {
		if id, ok := fun.(*ast.Ident); ok && (id.Name == "close" || id.Name == "panic") {
			return false
		}
		return true
	}
	m := c.method(call)
	if m == "" {
		return false
	}
	if notPure[m] {
		return false
	}
	if pureIfaceMethods[m] {
		return true
	}
	var pkg string
	if sx, ok := fun.(*ast.SelectorExpr); ok {
		if sel, ok := c.info.Selections[sx]; ok {
			if sel.Kind() != types.MethodVal {
				return false
			}
			t := types.Unalias(sel.Recv())
			if p, ok := t.(*types.Pointer); ok {
				t = types.Unalias(p.Elem())
			}
			if n, ok := t.(*types.Named); ok && n.Obj().Pkg() != nil {
				pkg = n.Obj().Pkg().Path()
			}
		}
	}
	f := c.calledFunc(call)
	if pkg == "" && f != nil && f.Pkg() != nil {
		pkg = f.Pkg().Path()
	}
	name := ""
	if f != nil {
		name = f.Name()
	}
	switch pkg {
	case "fmt":
		return strings.HasPrefix(name, "Sprint") || name == "Errorf" || strings.HasPrefix(name, "Print") || strings.HasPrefix(name, "Fprint")
	case "log":
		return !logTerminators[name]
	case "time":
		return true // tickers, timers, sleeps are in notPure
	case "path/filepath":
		return true
	case "os":
		return name == "IsNotExist" || name == "IsExist" || name == "IsPermission" || name == "IsTimeout" || name == "Getpagesize"
	case "sync/atomic":
		return strings.HasPrefix(name, "Load")
	}
	return purePkgs[pkg]
}

// a functional option of the module: a function whose single result is a named func type `func(*T)` (sstables.WriteBasePath,
// recordio.Path, wal.BasePath …) — builds a closure, touches nothing
func (c *canon) optionCtor(call *ast.CallExpr) bool {
	f := c.calledFunc(call)
	if f == nil || f.Pkg() == nil || !(f.Pkg().Path() == c.mod || strings.HasPrefix(f.Pkg().Path(), c.mod+"/")) {
		return false
	}
	sig, _ := f.Type().(*types.Signature)
	if sig == nil || sig.Recv() != nil || sig.Results().Len() != 1 {
		return false
	}
	rt := types.Unalias(sig.Results().At(0).Type())
	if _, named := rt.(*types.Named); !named {
		return false
	}
	fs, ok := rt.Underlying().(*types.Signature)
	if !ok || fs.Params().Len() != 1 || fs.Results().Len() != 0 {
		return false
	}
	_, ptr := fs.Params().At(0).Type().Underlying().(*types.Pointer)
	return ptr
}

func sortedKeys(m map[string]bool) []string {
	var out []string
	for k := range m {
		out = append(out, k)
	}
	sort.Strings(out)
	return out
}
