#!/bin/bash
# Validation of the order tie: restores historical call orders / applies the seeded changes on SCRATCH copies of the
# affected source files (never /repo), runs orderfacts with --root on them, rebuilds the C*_Order theorem files in a
# SCRATCH copy of the Lean project (never /verif/lean) and prints which theorems no longer build.
#   usage: tools/orderfacts/validate.sh [mutant ...]      (default: all)
# Mutants: <commit>      whole pre-fix file(s)  (git show <commit>~1:<path>)
#          <commit>-R    only that fix reversed on today's file (git show <commit> | patch -R); <c1>+<c2>-R: both, in this order
#          Cxx-mk        /verif/seeded/Cxx-mk/patch.diff
set -u
VERIF=${VERIF:-/verif}          # the framework copy under test (default: /verif)
SEEDED=${SEEDED:-/verif/seeded}   # where the seeded changes live
REPO=/repo
WORK=${ORDVAL_DIR:-/tmp/ordval}
BIN=$WORK/orderfacts
PROJ=$WORK/lean
MODS="SST.Props.C02_Order SST.Props.C10_Order SST.Props.C13_Order SST.Props.C17_Order SST.Props.C07_Order"

mkdir -p "$WORK" "$PROJ/SST/Generated" "$PROJ/SST/Model" "$PROJ/SST/Spec" "$PROJ/SST/Props"
export GOFLAGS=-mod=mod GOPROXY=off
(cd $VERIF/tools/orderfacts && timeout 300 go build -o "$BIN" .) || { echo "orderfacts does not build"; exit 2; }
cp $VERIF/lean/lean-toolchain $VERIF/lean/lake-manifest.json "$PROJ/"
printf 'name = "SST"\nversion = "0.1.0"\ndefaultTargets = ["SST"]\n\n[[lean_lib]]\nname = "SST"\n' > "$PROJ/lakefile.toml"
cp $VERIF/lean/SST/Model/{Bytes,DB,FS}.lean "$PROJ/SST/Model/"
cp $VERIF/lean/SST/Spec/Order.lean "$PROJ/SST/Spec/"
cp $VERIF/lean/SST/Props/C*_Order.lean "$PROJ/SST/Props/"

theorem_at() { # file line -> name of the enclosing theorem
  awk -v L="$2" '/^theorem /{n=$2} NR==L{print n; exit}' "$1"
}

run_one() {
  local m=$1 root=$WORK/root_$1
  rm -rf "$root"; mkdir -p "$root"
  case $m in
    baseline) ;;
    C??-m?)
      for f in $(grep '^+++ b/' $SEEDED/$m/patch.diff | sed 's#^+++ b/##'); do
        mkdir -p "$root/$(dirname $f)"; cp "$REPO/$f" "$root/$f"
      done
      (cd "$root" && timeout 30 patch -s -p1 < $SEEDED/$m/patch.diff) || { echo "$m: patch does not apply"; return; } ;;
    *-R)
      # <c1>+<c2>-R: reverse c1, then c2 (when a later fix touched the same lines)
      local cs=${m%-R}
      for c in ${cs//+/ }; do
        for f in $(git -C $REPO show --format= --name-only $c); do
          mkdir -p "$root/$(dirname $f)"; [ -f "$root/$f" ] || cp "$REPO/$f" "$root/$f"
        done
        (git -C $REPO show --format= $c | (cd "$root" && timeout 30 patch -s -R -p1)) || { echo "$m: reverse patch of $c does not apply"; return; }
      done ;;
    *)
      for f in $(git -C $REPO show --format= --name-only $m); do
        mkdir -p "$root/$(dirname $f)"; git -C $REPO show $m~1:$f > "$root/$f"
      done ;;
  esac
  local strict="ok"
  timeout 120 "$BIN" --root "$root" $REPO "$WORK/strict_out" >/dev/null 2>"$WORK/strict_err" || strict="exit $? ($(head -c 300 $WORK/strict_err | tr '\n' ' '))"
  timeout 120 "$BIN" --root "$root" --allow-missing $REPO "$PROJ/SST/Generated" 2>/dev/null
  (cd "$PROJ" && timeout 900 lake build $MODS 2>&1) > "$WORK/build_$m.log"
  local failed=""
  while IFS= read -r line; do
    f=$(echo "$line" | sed -E 's/^error: ([^:]+):([0-9]+):.*/\1/'); l=$(echo "$line" | sed -E 's/^error: ([^:]+):([0-9]+):.*/\2/')
    case $f in /*) ;; *) f="$PROJ/$f" ;; esac
    t=$(theorem_at "$f" "$l"); failed="$failed $(basename $f .lean | sed 's/_Order//').$t"
  done < <(grep -E '^error: [^ ]+\.lean:[0-9]+:[0-9]+' "$WORK/build_$m.log")
  failed=$(echo $failed | tr ' ' '\n' | sort -u | tr '\n' ' ' | sed 's/^ *//;s/ *$//')
  echo "== $m | orderfacts (strict): $strict"
  echo "   failing theorems: ${failed:-none}"
}

# the error-path repairs of round 4 (3b4867f table writer Open cleanup, a9ebc7d WAL writer, a7ed007 flag writer, bfb8835 compaction
# inputs, edfc7e7 DB.Open, 6dd9211 done signal of the goroutines): each reversed on today's files
ALL="baseline 036cc7d 036cc7d-R c63f907 c63f907-R 86e2d95 86e2d95-R dd6bb0c dd6bb0c-R d2bdde6 d2bdde6-R 2cc0c75 d2bdde6+2cc0c75-R 3b4867f-R a9ebc7d-R a7ed007-R bfb8835-R edfc7e7-R 6dd9211-R C10-m1 C13-m1 C13-m2 C02-m2 C07-m2 C07-m6 C17-m1"
for m in ${@:-$ALL}; do run_one $m; done
