module orderfacts

go 1.22
