module orderfacts

go 1.21
