// orderfacts: regenerates lean/SST/Generated/Order.lean from /repo's working tree.
//
//	orderfacts [--root <overlay dir>] [--allow-missing] <repo> <outdir>
//
// Standard library only (go/parser, go/ast, go/token, go/printer).  For a FIXED list of functions (the ones whose
// call order the abstract-disk crash model lean/SST/Model/FS.lean mirrors by hand) it emits the sequence of calls
// in SOURCE order as a flat list of items:
//
//   - `act <label>`: a call (or statement pattern) the tool recognises, e.g. `writerClose`, `saveCompactionFlag`;
//   - `other "<callee>"`: a call it does not recognise — kept, so that a NEW call between two known ones is visible
//     (calls on the `ignored` list, pure helpers such as filepath.Join / fmt.Errorf / option constructors, are dropped;
//     the list is printed into the generated file);
//   - structure markers: ifBegin "<condition>" / elseBegin / ifEnd, loopBegin <loop facts> / loopEnd,
//     deferBegin / deferEnd (body executed at function exit, blocks in reverse order), scopeBegin / scopeEnd (an
//     immediately invoked function literal), cbBegin / cbEnd (a function literal passed to the preceding call),
//     ret / brk / cont.
//
// `if <err> != nil { return … }` blocks whose body contains no call besides ignored ones are elided, and so are
// conditionals and loops without any item in them.
// Loop facts: kind (range / index / while / forever), the list iterated (`over`), the start index, whether the step
// is one, and whether `sort.Strings(<over>)` precedes the loop in the function with no assignment to the list in between.
//
// Evaluation order inside a statement: arguments before the call (post-order); the value of a send before the send.
//
// It is compiled and run before every proof build (see DESIGN.md §3.1), so an edit of the call ORDER in the source
// changes the table the theorems in lean/SST/Props/C*_Order.lean are about.  The file is rewritten only when its
// content changes.  A listed function that is missing is an error (exit 1) unless --allow-missing is given, in which
// case it is emitted with `found := false` and no items (the Lean obligations about it then fail).
//
// --root <dir>: overlay — a listed source file is taken from <dir>/<relative path> if it exists there, else from
// <repo>.  Used to run the tool on scratch copies (historical versions, seeded changes) without touching /repo.
package main

import (
	"bytes"
	"fmt"
	"go/ast"
	"go/parser"
	"go/printer"
	"go/token"
	"os"
	"path/filepath"
	"regexp"
	"sort"
	"strconv"
	"strings"
)

// ---------------------------------------------------------------------------------------------------------
// what is extracted

type target struct {
	file string   // relative to the repo
	pkg  string   // package name used for plain functions
	fns  []string // "Recv.Method" or "func"
}

var targets = []target{
	{"simpledb/db.go", "simpledb", []string{"DB.Open", "DB.Close", "DB.Put", "DB.PutBytes", "DB.Delete", "DB.DeleteBytes"}},
	{"simpledb/flush.go", "simpledb", []string{"flushMemstoreContinuously", "executeFlush", "DB.rotateWalAndFlushMemstore", "swapMemstore"}},
	{"simpledb/compaction.go", "simpledb", []string{"backgroundCompaction", "executeCompaction", "saveCompactionMetadata"}},
	{"simpledb/sstable_manager.go", "simpledb", []string{"SSTableManager.reflectCompactionResult", "SSTableManager.addReader"}},
	{"simpledb/recovery.go", "simpledb", []string{"DB.repairCompactions", "DB.reconstructSSTables", "isUnfinishedTable",
		"removeUnfinishedTable", "hasEmptyMetadata", "DB.replayAndSetupWriteAheadLog"}},
	{"sstables/sstable_writer.go", "sstables", []string{"SSTableStreamWriter.Open", "SSTableStreamWriter.WriteNext", "SSTableStreamWriter.Close"}},
	{"memstore/memstore.go", "memstore", []string{"MemStore.FlushWithTombstones", "flushMemstore"}},
	{"wal/appender.go", "wal", []string{"Appender.Append", "Appender.AppendSync", "Appender.Rotate", "Appender.Close",
		"checkSizeAndRotate", "setupNextWriter", "NewAppender"}},
	{"wal/replayer.go", "wal", []string{"Replayer.Replay", "Replayer.replayFile"}},
	{"recordio/file_writer.go", "recordio", []string{"FileWriter.Open", "FileWriter.Write", "FileWriter.WriteSync", "FileWriter.Close", "writeFileHeader"}},
}

// the label vocabulary (fixed; the Lean enum is generated from this list, whether or not a label occurs)
var labels = []string{
	// locks, goroutines, channels
	"lock", "unlock", "spawnFlusher", "spawnCompactor", "chanSendFlush", "closeFlushChannel", "waitFlusherDone",
	"signalFlusherDone", "chanSendStopCompaction", "waitCompactorDone", "signalCompactorDone", "recvCompactionStop",
	"recvCompactionTick", "newTicker", "stopTicker", "panicLog",
	// client calls
	"validateEmpty", "protoMarshal", "protoUnmarshal", "putBytesCall", "deleteBytesCall",
	"walAppend", "walAppendSync", "memUpsert", "memDelete", "memTombstone", "memSizeEstimate",
	"rotateAndHandOff", "walRotate", "swapMemstore", "newMemStore", "walClose", "currentSSTable", "readerClose",
	// error-path cleanups (fixes edfc7e7, a9ebc7d): a failed Open forgets the readers it closed; a WAL file writer that
	// failed to open is closed again
	"clearReaders", "closeFailedWalWriter",
	// flush
	"executeFlush", "memSize", "genIncrement", "mkdirTable", "flushWithTombstones", "removeWalFile", "openReader", "addReader",
	"newSuperReader", "flushMemstoreCall", "newStreamWriter", "writerOpen", "writerWriteNext", "writerClose", "memIterator", "iterNext",
	// table writer
	"newProtoWriter", "openIndexWriter", "newFileWriter", "openDataWriter", "openMetaFile", "newBloom", "verifHook",
	"keyCompare", "bloomAdd", "dataWrite", "indexWrite", "dataSeek",
	"closeIndexWriter", "closeDataWriter", "writeBloom", "closeMetaFile", "writeMeta",
	// compaction
	"executeCompaction", "reflectCompactionResult", "selectCandidates", "mkdirTempCompaction", "readerScan", "mergeCompact",
	"saveCompactionFlag", "openFlagWriter", "writeFlag", "closeFlagWriter",
	"indexOfReader", "removeAllInput", "renameIntoPlace", "removeReaderAt",
	// recovery
	"repairCompactions", "reconstructSSTables", "replayAndSetupWal",
	"walkDir", "osStat", "newFlagReader", "openFlagReader", "readFlag", "closeFlagReader",
	"removeAllUnflaggedCompaction", "removeAllReplacement",
	"hasEmptyMetadataCheck", "isUnfinishedTableCheck", "removeUnfinishedTable", "removeIndexFileFirst", "removeAllTableDir", "loadTable",
	"mkdirWalDir", "directIOCheck", "newWalOptions", "newFileReader", "newReplayer", "replayWal", "executeFlushInRecovery",
	"readDir", "removeWalFileInRecovery", "removeAllWalDir", "newWal",
	// wal appender / replayer
	"checkSizeAndRotate", "recWrite", "recWriteSync", "closeCurrentWalWriter", "setupNextWriter", "walWriterFactory", "openWalWriter",
	"replayFile", "walReaderFactory", "walReaderOpen", "walReadNext", "walReaderClose", "processRecord",
	// recordio writer
	"writeHeader", "bufWriteHeader", "newCompressor", "flushBuffer", "compress", "writeRecordHeader", "writePayload", "fsync", "truncate", "closeFile",
}

// calls without an effect on files, locks, channels or the memstore: dropped from the sequences
var ignored = map[string]bool{}

func init() {
	for _, s := range strings.Fields(`
		len cap append make copy new max min panic uint64 uint32 uint int int64 float64 float32 string byte
		fmt.Sprintf fmt.Errorf errors.Join errors.Is errors.New
		filepath.Join filepath.Base log.Printf time.Now time.Since
		strings.HasPrefix strings.HasSuffix strings.Join strconv.ParseUint os.IsNotExist
		info.IsDir info.Name info.Size entry.Name stat.IsDir elapsedDuration.Seconds
		reader.MetaData memStoreToFlush.Size
		sstables.WriteBasePath sstables.WithKeyComparator sstables.WriteBufferSizeBytes sstables.BloomExpectedNumberOfElements
		sstables.ReadBasePath sstables.ReadWithKeyComparator sstables.ReadBufferSizeBytes
		sstables.NewMergeIteratorContext sstables.NewSSTableMerger sstables.ScanReduceLatestWins
		rProto.Path rProto.WriteBufferSizeBytes rProto.CompressionType rProto.ReaderPath
		recordio.Path recordio.CompressionType recordio.BufferSizeBytes recordio.DirectIO
		wal.BasePath wal.MaximumWalFileSizeBytes wal.WriterFactory wal.ReaderFactory
		fnv.New64 fnvHash.Write crc64.New crc64.MakeTable crc.Write crc.Sum64
		writer.dataWriter.Size writer.indexWriter.Size a.currentWriter.Size
		w.file.Name w.bufferPool.Get w.bufferPool.Put pool.NewPool fileHeaderAsByteSlice
	`) {
		ignored[s] = true
	}
}

// ---------------------------------------------------------------------------------------------------------
// items

type loopInfo struct {
	kind         string // range | index | while | forever
	over         string
	start        int // -1: not a literal
	stepOne      bool
	sortedBefore bool
	valVar       string // range: value variable; index loops: ""
	idxVar       string
}

type item struct {
	kind string // act other ifBegin elseBegin ifEnd loopBegin loopEnd deferBegin deferEnd scopeBegin scopeEnd cbBegin cbEnd ret brk cont
	s    string // label / callee / condition
	arg  string // parameter of a parametrised label
	loop *loopInfo
}

func (it item) lean() string {
	switch it.kind {
	case "act":
		if it.arg != "" {
			return ".act (." + it.s + " " + leanStr(it.arg) + ")"
		}
		return ".act ." + it.s
	case "other":
		return ".other " + leanStr(it.s)
	case "ifBegin":
		return ".ifBegin " + leanStr(it.s)
	case "loopBegin":
		l := it.loop
		st := "none"
		if l.start >= 0 {
			st = fmt.Sprintf("(some %d)", l.start)
		}
		return fmt.Sprintf(".loopBegin ⟨%s, %s, %s, %v, %v⟩", leanStr(l.kind), leanStr(l.over), st, l.stepOne, l.sortedBefore)
	default:
		return "." + it.kind
	}
}

// ---------------------------------------------------------------------------------------------------------
// walker

var fset = token.NewFileSet()

type walker struct {
	fn     string
	recv   string
	items  []item
	loops  []*loopInfo
	sorted map[string]bool
}

func (w *walker) emit(it item) { w.items = append(w.items, it) }

func exprString(n ast.Node) string {
	var b bytes.Buffer
	_ = printer.Fprint(&b, fset, n)
	return strings.Join(strings.Fields(b.String()), " ")
}

// calleeName: printed function expression; a call in receiver position is replaced by "(<its callee>)"
func calleeName(e ast.Expr) string {
	switch x := e.(type) {
	case *ast.SelectorExpr:
		if c, ok := x.X.(*ast.CallExpr); ok {
			return "(" + calleeName(c.Fun) + ")." + x.Sel.Name
		}
		return exprString(x)
	case *ast.ParenExpr:
		return calleeName(x.X)
	case *ast.ArrayType, *ast.MapType, *ast.ChanType, *ast.InterfaceType, *ast.StarExpr, *ast.FuncType:
		return "conv"
	default:
		return exprString(e)
	}
}

func hasIdent(s, id string) bool {
	if id == "" || id == "_" {
		return false
	}
	return regexp.MustCompile(`(^|[^A-Za-z0-9_.])` + regexp.QuoteMeta(id) + `($|[^A-Za-z0-9_])`).MatchString(s)
}

// does the argument text name an element of the list an enclosing loop runs over?
func (w *walker) loopElem(args string, overSuffix string) bool {
	for _, l := range w.loops {
		if !strings.HasSuffix(l.over, overSuffix) {
			continue
		}
		if hasIdent(args, l.valVar) {
			return true
		}
		if l.idxVar != "" && strings.Contains(args, l.over+"["+l.idxVar+"]") {
			return true
		}
	}
	return false
}

// classify a call.  Returns (label, parameter, known); ignored calls are filtered before.
func (w *walker) classify(callee string, args []string) (string, string, bool) {
	a := strings.Join(args, ", ")
	fn := w.fn
	in := func(names ...string) bool {
		for _, n := range names {
			if fn == n {
				return true
			}
		}
		return false
	}
	suffix := func(s string) bool { return strings.HasSuffix(callee, s) }
	switch {
	// ---- locks
	case suffix("ock.Lock") || suffix("ock.RLock"):
		return "lock", "", true
	case suffix("ock.Unlock") || suffix("ock.RUnlock"):
		return "unlock", "", true
	// ---- goroutines, channels (pseudo callees built by the walker)
	case callee == "go flushMemstoreContinuously":
		return "spawnFlusher", "", true
	case callee == "go backgroundCompaction":
		return "spawnCompactor", "", true
	case callee == "send db.storeFlushChannel":
		return "chanSendFlush", "", true
	case callee == "close" && a == "db.storeFlushChannel":
		return "closeFlushChannel", "", true
	case callee == "recv db.doneFlushChannel":
		return "waitFlusherDone", "", true
	case callee == "send db.doneFlushChannel":
		return "signalFlusherDone", "", true
	case callee == "send db.compactionTickerStopChannel":
		return "chanSendStopCompaction", "", true
	case callee == "recv db.doneCompactionChannel":
		return "waitCompactorDone", "", true
	case callee == "send db.doneCompactionChannel":
		return "signalCompactorDone", "", true
	case callee == "recv db.compactionTickerStopChannel":
		return "recvCompactionStop", "", true
	case callee == "recv db.compactionTicker.C":
		return "recvCompactionTick", "", true
	case callee == "time.NewTicker":
		return "newTicker", "", true
	case callee == "db.compactionTicker.Stop":
		return "stopTicker", "", true
	case callee == "log.Panicf":
		return "panicLog", "", true
	// ---- generic
	case callee == "sort.Strings":
		return "sortStrings", a, true
	case callee == "proto.Marshal":
		return "protoMarshal", "", true
	case callee == "proto.Unmarshal":
		return "protoUnmarshal", "", true
	case callee == "filepath.Walk":
		return "walkDir", "", true
	case callee == "os.Stat":
		return "osStat", "", true
	case callee == "os.ReadDir":
		return "readDir", "", true
	// ---- simpledb: client calls
	case callee == "db.PutBytes":
		return "putBytesCall", "", true
	case callee == "db.DeleteBytes":
		return "deleteBytesCall", "", true
	case callee == "db.wal.Append":
		return "walAppend", "", true
	case callee == "db.wal.AppendSync":
		return "walAppendSync", "", true
	case callee == "db.wal.Rotate":
		return "walRotate", "", true
	case callee == "db.wal.Close":
		return "walClose", "", true
	case callee == "db.memStore.Upsert":
		return "memUpsert", "", true
	case callee == "db.memStore.Delete":
		return "memDelete", "", true
	case callee == "db.memStore.Tombstone":
		return "memTombstone", "", true
	case callee == "db.memStore.EstimatedSizeInBytes":
		return "memSizeEstimate", "", true
	case callee == "db.rotateWalAndFlushMemstore":
		return "rotateAndHandOff", "", true
	case callee == "swapMemstore":
		return "swapMemstore", "", true
	case callee == "memstore.NewMemStore":
		return "newMemStore", "", true
	case callee == "db.sstableManager.currentSSTable":
		return "currentSSTable", "", true
	case callee == "(db.sstableManager.currentSSTable).Close":
		return "readerClose", "", true
	case callee == "db.sstableManager.clearReaders":
		return "clearReaders", "", true
	// ---- flush
	case callee == "executeFlush" && in("DB.replayAndSetupWriteAheadLog"):
		return "executeFlushInRecovery", "", true
	case callee == "executeFlush":
		return "executeFlush", "", true
	case callee == "atomic.AddUint64" && strings.Contains(a, "currentGeneration"):
		return "genIncrement", "", true
	case callee == "os.MkdirAll" && in("simpledb.executeFlush"):
		return "mkdirTable", "", true
	case callee == "os.MkdirAll" && in("DB.replayAndSetupWriteAheadLog") && strings.HasPrefix(a, "walBasePath"):
		return "mkdirWalDir", "", true
	case suffix(".FlushWithTombstones"):
		return "flushWithTombstones", "", true
	case callee == "os.Remove" && a == "walPath":
		return "removeWalFile", "", true
	case callee == "os.Remove" && strings.Contains(a, "IndexFileName"):
		return "removeIndexFileFirst", "", true
	case callee == "sstables.NewSSTableReader" && in("DB.reconstructSSTables"):
		return "loadTable", "", true
	case callee == "sstables.NewSSTableReader":
		return "openReader", "", true
	case suffix("sstableManager.addReader"):
		return "addReader", "", true
	case callee == "sstables.NewSuperSSTableReader":
		return "newSuperReader", "", true
	case callee == "flushMemstore":
		return "flushMemstoreCall", "", true
	case callee == "sstables.NewSSTableStreamWriter":
		return "newStreamWriter", "", true
	case callee == "writer.Open" && in("memstore.flushMemstore", "simpledb.executeCompaction"):
		return "writerOpen", "", true
	case callee == "writer.WriteNext" && in("memstore.flushMemstore"):
		return "writerWriteNext", "", true
	case callee == "writer.Close" && in("memstore.flushMemstore", "simpledb.executeCompaction"):
		return "writerClose", "", true
	case callee == "m.skipListMap.Iterator":
		return "memIterator", "", true
	case callee == "it.Next":
		return "iterNext", "", true
	// ---- table writer
	case callee == "rProto.NewWriter" && in("SSTableStreamWriter.Open"):
		return "newProtoWriter", "", true
	case callee == "writer.indexWriter.Open":
		return "openIndexWriter", "", true
	case callee == "recordio.NewFileWriter":
		return "newFileWriter", "", true
	case callee == "writer.dataWriter.Open":
		return "openDataWriter", "", true
	case callee == "os.OpenFile" && in("SSTableStreamWriter.Open") && strings.Contains(a, "metaFilePath"):
		return "openMetaFile", "", true
	case callee == "bloomfilter.NewOptimal":
		return "newBloom", "", true
	case callee == "verifWriterOpened":
		return "verifHook", "", true
	case callee == "writer.opts.keyComparator.Compare":
		return "keyCompare", "", true
	case callee == "writer.bloomFilter.Add":
		return "bloomAdd", "", true
	case callee == "writer.dataWriter.Write":
		return "dataWrite", "", true
	case callee == "writer.indexWriter.Write":
		return "indexWrite", "", true
	case callee == "writer.dataWriter.Seek":
		return "dataSeek", "", true
	case callee == "writer.indexWriter.Close":
		return "closeIndexWriter", "", true
	case callee == "writer.dataWriter.Close":
		return "closeDataWriter", "", true
	case callee == "writer.bloomFilter.WriteFile":
		return "writeBloom", "", true
	case callee == "writer.metaDataFile.Close":
		return "closeMetaFile", "", true
	case callee == "writer.metaDataFile.Write":
		return "writeMeta", "", true
	// ---- compaction
	case callee == "executeCompaction":
		return "executeCompaction", "", true
	case suffix("sstableManager.reflectCompactionResult"):
		return "reflectCompactionResult", "", true
	case suffix("sstableManager.candidateTablesForCompaction"):
		return "selectCandidates", "", true
	case callee == "os.MkdirTemp" && strings.Contains(a, "SSTableCompactionPathPrefix"):
		return "mkdirTempCompaction", "", true
	case callee == "reader.Scan":
		return "readerScan", "", true
	case suffix(".MergeCompact"):
		return "mergeCompact", "", true
	case callee == "saveCompactionMetadata":
		return "saveCompactionFlag", "", true
	case callee == "rProto.NewWriter" && in("simpledb.saveCompactionMetadata"):
		return "newProtoWriter", "", true
	case callee == "metaWriter.Open":
		return "openFlagWriter", "", true
	case callee == "metaWriter.Write":
		return "writeFlag", "", true
	case callee == "metaWriter.Close":
		return "closeFlagWriter", "", true
	case callee == "reader.Close" && in("simpledb.executeCompaction"):
		return "readerClose", "", true
	case callee == "s.allSSTableReaders[i].Close":
		return "readerClose", "", true
	case callee == "indexOfReader":
		return "indexOfReader", "", true
	case callee == "removeReaderAt":
		return "removeReaderAt", "", true
	case callee == "os.Rename":
		return "renameIntoPlace", "", true
	// ---- RemoveAll, by what is removed
	case callee == "os.RemoveAll" && w.loopElem(a, "SstablePaths"):
		return "removeAllInput", "", true
	case callee == "os.RemoveAll" && w.loopElem(a, "compactionsToDelete"):
		return "removeAllUnflaggedCompaction", "", true
	case callee == "os.RemoveAll" && strings.Contains(a, "ReplacementPath"):
		return "removeAllReplacement", "", true
	case callee == "os.RemoveAll" && w.loopElem(a, "walFileNames"):
		return "removeWalFileInRecovery", "", true
	case callee == "os.RemoveAll" && a == "walBasePath":
		return "removeAllWalDir", "", true
	case callee == "os.RemoveAll" && (a == "tablePath" || w.loopElem(a, "tablePaths")):
		return "removeAllTableDir", "", true
	// ---- recovery
	case callee == "db.repairCompactions":
		return "repairCompactions", "", true
	case callee == "db.reconstructSSTables":
		return "reconstructSSTables", "", true
	case callee == "db.replayAndSetupWriteAheadLog":
		return "replayAndSetupWal", "", true
	case callee == "rProto.NewReader":
		return "newFlagReader", "", true
	case callee == "reader.Open" && in("DB.repairCompactions"):
		return "openFlagReader", "", true
	case callee == "reader.ReadNext" && in("DB.repairCompactions"):
		return "readFlag", "", true
	case callee == "reader.Close" && in("DB.repairCompactions"):
		return "closeFlagReader", "", true
	case callee == "hasEmptyMetadata":
		return "hasEmptyMetadataCheck", "", true
	case callee == "isUnfinishedTable":
		return "isUnfinishedTableCheck", "", true
	case callee == "removeUnfinishedTable":
		return "removeUnfinishedTable", "", true
	case callee == "recordio.IsDirectIOAvailable":
		return "directIOCheck", "", true
	case callee == "wal.NewWriteAheadLogOptions":
		return "newWalOptions", "", true
	case callee == "recordio.NewFileReaderWithPath":
		return "newFileReader", "", true
	case callee == "wal.NewReplayer":
		return "newReplayer", "", true
	case callee == "replayer.Replay":
		return "replayWal", "", true
	case callee == "wal.NewWriteAheadLog":
		return "newWal", "", true
	// ---- wal appender / replayer
	case callee == "checkSizeAndRotate":
		return "checkSizeAndRotate", "", true
	case callee == "a.currentWriter.Write":
		return "recWrite", "", true
	case callee == "a.currentWriter.WriteSync":
		return "recWriteSync", "", true
	case callee == "a.currentWriter.Close":
		return "closeCurrentWalWriter", "", true
	case callee == "a.Rotate":
		return "walRotate", "", true
	case callee == "setupNextWriter":
		return "setupNextWriter", "", true
	case callee == "a.walOptions.writerFactory":
		return "walWriterFactory", "", true
	case callee == "currentWriter.Open" && in("wal.setupNextWriter"):
		return "openWalWriter", "", true
	case callee == "currentWriter.Close" && in("wal.setupNextWriter"):
		return "closeFailedWalWriter", "", true
	case callee == "r.replayFile":
		return "replayFile", "", true
	case callee == "r.walOptions.readerFactory":
		return "walReaderFactory", "", true
	case callee == "reader.Open" && in("Replayer.replayFile", "Replayer.Replay"):
		return "walReaderOpen", "", true
	case callee == "reader.ReadNext" && in("Replayer.replayFile", "Replayer.Replay"):
		return "walReadNext", "", true
	case callee == "reader.Close" && in("Replayer.replayFile", "Replayer.Replay"):
		return "walReaderClose", "", true
	case callee == "process" && in("Replayer.replayFile", "Replayer.Replay"):
		return "processRecord", "", true
	// ---- recordio writer
	case callee == "writeFileHeader":
		return "writeHeader", "", true
	case callee == "writer.bufWriter.Write" && in("recordio.writeFileHeader"):
		return "bufWriteHeader", "", true
	case callee == "NewCompressorForType":
		return "newCompressor", "", true
	case callee == "w.bufWriter.Flush":
		return "flushBuffer", "", true
	case callee == "w.compressor.CompressWithBuf":
		return "compress", "", true
	case callee == "writeRecordHeaderV4":
		return "writeRecordHeader", "", true
	case callee == "w.bufWriter.Write":
		return "writePayload", "", true
	case callee == "w.Write" && in("FileWriter.WriteSync"):
		return "recWrite", "", true
	case callee == "w.file.Sync":
		return "fsync", "", true
	case callee == "w.file.Truncate":
		return "truncate", "", true
	case callee == "w.file.Close":
		return "closeFile", "", true
	}
	return "", "", false
}

func (w *walker) call(callee string, args []string) {
	if ignored[callee] || callee == "conv" {
		return
	}
	if l, p, ok := w.classify(callee, args); ok {
		w.emit(item{kind: "act", s: l, arg: p})
		if l == "sortStrings" {
			w.sorted[p] = true
		}
		return
	}
	w.emit(item{kind: "other", s: callee})
}

// sub-walk: collect the items of a block separately
func (w *walker) sub(f func()) []item {
	save := w.items
	w.items = nil
	f()
	out := w.items
	w.items = save
	return out
}

func (w *walker) block(stmts []ast.Stmt) {
	for _, s := range stmts {
		w.stmt(s)
	}
}

var errCond = regexp.MustCompile(`^[A-Za-z]*[eE]rr != nil$`)

func onlyRets(items []item) bool {
	for _, it := range items {
		if it.kind != "ret" {
			return false
		}
	}
	return true
}

func (w *walker) unsort(e ast.Expr) {
	switch x := e.(type) {
	case *ast.Ident:
		delete(w.sorted, x.Name)
	case *ast.IndexExpr:
		w.unsort(x.X)
	case *ast.SelectorExpr:
		delete(w.sorted, exprString(x))
	}
}

func intLit(e ast.Expr) int {
	if b, ok := e.(*ast.BasicLit); ok && b.Kind == token.INT {
		if n, err := strconv.Atoi(b.Value); err == nil {
			return n
		}
	}
	return -1
}

func isValidateEmpty(s *ast.IfStmt) bool {
	if s.Else != nil || s.Init != nil || len(s.Body.List) != 1 {
		return false
	}
	r, ok := s.Body.List[0].(*ast.ReturnStmt)
	if !ok {
		return false
	}
	mentions := false
	for _, e := range r.Results {
		if strings.HasSuffix(exprString(e), "ErrEmptyKeyValue") {
			mentions = true
		}
	}
	c := exprString(s.Cond)
	return mentions && strings.Contains(c, "len(") && strings.Contains(c, "== 0")
}

func (w *walker) stmt(s ast.Stmt) {
	switch x := s.(type) {
	case nil:
	case *ast.ExprStmt:
		w.expr(x.X)
	case *ast.AssignStmt:
		for _, r := range x.Rhs {
			w.expr(r)
		}
		for _, l := range x.Lhs {
			if ie, ok := l.(*ast.IndexExpr); ok {
				w.expr(ie.X)
				w.expr(ie.Index)
			}
			w.unsort(l)
		}
	case *ast.DeclStmt:
		if gd, ok := x.Decl.(*ast.GenDecl); ok {
			for _, sp := range gd.Specs {
				if vs, ok := sp.(*ast.ValueSpec); ok {
					for _, v := range vs.Values {
						w.expr(v)
					}
				}
			}
		}
	case *ast.IncDecStmt:
		w.expr(x.X)
	case *ast.SendStmt:
		w.expr(x.Value)
		w.call("send "+exprString(x.Chan), nil)
	case *ast.ReturnStmt:
		for _, r := range x.Results {
			w.expr(r)
		}
		w.emit(item{kind: "ret"})
	case *ast.BranchStmt:
		switch x.Tok {
		case token.BREAK:
			w.emit(item{kind: "brk"})
		case token.CONTINUE:
			w.emit(item{kind: "cont"})
		default:
			w.emit(item{kind: "other", s: x.Tok.String()})
		}
	case *ast.BlockStmt:
		w.block(x.List)
	case *ast.LabeledStmt:
		w.stmt(x.Stmt)
	case *ast.IfStmt:
		if isValidateEmpty(x) {
			w.emit(item{kind: "act", s: "validateEmpty"})
			return
		}
		w.stmt(x.Init)
		w.expr(x.Cond)
		cond := exprString(x.Cond)
		body := w.sub(func() { w.block(x.Body.List) })
		var els []item
		if x.Else != nil {
			els = w.sub(func() { w.stmt(x.Else) })
		}
		if errCond.MatchString(cond) && x.Else == nil && onlyRets(body) {
			return // plain error propagation
		}
		if len(body) == 0 && len(els) == 0 {
			return // nothing but ignored calls / plain assignments in either branch
		}
		w.emit(item{kind: "ifBegin", s: cond})
		w.items = append(w.items, body...)
		if x.Else != nil {
			w.emit(item{kind: "elseBegin"})
			w.items = append(w.items, els...)
		}
		w.emit(item{kind: "ifEnd"})
	case *ast.ForStmt:
		li := &loopInfo{kind: "forever", start: -1}
		if x.Init != nil {
			w.stmt(x.Init)
			if as, ok := x.Init.(*ast.AssignStmt); ok && len(as.Lhs) == 1 && len(as.Rhs) == 1 {
				li.idxVar = exprString(as.Lhs[0])
				li.start = intLit(as.Rhs[0])
			}
		}
		if x.Cond != nil {
			li.kind = "while"
			c := exprString(x.Cond)
			if m := regexp.MustCompile(`^(\w+) < len\((.+)\)$`).FindStringSubmatch(c); m != nil && m[1] == li.idxVar {
				li.kind = "index"
				li.over = m[2]
			} else {
				li.over = c
			}
		}
		if inc, ok := x.Post.(*ast.IncDecStmt); ok && inc.Tok == token.INC && exprString(inc.X) == li.idxVar {
			li.stepOne = true
		}
		li.sortedBefore = li.over != "" && w.sorted[li.over]
		w.loop(li, x.Body, x.Post)
	case *ast.RangeStmt:
		w.expr(x.X)
		li := &loopInfo{kind: "range", over: exprString(x.X), start: 0, stepOne: true}
		if x.Key != nil {
			li.idxVar = exprString(x.Key)
		}
		if x.Value != nil {
			li.valVar = exprString(x.Value)
		}
		li.sortedBefore = w.sorted[li.over]
		w.loop(li, x.Body, nil)
	case *ast.SwitchStmt:
		w.stmt(x.Init)
		if x.Tag != nil {
			w.expr(x.Tag)
		}
		w.clauses(x.Body)
	case *ast.TypeSwitchStmt:
		w.stmt(x.Init)
		w.stmt(x.Assign)
		w.clauses(x.Body)
	case *ast.SelectStmt:
		w.clauses(x.Body)
	case *ast.DeferStmt:
		body := w.sub(func() { w.invoke(x.Call, true) })
		if len(body) > 0 {
			w.emit(item{kind: "deferBegin"})
			w.items = append(w.items, body...)
			w.emit(item{kind: "deferEnd"})
		}
	case *ast.GoStmt:
		for _, a := range x.Call.Args {
			w.expr(a)
		}
		w.call("go "+calleeName(x.Call.Fun), nil)
	default:
		w.emit(item{kind: "other", s: fmt.Sprintf("stmt %T", s)})
	}
}

func (w *walker) loop(li *loopInfo, body *ast.BlockStmt, post ast.Stmt) {
	w.loops = append(w.loops, li)
	items := w.sub(func() {
		w.block(body.List)
		w.stmt(post)
	})
	w.loops = w.loops[:len(w.loops)-1]
	if len(items) == 0 {
		return // a loop without calls (e.g. collecting names)
	}
	w.emit(item{kind: "loopBegin", loop: li})
	w.items = append(w.items, items...)
	w.emit(item{kind: "loopEnd"})
}

func (w *walker) clauses(b *ast.BlockStmt) {
	for _, c := range b.List {
		switch cc := c.(type) {
		case *ast.CaseClause:
			t := "default"
			if cc.List != nil {
				var p []string
				for _, e := range cc.List {
					p = append(p, exprString(e))
				}
				t = "case " + strings.Join(p, ", ")
			}
			w.emit(item{kind: "ifBegin", s: t})
			w.block(cc.Body)
			w.emit(item{kind: "ifEnd"})
		case *ast.CommClause:
			t := "default"
			if cc.Comm != nil {
				t = "case " + exprString(cc.Comm)
			}
			w.emit(item{kind: "ifBegin", s: t})
			w.stmt(cc.Comm)
			w.block(cc.Body)
			w.emit(item{kind: "ifEnd"})
		}
	}
}

// a call expression; `deferred`: the call of a defer statement (arguments are evaluated at the defer statement, which
// makes no difference for the calls listed here: none of them has a call as an argument)
func (w *walker) invoke(c *ast.CallExpr, deferred bool) {
	if fl, ok := c.Fun.(*ast.FuncLit); ok {
		for _, a := range c.Args {
			w.expr(a)
		}
		if deferred {
			w.block(fl.Body.List)
			return
		}
		w.emit(item{kind: "scopeBegin"})
		w.block(fl.Body.List)
		w.emit(item{kind: "scopeEnd"})
		return
	}
	// calls in receiver position first
	switch f := c.Fun.(type) {
	case *ast.SelectorExpr:
		w.expr(f.X)
	case *ast.ParenExpr:
		w.expr(f.X)
	}
	var args []string
	var lits []*ast.FuncLit
	for _, a := range c.Args {
		if fl, ok := a.(*ast.FuncLit); ok {
			lits = append(lits, fl)
			args = append(args, "func")
			continue
		}
		w.expr(a)
		args = append(args, exprString(a))
	}
	w.call(calleeName(c.Fun), args)
	for _, fl := range lits {
		w.emit(item{kind: "cbBegin"})
		w.block(fl.Body.List)
		w.emit(item{kind: "cbEnd"})
	}
}

func (w *walker) expr(e ast.Expr) {
	switch x := e.(type) {
	case nil:
	case *ast.CallExpr:
		w.invoke(x, false)
	case *ast.FuncLit:
		w.emit(item{kind: "cbBegin"})
		w.block(x.Body.List)
		w.emit(item{kind: "cbEnd"})
	case *ast.BinaryExpr:
		w.expr(x.X)
		w.expr(x.Y)
	case *ast.UnaryExpr:
		w.expr(x.X)
		if x.Op == token.ARROW {
			w.call("recv "+exprString(x.X), nil)
		}
	case *ast.ParenExpr:
		w.expr(x.X)
	case *ast.SelectorExpr:
		w.expr(x.X)
	case *ast.IndexExpr:
		w.expr(x.X)
		w.expr(x.Index)
	case *ast.SliceExpr:
		w.expr(x.X)
		w.expr(x.Low)
		w.expr(x.High)
		w.expr(x.Max)
	case *ast.StarExpr:
		w.expr(x.X)
	case *ast.TypeAssertExpr:
		w.expr(x.X)
	case *ast.CompositeLit:
		for _, el := range x.Elts {
			w.expr(el)
		}
	case *ast.KeyValueExpr:
		w.expr(x.Value)
	}
}

// ---------------------------------------------------------------------------------------------------------

func recvName(fd *ast.FuncDecl) string {
	if fd.Recv == nil || len(fd.Recv.List) == 0 {
		return ""
	}
	t := fd.Recv.List[0].Type
	if s, ok := t.(*ast.StarExpr); ok {
		t = s.X
	}
	if id, ok := t.(*ast.Ident); ok {
		return id.Name
	}
	return ""
}

func leanStr(s string) string {
	s = strings.ReplaceAll(s, "\\", "\\\\")
	s = strings.ReplaceAll(s, "\"", "\\\"")
	return "\"" + s + "\""
}

func fatal(a ...any) {
	fmt.Fprintln(os.Stderr, append([]any{"orderfacts:"}, a...)...)
	os.Exit(1)
}

func writeIfChanged(path, content string) {
	old, err := os.ReadFile(path)
	if err == nil && string(old) == content {
		return
	}
	if err := os.WriteFile(path, []byte(content), 0o644); err != nil {
		fatal(err)
	}
}

type fnOut struct {
	name, file string
	found      bool
	items      []item
}

func main() {
	var root string
	allowMissing := false
	var pos []string
	for i := 1; i < len(os.Args); i++ {
		switch a := os.Args[i]; {
		case a == "--root" && i+1 < len(os.Args):
			root = os.Args[i+1]
			i++
		case strings.HasPrefix(a, "--root="):
			root = strings.TrimPrefix(a, "--root=")
		case a == "--allow-missing":
			allowMissing = true
		default:
			pos = append(pos, a)
		}
	}
	if len(pos) != 2 {
		fmt.Fprintln(os.Stderr, "usage: orderfacts [--root <overlay dir>] [--allow-missing] <repo> <outdir>")
		os.Exit(2)
	}
	repo, out := pos[0], pos[1]
	if err := os.MkdirAll(out, 0o755); err != nil {
		fatal(err)
	}

	var fns []fnOut
	var missing []string
	for _, t := range targets {
		path := filepath.Join(repo, t.file)
		if root != "" {
			if _, err := os.Stat(filepath.Join(root, t.file)); err == nil {
				path = filepath.Join(root, t.file)
			}
		}
		f, err := parser.ParseFile(fset, path, nil, 0)
		if err != nil {
			fatal(err)
		}
		decls := map[string]*ast.FuncDecl{}
		for _, d := range f.Decls {
			if fd, ok := d.(*ast.FuncDecl); ok && fd.Body != nil {
				n := fd.Name.Name
				if r := recvName(fd); r != "" {
					n = r + "." + n
				}
				decls[n] = fd
			}
		}
		for _, n := range t.fns {
			disp := n
			if !strings.Contains(n, ".") {
				disp = t.pkg + "." + n
			}
			fd := decls[n]
			if fd == nil {
				missing = append(missing, fmt.Sprintf("%s (expected in %s)", disp, t.file))
				fns = append(fns, fnOut{name: disp, file: t.file})
				continue
			}
			w := &walker{fn: disp, recv: recvName(fd), sorted: map[string]bool{}}
			w.block(fd.Body.List)
			fns = append(fns, fnOut{name: disp, file: t.file, found: true, items: w.items})
		}
	}
	if len(missing) > 0 && !allowMissing {
		fatal("listed function(s) not found in the source — the crash model's order tie is broken:\n  " + strings.Join(missing, "\n  "))
	}
	for _, m := range missing {
		fmt.Fprintln(os.Stderr, "orderfacts: warning: missing", m)
	}
	writeIfChanged(filepath.Join(out, "Order.lean"), render(fns))
}

func render(fns []fnOut) string {
	var sb strings.Builder
	sb.WriteString("-- GENERATED by tools/orderfacts from /repo/{simpledb,sstables,memstore,wal,recordio}/*.go. Do not edit; rewritten when the source changes.\n")
	sb.WriteString("-- For each listed function: its calls in source order (arguments before the call), classified into action labels;\n")
	sb.WriteString("-- unrecognised calls are kept as `other`; `if err != nil { return … }` blocks without further calls are elided.\n")
	sb.WriteString("namespace SST.Generated.Order\n\n")
	sb.WriteString("/-- the action vocabulary of tools/orderfacts -/\ninductive Label where\n")
	for _, l := range labels {
		sb.WriteString("  | " + l + "\n")
	}
	sb.WriteString("  | sortStrings (list : String)\n  deriving DecidableEq, Repr\n\n")
	sb.WriteString("/-- facts about one loop: kind (range / index / while / forever), the list it runs over, the first index,\nwhether the step is one, whether `sort.Strings(over)` precedes it with no assignment to the list in between -/\n")
	sb.WriteString("structure Loop where\n  kind : String\n  over : String\n  start : Option Nat\n  stepOne : Bool\n  sortedBefore : Bool\n  deriving DecidableEq, Repr\n\n")
	sb.WriteString("inductive Item where\n  | act (l : Label)\n  | other (callee : String)\n  | ifBegin (cond : String)\n  | elseBegin\n  | ifEnd\n  | loopBegin (l : Loop)\n  | loopEnd\n" +
		"  | deferBegin\n  | deferEnd\n  | scopeBegin\n  | scopeEnd\n  | cbBegin\n  | cbEnd\n  | ret\n  | brk\n  | cont\n  deriving DecidableEq, Repr\n\n")
	sb.WriteString("structure Fn where\n  name : String\n  file : String\n  found : Bool\n  items : List Item\n  deriving Repr\n\n")
	var ig []string
	for k := range ignored {
		ig = append(ig, k)
	}
	sort.Strings(ig)
	sb.WriteString("/-- calls dropped from the sequences (no effect on files, locks, channels, memstore) -/\ndef ignoredCalls : List String := [")
	for i, k := range ig {
		if i > 0 {
			sb.WriteString(", ")
		}
		if i%8 == 0 {
			sb.WriteString("\n  ")
		}
		sb.WriteString(leanStr(k))
	}
	sb.WriteString("]\n\n")
	var names []string
	for i, f := range fns {
		id := fmt.Sprintf("fn%02d", i)
		names = append(names, id)
		sb.WriteString(fmt.Sprintf("/-- %s (%s) -/\ndef %s : Fn := ⟨%s, %s, %v, [", f.name, f.file, id, leanStr(f.name), leanStr(f.file), f.found))
		for j, it := range f.items {
			if j > 0 {
				sb.WriteString(",")
			}
			sb.WriteString("\n  " + it.lean())
		}
		sb.WriteString("]⟩\n\n")
	}
	sb.WriteString("def table : List Fn := [" + strings.Join(names, ", ") + "]\n\n")
	sb.WriteString("end SST.Generated.Order\n")
	return sb.String()
}
