// orderfacts: regenerates lean/SST/Generated/Order.lean from /repo's working tree.
//
//	orderfacts [--root <overlay dir>] [--allow-missing] <repo> <outdir>
//
// Standard library only.  The packages of /repo are parsed and TYPE-CHECKED (go/types; same loader as tools/errfacts:
// packages of the module from source with the overlay applied, everything else through the offline "source" importer).
// For a FIXED list of functions (the ones whose call order the abstract-disk crash model lean/SST/Model/FS.lean mirrors by
// hand) it emits the sequence of calls in SOURCE order as a flat list of items:
//
//   - `act <label>`: a call (or statement pattern) the tool recognises, e.g. `writerClose`, `saveCompactionFlag`;
//   - `other "<callee>"`: a call it does not recognise — kept, so that a NEW call between two known ones is visible;
//   - structure markers: ifBegin "<condition>" / elseBegin / ifEnd, loopBegin <loop facts> / loopEnd,
//     deferBegin / deferEnd (body executed at function exit, blocks in reverse order), scopeBegin / scopeEnd (an
//     immediately invoked function literal), cbBegin / cbEnd (a function literal passed to the preceding call),
//     ret / brk / cont.
//
// EVERYTHING IS NAMED BY go/types IDENTITIES, NOT BY SOURCE TEXT (canon.go): a callee is `pkg.Func` or
// `<type of the root variable>.<field path>.Method`, a method also by its static receiver type
// (`recordio.WriterI.Write`); conditions are normalised (`errNonNil` whatever the variable is called, `nonNil(x)`,
// `isSentinel(io.EOF)` for errors.Is / == / a one-line helper, comparisons reduced to == and <, locals with a single
// definition replaced by their defining expression, other locals by their type); loop facts name the iterated value by its
// type / field path.  Renaming a local, a receiver or a parameter, re-wording a message or adding a log line changes nothing.
//
// What is dropped from the sequences (decided by WHAT is called, see canon.go `pureCall`, `optionCtor`, and the short
// list `pureModuleMethods` of read-only getters of the module's interfaces, printed into the generated file): builtins,
// conversions, the pure standard packages (strings, strconv, fmt.Sprintf/Errorf, errors, path/filepath without Walk, hash/*,
// time without tickers …), logging that does not stop the process (log.Print*, fmt.Print*), functional options.
//
// HELPERS ARE INLINED: a call of a function / concrete method of the module that is neither listed, nor recognised, nor
// dropped is replaced by the items of its body (two levels deep; its `return`s end the inlined region), so that an
// "extract function" refactoring keeps the item list; a helper that does nothing visible disappears.  Calls through
// interfaces and calls the tool cannot resolve stay `other`.
//
// CONTROL FLOW IS PUT INTO A NORMAL FORM before it is flattened, so that re-spelling it changes nothing:
//   - an exit (return / continue) that does exactly what falling off the end of the block would do is dropped, and with
//     it the distinction between `if c { A; return }; B` at the end of a function, `if !c { B; return }; A` and
//     `if c { A } else { B }` (all three: the two-armed conditional);
//   - otherwise, when one alternative of a conditional leaves the enclosing block (`return X`, `break`, `continue` that is
//     not the last thing of the loop body, log.Panicf) it is written as a GUARD — `ifBegin c … <exit> ifEnd` without else,
//     the other alternative following at the same level; when BOTH alternatives leave, the one with fewer actions is the
//     guard (so `if ok { A; continue }; return err` and `if !ok { return err }; A; continue` are the same list);
//   - a two-armed conditional none of whose arms leaves is written with its condition in the preferred polarity (fewer
//     negations); a one-armed one with the condition under which its arm runs;
//   - `for i := 0; i < len(x); i++` whose body does not assign `i` is the same loop as `for i := range x`.
//
// `if <error> != nil { return … }` guards whose body contains no call besides dropped ones are elided, and so are
// conditionals and loops without any item in them.
// Loop facts: kind (range / index / while / forever), the value iterated (`over`), the start index, whether the step is
// one, and whether a sort of the list precedes the loop in the function with no assignment to the list in between.  "A
// sort" is every standard way of sorting a []string ascending in place (canon.go `stringSortArg`: sort.Strings,
// slices.Sort, sort.Sort / sort.Stable(sort.StringSlice(x)), sort.StringSlice(x).Sort(), slices.SortFunc /
// SortStableFunc with strings.Compare / cmp.Compare) — all are the item `sortStrings`; the fact is carried into an inlined
// helper that receives the sorted list as a parameter.  Everything else of package slices / sort that writes into its
// argument (slices.Reverse, …) is NOT dropped as pure: it shows as `other`.
//
// A FUNCTION LITERAL THAT IS CALLED WHERE IT STANDS and an inlined helper are the same thing written in two ways and get
// the same items (`emitCallee`): the body in the normal form in which every `return` is equivalent to reaching its end,
// wrapped in scopeBegin / scopeEnd when a `return` is left or when it defers something (the deferred block runs when the
// callee ends).  Turning `err := func() error { … }()` into a private method, or back, changes nothing.
//
// A boolean helper `f(args)` in a condition whose body is declarations of locals assigned once followed by
// `return <expr>` is replaced by that expression (canon.go `condCall`), so `if hasEmptyMetadata(p)` and the written-out
// `info, err := os.Stat(…); if err == nil && info.Size() == 0` are the same condition text, and the helper's calls are
// the same items (it is inlined); `hasEmptyMetadata` is therefore no longer a listed function: the fact "the metadata
// file of the table at hand is stat'ed first" is the label `hasEmptyMetadataCheck` on that os.Stat itself.
//
// Evaluation order inside a statement: arguments before the call (post-order); the value of a send before the send.
//
// It is compiled and run before every proof build (see DESIGN.md §3.1), so an edit of the call ORDER in the source
// changes the table the theorems in lean/SST/Props/C*_Order.lean are about.  The file is rewritten only when its
// content changes.  A listed function that is missing (or a tree that does not type-check) is an error (exit 1) unless
// --allow-missing is given, in which case it is emitted with `found := false` and no items (the Lean obligations about it
// then fail).
//
// --root <dir>: overlay — a source file is taken from <dir>/<relative path> if it exists there, else from <repo>.
package main

import (
	"fmt"
	"go/ast"
	"go/token"
	"go/types"
	"os"
	"path/filepath"
	"sort"
	"strconv"
	"strings"
)

// ---------------------------------------------------------------------------------------------------------
// what is extracted

type target struct {
	file string   // relative to the repo
	pkg  string   // package name used for plain functions
	fns  []string // "Recv.Method" or "func"
}

var targets = []target{
	{"simpledb/db.go", "simpledb", []string{"DB.Open", "DB.Close", "DB.Put", "DB.PutBytes", "DB.Delete", "DB.DeleteBytes"}},
	{"simpledb/flush.go", "simpledb", []string{"flushMemstoreContinuously", "executeFlush", "DB.rotateWalAndFlushMemstore", "swapMemstore"}},
	{"simpledb/compaction.go", "simpledb", []string{"backgroundCompaction", "executeCompaction", "saveCompactionMetadata"}},
	{"simpledb/sstable_manager.go", "simpledb", []string{"SSTableManager.reflectCompactionResult", "SSTableManager.addReader"}},
	{"simpledb/recovery.go", "simpledb", []string{"DB.repairCompactions", "DB.reconstructSSTables", "isUnfinishedTable",
		"removeUnfinishedTable", "DB.replayAndSetupWriteAheadLog"}},
	{"sstables/sstable_writer.go", "sstables", []string{"SSTableStreamWriter.Open", "SSTableStreamWriter.WriteNext", "SSTableStreamWriter.Close"}},
	{"memstore/memstore.go", "memstore", []string{"MemStore.FlushWithTombstones", "flushMemstore"}},
	{"wal/appender.go", "wal", []string{"Appender.Append", "Appender.AppendSync", "Appender.Rotate", "Appender.Close",
		"checkSizeAndRotate", "setupNextWriter", "NewAppender"}},
	{"wal/replayer.go", "wal", []string{"Replayer.Replay", "Replayer.replayFile"}},
	{"recordio/file_writer.go", "recordio", []string{"FileWriter.Open", "FileWriter.Write", "FileWriter.WriteSync", "FileWriter.Close", "writeFileHeader"}},
}

// the label vocabulary (fixed; the Lean enum is generated from this list, whether or not a label occurs)
var labels = []string{
	// locks, goroutines, channels
	"lock", "unlock", "spawnFlusher", "spawnCompactor", "chanSendFlush", "closeFlushChannel", "waitFlusherDone",
	"signalFlusherDone", "chanSendStopCompaction", "waitCompactorDone", "signalCompactorDone", "recvCompactionStop",
	"recvCompactionTick", "newTicker", "stopTicker", "panicLog",
	// client calls
	"validateEmpty", "protoMarshal", "protoUnmarshal", "putBytesCall", "deleteBytesCall",
	"walAppend", "walAppendSync", "memUpsert", "memDelete", "memTombstone", "memSizeEstimate",
	"rotateAndHandOff", "walRotate", "swapMemstore", "newMemStore", "walClose", "currentSSTable", "readerClose",
	// error-path cleanups (fixes edfc7e7, a9ebc7d): a failed Open forgets the readers it closed; a WAL file writer that
	// failed to open is closed again
	"clearReaders", "closeFailedWalWriter",
	// flush
	"executeFlush", "memSize", "genIncrement", "mkdirTable", "flushWithTombstones", "removeWalFile", "openReader", "addReader",
	"newSuperReader", "flushMemstoreCall", "newStreamWriter", "writerOpen", "writerWriteNext", "writerClose", "memIterator", "iterNext",
	// table writer
	"newProtoWriter", "openIndexWriter", "newFileWriter", "openDataWriter", "openMetaFile", "newBloom", "verifHook",
	"keyCompare", "bloomAdd", "dataWrite", "indexWrite", "dataSeek",
	"closeIndexWriter", "closeDataWriter", "writeBloom", "closeMetaFile", "writeMeta",
	// compaction
	"executeCompaction", "reflectCompactionResult", "selectCandidates", "mkdirTempCompaction", "readerScan", "mergeCompact",
	"saveCompactionFlag", "openFlagWriter", "writeFlag", "closeFlagWriter",
	"indexOfReader", "removeAllInput", "renameIntoPlace", "removeReaderAt",
	// recovery
	"repairCompactions", "reconstructSSTables", "replayAndSetupWal",
	"walkDir", "osStat", "newFlagReader", "openFlagReader", "readFlag", "closeFlagReader",
	"removeAllUnflaggedCompaction", "removeAllReplacement",
	"hasEmptyMetadataCheck", "isUnfinishedTableCheck", "removeUnfinishedTable", "removeIndexFileFirst", "removeAllTableDir", "loadTable",
	"mkdirWalDir", "directIOCheck", "newWalOptions", "newFileReader", "newReplayer", "replayWal", "executeFlushInRecovery",
	"readDir", "removeWalFileInRecovery", "removeAllWalDir", "newWal",
	// wal appender / replayer
	"checkSizeAndRotate", "recWrite", "recWriteSync", "closeCurrentWalWriter", "setupNextWriter", "walWriterFactory", "openWalWriter",
	"replayFile", "walReaderFactory", "walReaderOpen", "walReadNext", "walReaderClose", "processRecord",
	// recordio writer
	"writeHeader", "bufWriteHeader", "newCompressor", "flushBuffer", "compress", "writeRecordHeader", "writePayload", "fsync", "truncate", "closeFile",
}

// read-only getters of the module's interfaces / types, by METHOD IDENTITY (static receiver type + name): they cannot be
// inlined (interface calls) and touch neither files, locks, channels nor the memstore
var pureModuleMethods = map[string]bool{
	"memstore.MemStoreI.Size": true, "sstables.SSTableReaderI.MetaData": true, "sstables.SSTableReaderI.BasePath": true,
	"recordio.WriterI.Size": true, "recordio/proto.WriterI.Size": true, "recordio.FileWriter.Size": true,
	"skiplist.MapI.Size": true,
}

// third-party packages without effects on files, locks, channels (buffer pools, slices helpers)
var pureThirdParty = map[string]bool{
	"capnproto.org/go/capnp/v3/exp/bufferpool": true, "golang.org/x/exp/slices": true,
}

// ---------------------------------------------------------------------------------------------------------
// the intermediate tree

type loopInfo struct {
	kind         string // range | index | while | forever
	over         string
	start        int // -1: not a literal
	stepOne      bool
	sortedBefore bool
}

type node struct {
	kind  string // act other if loop defer scope cb ret brk cont
	s     string // label / callee
	arg   string // parameter of a parametrised label
	cond  *cnode
	fixed bool // a clause of a switch / select: not a sequential conditional, never re-shaped
	then  []*node
	els   []*node
	body  []*node
	loop  *loopInfo
	sig   string // ret: canonical text of the results ("!<pos>" when evaluating them has items: never equal to another)
}

func isExit(n *node) bool {
	switch n.kind {
	case "ret", "brk", "cont":
		return true
	case "act":
		return n.s == "panicLog"
	}
	return false
}

func exitSig(n *node) string {
	switch n.kind {
	case "ret":
		return "ret:" + n.sig
	case "cont":
		return "cont"
	case "brk":
		return "brk"
	}
	return "exit:" + n.s
}

func exits(b []*node) bool { return len(b) > 0 && isExit(b[len(b)-1]) }

// does the exit do what falling off the end of a block with this tail does?
func tailEq(sig, tail string) bool {
	if tail == "" {
		return false
	}
	if tail == "ret:*" {
		return strings.HasPrefix(sig, "ret:")
	}
	return sig == tail && !strings.HasPrefix(sig, "ret:!")
}

func weight(b []*node) (acts, total int) {
	for _, n := range b {
		total++
		if n.kind == "act" || n.kind == "other" {
			acts++
		}
		for _, sub := range [][]*node{n.then, n.els, n.body} {
			a, t := weight(sub)
			acts += a
			total += t
		}
	}
	return
}

func render1(b []*node) string {
	var sb strings.Builder
	for _, it := range flatten(b) {
		sb.WriteString(it.lean())
		sb.WriteString(";")
	}
	return sb.String()
}

// a < b in the content order that picks the guard among two leaving alternatives
func smaller(a, b []*node) int {
	aa, at := weight(a)
	ba, bt := weight(b)
	switch {
	case aa != ba:
		return aa - ba
	case at != bt:
		return at - bt
	}
	return strings.Compare(render1(a), render1(b))
}

func hasItems(b []*node) bool {
	for _, n := range b {
		switch n.kind {
		case "act", "other", "ret", "brk", "cont":
			return true
		case "if":
			if hasItems(n.then) || hasItems(n.els) {
				return true
			}
		default:
			if hasItems(n.body) {
				return true
			}
		}
	}
	return false
}

func explicitExit(tail string) *node {
	switch {
	case tail == "cont":
		return &node{kind: "cont"}
	case strings.HasPrefix(tail, "ret:"):
		return &node{kind: "ret", sig: strings.TrimPrefix(tail, "ret:")}
	}
	return nil
}

// norm: the normal form of a block; `tail` is what falling off its end does ("" nothing known, "cont", "ret:<sig>", "ret:*")
func norm(list []*node, tail string) []*node {
	// a trailing exit that does what falling off would do is redundant
	var last *node
	if n := len(list); n > 0 && isExit(list[n-1]) && list[n-1].kind != "act" {
		last = list[n-1]
		list = list[:n-1]
		if tailEq(exitSig(last), tail) {
			last = nil
		}
	}
	return normSeq(list, tail, last)
}

// what happens after the whole sequence (list + last)
func tailAfter(tail string, last *node) string {
	if last != nil {
		return exitSig(last)
	}
	return tail
}

// strip a trailing exit that does what T does anyway; reports whether the block then FALLS off its end
func stripTail(b []*node, T string) ([]*node, bool) {
	if !exits(b) {
		return b, true
	}
	e := b[len(b)-1]
	if e.kind != "act" && tailEq(exitSig(e), T) {
		return b[:len(b)-1], true
	}
	return b, false
}

// normSeq: `list` followed by the explicit exit `last` (may be nil); `tail`: the meaning of falling off when last is nil
func normSeq(list []*node, tail string, last *node) []*node {
	var out []*node
	T := tailAfter(tail, last)
	for i, n := range list {
		rest := list[i+1:]
		switch n.kind {
		case "loop":
			n.body = norm(n.body, "cont")
			if hasItems(n.body) {
				out = append(out, n)
			}
			continue
		case "defer":
			if hasItems(n.body) {
				out = append(out, n)
			}
			continue
		case "if":
		default:
			out = append(out, n)
			if isExit(n) {
				return out // the rest is unreachable
			}
			continue
		}
		if n.fixed {
			n.then = norm(n.then, "")
			out = append(out, n)
			continue
		}
		armTail := ""
		if len(rest) == 0 {
			armTail = T
		}
		A := norm(n.then, armTail)
		B := norm(n.els, armTail)
		if !exits(A) && !exits(B) {
			if m := mkIf(n.cond, A, B); m != nil {
				out = append(out, m)
			}
			continue
		}
		// at least one arm leaves: the alternatives X = A (+ the rest if A falls through), Y = B (+ the rest …) run to the
		// end of the sequence; nothing is processed after this conditional
		X, Y := A, B
		if !exits(A) {
			X = append(append([]*node{}, A...), normSeq(rest, tail, last)...)
		}
		if !exits(B) {
			Y = append(append([]*node{}, B...), normSeq(rest, tail, last)...)
		}
		Xs, xFalls := stripTail(X, T)
		Ys, yFalls := stripTail(Y, T)
		withLast := func(b []*node) []*node {
			if last != nil {
				return append(append([]*node{}, b...), last)
			}
			return b
		}
		if xFalls && yFalls {
			// both alternatives run to the end of the block and do there what the block does anyway
			if m := mkIf(n.cond, Xs, Ys); m != nil {
				out = append(out, m)
			}
			return withLast(out)
		}
		// guard forms (ending in an explicit exit) and continuation forms of the two alternatives
		guardForm := func(b []*node, falls bool) []*node {
			if !falls {
				return b
			}
			if last != nil {
				return withLast(b)
			}
			if e := explicitExit(tail); e != nil {
				return append(append([]*node{}, b...), e)
			}
			return nil // falls through into code the block does not know: cannot be a guard
		}
		contForm := func(b []*node, falls bool) []*node {
			if falls {
				return withLast(b)
			}
			return b
		}
		xg, yg := guardForm(Xs, xFalls), guardForm(Ys, yFalls)
		pickX := false
		switch {
		case xg != nil && yg == nil:
			pickX = true
		case xg == nil && yg != nil:
			pickX = false
		case errSide(n.cond):
			pickX = true // error handling is the guard, the regular path continues
		case errSide(n.cond.not()):
			pickX = false
		default:
			// both leave: the alternative with fewer actions is the guard
			c := smaller(xg, yg)
			if c == 0 {
				pickX = n.cond.preferred()
			} else {
				pickX = c < 0
			}
		}
		if pickX {
			out = appendGuard(out, n.cond, xg)
			return append(out, contForm(Ys, yFalls)...)
		}
		out = appendGuard(out, n.cond.not(), yg)
		return append(out, contForm(Xs, xFalls)...)
	}
	if last != nil {
		out = append(out, last)
	}
	return out
}

// the condition holds only when an error is at hand: errNonNil, or a conjunction with it
func errSide(c *cnode) bool {
	if c.isAtom("errNonNil", false) {
		return true
	}
	if c.kind == "and" {
		for _, k := range c.kids {
			if k.isAtom("errNonNil", false) {
				return true
			}
		}
	}
	return false
}

func onlyRets(b []*node) bool {
	for _, n := range b {
		if n.kind != "ret" {
			return false
		}
	}
	return true
}

func appendGuard(out []*node, c *cnode, body []*node) []*node {
	// plain error propagation: `if err != nil { return … }` without any call
	if c.isAtom("errNonNil", false) && len(body) == 1 && body[0].kind == "ret" {
		return out
	}
	return append(out, &node{kind: "if", cond: c, then: body})
}

func mkIf(c *cnode, a, b []*node) *node {
	ha, hb := hasItems(a), hasItems(b)
	switch {
	case !ha && !hb:
		return nil
	case ha && !hb:
		return &node{kind: "if", cond: c, then: a}
	case !ha && hb:
		return &node{kind: "if", cond: c.not(), then: b}
	}
	if c.preferred() {
		return &node{kind: "if", cond: c, then: a, els: b}
	}
	return &node{kind: "if", cond: c.not(), then: b, els: a}
}

// ---------------------------------------------------------------------------------------------------------
// items

type item struct {
	kind string // act other ifBegin elseBegin ifEnd loopBegin loopEnd deferBegin deferEnd scopeBegin scopeEnd cbBegin cbEnd ret brk cont
	s    string
	arg  string
	loop *loopInfo
}

func (it item) lean() string {
	switch it.kind {
	case "act":
		if it.arg != "" {
			return ".act (." + it.s + " " + leanStr(it.arg) + ")"
		}
		return ".act ." + it.s
	case "other":
		return ".other " + leanStr(it.s)
	case "ifBegin":
		return ".ifBegin " + leanStr(it.s)
	case "loopBegin":
		l := it.loop
		st := "none"
		if l.start >= 0 {
			st = fmt.Sprintf("(some %d)", l.start)
		}
		return fmt.Sprintf(".loopBegin ⟨%s, %s, %s, %v, %v⟩", leanStr(l.kind), leanStr(l.over), st, l.stepOne, l.sortedBefore)
	default:
		return "." + it.kind
	}
}

func flatten(b []*node) []item {
	var out []item
	for _, n := range b {
		switch n.kind {
		case "act", "other":
			out = append(out, item{kind: n.kind, s: n.s, arg: n.arg})
		case "ret", "brk", "cont":
			out = append(out, item{kind: n.kind})
		case "if":
			out = append(out, item{kind: "ifBegin", s: n.cond.String()})
			out = append(out, flatten(n.then)...)
			if len(n.els) > 0 {
				out = append(out, item{kind: "elseBegin"})
				out = append(out, flatten(n.els)...)
			}
			out = append(out, item{kind: "ifEnd"})
		case "loop":
			out = append(out, item{kind: "loopBegin", loop: n.loop})
			out = append(out, flatten(n.body)...)
			out = append(out, item{kind: "loopEnd"})
		case "defer", "scope", "cb":
			out = append(out, item{kind: n.kind + "Begin"})
			out = append(out, flatten(n.body)...)
			out = append(out, item{kind: n.kind + "End"})
		}
	}
	return out
}

// ---------------------------------------------------------------------------------------------------------
// walker

type loopCtx struct {
	li       *loopInfo
	val, idx types.Object
	listKey  string
}

type walker struct {
	l      *loader
	fn     string // display name of the LISTED function the items belong to (classification context)
	c      *canon
	out    *[]*node
	loops  []*loopCtx
	sorted map[string]bool
	depth  int // inlining depth
	active map[*types.Func]bool
}

func (w *walker) emit(n *node) { *w.out = append(*w.out, n) }

func (w *walker) sub(f func()) []*node {
	save := w.out
	var buf []*node
	w.out = &buf
	f()
	w.out = save
	return buf
}

// identity of a list value for "sorted before the loop" and "element of the list a loop runs over"
func (w *walker) listKey(e ast.Expr) string {
	if id, ok := ast.Unparen(e).(*ast.Ident); ok {
		if o := w.c.objOfIdent(id); o != nil {
			return fmt.Sprintf("obj@%d", o.Pos())
		}
	}
	return w.c.expr(e)
}

// how a list / channel is named in loop facts and `sortStrings`: a local by its type, anything else canonically
func (w *walker) overStr(e ast.Expr) string {
	if id, ok := ast.Unparen(e).(*ast.Ident); ok {
		if v, ok := w.c.objOfIdent(id).(*types.Var); ok && !isPkgLevel(v) {
			return "‹" + w.c.typeStr(v.Type()) + "›"
		}
	}
	return w.c.expr(e)
}

// the `over` of every enclosing loop an element of which the expression mentions (through locals defined once, too)
func (w *walker) elemOf(e ast.Expr, depth int) []string {
	var out []string
	if e == nil || depth > 3 {
		return nil
	}
	ast.Inspect(e, func(n ast.Node) bool {
		switch x := n.(type) {
		case *ast.Ident:
			o := w.c.objOfIdent(x)
			if o == nil {
				return true
			}
			for _, l := range w.loops {
				if l.val != nil && o == l.val {
					out = append(out, l.li.over)
				}
			}
			if d, ok := w.c.defs[o]; ok && w.c.expandable(o) {
				out = append(out, w.elemOf(d.rhs, depth+1)...)
			}
		case *ast.IndexExpr:
			if id, ok := ast.Unparen(x.Index).(*ast.Ident); ok {
				o := w.c.objOfIdent(id)
				for _, l := range w.loops {
					if l.idx != nil && o == l.idx && w.listKey(x.X) == l.listKey {
						out = append(out, l.li.over)
					}
				}
			}
		}
		return true
	})
	return out
}

func anySuffix(xs []string, suffix string) bool {
	for _, x := range xs {
		if strings.HasSuffix(x, suffix) {
			return true
		}
	}
	return false
}

func anyEq(xs []string, s string) bool {
	for _, x := range xs {
		if x == s {
			return true
		}
	}
	return false
}

// classify a call by its canonical callee / method identity.  Returns (label, parameter, known).
func (w *walker) classify(callee, m string, call *ast.CallExpr) (string, string, bool) {
	var a string
	var elems []string
	if call != nil {
		a = w.c.exprs(call.Args)
		for _, x := range call.Args {
			elems = append(elems, w.elemOf(x, 0)...)
		}
	}
	fn := w.fn
	in := func(names ...string) bool {
		for _, n := range names {
			if fn == n {
				return true
			}
		}
		return false
	}
	inPrefix := func(p string) bool { return strings.HasPrefix(fn, p) }
	switch {
	// ---- locks (by the type of the lock, whatever the field is called)
	case m == "sync.RWMutex.Lock" || m == "sync.RWMutex.RLock" || m == "sync.Mutex.Lock":
		return "lock", "", true
	case m == "sync.RWMutex.Unlock" || m == "sync.RWMutex.RUnlock" || m == "sync.Mutex.Unlock":
		return "unlock", "", true
	// ---- goroutines, channels (pseudo callees built by the walker)
	case callee == "go simpledb.flushMemstoreContinuously":
		return "spawnFlusher", "", true
	case callee == "go simpledb.backgroundCompaction":
		return "spawnCompactor", "", true
	case callee == "send simpledb.DB.storeFlushChannel":
		return "chanSendFlush", "", true
	case callee == "close" && a == "simpledb.DB.storeFlushChannel":
		return "closeFlushChannel", "", true
	case callee == "recv simpledb.DB.doneFlushChannel":
		return "waitFlusherDone", "", true
	case callee == "send simpledb.DB.doneFlushChannel":
		return "signalFlusherDone", "", true
	case callee == "send simpledb.DB.compactionTickerStopChannel":
		return "chanSendStopCompaction", "", true
	case callee == "recv simpledb.DB.doneCompactionChannel":
		return "waitCompactorDone", "", true
	case callee == "send simpledb.DB.doneCompactionChannel":
		return "signalCompactorDone", "", true
	case callee == "recv simpledb.DB.compactionTickerStopChannel":
		return "recvCompactionStop", "", true
	case callee == "recv simpledb.DB.compactionTicker.C":
		return "recvCompactionTick", "", true
	case callee == "time.NewTicker":
		return "newTicker", "", true
	case m == "time.Ticker.Stop":
		return "stopTicker", "", true
	case strings.HasPrefix(callee, "log.") && logTerminators[strings.TrimPrefix(callee, "log.")]:
		return "panicLog", "", true
	// ---- generic
	case call != nil && w.c.stringSortArg(call) != nil:
		return "sortStrings", w.overStr(w.c.stringSortArg(call)), true
	case callee == "google.golang.org/protobuf/proto.Marshal":
		return "protoMarshal", "", true
	case callee == "google.golang.org/protobuf/proto.Unmarshal":
		return "protoUnmarshal", "", true
	case callee == "path/filepath.Walk":
		return "walkDir", "", true
	case callee == "os.Stat" && in("DB.reconstructSSTables") && strings.Contains(a, "sstables.MetaFileName") && strings.Contains(a, "elem(‹[]string›)"):
		// (was: the call of the private helper hasEmptyMetadata; the helper is inlined now, so the fact is the same whether
		// the stat + predicate stand in a helper or in the loop itself)
		return "hasEmptyMetadataCheck", "", true
	case callee == "os.Stat":
		return "osStat", "", true
	case callee == "os.ReadDir":
		return "readDir", "", true
	// ---- simpledb: client calls
	case m == "simpledb.DB.PutBytes":
		return "putBytesCall", "", true
	case m == "simpledb.DB.DeleteBytes":
		return "deleteBytesCall", "", true
	case m == "wal.WriteAheadLogI.Append":
		return "walAppend", "", true
	case m == "wal.WriteAheadLogI.AppendSync":
		return "walAppendSync", "", true
	case m == "wal.WriteAheadLogI.Rotate":
		return "walRotate", "", true
	case m == "wal.WriteAheadLogI.Close":
		return "walClose", "", true
	case m == "simpledb.RWMemstore.Upsert":
		return "memUpsert", "", true
	case m == "simpledb.RWMemstore.Delete":
		return "memDelete", "", true
	case m == "simpledb.RWMemstore.Tombstone":
		return "memTombstone", "", true
	case m == "simpledb.RWMemstore.EstimatedSizeInBytes":
		return "memSizeEstimate", "", true
	case m == "simpledb.DB.rotateWalAndFlushMemstore":
		return "rotateAndHandOff", "", true
	case callee == "simpledb.swapMemstore":
		return "swapMemstore", "", true
	case callee == "memstore.NewMemStore":
		return "newMemStore", "", true
	case m == "simpledb.SSTableManager.currentSSTable":
		return "currentSSTable", "", true
	case m == "sstables.SSTableReaderI.Close" && inPrefix("simpledb.") || m == "sstables.SSTableReaderI.Close" && inPrefix("DB.") ||
		m == "sstables.SSTableReaderI.Close" && inPrefix("SSTableManager."):
		return "readerClose", "", true
	case m == "simpledb.SSTableManager.clearReaders":
		return "clearReaders", "", true
	// ---- flush
	case callee == "simpledb.executeFlush" && in("DB.replayAndSetupWriteAheadLog"):
		return "executeFlushInRecovery", "", true
	case callee == "simpledb.executeFlush":
		return "executeFlush", "", true
	case callee == "sync/atomic.AddUint64" && strings.Contains(a, "currentGeneration"):
		return "genIncrement", "", true
	case callee == "os.MkdirAll" && in("simpledb.executeFlush"):
		return "mkdirTable", "", true
	case callee == "os.MkdirAll" && in("DB.replayAndSetupWriteAheadLog") && strings.Contains(a, "simpledb.WriteAheadFolder"):
		return "mkdirWalDir", "", true
	case m == "memstore.MemStoreI.FlushWithTombstones":
		return "flushWithTombstones", "", true
	case callee == "os.Remove" && a == "simpledb.memStoreFlushAction.walPath":
		return "removeWalFile", "", true
	case callee == "os.Remove" && strings.Contains(a, "sstables.IndexFileName"):
		return "removeIndexFileFirst", "", true
	case callee == "sstables.NewSSTableReader" && in("DB.reconstructSSTables"):
		return "loadTable", "", true
	case callee == "sstables.NewSSTableReader":
		return "openReader", "", true
	case m == "simpledb.SSTableManager.addReader":
		return "addReader", "", true
	case callee == "sstables.NewSuperSSTableReader":
		return "newSuperReader", "", true
	case callee == "memstore.flushMemstore":
		return "flushMemstoreCall", "", true
	case callee == "sstables.NewSSTableStreamWriter":
		return "newStreamWriter", "", true
	case (m == "sstables.SSTableStreamWriter.Open" || m == "sstables.SSTableStreamWriterI.Open") && in("memstore.flushMemstore", "simpledb.executeCompaction"):
		return "writerOpen", "", true
	case (m == "sstables.SSTableStreamWriter.WriteNext" || m == "sstables.SSTableStreamWriterI.WriteNext") && in("memstore.flushMemstore"):
		return "writerWriteNext", "", true
	case (m == "sstables.SSTableStreamWriter.Close" || m == "sstables.SSTableStreamWriterI.Close") && in("memstore.flushMemstore", "simpledb.executeCompaction"):
		return "writerClose", "", true
	case m == "skiplist.MapI.Iterator" && in("memstore.flushMemstore"):
		return "memIterator", "", true
	case m == "skiplist.IteratorI.Next" && in("memstore.flushMemstore"):
		return "iterNext", "", true
	// ---- table writer (the two record writers are told apart by their TYPES, the metadata file is the *os.File)
	case callee == "recordio/proto.NewWriter" && in("SSTableStreamWriter.Open"):
		return "newProtoWriter", "", true
	case m == "recordio/proto.WriterI.Open" && inPrefix("SSTableStreamWriter."):
		return "openIndexWriter", "", true
	case callee == "recordio.NewFileWriter":
		return "newFileWriter", "", true
	case m == "recordio.WriterI.Open" && inPrefix("SSTableStreamWriter."):
		return "openDataWriter", "", true
	case callee == "os.OpenFile" && in("SSTableStreamWriter.Open"):
		return "openMetaFile", "", true
	case callee == "github.com/steakknife/bloomfilter.NewOptimal":
		return "newBloom", "", true
	case callee == "sstables.verifWriterOpened":
		return "verifHook", "", true
	case m == "skiplist.Comparator.Compare" && inPrefix("SSTableStreamWriter."):
		return "keyCompare", "", true
	case m == "github.com/steakknife/bloomfilter.Filter.Add":
		return "bloomAdd", "", true
	case m == "recordio.WriterI.Write" && inPrefix("SSTableStreamWriter."):
		return "dataWrite", "", true
	case m == "recordio/proto.WriterI.Write" && inPrefix("SSTableStreamWriter."):
		return "indexWrite", "", true
	case m == "recordio.WriterI.Seek" && inPrefix("SSTableStreamWriter."):
		return "dataSeek", "", true
	case m == "recordio/proto.WriterI.Close" && inPrefix("SSTableStreamWriter."):
		return "closeIndexWriter", "", true
	case m == "recordio.WriterI.Close" && inPrefix("SSTableStreamWriter."):
		return "closeDataWriter", "", true
	case m == "github.com/steakknife/bloomfilter.Filter.WriteFile":
		return "writeBloom", "", true
	case m == "os.File.Close" && inPrefix("SSTableStreamWriter."):
		return "closeMetaFile", "", true
	case m == "os.File.Write" && inPrefix("SSTableStreamWriter."):
		return "writeMeta", "", true
	// ---- compaction
	case callee == "simpledb.executeCompaction":
		return "executeCompaction", "", true
	case m == "simpledb.SSTableManager.reflectCompactionResult":
		return "reflectCompactionResult", "", true
	case m == "simpledb.SSTableManager.candidateTablesForCompaction":
		return "selectCandidates", "", true
	case callee == "os.MkdirTemp" && strings.Contains(a, "simpledb.SSTableCompactionPathPrefix"):
		return "mkdirTempCompaction", "", true
	case m == "sstables.SSTableReaderI.Scan":
		return "readerScan", "", true
	case m == "sstables.SSTableMerger.MergeCompact" || m == "sstables.SSTableMergerI.MergeCompact":
		return "mergeCompact", "", true
	case callee == "simpledb.saveCompactionMetadata":
		return "saveCompactionFlag", "", true
	case callee == "recordio/proto.NewWriter" && in("simpledb.saveCompactionMetadata"):
		return "newProtoWriter", "", true
	case m == "recordio/proto.WriterI.Open" && in("simpledb.saveCompactionMetadata"):
		return "openFlagWriter", "", true
	case m == "recordio/proto.WriterI.Write" && in("simpledb.saveCompactionMetadata"):
		return "writeFlag", "", true
	case m == "recordio/proto.WriterI.Close" && in("simpledb.saveCompactionMetadata"):
		return "closeFlagWriter", "", true
	case callee == "simpledb.indexOfReader":
		return "indexOfReader", "", true
	case callee == "simpledb.removeReaderAt":
		return "removeReaderAt", "", true
	case callee == "os.Rename":
		return "renameIntoPlace", "", true
	// ---- RemoveAll, by what is removed
	case callee == "os.RemoveAll" && anySuffix(elems, "CompactionMetadata.SstablePaths"):
		return "removeAllInput", "", true
	case callee == "os.RemoveAll" && in("DB.repairCompactions") && anyEq(elems, "‹[]string›"):
		return "removeAllUnflaggedCompaction", "", true
	case callee == "os.RemoveAll" && strings.Contains(a, "CompactionMetadata.ReplacementPath"):
		return "removeAllReplacement", "", true
	case callee == "os.RemoveAll" && in("DB.replayAndSetupWriteAheadLog") && anyEq(elems, "‹[]string›"):
		return "removeWalFileInRecovery", "", true
	case callee == "os.RemoveAll" && in("DB.replayAndSetupWriteAheadLog") && a == "path/filepath.Join(simpledb.DB.basePath, simpledb.WriteAheadFolder)":
		return "removeAllWalDir", "", true
	case callee == "os.RemoveAll" && in("simpledb.removeUnfinishedTable") && a == "‹string›":
		return "removeAllTableDir", "", true
	case callee == "os.RemoveAll" && in("DB.reconstructSSTables") && anyEq(elems, "‹[]string›"):
		return "removeAllTableDir", "", true
	// ---- recovery
	case m == "simpledb.DB.repairCompactions":
		return "repairCompactions", "", true
	case m == "simpledb.DB.reconstructSSTables":
		return "reconstructSSTables", "", true
	case m == "simpledb.DB.replayAndSetupWriteAheadLog":
		return "replayAndSetupWal", "", true
	case callee == "recordio/proto.NewReader":
		return "newFlagReader", "", true
	case m == "recordio/proto.ReaderI.Open" && in("DB.repairCompactions"):
		return "openFlagReader", "", true
	case m == "recordio/proto.ReaderI.ReadNext" && in("DB.repairCompactions"):
		return "readFlag", "", true
	case m == "recordio/proto.ReaderI.Close" && in("DB.repairCompactions"):
		return "closeFlagReader", "", true
	case callee == "simpledb.isUnfinishedTable":
		return "isUnfinishedTableCheck", "", true
	case callee == "simpledb.removeUnfinishedTable":
		return "removeUnfinishedTable", "", true
	case callee == "recordio.IsDirectIOAvailable":
		return "directIOCheck", "", true
	case callee == "wal.NewWriteAheadLogOptions":
		return "newWalOptions", "", true
	case callee == "recordio.NewFileReaderWithPath":
		return "newFileReader", "", true
	case callee == "wal.NewReplayer":
		return "newReplayer", "", true
	case m == "wal.WriteAheadLogReplayI.Replay":
		return "replayWal", "", true
	case callee == "wal.NewWriteAheadLog":
		return "newWal", "", true
	// ---- wal appender / replayer
	case callee == "wal.checkSizeAndRotate":
		return "checkSizeAndRotate", "", true
	case m == "recordio.WriterI.Write" && inPrefix("Appender."):
		return "recWrite", "", true
	case m == "recordio.WriterI.WriteSync" && inPrefix("Appender."):
		return "recWriteSync", "", true
	case m == "recordio.WriterI.Close" && inPrefix("Appender."):
		return "closeCurrentWalWriter", "", true
	case m == "wal.Appender.Rotate":
		return "walRotate", "", true
	case callee == "wal.setupNextWriter":
		return "setupNextWriter", "", true
	case callee == "wal.Appender.walOptions.writerFactory":
		return "walWriterFactory", "", true
	case m == "recordio.WriterI.Open" && in("wal.setupNextWriter"):
		return "openWalWriter", "", true
	case m == "recordio.WriterI.Close" && in("wal.setupNextWriter"):
		return "closeFailedWalWriter", "", true
	case m == "wal.Replayer.replayFile":
		return "replayFile", "", true
	case callee == "wal.Replayer.walOptions.readerFactory":
		return "walReaderFactory", "", true
	case m == "recordio.ReaderI.Open" && inPrefix("Replayer."):
		return "walReaderOpen", "", true
	case m == "recordio.ReaderI.ReadNext" && inPrefix("Replayer."):
		return "walReadNext", "", true
	case m == "recordio.ReaderI.Close" && inPrefix("Replayer."):
		return "walReaderClose", "", true
	case callee == "‹func([]byte) error›" && inPrefix("Replayer."):
		return "processRecord", "", true
	// ---- recordio writer
	case callee == "recordio.writeFileHeader":
		return "writeHeader", "", true
	case m == "recordio.WriteSeekerCloserFlusher.Write" && in("recordio.writeFileHeader"):
		return "bufWriteHeader", "", true
	case callee == "recordio.NewCompressorForType":
		return "newCompressor", "", true
	case m == "recordio.WriteSeekerCloserFlusher.Flush" && inPrefix("FileWriter."):
		return "flushBuffer", "", true
	case m == "recordio/compressor.CompressionI.CompressWithBuf":
		return "compress", "", true
	case callee == "recordio.writeRecordHeaderV4":
		return "writeRecordHeader", "", true
	case m == "recordio.WriteSeekerCloserFlusher.Write" && inPrefix("FileWriter."):
		return "writePayload", "", true
	case m == "recordio.FileWriter.Write" && in("FileWriter.WriteSync"):
		return "recWrite", "", true
	case m == "os.File.Sync" && inPrefix("FileWriter."):
		return "fsync", "", true
	case m == "os.File.Truncate" && inPrefix("FileWriter."):
		return "truncate", "", true
	case m == "os.File.Close" && inPrefix("FileWriter."):
		return "closeFile", "", true
	}
	return "", "", false
}

func (w *walker) dropped(call *ast.CallExpr) bool {
	if w.c.pureCall(call) || w.c.optionCtor(call) {
		return true
	}
	m := w.c.method(call)
	if pureModuleMethods[m] {
		return true
	}
	if f := w.c.calledFunc(call); f != nil && f.Pkg() != nil && pureThirdParty[f.Pkg().Path()] {
		return true
	}
	if sx, ok := ast.Unparen(call.Fun).(*ast.SelectorExpr); ok {
		if sel, ok := w.c.info.Selections[sx]; ok && sel.Kind() == types.MethodVal {
			t := types.Unalias(sel.Recv())
			if p, ok := t.(*types.Pointer); ok {
				t = types.Unalias(p.Elem())
			}
			if n, ok := t.(*types.Named); ok && n.Obj().Pkg() != nil && pureThirdParty[n.Obj().Pkg().Path()] {
				return true
			}
		}
	}
	return false
}

// a real call (not a pseudo callee)
func (w *walker) call(call *ast.CallExpr) {
	if w.dropped(call) {
		return
	}
	callee, m := w.c.callee(call), w.c.method(call)
	if id, ok := ast.Unparen(call.Fun).(*ast.Ident); ok {
		if _, isB := w.c.info.Uses[id].(*types.Builtin); isB && id.Name == "panic" {
			w.emit(&node{kind: "other", s: "panic"})
			w.emit(&node{kind: "ret", sig: "!panic"})
			return
		}
	}
	if l, p, ok := w.classify(callee, m, call); ok {
		w.emit(&node{kind: "act", s: l, arg: p})
		if l == "sortStrings" {
			w.sorted[w.listKey(w.c.stringSortArg(call))] = true
		}
		return
	}
	if w.inline(call) {
		return
	}
	w.emit(&node{kind: "other", s: callee})
}

func (w *walker) pseudo(callee string) {
	if l, p, ok := w.classify(callee, "", nil); ok {
		w.emit(&node{kind: "act", s: l, arg: p})
		return
	}
	w.emit(&node{kind: "other", s: callee})
}

// inline a helper of the module: a function or CONCRETE method whose declaration is known.  Its body is walked with the
// caller's classification context; every `return` of it is equivalent to reaching its end.
func (w *walker) inline(call *ast.CallExpr) bool {
	f := w.c.calledFunc(call)
	if f == nil || w.depth >= 2 {
		return false
	}
	if sx, ok := ast.Unparen(call.Fun).(*ast.SelectorExpr); ok {
		if sel, ok := w.c.info.Selections[sx]; ok {
			if _, isIface := sel.Recv().Underlying().(*types.Interface); isIface {
				return false
			}
		}
	}
	h := w.l.lookup(f)
	if h == nil || w.active[f.Origin()] {
		return false
	}
	w.active[f.Origin()] = true
	defer delete(w.active, f.Origin())
	hw := &walker{l: w.l, fn: w.fn, c: newCanon(w.l.mod, h.info, h.fd.Body, w.l.lookup), sorted: map[string]bool{}, depth: w.depth + 1,
		active: w.active}
	// the helper's parameters (and receiver) stand for the caller's arguments: conditions and argument-based labels inside
	// the helper read as if the code stood in the caller
	if sig, ok := f.Type().(*types.Signature); ok {
		if !sig.Variadic() && sig.Params().Len() == len(call.Args) {
			for i := 0; i < sig.Params().Len(); i++ {
				if !w.c.isErrorTyped(call.Args[i]) {
					hw.c.subst[sig.Params().At(i)] = w.c.expr(call.Args[i])
				}
				// a list the caller has sorted is still sorted inside the helper (until the helper assigns to it)
				if w.sorted[w.listKey(call.Args[i])] {
					hw.sorted[fmt.Sprintf("obj@%d", sig.Params().At(i).Pos())] = true
				}
			}
		}
		if sig.Recv() != nil {
			if sx, ok := ast.Unparen(call.Fun).(*ast.SelectorExpr); ok {
				hw.c.subst[sig.Recv()] = w.c.selRoot(sx.X)
			}
		}
	}
	body := hw.sub(func() { hw.block(h.fd.Body.List) })
	body = norm(body, "ret:*")
	if !hasItems(body) {
		return true // a helper without visible effect
	}
	w.emitCallee(body)
	return true
}

// the items of a called body (an inlined helper, an immediately invoked function literal — the same thing written in two
// ways): in a scope of its own when it has a `return` left or defers something (the deferred block runs when the CALLEE
// ends, not when the caller does), otherwise spliced into the caller's list
func (w *walker) emitCallee(body []*node) {
	if containsRet(body) || containsDefer(body) {
		w.emit(&node{kind: "scope", body: body})
		return
	}
	for _, n := range body {
		w.emit(n)
	}
}

func containsDefer(b []*node) bool {
	for _, n := range b {
		switch n.kind {
		case "defer":
			return true
		case "if":
			if containsDefer(n.then) || containsDefer(n.els) {
				return true
			}
		case "loop":
			if containsDefer(n.body) {
				return true
			}
		}
	}
	return false
}

func containsRet(b []*node) bool {
	for _, n := range b {
		switch n.kind {
		case "ret":
			return true
		case "if":
			if containsRet(n.then) || containsRet(n.els) {
				return true
			}
		case "loop":
			if containsRet(n.body) {
				return true
			}
		}
	}
	return false
}

func (w *walker) block(stmts []ast.Stmt) {
	for _, s := range stmts {
		w.stmt(s)
	}
}

func (w *walker) unsort(e ast.Expr) {
	switch x := e.(type) {
	case *ast.Ident, *ast.SelectorExpr:
		delete(w.sorted, w.listKey(x))
	case *ast.IndexExpr:
		w.unsort(x.X)
	}
}

func intLit(e ast.Expr) int {
	if b, ok := e.(*ast.BasicLit); ok && b.Kind == token.INT {
		if n, err := strconv.Atoi(b.Value); err == nil {
			return n
		}
	}
	return -1
}

// `if len(k) == 0 || len(v) == 0 { return ErrEmptyKeyValue }`
func (w *walker) isValidateEmpty(s *ast.IfStmt) bool {
	if s.Else != nil || s.Init != nil || len(s.Body.List) != 1 {
		return false
	}
	r, ok := s.Body.List[0].(*ast.ReturnStmt)
	if !ok {
		return false
	}
	mentions := false
	for _, e := range r.Results {
		if w.c.sentinelName(e) == "simpledb.ErrEmptyKeyValue" {
			mentions = true
		}
	}
	c := w.c.cond(s.Cond)
	lens := func(n *cnode) bool {
		return n.kind == "atom" && !n.neg && strings.HasPrefix(n.text, "len(") && strings.HasSuffix(n.text, ") == 0")
	}
	okc := lens(c)
	if c.kind == "or" {
		okc = true
		for _, k := range c.kids {
			if !lens(k) {
				okc = false
			}
		}
	}
	return mentions && okc
}

// the results of a return: their items, then the ret node
func (w *walker) ret(x *ast.ReturnStmt) {
	items := w.sub(func() {
		for _, r := range x.Results {
			w.expr(r)
		}
	})
	for _, n := range items {
		w.emit(n)
	}
	var parts []string
	for _, r := range x.Results {
		switch {
		case isNilIdent(r):
			parts = append(parts, "nil")
		case w.c.isErrorTyped(r):
			parts = append(parts, "err") // whatever it is called or says
		default:
			parts = append(parts, w.c.expr(r))
		}
	}
	sig := strings.Join(parts, ", ")
	if len(items) > 0 {
		sig = fmt.Sprintf("!%d", x.Pos())
	}
	w.emit(&node{kind: "ret", sig: sig})
}

func (w *walker) assigned(body ast.Node, o types.Object) bool {
	found := false
	ast.Inspect(body, func(n ast.Node) bool {
		switch x := n.(type) {
		case *ast.AssignStmt:
			for _, l := range x.Lhs {
				if id, ok := l.(*ast.Ident); ok && w.c.objOfIdent(id) == o {
					found = true
				}
			}
		case *ast.IncDecStmt:
			if id, ok := x.X.(*ast.Ident); ok && w.c.objOfIdent(id) == o {
				found = true
			}
		case *ast.UnaryExpr:
			if id, ok := ast.Unparen(x.X).(*ast.Ident); ok && x.Op == token.AND && w.c.objOfIdent(id) == o {
				found = true
			}
		}
		return true
	})
	return found
}

func (w *walker) stmt(s ast.Stmt) {
	switch x := s.(type) {
	case nil:
	case *ast.ExprStmt:
		w.expr(x.X)
	case *ast.AssignStmt:
		for _, r := range x.Rhs {
			w.expr(r)
		}
		for _, l := range x.Lhs {
			if ie, ok := l.(*ast.IndexExpr); ok {
				w.expr(ie.X)
				w.expr(ie.Index)
			}
			w.unsort(l)
		}
	case *ast.DeclStmt:
		if gd, ok := x.Decl.(*ast.GenDecl); ok {
			for _, sp := range gd.Specs {
				if vs, ok := sp.(*ast.ValueSpec); ok {
					for _, v := range vs.Values {
						w.expr(v)
					}
				}
			}
		}
	case *ast.IncDecStmt:
		w.expr(x.X)
	case *ast.SendStmt:
		w.expr(x.Value)
		w.pseudo("send " + w.c.expr(x.Chan))
	case *ast.ReturnStmt:
		w.ret(x)
	case *ast.BranchStmt:
		switch x.Tok {
		case token.BREAK:
			w.emit(&node{kind: "brk"})
		case token.CONTINUE:
			w.emit(&node{kind: "cont"})
		default:
			w.emit(&node{kind: "other", s: x.Tok.String()})
		}
	case *ast.BlockStmt:
		w.block(x.List)
	case *ast.LabeledStmt:
		w.stmt(x.Stmt)
	case *ast.EmptyStmt:
	case *ast.IfStmt:
		if w.isValidateEmpty(x) {
			w.emit(&node{kind: "act", s: "validateEmpty"})
			return
		}
		w.stmt(x.Init)
		w.expr(x.Cond)
		n := &node{kind: "if", cond: w.c.cond(x.Cond)}
		n.then = w.sub(func() { w.block(x.Body.List) })
		if x.Else != nil {
			n.els = w.sub(func() { w.stmt(x.Else) })
		}
		if n.cond.isAtom("errNonNil", false) && x.Else == nil && len(n.then) > 0 && onlyRets(n.then) {
			return // plain error propagation
		}
		w.emit(n)
	case *ast.ForStmt:
		li := &loopInfo{kind: "forever", start: -1}
		lc := &loopCtx{li: li}
		if x.Init != nil {
			w.stmt(x.Init)
			if as, ok := x.Init.(*ast.AssignStmt); ok && len(as.Lhs) == 1 && len(as.Rhs) == 1 {
				if id, ok := as.Lhs[0].(*ast.Ident); ok {
					lc.idx = w.c.objOfIdent(id)
				}
				li.start = intLit(as.Rhs[0])
			}
		}
		if x.Cond != nil {
			li.kind = "while"
			li.over = w.c.cond(x.Cond).String()
			// i < len(X)
			if be, ok := ast.Unparen(x.Cond).(*ast.BinaryExpr); ok && be.Op == token.LSS && lc.idx != nil {
				if id, ok := ast.Unparen(be.X).(*ast.Ident); ok && w.c.objOfIdent(id) == lc.idx {
					if ce, ok := ast.Unparen(be.Y).(*ast.CallExpr); ok && len(ce.Args) == 1 {
						if fid, ok := ce.Fun.(*ast.Ident); ok && fid.Name == "len" {
							li.kind = "index"
							li.over = w.overStr(ce.Args[0])
							lc.listKey = w.listKey(ce.Args[0])
						}
					}
				}
			}
		}
		if inc, ok := x.Post.(*ast.IncDecStmt); ok && inc.Tok == token.INC && lc.idx != nil {
			if id, ok := inc.X.(*ast.Ident); ok && w.c.objOfIdent(id) == lc.idx {
				li.stepOne = true
			}
		}
		li.sortedBefore = lc.listKey != "" && w.sorted[lc.listKey]
		// `for i := 0; i < len(x); i++` that never assigns i is `for i := range x`
		if li.kind == "index" && li.start == 0 && li.stepOne && !w.assigned(x.Body, lc.idx) {
			li.kind = "range"
		}
		w.loop(lc, x.Body, x.Post)
	case *ast.RangeStmt:
		w.expr(x.X)
		li := &loopInfo{kind: "range", over: w.overStr(x.X), start: 0, stepOne: true}
		lc := &loopCtx{li: li, listKey: w.listKey(x.X)}
		isChan := false
		if t := w.c.typeOf(x.X); t != nil {
			_, isChan = t.Underlying().(*types.Chan)
		}
		if id, ok := x.Key.(*ast.Ident); ok && id.Name != "_" {
			if isChan {
				lc.val = w.c.objOfIdent(id)
			} else {
				lc.idx = w.c.objOfIdent(id)
			}
		}
		if id, ok := x.Value.(*ast.Ident); ok && id.Name != "_" {
			lc.val = w.c.objOfIdent(id)
		}
		li.sortedBefore = w.sorted[lc.listKey]
		w.loop(lc, x.Body, nil)
	case *ast.SwitchStmt:
		w.stmt(x.Init)
		if x.Tag != nil {
			w.expr(x.Tag)
		}
		w.clauses(x.Body)
	case *ast.TypeSwitchStmt:
		w.stmt(x.Init)
		w.stmt(x.Assign)
		w.clauses(x.Body)
	case *ast.SelectStmt:
		w.clauses(x.Body)
	case *ast.DeferStmt:
		body := w.sub(func() { w.invoke(x.Call, true) })
		w.emit(&node{kind: "defer", body: body})
	case *ast.GoStmt:
		for _, a := range x.Call.Args {
			w.expr(a)
		}
		w.pseudo("go " + w.c.callee(x.Call))
	default:
		w.emit(&node{kind: "other", s: fmt.Sprintf("stmt %T", s)})
	}
}

func (w *walker) loop(lc *loopCtx, body *ast.BlockStmt, post ast.Stmt) {
	w.loops = append(w.loops, lc)
	items := w.sub(func() {
		w.block(body.List)
		w.stmt(post)
	})
	w.loops = w.loops[:len(w.loops)-1]
	w.emit(&node{kind: "loop", loop: lc.li, body: items})
}

func (w *walker) clauses(b *ast.BlockStmt) {
	for _, c := range b.List {
		switch cc := c.(type) {
		case *ast.CaseClause:
			t := "default"
			if cc.List != nil {
				t = "case " + w.c.exprs(cc.List)
			}
			body := w.sub(func() { w.block(cc.Body) })
			w.emit(&node{kind: "if", fixed: true, cond: atom(t, ""), then: body})
		case *ast.CommClause:
			t := "default"
			if cc.Comm != nil {
				t = "case " + w.commStr(cc.Comm)
			}
			body := w.sub(func() {
				w.stmt(cc.Comm)
				w.block(cc.Body)
			})
			w.emit(&node{kind: "if", fixed: true, cond: atom(t, ""), then: body})
		}
	}
}

func (w *walker) commStr(s ast.Stmt) string {
	switch x := s.(type) {
	case *ast.ExprStmt:
		return w.c.expr(x.X)
	case *ast.SendStmt:
		return w.c.expr(x.Chan) + " <- …"
	case *ast.AssignStmt:
		if len(x.Rhs) == 1 {
			return w.c.expr(x.Rhs[0])
		}
	}
	return "?"
}

// what falling off the end of a function (literal) body does
func (w *walker) bodyTail(ft *ast.FuncType) string {
	if ft.Results == nil || len(ft.Results.List) == 0 {
		return "ret:"
	}
	return ""
}

// a call expression; `deferred`: the call of a defer statement (arguments are evaluated at the defer statement, which
// makes no difference for the calls listed here: none of them has a call as an argument)
func (w *walker) invoke(c *ast.CallExpr, deferred bool) {
	if fl, ok := ast.Unparen(c.Fun).(*ast.FuncLit); ok {
		for _, a := range c.Args {
			w.expr(a)
		}
		if deferred {
			for _, n := range norm(w.sub(func() { w.block(fl.Body.List) }), w.bodyTail(fl.Type)) {
				w.emit(n)
			}
			return
		}
		// an immediately invoked literal is a helper without a name: same normal form as an inlined helper (every
		// `return` of it is equivalent to reaching its end), so that turning it into a method or back changes nothing
		w.emitCallee(norm(w.sub(func() { w.block(fl.Body.List) }), "ret:*"))
		return
	}
	// calls in receiver position first
	switch f := ast.Unparen(c.Fun).(type) {
	case *ast.SelectorExpr:
		w.expr(f.X)
	}
	var lits []*ast.FuncLit
	for _, a := range c.Args {
		if fl, ok := a.(*ast.FuncLit); ok {
			lits = append(lits, fl)
			continue
		}
		w.expr(a)
	}
	w.call(c)
	for _, fl := range lits {
		w.lit(fl)
	}
}

func (w *walker) lit(fl *ast.FuncLit) {
	body := norm(w.sub(func() { w.block(fl.Body.List) }), w.bodyTail(fl.Type))
	w.emit(&node{kind: "cb", body: body})
}

func (w *walker) expr(e ast.Expr) {
	switch x := e.(type) {
	case nil:
	case *ast.CallExpr:
		w.invoke(x, false)
	case *ast.FuncLit:
		w.lit(x)
	case *ast.BinaryExpr:
		w.expr(x.X)
		w.expr(x.Y)
	case *ast.UnaryExpr:
		w.expr(x.X)
		if x.Op == token.ARROW {
			w.pseudo("recv " + w.c.expr(x.X))
		}
	case *ast.ParenExpr:
		w.expr(x.X)
	case *ast.SelectorExpr:
		w.expr(x.X)
	case *ast.IndexExpr:
		w.expr(x.X)
		w.expr(x.Index)
	case *ast.SliceExpr:
		w.expr(x.X)
		w.expr(x.Low)
		w.expr(x.High)
		w.expr(x.Max)
	case *ast.StarExpr:
		w.expr(x.X)
	case *ast.TypeAssertExpr:
		w.expr(x.X)
	case *ast.CompositeLit:
		for _, el := range x.Elts {
			w.expr(el)
		}
	case *ast.KeyValueExpr:
		w.expr(x.Value)
	}
}

// ---------------------------------------------------------------------------------------------------------

func leanStr(s string) string {
	s = strings.ReplaceAll(s, "\\", "\\\\")
	s = strings.ReplaceAll(s, "\"", "\\\"")
	s = strings.ReplaceAll(s, "--", "-\\x2d") // ./check strips `--` comments line-wise before it looks for forbidden words
	return "\"" + s + "\""
}

func fatal(a ...any) {
	fmt.Fprintln(os.Stderr, append([]any{"orderfacts:"}, a...)...)
	os.Exit(1)
}

func writeIfChanged(path, content string) {
	old, err := os.ReadFile(path)
	if err == nil && string(old) == content {
		return
	}
	if err := os.WriteFile(path, []byte(content), 0o644); err != nil {
		fatal(err)
	}
}

type fnOut struct {
	name, file string
	found      bool
	items      []item
}

func main() {
	var root string
	allowMissing := false
	var pos []string
	for i := 1; i < len(os.Args); i++ {
		switch a := os.Args[i]; {
		case a == "--root" && i+1 < len(os.Args):
			root = os.Args[i+1]
			i++
		case strings.HasPrefix(a, "--root="):
			root = strings.TrimPrefix(a, "--root=")
		case a == "--allow-missing":
			allowMissing = true
		default:
			pos = append(pos, a)
		}
	}
	if len(pos) != 2 {
		fmt.Fprintln(os.Stderr, "usage: orderfacts [--root <overlay dir>] [--allow-missing] <repo> <outdir>")
		os.Exit(2)
	}
	repo, err := filepath.Abs(pos[0])
	if err != nil {
		fatal(err)
	}
	out := pos[1]
	if root != "" {
		if root, err = filepath.Abs(root); err != nil {
			fatal(err)
		}
	}
	if err := os.MkdirAll(out, 0o755); err != nil {
		fatal(err)
	}
	l := newLoader(repo, root)

	var fns []fnOut
	var missing []string
	for _, t := range targets {
		path := l.mod + "/" + filepath.ToSlash(filepath.Dir(t.file))
		if _, ok := l.infos[path]; !ok {
			l.check(path)
		}
		pkg := l.pkgs[path]
		for _, n := range t.fns {
			disp := n
			if !strings.Contains(n, ".") {
				disp = t.pkg + "." + n
			}
			var fd *ast.FuncDecl
			file := t.file
			if fobj, _ := resolveFunc(l.mod, pkg, n); fobj != nil {
				if h := l.lookup(fobj); h != nil {
					fd = h.fd
					if rel, err := filepath.Rel(repo, fset.Position(fd.Pos()).Filename); err == nil && !strings.HasPrefix(rel, "..") {
						file = rel
					} else if root != "" {
						if rel, err := filepath.Rel(root, fset.Position(fd.Pos()).Filename); err == nil && !strings.HasPrefix(rel, "..") {
							file = rel
						}
					}
				}
			}
			if fd == nil {
				missing = append(missing, fmt.Sprintf("%s (package %s)", disp, t.pkg))
				fns = append(fns, fnOut{name: disp, file: t.file})
				continue
			}
			w := &walker{l: l, fn: disp, c: newCanon(l.mod, l.infos[path], fd.Body, l.lookup), sorted: map[string]bool{},
				active: map[*types.Func]bool{}}
			if self, ok := l.infos[path].Defs[fd.Name].(*types.Func); ok {
				w.active[self] = true
			}
			body := w.sub(func() { w.block(fd.Body.List) })
			body = norm(body, w.bodyTail(fd.Type))
			fns = append(fns, fnOut{name: disp, file: file, found: true, items: flatten(body)})
		}
	}
	for _, r := range l.renamed {
		fmt.Fprintln(os.Stderr, "orderfacts: note: private function renamed:", r)
	}
	if len(l.problems) > 0 {
		msg := "the source does not type-check (or an import could not be resolved offline):\n  " + strings.Join(l.problems, "\n  ")
		if !allowMissing {
			fatal(msg)
		}
		fmt.Fprintln(os.Stderr, "orderfacts: warning:", msg)
	}
	if len(missing) > 0 && !allowMissing {
		fatal("listed function(s) not found in the source — the crash model's order tie is broken:\n  " + strings.Join(missing, "\n  "))
	}
	for _, m := range missing {
		fmt.Fprintln(os.Stderr, "orderfacts: warning: missing", m)
	}
	writeIfChanged(filepath.Join(out, "Order.lean"), render(fns))
}

func render(fns []fnOut) string {
	var sb strings.Builder
	sb.WriteString("-- GENERATED by tools/orderfacts from /repo/{simpledb,sstables,memstore,wal,recordio}/*.go (go/types). Do not edit; rewritten when the source changes.\n")
	sb.WriteString("-- For each listed function: its calls in source order (arguments before the call), classified into action labels by the\n")
	sb.WriteString("-- go/types identity of the callee; unrecognised calls are kept as `other`; helpers of the module are inlined; control flow\n")
	sb.WriteString("-- is in the normal form described in the header of tools/orderfacts/main.go; `if <error> != nil { return … }` guards\n")
	sb.WriteString("-- without further calls are elided.  Conditions and loop facts are canonical texts (tools/orderfacts/canon.go).\n")
	sb.WriteString("namespace SST.Generated.Order\n\n")
	sb.WriteString("/-- the action vocabulary of tools/orderfacts -/\ninductive Label where\n")
	for _, l := range labels {
		sb.WriteString("  | " + l + "\n")
	}
	sb.WriteString("  | sortStrings (list : String)\n  deriving DecidableEq, Repr\n\n")
	sb.WriteString("/-- facts about one loop: kind (range / index / while / forever), the value it runs over (a local by its type, a field by\nits path), the first index, whether the step is one, whether `sort.Strings(over)` precedes it with no assignment to the list in between -/\n")
	sb.WriteString("structure Loop where\n  kind : String\n  over : String\n  start : Option Nat\n  stepOne : Bool\n  sortedBefore : Bool\n  deriving DecidableEq, Repr\n\n")
	sb.WriteString("inductive Item where\n  | act (l : Label)\n  | other (callee : String)\n  | ifBegin (cond : String)\n  | elseBegin\n  | ifEnd\n  | loopBegin (l : Loop)\n  | loopEnd\n" +
		"  | deferBegin\n  | deferEnd\n  | scopeBegin\n  | scopeEnd\n  | cbBegin\n  | cbEnd\n  | ret\n  | brk\n  | cont\n  deriving DecidableEq, Repr\n\n")
	sb.WriteString("structure Fn where\n  name : String\n  file : String\n  found : Bool\n  items : List Item\n  deriving Repr\n\n")
	var ig []string
	for k := range pureModuleMethods {
		ig = append(ig, k)
	}
	for k := range pureThirdParty {
		ig = append(ig, k+".*")
	}
	sort.Strings(ig)
	sb.WriteString("/-- besides what is dropped by the KIND of callee (builtins, conversions, pure standard packages, non-fatal logging,\nfunctional options, helpers without visible effect): read-only getters of the module, by method identity -/\ndef ignoredCalls : List String := [")
	for i, k := range ig {
		if i > 0 {
			sb.WriteString(", ")
		}
		if i%4 == 0 {
			sb.WriteString("\n  ")
		}
		sb.WriteString(leanStr(k))
	}
	sb.WriteString("]\n\n")
	var names []string
	for i, f := range fns {
		id := fmt.Sprintf("fn%02d", i)
		names = append(names, id)
		sb.WriteString(fmt.Sprintf("/-- %s (%s) -/\ndef %s : Fn := ⟨%s, %s, %v, [", f.name, f.file, id, leanStr(f.name), leanStr(f.file), f.found))
		for j, it := range f.items {
			if j > 0 {
				sb.WriteString(",")
			}
			sb.WriteString("\n  " + it.lean())
		}
		sb.WriteString("]⟩\n\n")
	}
	sb.WriteString("def table : List Fn := [" + strings.Join(names, ", ") + "]\n\n")
	sb.WriteString("end SST.Generated.Order\n")
	return sb.String()
}
