#!/bin/bash
# usage: mutant_stream.sh <patch.diff | revert:<commit>> <stream> [sstcheck args...]
# Runs one correspondence stream against a scratch worktree of /repo with the change applied
# (development aid; the registered checks always run against /repo itself).
set -e
CH="$1"; STREAM="$2"; shift 2
W=$(mktemp -d /tmp/mut.XXXXXX)
trap 'git -C /repo worktree remove --force "$W/repo" >/dev/null 2>&1 || true; rm -rf "$W"' EXIT
git -C /repo worktree add --detach "$W/repo" HEAD >/dev/null 2>&1
if [[ "$CH" == revert:* ]]; then
  c=${CH#revert:}; git -C "$W/repo" diff "$c" "$c~1" | git -C "$W/repo" apply
else
  git -C "$W/repo" apply "$CH"
fi
cp -r /verif/harness "$W/harness"
sed -i "s#=> /repo#=> $W/repo#" "$W/harness/go.mod"
export GOFLAGS=-mod=mod GOPROXY=off
(cd "$W/repo" && go build ./... ) || { echo "MUTANT DOES NOT BUILD"; exit 2; }
(cd "$W/harness" && go build -tags verif -o "$W/sstcheck" ./cmd/sstcheck)
timeout 900 "$W/sstcheck" "$STREAM" --drv /verif/lean/.lake/build/bin/sstdrv --out "$W/res.json" "$@" || echo "stream exit=$?"
python3 - "$W/res.json" <<'PY'
import json,sys
try:
    d=json.load(open(sys.argv[1]))
except Exception as e:
    print("NO RESULT FILE", e); sys.exit(0)
print({k:d[k] for k in ['cases','evaluations','nontrivial','wall_s']})
print("SUMMARY", {k:v for k,v in d['stats'].items() if k.startswith('violation') or k=='disagreements'})
for x in (d.get('disagreements') or [])[:2]:
    print('DIS',x['what'][:120],'| model=',x['model'][:150],'| impl=',x['impl'][:150],'|',x['case'][:200])
for v in (d.get('violations') or [])[:3]:
    print('VIO',v['property'],v['sig'],v['detail'][:250],'|',v['case'][:150])
PY
