#!/bin/bash
# usage: mutant_prop.sh <seeded id, e.g. C11-m5> [property whose streams to run, default = the seed's property]
# development aid: runs every quick stream of the property against a scratch worktree with the seeded patch
# (stream-level detection only: the regenerated-facts proof obligations are exercised by tools/eval_seeded.py)
ID=$1; P=${2:-${ID%%-*}}
python3 - "$P" <<'PY' > /tmp/mp.$$.txt
import sys; sys.path.insert(0,'/verif/tools')
import props
for st in props.PROPS[sys.argv[1]]["streams"]:
    print(st["name"], st["quick"], " ".join(st.get("args",[])))
PY
while read name n args; do
  echo "== $ID / $P / $name n=$n $args"
  /verif/tools/mutant_stream.sh /verif/seeded/$ID/patch.diff $name --seed 1 --n $n --tier quick $args 2>&1 | grep -E "SUMMARY|DOES NOT|stream exit|NO RESULT" | cut -c1-600
done < /tmp/mp.$$.txt
rm -f /tmp/mp.$$.txt
