#!/bin/sh
# Builds the framework from files on disk only (offline): Lean library + driver, Go tools.
set -e
cd "$(dirname "$0")"
export GOFLAGS=-mod=mod GOPROXY=off
mkdir -p .build evidence
(cd harness && go build -tags verif -o ../.build/gofacts ./cmd/gofacts && ../.build/gofacts ../lean/SST/Generated)
(cd lean && lake build)
(cd harness && go build -tags verif -o ../.build/sstcheck ./cmd/sstcheck)
echo setup-ok
