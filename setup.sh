#!/bin/sh
# Builds the framework from files on disk only (offline): regenerated facts, Lean library (all claimed
# property theorem files) + driver executable, Go tools.
set -e
cd "$(dirname "$0")"
export GOFLAGS=-mod=mod GOPROXY=off
mkdir -p .build evidence
(cd harness && go build -tags verif -o ../.build/gofacts ./cmd/gofacts && ../.build/gofacts ../lean/SST/Generated)
[ -f tools/ksy2lean.py ] && python3 tools/ksy2lean.py --repo /repo
[ -d tools/orderfacts ] && (cd tools/orderfacts && go build -o ../../.build/orderfacts . && ../../.build/orderfacts /repo ../../lean/SST/Generated)
[ -d tools/errfacts ] && (cd tools/errfacts && go build -o ../../.build/errfacts . && ../../.build/errfacts /repo ../../lean/SST/Generated)
[ -d tools/resfacts ] && (cd tools/resfacts && go build -o ../../.build/resfacts . && ../../.build/resfacts /repo ../../lean/SST/Generated)
[ -d tools/lockfacts ] && (cd tools/lockfacts && go build -o ../../.build/lockfacts . && ../../.build/lockfacts /repo ../../lean/SST/Generated)
MODS=$(python3 -c "
import sys; sys.path.insert(0,'tools')
from props import PROPS
import glob, os
mods = []
for p in PROPS:
    mods += ['SST.Props.' + os.path.basename(f)[:-5] for f in [f'lean/SST/Props/{p}.lean'] + sorted(glob.glob(f'lean/SST/Props/{p}_*.lean')) if os.path.exists(f)]
print(' '.join(mods))")
(cd lean && lake build sstdrv $MODS)
(cd harness && go build -tags verif -o ../.build/sstcheck ./cmd/sstcheck)
echo setup-ok
