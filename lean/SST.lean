-- Root of the `SST` library: model, proofs and property theorems.
import SST.Generated.Consts
import SST.Model.Bytes
import SST.Model.RecordIO
import SST.Drv.Rio
