import SST.Drv.Rio
import SST.Drv.Sst
import SST.Drv.DB
import SST.Drv.SkipPq
import SST.Drv.Merge
import SST.Drv.MemStore
import SST.Drv.Kaitai
import SST.Drv.Wal
import SST.Drv.Handles
import SST.Drv.Conc
import SST.Drv.FS
import SST.Drv.Stack
import SST.Drv.BufReader
import SST.Drv.TableDir
import SST.Drv.Legacy
import SST.Drv.CompDir
open SST SST.Drv

def handle (line : String) : String :=
  match (line.trimAscii.toString.splitOn " ").filter (· ≠ "") with
  | [] => "bad-op"
  | cmd :: rest =>
    let a := parseArgs rest
    match cmd with
    | "rio.write" => rioWrite a
    | "rio.read" => rioRead a
    | "rio.readat" => rioReadAt a
    | "rio.seeknext" => rioSeekNext a
    | "skip.run" => skipRun a
    | "pq.run" => pqRun a
    | "merge.super" => mergeSuper a
    | "merge.run" => mergeRun a
    | "db.run" => dbRun a
    | "conc.exec" => concExec a
    | "mem.run" => memRun a
    | "sst.write" => sstWrite a
    | "sst.read" => sstRead a
    | "kaitai.parse" => kaitaiParseCmd a
    | "kaitai.enum" => kaitaiEnumCmd a
    | "wal.run" => walRun a
    | "wal.cuts" => walCuts a
    | "wal.events" => walEventsCmd a
    | "handles.run" => handlesRun a
    | "handles.reader" => handlesReader a
    | "fs.recover" => Fs.fsRecover a
    | "fs.recimages" => Fs.fsRecImages a
    | "fs.session" => Fs.fsSession a
    | "stack.run" => stackRun a
    | "bufr.calls" => Bufr.bufrCalls a
    | "bufr.file" => Bufr.bufrFile a
    | "bufr.stream" => Bufr.bufrStream a
    | "tbldir.run" => tblDirRun a
    | "legacy.enc" => Legacy.legacyEnc a
    | "legacy.read" => Legacy.legacyRead a
    | "legacy.readat" => Legacy.legacyReadAt a
    | "legacy.seeknext" => Legacy.legacySeekNext a
    | "legacy.cuts" => Legacy.legacyCuts a
    | "v0.enc" => Legacy.v0Enc a
    | "v0.read" => Legacy.v0Read a
    | "compdir.flag" => compDirFlag a
    | "compdir.run" => compDirRun a
    | "ping" => "pong"
    | _ => "bad-op"

partial def loop (h : IO.FS.Stream) (out : IO.FS.Stream) : IO Unit := do
  let line ← h.getLine
  if line.isEmpty then return ()
  out.putStrLn (handle line)
  out.flush
  loop h out

def main : IO Unit := do
  let out ← IO.getStdout
  loop (← IO.getStdin) out
  out.flush
