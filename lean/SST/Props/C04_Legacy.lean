/-
C04, legacy part — the recordio file versions 1, 2 and 3 as the library still reads them
(`recordio/common_reader.go`, `file_reader.go`, `mmap_reader.go`), against reference encoders of the three layouts
(SST/Model/RecordIOLegacy.lean; confirmed byte for byte against /repo/recordio/test_files/v{1,2,3}_compat).
Property theorems only; the proofs are in SST/Proofs/RecordIOLegacy.lean and SST/Proofs/RecordIOLegacySeek.lean.

Parameters: `en` = does the compressor's `Decompress` hand back nil (snappy) or an empty slice (gzip, lzw) for an
empty result; `v` = file version; `c` = the compressor (`none` = uncompressed), `comps ct` = the compressor the
file header's code `ct` selects; `backL en v c r` = what reading the written record `r` hands back.
-/
import SST.Proofs.RecordIOLegacySeek
namespace SST.C04.Legacy
open SST Generated SST.Legacy SST.Buf

/-- `FileReader.Open` + `ReadNext` until the first error, on a file of ANY supported version (1, 2, 3, 4) holding
the records `rs`: exactly the records — nil as the version can express it — then `io.EOF`. -/
theorem legacy_seq_roundtrip (en : Bool) (comps : Nat → Compression) (v ct : Nat) (c : Compression)
    (rs : List GoBytes) (hv : Proofs.Legacy.IsVersion v) (hct : ct ≤ maxCompression) (hc : comps ct = c)
    (hl : LawfulC c) (hf : ∀ r ∈ rs, FitsL c r) :
    openReadAllL en comps (encFileL v c ct rs) = (rs.map (backL en v c), .eof) :=
  Proofs.Legacy.legacy_seq_roundtrip en comps v ct c rs hv hct hc hl hf

/-- `MMapReader.ReadNextAt` (`readNextAtV1/V2/V3/V4`) at the offset at which record `k` starts returns record
`k`. -/
theorem legacy_readAt_offset (en : Bool) (v ct : Nat) (c : Compression) (rs : List GoBytes) (k : Nat)
    (hk : k < rs.length) (hv : Proofs.Legacy.IsVersion v) (hl : LawfulC c) (hf : ∀ r ∈ rs, FitsL c r) :
    readAtL en v c (encFileL v c ct rs) (offsetOfL v c rs k) = .ok (backL en v c rs[k]) :=
  Proofs.Legacy.legacy_readAt_offset en v ct c rs k hk hv hl hf

/-- `SkipNextV1/V2/V3` (and V4) move the reader exactly as far as `readNextV1/V2/V3` do. -/
theorem legacy_skip_eq_read_discard (en : Bool) (v : Nat) (hv : Proofs.Legacy.IsVersion v) (c : Compression)
    (r : GoBytes) (rest : Bytes) (hl : LawfulC c) (hf : FitsL c r) :
    skipNextL v c (encRecordL v c r ++ rest) = .ok (encRecordL v c r).length ∧
    readNextL en v c (encRecordL v c r ++ rest) = .ok (backL en v c r, (encRecordL v c r).length) :=
  Proofs.Legacy.legacy_skip_eq_read_discard en v hv c r rest hl hf

/-- nil and empty records.  Version 3 has the nil flag and keeps them apart.  Versions 1 and 2 have no nil flag:
the FILE is the same for a nil and an empty record; version 2 (`readNextV2` copies into a fresh buffer) hands back
the empty slice for both; so does version 1 unless the compressor's `Decompress` returns nil for an empty result
(snappy), in which case version 1 — which returns the decompressor's slice as it is — hands back nil for BOTH. -/
theorem legacy_nil_empty (en : Bool) (c : Compression) :
    (backL en 3 c none = none ∧ backL en 3 c (some []) = some []) ∧
    (∀ v, v = 1 ∨ v = 2 → encRecordL v c none = encRecordL v c (some [])) ∧
    (backL en 2 c none = some [] ∧ backL en 2 c (some []) = some []) ∧
    (backL false 1 c none = some [] ∧ backL false 1 c (some []) = some []) ∧
    (backL en 1 none none = some [] ∧ backL en 1 none (some []) = some []) ∧
    (∀ cc : Comp, backL true 1 (some cc) (some []) = none ∧ backL true 1 (some cc) none = none) :=
  ⟨Proofs.Legacy.legacy_nil_empty_v3 en c, fun v hv => Proofs.Legacy.legacy_nil_empty_enc v hv c,
   Proofs.Legacy.legacy_nil_empty_v2 en c, Proofs.Legacy.legacy_nil_empty_v1 c,
   Proofs.Legacy.legacy_nil_empty_v1_plain en, Proofs.Legacy.legacy_nil_empty_v1_emptyNil⟩

/-- versions 2 and 3: a tail of zero bytes (direct-I/O block padding) reads as `io.EOF` (`readNextV2/V3`: magic
number mismatch, then "is everything that is left zero?"). -/
theorem legacy_zero_tail (en : Bool) (v : Nat) (hv : v = 2 ∨ v = 3) (c : Compression) (n : Nat) :
    readNextL en v c (List.replicate n 0) = .error .eof :=
  Proofs.Legacy.legacy_zero_tail en v hv c n

/-- version 1 has NO such rule (`readNextV1` returns the `MagicNumberMismatchErr` of `readRecordHeaderV1`): 20
or more zero bytes are a magic-number mismatch, 1 to 19 a truncated header (`io.ErrUnexpectedEOF` of
`io.ReadFull`). -/
theorem legacy_zero_tail_v1 (en : Bool) (c : Compression) :
    (∀ n, readNextL en 1 c (List.replicate (n + 20) 0) = .error .magic) ∧
    (∀ n, 0 < n → n < 20 → readNextL en 1 c (List.replicate n 0) = .error .unexpectedEof) :=
  ⟨Proofs.Legacy.legacy_zero_tail_v1 en c, Proofs.Legacy.legacy_zero_tail_v1_short en c⟩

/-! ## `MMapReader.SeekNext` -/

/-- the scan of `SeekNext` as coded (4 KiB windows, three marker bytes, a trial `ReadNextAt` at every marker) over
ANY trial reader `rd` that does not accept the bare marker at the very end of the file: the FIRST position at or
after `off` where the marker stands and the trial read succeeds, `io.EOF` if there is none — for every file
content and every offset. -/
theorem seekNextG_spec (rd : Nat → Except Err GoBytes) (file : Bytes) (ht : Proofs.Legacy.TailSafe rd file)
    (off : Nat) (hoff : off ≤ file.length) :
    match seekNextG rd file off with
    | .ok (p, r) => off ≤ p ∧ MarkerAtL file p ∧ rd p = .ok r ∧ ∀ q, off ≤ q → q < p → ¬ ValidAtG rd file q
    | .error e => e = .eof ∧ ∀ q, off ≤ q → ¬ ValidAtG rd file q :=
  Proofs.Legacy.seekNextG_spec rd file ht off hoff

/-- `TailSafe` is the weakest hypothesis on the trial reader under which that specification holds at every offset
(the scan gives up without a trial read when its three-byte match runs into the end of the file); every
`ReadNextAt` of the library satisfies it, whatever the file version. -/
theorem tailSafe_weakest (rd : Nat → Except Err GoBytes) (file : Bytes) :
    (Proofs.Legacy.TailSafe rd file ↔
      ∀ off, off ≤ file.length → Proofs.Legacy.SeekPostG rd file off (seekNextG rd file off)) ∧
    (∀ en v c, Proofs.Legacy.TailSafe (readAtL en v c file) file) :=
  ⟨Proofs.Legacy.tailSafe_iff_spec rd file, fun en v c => Proofs.Legacy.tailSafe_readAtL en v c file⟩

/-- the generic scan with the version 4 trial reader IS the existing model of `SeekNext` (`SST.seekNext`,
`C04.seekNext_spec`). -/
theorem seekNextG_v4 (c : Compression) (file : Bytes) (off : Nat) :
    seekNextG (readAt c file) file off = seekNext c file off :=
  Proofs.Legacy.seekNextG_v4 c file off

/-- `SeekNext` on a file of version 2 or 3 (any version from 2 on): the first position at or after `off` where
the marker stands and `readNextAtV2/V3` succeeds.  Without a header checksum "succeeds" is weak: the bytes after
the marker parse as varints and the announced payload fits into the file (and decompresses). -/
theorem legacy_seekNext_spec (en : Bool) (v : Nat) (hv : 2 ≤ v) (c : Compression) (file : Bytes) (off : Nat)
    (hoff : off ≤ file.length) :
    match seekNextL en v c file off with
    | .ok (p, r) => off ≤ p ∧ MarkerAtL file p ∧ readAtL en v c file p = .ok r ∧
        ∀ q, off ≤ q → q < p → ¬ ValidAtG (readAtL en v c file) file q
    | .error e => e = .eof ∧ ∀ q, off ≤ q → ¬ ValidAtG (readAtL en v c file) file q :=
  Proofs.Legacy.legacy_seekNext_spec en v hv c file off hoff

/-- `SeekNext` refuses files of version 1 ("unsupported on files with version lower than v2"). -/
theorem legacy_seekNext_v1_unsupported (en : Bool) (c : Compression) (file : Bytes) (off : Nat) :
    seekNextL en 1 c file off = .error .other :=
  Proofs.Legacy.legacy_seekNext_v1_unsupported en c file off

/-- on a written file of version 2 or 3 (or 4) in which a trial read succeeds nowhere but at a record start
(`NoPhantomL`), `SeekNext` from any byte offset returns the first record that starts at or after that offset,
or `io.EOF` when there is none. -/
theorem legacy_seekNext_first_record (en : Bool) (v ct : Nat) (hv : Proofs.Legacy.IsVersion v) (hv2 : 2 ≤ v)
    (c : Compression) (rs : List GoBytes) (hl : LawfulC c) (hf : ∀ r ∈ rs, FitsL c r)
    (hnp : NoPhantomL en v c ct rs) (off : Nat) (hoff : off ≤ (encFileL v c ct rs).length) :
    match seekNextL en v c (encFileL v c ct rs) off with
    | .ok (p, r) => ∃ k, ∃ hk : k < rs.length, p = offsetOfL v c rs k ∧ r = backL en v c rs[k] ∧ off ≤ p ∧
        ∀ j, j < k → offsetOfL v c rs j < off
    | .error e => e = .eof ∧ ∀ k, k < rs.length → offsetOfL v c rs k < off :=
  Proofs.Legacy.legacy_seekNext_first_record en v ct hv hv2 c rs hl hf hnp off hoff

/-- `NoPhantomL` is a real restriction on legacy files: the version 3 file with the single record
`91 8d 4c 00 01 00 7a` (21 bytes, the record starts at offset 8).  `SeekNext(9)` returns offset 14 — the middle
of the payload — and the "record" `7a`, which nobody wrote: marker, nil flag 0, length 1, compressed length 0,
and one more byte is all a version 3 header needs.  The same on version 2; the version 4 reader is immune on
the analogous file (the embedded header has no valid checksum) and reports `io.EOF`. -/
theorem legacy_seekNext_phantom :
    (seekNextL false 3 none Proofs.Legacy.phantomV3 9 = .ok (14, some [0x7a]) ∧
      offsetOfL 3 none [some [0x91, 0x8d, 0x4c, 0, 1, 0, 0x7a]] 0 = 8 ∧
      Proofs.Legacy.phantomV3.length = 21 ∧
      ¬ NoPhantomL false 3 none 0 [some [0x91, 0x8d, 0x4c, 0, 1, 0, 0x7a]]) ∧
    seekNextL false 2 none Proofs.Legacy.phantomV2 9 = .ok (13, some [0x7a]) ∧
    seekNext none Proofs.Legacy.phantomV4 9 = .error .eof :=
  ⟨Proofs.Legacy.legacy_seekNext_phantom, Proofs.Legacy.legacy_seekNext_phantom_v2,
   Proofs.Legacy.seekNext_v4_no_phantom⟩

/-! ## non-vacuity: the repository's own files through the model -/

/-- /repo/recordio/test_files/v1_compat/recordio_UncompressedSingleRecord (41 bytes) -/
def repoV1Single : Bytes :=
  [1, 0, 0, 0, 0, 0, 0, 0, 0x91, 0x06, 0x13, 0x00, 0x0d, 0, 0, 0, 0, 0, 0, 0, 0, 0, 0, 0, 0, 0, 0, 0,
   0, 1, 2, 3, 4, 5, 6, 7, 8, 9, 10, 11, 12]

/-- /repo/recordio/test_files/v2_compat/recordio_UncompressedSingleRecord (26 bytes) -/
def repoV2Single : Bytes :=
  [2, 0, 0, 0, 0, 0, 0, 0, 0x91, 0x8d, 0x4c, 0x0d, 0, 0, 1, 2, 3, 4, 5, 6, 7, 8, 9, 10, 11, 12]

/-- /repo/recordio/test_files/v3_compat/recordio_UncompressedSingleRecord (27 bytes) -/
def repoV3Single : Bytes :=
  [3, 0, 0, 0, 0, 0, 0, 0, 0x91, 0x8d, 0x4c, 0, 0x0d, 0, 0, 1, 2, 3, 4, 5, 6, 7, 8, 9, 10, 11, 12]

/-- /repo/recordio/test_files/v3_compat/recordio_UncompressedNilAndEmptyRecord (20 bytes) -/
def repoV3NilEmpty : Bytes :=
  [3, 0, 0, 0, 0, 0, 0, 0, 0x91, 0x8d, 0x4c, 1, 0, 0, 0x91, 0x8d, 0x4c, 0, 0, 0]

/-- /repo/recordio/test_files/v3_compat/recordio_UncompressedMagicNumberContent (35 bytes) -/
def repoV3Magic : Bytes :=
  [3, 0, 0, 0, 0, 0, 0, 0, 0x91, 0x8d, 0x4c, 0, 3, 0, 0x91, 0x8d, 0x4c, 0x91, 0x8d, 0x4c, 0, 3, 0, 0x15, 8, 0x17,
   0x91, 0x8d, 0x4c, 0, 3, 0, 0x91, 0x8d, 0x4c]

/-- the first 40 bytes of /repo/recordio/test_files/v2_compat/recordio_UncompressedSingleRecord_directio_trailer
(the remaining 4056 bytes of the 4096-byte file are zero as well) -/
def repoV2DirectIOHead : Bytes :=
  [2, 0, 0, 0, 0, 0, 0, 0, 0x91, 0x8d, 0x4c, 4, 0, 0x0d, 0x06, 0x1d, 0x07] ++ List.replicate 23 0

def thirteen : Bytes := [0, 1, 2, 3, 4, 5, 6, 7, 8, 9, 10, 11, 12]

example : repoV1Single = encFileV1 none 0 [some thirteen] := by decide +kernel
example : repoV2Single = encFileV2 none 0 [some thirteen] := by decide +kernel
example : repoV3Single = encFileV3 none 0 [some thirteen] := by decide +kernel
example : repoV3NilEmpty = encFileV3 none 0 [none, some []] := by decide +kernel
example : repoV3Magic =
    encFileV3 none 0 [some [0x91, 0x8d, 0x4c], some [0x15, 8, 0x17], some [0x91, 0x8d, 0x4c]] := by decide +kernel

example : openReadAllL false (fun _ => none) repoV1Single = ([some thirteen], .eof) := by decide +kernel
example : openReadAllL false (fun _ => none) repoV2Single = ([some thirteen], .eof) := by decide +kernel
example : openReadAllL false (fun _ => none) repoV3Single = ([some thirteen], .eof) := by decide +kernel
example : openReadAllL false (fun _ => none) repoV3NilEmpty = ([none, some []], .eof) := by decide +kernel
example : openReadAllL false (fun _ => none) repoV3Magic =
    ([some [0x91, 0x8d, 0x4c], some [0x15, 8, 0x17], some [0x91, 0x8d, 0x4c]], .eof) := by decide +kernel

/-- the direct-I/O file: one record, then the zero padding reads as end-of-file -/
example : openReadAllL false (fun _ => none) repoV2DirectIOHead = ([some [0x0d, 0x06, 0x1d, 0x07]], .eof) := by
  decide +kernel

/-- random access and `SkipNext` on the repository's files -/
example : readAtL false 1 none repoV1Single 8 = .ok (some thirteen) := by decide +kernel
example : readAtL false 2 none repoV2Single 8 = .ok (some thirteen) := by decide +kernel
example : readAtL false 3 none repoV3NilEmpty 8 = .ok none ∧
    readAtL false 3 none repoV3NilEmpty 14 = .ok (some []) := by decide +kernel
example : skipNextL 1 none (repoV1Single.drop 8) = .ok 33 ∧ skipNextL 2 none (repoV2Single.drop 8) = .ok 18 ∧
    skipNextL 3 none (repoV3NilEmpty.drop 8) = .ok 6 := by decide +kernel

/-- the repository's "magic number content" file has markers inside its payloads but no phantom: the bytes after
an embedded marker announce a payload (9741 bytes) that does not fit, so `SeekNext` from inside the first record
lands on the second one, and from inside the last record on `io.EOF` -/
example : seekNextL false 3 none repoV3Magic 9 = .ok (17, some [0x15, 8, 0x17]) ∧
    seekNextL false 3 none repoV3Magic 18 = .ok (26, some [0x91, 0x8d, 0x4c]) ∧
    seekNextL false 3 none repoV3Magic 27 = .error .eof ∧
    seekNextL false 1 none repoV1Single 8 = .error .other := by decide +kernel

/-- the hypotheses of the round-trip theorems are met by concrete records, and `backL` is not the identity -/
example : FitsL none (some thirteen) ∧ FitsL none none ∧ LawfulC none ∧ Proofs.Legacy.IsVersion 1 ∧
    Proofs.Legacy.IsVersion 3 := by
  refine ⟨by decide, by decide, trivial, by unfold Proofs.Legacy.IsVersion; omega,
    by unfold Proofs.Legacy.IsVersion; omega⟩

/-- `NoPhantomL` is satisfiable: the version 3 file with the nil and the empty record -/
example : NoPhantomL false 3 none 0 [none, some []] := by
  intro p hv
  have hlen : (encFileL 3 none 0 [none, some []]).length = 20 := by decide +kernel
  have hm := Proofs.Legacy.markerAtL_len _ p hv.1
  have h8 : offsetOfL 3 none [none, some []] 0 = 8 := by decide +kernel
  have h14 : offsetOfL 3 none [none, some []] 1 = 14 := by decide +kernel
  have hp : p < 18 := by omega
  have key : ∀ q, q < 18 → q ≠ 8 → q ≠ 14 →
      ¬ ((encFileL 3 none 0 [none, some []]).drop q).take magicBytes.length = magicBytes := by decide +kernel
  by_cases e8 : p = 8
  · exact ⟨0, by simp, by omega⟩
  by_cases e14 : p = 14
  · exact ⟨1, by simp, by omega⟩
  exact absurd hv.1 (key p hp e8 e14)

/-- a toy lawful compressor (one byte in front), to exercise the compressed paths -/
def toyComp : Comp := ⟨fun x => 0x2a :: x, fun | _ :: t => some t | [] => none⟩

example : LawfulC (some toyComp) := fun _ => rfl

/-- a compressed version 1 file read with a nil-returning decompressor: the empty AND the nil record come back nil;
with an empty-slice-returning one both come back empty; version 2 and 3 do not depend on it -/
example :
    openReadAllL true (fun _ => some toyComp) (encFileV1 (some toyComp) 1 [some [], none, some [7]]) =
      ([none, none, some [7]], .eof) ∧
    openReadAllL false (fun _ => some toyComp) (encFileV1 (some toyComp) 1 [some [], none, some [7]]) =
      ([some [], some [], some [7]], .eof) ∧
    openReadAllL true (fun _ => some toyComp) (encFileV2 (some toyComp) 1 [some [], none, some [7]]) =
      ([some [], some [], some [7]], .eof) ∧
    openReadAllL true (fun _ => some toyComp) (encFileV3 (some toyComp) 1 [some [], none, some [7]]) =
      ([some [], none, some [7]], .eof) := by decide +kernel

end SST.C04.Legacy
