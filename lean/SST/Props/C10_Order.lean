/-
C10 (order tie) — the ORDER of file-system actions of recovery (`Open`: repairCompactions, reconstructSSTables,
replayAndSetupWriteAheadLog) as it is in the Go source TODAY, over the table tools/orderfacts regenerates from /repo
before every proof build (see Props/C02_Order.lean for what that means), and the agreement of the model's recovery
event order (`recoverEvents`: `cleanStep` / `phase3Events`, Model/FS.lean) with it.
-/
import SST.Spec.Order
namespace SST.C10.Order
open SST SST.OrderSpec SST.Generated.Order SST.FS SST.DBM

theorem listed_functions_found :
    (["DB.Open", "DB.repairCompactions", "DB.reconstructSSTables", "DB.replayAndSetupWriteAheadLog",
      "simpledb.isUnfinishedTable", "simpledb.removeUnfinishedTable",
      "SSTableManager.reflectCompactionResult", "wal.NewAppender", "wal.setupNextWriter"].all foundFn) = true := by decide +kernel

/-- `Open`: the three recovery phases in this order, each unconditional, before any background goroutine starts.
Since edfc7e7 a deferred block, registered BEFORE the first phase (so it covers all three), gives the tables loaded so
far back when — and only when — `Open` fails: close the readers, forget them, all under `err != nil`; a successful
`Open` closes nothing (the deferred blocks are exactly the unlock and this one). -/
theorem recovery_phases_in_order :
    let xs := itemsOf "DB.Open"
    inOrder [.repairCompactions, .reconstructSSTables, .replayAndSetupWal, .spawnFlusher] xs = true ∧
    allBefore .replayAndSetupWal .spawnCompactor xs = true ∧
    [Label.repairCompactions, .reconstructSSTables, .replayAndSetupWal].all (fun l => unconditional l xs) = true ∧
    deferredBlocks xs =
      [[.act .unlock], [.ifBegin "errNonNil", .act .currentSSTable, .act .readerClose, .act .clearReaders, .ifEnd]] ∧
    allBefore .clearReaders .repairCompactions xs = true ∧
    occurs .readerClose (immediate 0 xs) = false ∧ occurs .clearReaders (immediate 0 xs) = false ∧
    noOther xs = true := by decide +kernel

/-- D15 (c63f907), live side: `reflectCompactionResult` closes and deletes every compacted table (all of
`SstablePaths`, from the first) before the rename — the rename takes the success flag away with it -/
theorem reflect_deletes_before_rename :
    let xs := itemsOf "SSTableManager.reflectCompactionResult"
    allBefore .removeAllInput .renameIntoPlace xs = true ∧
    inFullLoop .removeAllInput "simpledb/proto.CompactionMetadata.SstablePaths" xs = true ∧
    allBefore .readerClose .removeAllInput xs = true ∧ firstBefore .renameIntoPlace .openReader xs = true ∧
    count .renameIntoPlace xs = 1 ∧ unconditional .renameIntoPlace xs = true ∧ noOther xs = true := by decide +kernel

/-- D15 (c63f907), recovery side: `repairCompactions` deletes the other inputs (every one of `SstablePaths` except the
replacement), then whatever sits at the replacement path, and renames LAST -/
theorem repair_deletes_before_rename :
    let xs := itemsOf "DB.repairCompactions"
    inOrder [.removeAllInput, .removeAllReplacement, .renameIntoPlace] xs = true ∧
    inFullLoop .removeAllInput "simpledb/proto.CompactionMetadata.SstablePaths" xs = true ∧
    -- the one condition: the element of `SstablePaths` at hand is not the replacement path (the same list whether the
    -- source says `if p != repl { remove }` or `if p == repl { continue }; remove`)
    condsAround .removeAllInput [] xs =
      [["elem(simpledb/proto.CompactionMetadata.SstablePaths) != simpledb/proto.CompactionMetadata.ReplacementPath"]] ∧
    count .renameIntoPlace xs = 1 ∧ noOtherBetween .removeAllInput .renameIntoPlace xs = true ∧ noOther xs = true := by
  decide +kernel

/-- unflagged (unfinished or unreadable) compaction directories are deleted before any flagged one is finished — the
order `cleanStep` has -/
theorem unflagged_compactions_deleted_first :
    let xs := itemsOf "DB.repairCompactions"
    allBefore .removeAllUnflaggedCompaction .removeAllInput xs = true ∧
    -- the directories to delete: a local string list collected by the walk (`‹[]string›`); the flagged ones are a list
    -- of metadata records
    inFullLoop .removeAllUnflaggedCompaction "‹[]string›" xs = true ∧
    inFullLoop .removeAllReplacement "‹[]*simpledb/proto.CompactionMetadata›" xs = true ∧
    -- the flag is read (and its reader closed) inside the directory walk, before anything is deleted
    inOrder [.osStat, .newFlagReader, .openFlagReader, .readFlag] xs = true ∧
    allBefore .readFlag .removeAllUnflaggedCompaction xs = true := by decide +kernel

/-- tables are visited in name order: sorted, every element from index 0 -/
theorem tables_loaded_in_name_order :
    inSortedFullLoop .loadTable "‹[]string›" (itemsOf "DB.reconstructSSTables") = true ∧
    inSortedFullLoop .addReader "‹[]string›" (itemsOf "DB.reconstructSSTables") = true := by decide +kernel

/-- 2cc0c75: a directory whose metadata file exists and is empty is discarded BEFORE the reader gets to load it; the
check after a failed load (`isUnfinishedTable`) is the older path for tables whose files are missing.  In the normal
form the loop body is: the check; then `if <metadata empty> { remove } else { load; if err { isUnfinished?; … remove }
else { addReader } }` — however the source spells the `continue`s and `return`s.  `pathConds`: everything known when the
action is reached, i.e. the conditions around it and (as `not:`) the guards passed before it.
The check is the `os.Stat` of `<table directory of this iteration>/meta.pb.bin` (label `hasEmptyMetadataCheck`) and the
predicate "no error and size 0" over its result — the table is the same whether stat + predicate stand in a private helper
(`hasEmptyMetadata`, today) or are written out in the loop; likewise the predicate of `isUnfinishedTable` is spelled out. -/
theorem empty_metadata_checked_before_load :
    let xs := itemsOf "DB.reconstructSSTables"
    let b := loopBody "‹[]string›" xs
    let emptyMeta := "errNil && io/fs.FileInfo.Size() == 0"
    let notUnfinished := "!os.IsNotExist(‹error›) && (errNonNil || io/fs.FileInfo.Size() != 0)"
    firstBefore .hasEmptyMetadataCheck .loadTable xs = true ∧
    -- for EVERY table: the check is the first thing the loop body does, and it is done once
    firstIdx .hasEmptyMetadataCheck b = some 0 ∧ count .hasEmptyMetadataCheck xs = 1 ∧
    -- the table is loaded exactly when its metadata is not empty, once, not in an inner loop
    condsAround .loadTable [] b = [["else: " ++ emptyMeta]] ∧ loopsAround .loadTable [] b = [[]] ∧
    -- removed: when the metadata is empty; or when it is not, the load failed, and the table is unfinished (the guard
    -- `!isUnfinishedTable → return err` was passed)
    pathConds .removeUnfinishedTable b =
      [[emptyMeta],
       ["not: " ++ notUnfinished, "errNonNil", "else: " ++ emptyMeta]] ∧
    -- added to the readers: metadata not empty and the load succeeded
    pathConds .addReader b = [["else: errNonNil", "else: " ++ emptyMeta]] ∧
    allBefore .loadTable .isUnfinishedTableCheck xs = true ∧ noOther xs = true := by decide +kernel

/-- d2bdde6: an unfinished table is removed index.rio FIRST, then the directory; recovery never calls `RemoveAll` on a
table directory directly -/
theorem unfinished_table_index_removed_first :
    acts (itemsOf "simpledb.removeUnfinishedTable") = [.removeIndexFileFirst, .removeAllTableDir] ∧
    unconditional .removeIndexFileFirst (itemsOf "simpledb.removeUnfinishedTable") = true ∧
    noOther (itemsOf "simpledb.removeUnfinishedTable") = true ∧
    occurs .removeAllTableDir (itemsOf "DB.reconstructSSTables") = false ∧
    count .removeUnfinishedTable (itemsOf "DB.reconstructSSTables") = 2 := by decide +kernel

/-- D16 (86e2d95) + C10-m1: after the replayed records are flushed into a table the WAL files are removed OLDEST FIRST —
names sorted, every file from index 0 —, then the directory is removed and re-created, then the fresh log starts -/
theorem wal_files_removed_oldest_first :
    let xs := itemsOf "DB.replayAndSetupWriteAheadLog"
    inSortedFullLoop .removeWalFileInRecovery "‹[]string›" xs = true ∧ count .removeWalFileInRecovery xs = 1 ∧
    inOrder [.replayWal, .executeFlushInRecovery, .readDir, .sortStrings "‹[]string›", .removeWalFileInRecovery,
             .removeAllWalDir, .mkdirWalDir, .newWal] (xs.drop 1) = true ∧
    firstIdx .mkdirWalDir xs = some 0 ∧ unconditional .removeAllWalDir xs = true ∧
    noOtherBetween .replayWal .newWal xs = true := by decide +kernel

/-- the recovery flush has no WAL path (its `removeWalFile` is skipped: the files go in the sorted loop afterwards),
and it runs on the swapped-out store -/
theorem recovery_flush_before_wal_removal :
    let xs := itemsOf "DB.replayAndSetupWriteAheadLog"
    inOrder [.swapMemstore, .executeFlushInRecovery, .removeWalFileInRecovery] xs = true ∧
    -- under one condition: the record counter (an integer local) is not zero
    condsAround .executeFlushInRecovery [] xs = [["‹int› != 0"]] := by decide +kernel

/-- the fresh WAL: the file is created, then its header written -/
theorem fresh_wal_created_then_header :
    acts (itemsOf "wal.NewAppender") = [.setupNextWriter] ∧
    allBefore .walWriterFactory .openWalWriter (itemsOf "wal.setupNextWriter") = true := by decide +kernel

/-- in the model, too, the other inputs go before the replacement, the rename is last among the events of a flagged
compaction, and the WAL files go in number order: events on table 2 (input) < events on table 1 (replacement) <
rename; `walUnlink 0` < `walUnlink 1` < `walDirRemove` -/
theorem model_repair_order_by_object :
    (recoverEvents dRecover).filter (fun e => e matches .tblUnlinkPart _ _ || e matches .tblRmdir _ || e matches .compRename _ _
        || e matches .walUnlink _ || e matches .walDirRemove) =
      [.tblUnlinkPart 2 true, .tblUnlinkPart 2 false, .tblRmdir 2, .tblUnlinkPart 1 true, .tblUnlinkPart 1 false, .tblRmdir 1,
       .compRename 2 1, .tblRmdir 3, .walUnlink 0, .walUnlink 1, .walDirRemove] := by decide +kernel

/-- MODEL = SOURCE, recovery: the event kinds of `recoverEvents` on a directory with an unflagged compaction, a flagged
one (tables 1, 2 → 1), an unfinished table and two WAL files are, in order, what `Open` does on the corresponding
path through repairCompactions / reconstructSSTables / replayAndSetupWriteAheadLog (→ executeFlush → … → NewAppender);
and the same on an empty directory.  (`MkdirAll` of the existing WAL directory is no event: `dropFirstMkdir`.) -/
theorem model_recovery_order_matches_source :
    dropFirstMkdir (srcKinds .table (cfgOpen true) "DB.Open") = some (modelKinds (recoverEvents dRecover)) ∧
    srcKinds .table (cfgOpen false) "DB.Open" = some (modelKinds (recoverEvents {})) ∧
    modelKinds (recoverEvents dRecover) =
      [.compUnlinkPart, .compRmdir, .tblUnlinkPart, .tblUnlinkPart, .tblRmdir, .tblUnlinkPart, .tblUnlinkPart, .tblRmdir, .compRename,
       .tblRmdir, .tblMkdir, .tblLoadable, .tblMetaCreate, .tblComplete, .walUnlink, .walUnlink, .walDirRemove, .walDirCreate,
       .walCreate, .walHeader] := by decide +kernel

/-- the C10 part of `model_order_matches_source` -/
theorem model_order_matches_source :
    dropFirstMkdir (srcKinds .table (cfgOpen true) "DB.Open") = some (modelKinds (recoverEvents dRecover)) ∧
    srcKinds .table (cfgOpen false) "DB.Open" = some (modelKinds (recoverEvents {})) :=
  ⟨model_recovery_order_matches_source.1, model_recovery_order_matches_source.2.1⟩

end SST.C10.Order
