/-
C14 — The memstore behaves as a map with tombstones and flushes to an equal table.
Property theorems only; lemmas live in SST/Proofs/MemStore*.lean.

Vocabulary: `prog : List (Op × Nat)` is any sequence of calls (keys and values are `GoBytes`, so nil, empty and
non-empty keys/values are all covered), each paired with the node height `randomHeight` draws if the call
inserts (`HeightsOk`: heights ≥ 1; every result is independent of them).  `run MemStore.empty prog` is the
model of memstore.go (skip list of value pointers + heap of slices + `estimatedSize` in `Int`);
`refRun [] ops` is the reference map (`Bytes → absent | tomb | val v` as a strictly ascending association
list, SST/Spec/MemStore.lean).  `finalM prog` / `finalR prog` are the two states after the program.
Nil keys: `Add`/`Upsert` reject them (KeyNil, checked before ValueNil); `Delete`, `DeleteIfExists`,
`Tombstone`, `Get`, `Contains`, `IsTombstoned` do not check and treat nil as the empty key, as coded.
-/
import SST.Proofs.MemStoreIter
namespace SST.C14
open SST SST.Mem SST.Proofs.MemP

/-- Every result and every error of every call of every program equals the reference map's; in particular
the model never reaches a Go panic (duplicate skip-list insert, wild value pointer). -/
theorem memstore_refines (prog : List (Op × Nat)) (hh : HeightsOk prog) :
    (run MemStore.empty prog).1 = (refRun [] (prog.map (·.1))).1 ∧
    Res.panic ∉ (run MemStore.empty prog).1 := by
  have h := (final_sim prog hh).1
  exact ⟨h, h ▸ refRun_no_panic _ _⟩

/-- The reference really is a map: reading after `put` returns the new cell for that key and the old
answer for every other key (so `refStep` is "a map in which a deleted key stays present as a tombstone"). -/
theorem refmap_get_put (k k' : Bytes) (c : Cell) (r : RefMap) :
    RefMap.get k' (RefMap.put k c r) = if k' = k then some c else RefMap.get k' r :=
  ref_get_put k k' c r

/-- After any program the `SStableIterator` yields exactly the reference map's entries (keys up to
nil = empty), nil values for tombstones, in strictly ascending key order. -/
theorem iter_sorted_with_tombstones (prog : List (Op × Nat)) (hh : HeightsOk prog) :
    ∃ l, iter (finalM prog) = some l ∧
      l.map (fun e => (e.1.getD [], e.2)) = (finalR prog).entries ∧
      StrictAsc goCmp l := by
  obtain ⟨_, hw, hv⟩ := final_sim prog hh
  rw [← hv]
  exact iter_spec hw

/-- `Size()` counts live and tombstoned keys. -/
theorem size_counts_tombstones (prog : List (Op × Nat)) (hh : HeightsOk prog) :
    (finalM prog).sl.size = (finalR prog).liveCount + (finalR prog).tombCount := by
  obtain ⟨_, _, hv⟩ := final_sim prog hh
  rw [← length_eq_live_add_tomb, ← hv, view_length]

/-- The running size estimate, computed in `Int` with the Go expressions, equals Σ (|key| + |value|) over
the reference map's entries (a tombstone has 0 value bytes) after every program — hence after every
call — and so is never negative: the Go `uint64` never wraps below zero.
(`EstimatedSizeInBytes` = `uint64(1.15*float32(·))` of this number is float arithmetic outside the model;
the harness checks it against the Go value computed from the reference sum.) -/
theorem size_estimate_exact (prog : List (Op × Nat)) (hh : HeightsOk prog) :
    (finalM prog).est = (((finalR prog).bytes : Nat) : Int) ∧ 0 ≤ (finalM prog).est := by
  obtain ⟨_, hw, hv⟩ := final_sim prog hh
  have := hw.est
  rw [hv] at this
  exact ⟨this, by rw [this]; exact Int.natCast_nonneg _⟩

/-- `Flush`: the `WriteNext(k, v)` calls are the reference map's live entries (tombstoned keys left out),
strictly ascending, and the writer's key-order check accepts every one of them. -/
theorem flush_eq_map (prog : List (Op × Nat)) (hh : HeightsOk prog) :
    ∃ calls, flushCalls (finalM prog) false = some calls ∧
      flush (finalM prog) false = some (.ok calls) ∧
      calls.map (fun e => (e.1.getD [], e.2)) = (finalR prog).liveEntries ∧
      StrictAsc goCmp calls := by
  obtain ⟨_, hw, hv⟩ := final_sim prog hh
  obtain ⟨calls, h1, h2, h3, h4⟩ := flush_spec hw false
  refine ⟨calls, h1, h2, ?_, h4⟩
  rw [h3, hv]
  simp [RefMap.liveEntries]

/-- `FlushWithTombstones`: the calls are all entries of the reference map, nil value for a tombstone. -/
theorem flushWithTombstones_eq_map (prog : List (Op × Nat)) (hh : HeightsOk prog) :
    ∃ calls, flushCalls (finalM prog) true = some calls ∧
      flush (finalM prog) true = some (.ok calls) ∧
      calls.map (fun e => (e.1.getD [], e.2)) = (finalR prog).entries ∧
      StrictAsc goCmp calls := by
  obtain ⟨_, hw, hv⟩ := final_sim prog hh
  obtain ⟨calls, h1, h2, h3, h4⟩ := flush_spec hw true
  refine ⟨calls, h1, h2, ?_, h4⟩
  rw [h3, hv]
  simp

/-- The comparator the memstore hands to the skip list and to the table writer is consistent. -/
theorem goCmp_lawful : LawfulCmp goCmp := Proofs.MemP.goCmp_lawful

/-! Quirks of the code as it is, as concrete facts about the model (each also exercised on the Go code by
the `mem` stream). -/

/-- `Tombstone(nil)` is accepted and tombstones the EMPTY key; the stored key is nil (the iterator hands
out a nil key), `Get([]byte{})` then answers KeyTombstoned, and the estimate stays 0. -/
theorem tombstone_nil_key_is_empty_key :
    (run MemStore.empty [(.tombstone none, 1), (.get (some []), 1), (.size, 1)]).1
        = [.err none, .got none (some .keyTombstoned), .size 1] ∧
    iter (finalM [(.tombstone none, 1)]) = some [(none, none)] ∧
    (finalM [(.tombstone none, 1)]).est = 0 := by
  decide

/-- `DeleteIfExists` of an absent key leaves no tombstone, `Delete` of it fails, `Delete` of a tombstoned
key succeeds again, `Add` over a tombstone succeeds, a stored empty value is a live value. -/
theorem delete_quirks :
    (run MemStore.empty
      [(.deleteIfExists (some [1]), 1), (.size, 1), (.delete (some [1]), 1),
       (.tombstone (some [1]), 2), (.delete (some [1]), 1), (.add (some [1]) (some []), 1),
       (.get (some [1]), 1), (.add (some [1]) (some [7]), 1), (.add none none, 1), (.add (some []) none, 1)]).1
      = [.err none, .size 0, .err (some .keyNotFound),
         .err none, .err none, .err none,
         .got (some []) none, .err (some .keyAlreadyExists), .err (some .keyNil), .err (some .valueNil)] := by
  decide

/-! Non-vacuity: a concrete program meets `HeightsOk`, and the theorems' conclusions evaluate on it. -/

example : HeightsOk [(.add (some [2]) (some [9, 9]), 3), (.tombstone (some [1]), 1),
    (.upsert (some [2]) (some []), 12), (.delete (some [2]), 1), (.add (some [2]) (some [5]), 2)] := by
  unfold HeightsOk; decide

example : flush (finalM [(.add (some [2]) (some [9, 9]), 3), (.tombstone (some [1]), 1),
    (.upsert (some [3]) (some []), 12)]) true
    = some (.ok [(some [1], none), (some [2], some [9, 9]), (some [3], some [])]) := by
  rfl

example : flush (finalM [(.add (some [2]) (some [9, 9]), 3), (.tombstone (some [1]), 1),
    (.upsert (some [3]) (some []), 12)]) false
    = some (.ok [(some [2], some [9, 9]), (some [3], some [])]) := by
  rfl

end SST.C14
