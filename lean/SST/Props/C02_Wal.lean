/-
C02 (synchronous WAL) — the composition step between the BYTES of the write-ahead log and the abstract disk of
L6-fs on which C02 / C10 / C13 are proved.

L6-fs (SST/Model/FS.lean) treats a log file as `WalFile = { num, header, recs : List Mutation, torn }` and recovery as
"replay `recs` of all files in order; only the last file may lack its header or end in a torn piece".
L5 (SST/Model/Wal.lean, C07) has the real bytes: recordio frames, the buffered writer's chunks, the replayer.
Here: the protobuf form of the record (`SST/Model/WalMutation.lean`: what `PutBytes`/`DeleteBytes` marshal, what
the recovery callback unmarshals and dispatches), the abstraction function `absWal` from a byte-level directory
to `List WalFile` (`SST/Spec/WalAbs.lean`), and the theorems that the abstraction commutes with recovery and with
every single file-system event of the appender.  Proofs: SST/Proofs/{WalMutation,WalAbs}.lean.
-/
import SST.Proofs.WalAbs
namespace SST.C02.WalBytes
open SST SST.FS SST.WalMut SST.WalAbs Generated
open SST.Proofs.WalMut (MutFits Loggable)
open SST.Proofs.WalAbs (DecodesMut LogOk)

/-! ## the record: marshal / unmarshal / dispatch -/

/-- `Unmarshal(Marshal(WalMutation{Addition{KeyBytes k, ValueBytes v}}))`, for ALL `k`, `v` (any UTF-8 oracle):
the oneof holds an upsert with exactly the non-empty bytes fields. -/
theorem decode_encode_put (utf8 : Bytes → Bool) (k v : Bytes) (h : MutFits (.put k v)) :
    decWalMutation utf8 (encPut k v) = .ok (.add (Proofs.WalMut.upsertFields k v)) :=
  Proofs.WalMut.decode_encode_put utf8 k v h

/-- A record of `PutBytes(k, v)` (non-empty key and value: everything `PutBytes` logs) replays as `put k v`. -/
theorem replay_put (utf8 : Bytes → Bool) (k v : Bytes) (h : MutFits (.put k v)) (hk : k ≠ []) (hv : v ≠ []) :
    replayRecord utf8 (some (encPut k v)) = .ok (.mut (.put k v)) :=
  Proofs.WalMut.replay_put utf8 k v h hk hv

/-- A record of `DeleteBytes(k)` replays as `del k` for EVERY key, the empty one included (`12 00`). -/
theorem decode_encode_del (utf8 : Bytes → Bool) (k : Bytes) (h : MutFits (.del k)) :
    replayRecord utf8 (some (encDel k)) = .ok (.mut (.del k)) :=
  Proofs.WalMut.decode_encode_del utf8 k h

/-- As coded: an upsert record with a key and an EMPTY value makes the memstore reject it — `Open` fails.
(`PutBytes` validates before it logs, so the database never writes one.) -/
theorem replay_put_empty_value (utf8 : Bytes → Bool) (k : Bytes) (h : MutFits (.put k [])) (hk : k ≠ []) :
    replayRecord utf8 (some (encPut k [])) = .error .rejected :=
  Proofs.WalMut.replay_put_empty_value utf8 k h hk

/-! ## recovery commutes with the abstraction -/

/-- `replay_refines_abstract`: for EVERY directory image the appender can leave at a kill (`Img`: files
`0 .. j-1` complete, file `j` any byte prefix of its final content — exactly what `C07.crash_image_shape` admits),
EVERY lawful compressor and EVERY record content (decodable or not): recovery on the bytes — `Replayer.Replay` with
the unmarshal-and-apply callback — and recovery on the abstract files — `FS.walReadable`, `FS.walMuts` — either
both fail or both replay the same mutations in the same order. -/
theorem replay_refines_abstract (cOf : Nat → Compression) (utf8 : Bytes → Bool) (c : Compression) (ct : Nat)
    (hc : cOf ct = c) (hl : LawfulC c) (hct : ct ≤ maxCompression) (full : List (List GoBytes))
    (hf : Proofs.FitsAll c full) (hm : full.length ≤ maxWalFiles) (d : DirN)
    (hd : Img (fileOf c ct full) full.length d) :
    byteRecovery cOf utf8 d = (absWal cOf utf8 d).bind absRecovery :=
  Proofs.WalAbs.replay_refines_abstract cOf utf8 c ct hc hl hct full hf hm d hd

/-- `appender_events_refine`: for EVERY program over Append/AppendSync/Rotate whose records the callback turns
into mutations, and EVERY number `n` of byte-level file-system events (create / one write per chunk of the
buffered writer / fsync / close; the final `Close` included): the abstraction of the directory after `n` events
IS the abstract disk after the abstract events they map to (`walCreate`; `walHeader` when the header becomes
complete; one `walAppend` per record that becomes complete; `walTorn` when a piece of a further record is in the
file afterwards; `walClose`). -/
theorem appender_events_refine (o : WalOpts) (c : Compression) (cOf : Nat → Compression) (utf8 : Bytes → Bool)
    (hra : ReaderAgrees cOf o c) (hl : LawfulC c) (prog : List WalOp) (hpf : ProgFits c prog)
    (hdec : ∀ r ∈ walRecords o c prog, DecodesMut utf8 r) (n : Nat) :
    absWal cOf utf8 (dirAfterN ((walEventsClosed o c prog).take n)) =
      some (applyEvs disk0 (mapEvs cOf utf8 [] ((walEventsClosed o c prog).take n))).wal :=
  Proofs.WalAbs.appender_events_refine o c cOf utf8 hra hl prog hpf hdec n

/-- the abstract events of the first `n` byte-level events are a prefix of the abstract events of the run -/
theorem abstract_events_prefix (cOf : Nat → Compression) (utf8 : Bytes → Bool) (evs : List FsEvent) (n : Nat) :
    mapEvs cOf utf8 [] (evs.take n) <+: mapEvs cOf utf8 [] evs :=
  Proofs.WalAbs.mapEvs_take_prefix cOf utf8 evs n

/-- LOGGED BEFORE ACKNOWLEDGED (the step C02's abstract model takes as `[walTorn, walAppend]` before the call
returns): for EVERY list `ms` of mutations logged synchronously — hence at the return of every single call of a
session —, when the last `AppendSync` has returned the abstraction of what is on disk is a readable WAL that
holds every mutation issued so far, in order.  No `Close`, no assumption on what else sits in buffers. -/
theorem sync_log_durable (o : WalOpts) (c : Compression) (cOf : Nat → Compression) (utf8 : Bytes → Bool)
    (hra : ReaderAgrees cOf o c) (hl : LawfulC c) (ms : List Mutation) (h : LogOk c ms) :
    ∃ W, absWal cOf utf8 (dirAfterN (walEvents o c (logProg true ms))) = some W ∧
      walReadable W = true ∧ walMuts W = ms :=
  Proofs.WalAbs.sync_log_durable o c cOf utf8 hra hl ms h

/-- ... and a kill anywhere (general form, any mix of Append/AppendSync/Rotate): the abstract WAL of the image is
readable and holds a prefix of the issued mutations containing everything up to the last synchronous append that
had returned (`durableWithin`, the measure of `C07.replay_after_crash`). -/
theorem crash_image_abstract (o : WalOpts) (c : Compression) (cOf : Nat → Compression) (utf8 : Bytes → Bool)
    (hra : ReaderAgrees cOf o c) (hl : LawfulC c) (prog : List WalOp) (hpf : ProgFits c prog)
    (hdec : ∀ r ∈ walRecords o c prog, DecodesMut utf8 r) (issued : List Mutation)
    (hiss : replayRecords utf8 (walRecords o c prog) = some issued) (n : Nat) :
    ∃ W p, absWal cOf utf8 (dirAfterN ((walEventsClosed o c prog).take n)) = some W ∧
      walReadable W = true ∧ walMuts W = issued.take p ∧
      durableWithin o c prog n ≤ p ∧ p ≤ issued.length :=
  Proofs.WalAbs.crash_image_abstract o c cOf utf8 hra hl prog hpf hdec issued hiss n

/-! ## non-vacuity: a concrete two-file image with a torn last record -/

/-- file 0: one upsert, complete; file 1: a tombstone and an upsert (43 bytes), cut after 30 bytes -/
def file0 : Bytes := fileBytes none 0 [some (encPut [1] [2])]
def file1 : Bytes := fileBytes none 0 [some (encDel [1]), some (encPut [3] [4])]
def image : DirN := [(0, file0), (1, file1.take 30)]

/-- the abstraction is the expected `WalFile` list: the cut record shows up as `torn` only -/
example : absWal (fun _ => none) (fun _ => true) image =
    some [{ num := 0, recs := [.put [1] [2]] }, { num := 1, recs := [.del [1]], torn := true }] := by
  decide +kernel

/-- both recoveries replay the same two mutations -/
example : byteRecovery (fun _ => none) (fun _ => true) image = some [.put [1] [2], .del [1]] := by
  decide +kernel
example : (absWal (fun _ => none) (fun _ => true) image).bind absRecovery = some [.put [1] [2], .del [1]] := by
  decide +kernel

/-- the image is one `replay_refines_abstract` speaks about -/
example : Img (fileOf none 0 [[some (encPut [1] [2])], [some (encDel [1]), some (encPut [3] [4])]]) 2 image :=
  Or.inr ⟨1, file1.take 30, by decide, List.take_prefix _ _, rfl⟩

/-- were a file cut inside a payload NOT the last one, both sides fail -/
example : byteRecovery (fun _ => none) (fun _ => true) [(0, file1.take 38), (1, file0)] = none := by
  decide +kernel
example : (absWal (fun _ => none) (fun _ => true) [(0, file1.take 38), (1, file0)]).bind absRecovery = none := by
  decide +kernel

/-- Why the refinement is stated for crash images (`Img`) and not for arbitrary damage: a NON-last file cut exactly
between two fields of a record header (here after the length fields, before the header checksum) reads as a clean
end of file — the replayer continues with the next file and the cut record is silently dropped —, whereas the
abstract model counts every leftover piece as `torn` and lets recovery fail.  No kill produces such a directory
(`C07.crash_image_shape`); the abstract model is the stricter one. -/
theorem nonlast_cut_at_field_boundary :
    byteRecovery (fun _ => none) (fun _ => true) [(0, file1.take 30), (1, file0)] =
      some [.del [1], .put [1] [2]] ∧
    (absWal (fun _ => none) (fun _ => true) [(0, file1.take 30), (1, file0)]).bind absRecovery = none := by
  constructor <;> decide +kernel

/-- a loggable list meets `LogOk` -/
example : LogOk none [.put [1] [2], .del [], .put [3] [4]] :=
  { fits := by intro m hm; simp at hm; rcases hm with rfl | rfl | rfl <;> simp [MutFits]
    loggable := by intro m hm; simp at hm; rcases hm with rfl | rfl | rfl <;> simp [Loggable]
    frame := by
      intro m hm; simp at hm
      rcases hm with rfl | rfl | rfl <;> exact ⟨by decide +kernel, by decide⟩
    short := by decide }

end SST.C02.WalBytes
