/-
C16 (pointer level) — the POINTER SURGERY of skiplist/map_generic.go refines the height-list model of C16.

Model: SST/Model/SkipListPtr.lean — nodes in an arena, one forward pointer per level (`next : List (Option
Nat)`), the head with `maxHeight` = 12 pointers, `findGreaterOrEqual` as coded (descent from level
`maxHeight-1`, `prevTable` filled when given), `Insert` as coded (duplicate panic, the dead re-balancing
branch, `x.SetNext(i, prevTable[i].Next(i)); prevTable[i].SetNext(i, x)` per level), `Get`, `Contains`, `Size`,
the three iterator constructors and `Iterator.Next` (keyHigher, doneNext).  `none` = the Go code panics
(duplicate, index out of range, nil dereference) or a fuelled loop ran dry; the theorems show that on
well-formed structures only the duplicate panic exists, i.e. the fuel is sufficient.

Relation: `WF cmp pl` = there is an `order` (addresses with abstract nodes, level-0 order) such that for
EVERY level `l < maxHeight` the level-`l` pointer chain from the head visits exactly the addresses of the
entries of height > `l`, in order, ending in nil (`Rep.chain`); addresses distinct; each abstract node =
key, value, length of the node's pointer array; heights in 1..maxHeight; `size` = number of entries;
keys strictly ascending.  `abs pl` = the height-list `SkipList` read off the level-0 chain.
Lemmas: SST/Proofs/SkipListPtr{Basic,Find,Insert,Refine}.lean.
Quantification: all lawful comparators, all keys/values, all heights 1 ≤ h ≤ maxHeight (what `randomHeight`
returns), all well-formed structures (in particular everything reachable from `NewSkipListMap` by inserts).
-/
import SST.Proofs.SkipListPtrRefine
namespace SST.C16.Ptr
open SST SST.SkipListPtr

variable {K V : Type}

/-- the empty map is well-formed and its abstract image is the empty height-list -/
theorem empty_wf (cmp : K → K → Ordering) :
    WF cmp (SkipListPtr.empty : PList K V) ∧
      abs (SkipListPtr.empty : PList K V) = SkipList.empty :=
  ⟨wf_empty cmp, abs_empty⟩

/-- WF, read functionally: following the level-`l` pointers from the head yields exactly the abstract
nodes of height > `l`, in order (level 0: all of them — that list is `abs pl`). -/
theorem wf_levels (cmp : K → K → Ordering) (pl : PList K V) (hwf : WF cmp pl) (l : Nat)
    (hl : l < pl.maxHeight) :
    (levelList pl l).map (·.2) = (abs pl).nodes.filter fun n => l < n.height :=
  levelList_abs hwf hl

/-- The pointer-level descent returns the address of the node the height-list `findGE` returns (nil if
none); no panic, fuel suffices; a given `prevTable` ends up holding, in every slot `l`, the level-`l`
predecessor of the returned position (`predRef`: the last node before it linked into level `l`, else
the head). -/
theorem findGE_refines (cmp : K → K → Ordering) (hl : LawfulCmp cmp) (pl : PList K V)
    (hwf : WF cmp pl) (key : K) (pt : Option (List (Option Ref)))
    (hpt : ∀ t, pt = some t → t.length = pl.maxHeight) :
    ∃ pt', SkipListPtr.findGE cmp pl key pt
        = some ((SkipList.findGE cmp (abs pl) key).1.bind
            (fun j => (levelList pl 0)[j]?.map (·.1)), pt') ∧
      (pt = none → pt' = none) ∧
      ∀ t, pt = some t → ∃ t', pt' = some t' ∧ t'.length = pl.maxHeight ∧
        ∀ l, l < pl.maxHeight → t'[l]? = some (some
          (predRef ((levelList pl 0).take (SkipList.findGE cmp (abs pl) key).2) l)) :=
  SkipListPtr.findGE_refines hl hwf key pt hpt

/-- `Insert` (pointer surgery) preserves WF and is the height-list `insert` on the abstract image, for
every height 1 ≤ h ≤ maxHeight; it panics exactly when the height-list `insert` reports a duplicate. -/
theorem insert_refines (cmp : K → K → Ordering) (hl : LawfulCmp cmp) (pl : PList K V)
    (hwf : WF cmp pl) (k : K) (v : V) (h : Nat) (h1 : 1 ≤ h) (hh : h ≤ pl.maxHeight) :
    match SkipList.insert cmp (abs pl) k v h with
    | none => SkipListPtr.insert cmp pl k v h = none
    | some s' => ∃ pl', SkipListPtr.insert cmp pl k v h = some pl' ∧ WF cmp pl' ∧ abs pl' = s' ∧
        pl'.maxHeight = pl.maxHeight :=
  SkipListPtr.insert_refines hl hwf k v h h1 hh

/-- every read of a well-formed pointer structure equals the height-list model's read on `abs pl` -/
theorem reads_refine (cmp : K → K → Ordering) (hl : LawfulCmp cmp) (pl : PList K V)
    (hwf : WF cmp pl) :
    SkipListPtr.size pl = (abs pl).size ∧
    SkipListPtr.iterAll cmp pl = some (SkipList.iterAll (abs pl)) ∧
    (∀ k, SkipListPtr.get cmp pl k = some (SkipList.get cmp (abs pl) k)) ∧
    (∀ k, SkipListPtr.contains cmp pl k = some (SkipList.contains cmp (abs pl) k)) ∧
    (∀ k, SkipListPtr.iterFrom cmp pl k = some (SkipList.iterFrom cmp (abs pl) k)) ∧
    (∀ lo hi, SkipListPtr.iterBetween cmp pl lo hi
      = some (SkipList.iterBetween cmp (abs pl) lo hi)) :=
  SkipListPtr.reads_refine hl hwf

/-- Any insertion order of distinct keys, any heights 1 ≤ h ≤ 12: the pointer structure is well-formed,
its abstract image is the height-list model's list, and size / Get / Contains / Iterator /
IteratorStartingAt / IteratorBetween equal the height-list model's. -/
theorem skiplist_ptr_refines (cmp : K → K → Ordering) (hl : LawfulCmp cmp) (ins : List (K × V × Nat))
    (hd : DistinctKeys cmp (ins.map (·.1))) (hh : ∀ x ∈ ins, 1 ≤ x.2.2 ∧ x.2.2 ≤ 12) :
    ∃ (pl : PList K V) (s : SkipList K V),
      SkipListPtr.insertAll cmp SkipListPtr.empty ins = some pl ∧
      SkipList.insertAll cmp SkipList.empty ins = some s ∧
      WF cmp pl ∧ abs pl = s ∧
      SkipListPtr.size pl = s.size ∧
      SkipListPtr.iterAll cmp pl = some (SkipList.iterAll s) ∧
      (∀ k, SkipListPtr.get cmp pl k = some (SkipList.get cmp s k)) ∧
      (∀ k, SkipListPtr.contains cmp pl k = some (SkipList.contains cmp s k)) ∧
      (∀ k, SkipListPtr.iterFrom cmp pl k = some (SkipList.iterFrom cmp s k)) ∧
      (∀ lo hi, SkipListPtr.iterBetween cmp pl lo hi = some (SkipList.iterBetween cmp s lo hi)) := by
  obtain ⟨s, hs, _⟩ := Proofs.skiplist_refines cmp hl ins hd (fun x hx => (hh x hx).1)
  have := insertAll_refines hl ins (SkipListPtr.empty : PList K V) (wf_empty cmp) hh
  rw [abs_empty, hs] at this
  obtain ⟨pl, hpl, hwf, habs, _⟩ := this
  have hr := SkipListPtr.reads_refine hl hwf
  rw [habs] at hr
  exact ⟨pl, s, hpl, hs, hwf, habs, hr⟩

/-- … and hence the sorted map's (through `SST.Proofs.skiplist_refines`). -/
theorem skiplist_ptr_sorted_map (cmp : K → K → Ordering) (hl : LawfulCmp cmp) (ins : List (K × V × Nat))
    (hd : DistinctKeys cmp (ins.map (·.1))) (hh : ∀ x ∈ ins, 1 ≤ x.2.2 ∧ x.2.2 ≤ 12) :
    ∃ pl : PList K V, SkipListPtr.insertAll cmp SkipListPtr.empty ins = some pl ∧ WF cmp pl ∧
      let m := sortedOf cmp (ins.map fun x => (x.1, x.2.1))
      SkipListPtr.size pl = ins.length ∧
      SkipListPtr.iterAll cmp pl = some m ∧
      (∀ k, SkipListPtr.get cmp pl k = some (specGet cmp m k)) ∧
      (∀ k, SkipListPtr.contains cmp pl k = some (specGet cmp m k).isSome) ∧
      (∀ k, SkipListPtr.iterFrom cmp pl k = some (specFrom cmp m k)) ∧
      (∀ lo hi, SkipListPtr.iterBetween cmp pl lo hi = some (specBetween cmp m lo hi)) := by
  obtain ⟨pl, s, hpl, hs, hwf, _, h1, h2, h3, h4, h5, h6⟩ := skiplist_ptr_refines cmp hl ins hd hh
  obtain ⟨s', hs', g1, g2, g3, g4, g5, g6⟩ :=
    Proofs.skiplist_refines cmp hl ins hd (fun x hx => (hh x hx).1)
  rw [hs] at hs'
  cases hs'
  refine ⟨pl, hpl, hwf, ?_⟩
  intro m
  refine ⟨h1.trans g1, by rw [h2, g2], ?_, ?_, ?_, ?_⟩
  · intro k; rw [h3 k, g3 k]
  · intro k; rw [h4 k, g4 k]
  · intro k; rw [h5 k, g5 k]
  · intro lo hi; rw [h6 lo hi, g6 lo hi]

/-- Inserting a key that compares equal to one already present panics at the pointer level too. -/
theorem insert_duplicate_panics (cmp : K → K → Ordering) (hl : LawfulCmp cmp) (ins : List (K × V × Nat))
    (hd : DistinctKeys cmp (ins.map (·.1))) (hh : ∀ x ∈ ins, 1 ≤ x.2.2 ∧ x.2.2 ≤ 12)
    (pl : PList K V) (hpl : SkipListPtr.insertAll cmp SkipListPtr.empty ins = some pl)
    (k : K) (v : V) (h : Nat) (h1 : 1 ≤ h) (h12 : h ≤ 12) (hk : ∃ x ∈ ins, cmp k x.1 = .eq) :
    SkipListPtr.insert cmp pl k v h = none := by
  obtain ⟨s, hs, _⟩ := Proofs.skiplist_refines cmp hl ins hd (fun x hx => (hh x hx).1)
  have hall := insertAll_refines hl ins (SkipListPtr.empty : PList K V) (wf_empty cmp) hh
  rw [abs_empty, hs] at hall
  obtain ⟨pl', hpl', hwf, habs, hmh⟩ := hall
  rw [hpl] at hpl'
  cases hpl'
  have hmh : pl.maxHeight = 12 := hmh
  have hdup := Proofs.insert_duplicate_rejected cmp hl ins hd (fun x hx => (hh x hx).1) s hs k v h hk
  have := SkipListPtr.insert_refines hl hwf k v h h1 (by omega)
  rw [habs, hdup] at this
  exact this

/-- non-vacuity: `compare` on Nat is a lawful comparator; a concrete insertion sequence meets the
hypotheses (distinct keys, heights within 1..12, including both extremes) and the pointer model runs. -/
example : LawfulCmp (compare : Nat → Nat → Ordering) where
  refl a := by simp
  swap a b := by rw [Nat.compare_swap]
  trans_lt a b c h1 h2 := by rw [Nat.compare_eq_lt] at *; omega
  eq_left a b c h := by rw [Nat.compare_eq_eq] at h; rw [h]

example : DistinctKeys (compare : Nat → Nat → Ordering)
    (([(3, 30, 2), (1, 10, 12), (2, 20, 1)] : List (Nat × Nat × Nat)).map (·.1)) := by
  simp [DistinctKeys]

example : ∀ x ∈ ([(3, 30, 2), (1, 10, 12), (2, 20, 1)] : List (Nat × Nat × Nat)),
    1 ≤ x.2.2 ∧ x.2.2 ≤ 12 := by decide

example : (SkipListPtr.insertAll compare SkipListPtr.empty
      ([(3, 30, 2), (1, 10, 12), (2, 20, 1)] : List (Nat × Nat × Nat))).bind
      (fun pl => SkipListPtr.iterAll compare pl) = some [(1, 10), (2, 20), (3, 30)] := by decide

end SST.C16.Ptr
