/-
C12 (header clause, full strength) — altering ANY byte of a record header is detected by both readers,
up to an explicit residual: a genuine 32-bit CRC coincidence at a moved field boundary.
`C12.header_alter_detected_partial` covers the frame-preserving alterations with no residual; this file
covers every alteration.  Property theorems only; lemmas live in SST/Proofs/RecordIOShift.lean.
-/
import SST.Proofs.RecordIOShift
namespace SST.C12.Shift
open SST Generated Proofs

/-- For EVERY record, EVERY header byte index and EVERY other byte value, whatever follows the record
(and, for the random-access reader, whatever precedes it): either both readers fail on the altered
record, or the alteration is frame shifting (it is not `FramePreserving`) and `Crc32Coincides` holds:
the original and the altered stream each begin with a header laid out exactly as the writer would
(marker, flag byte, two canonical length varints, canonical varint of the CRC-32C of exactly those
bytes), yet over DIFFERENT checksummed bytes.  Since the two streams differ in one byte only, the altered
header's checksum varint is read from a moved position and happens to equal the CRC-32C of the moved
body: a 32-bit coincidence.  No instance is known to us; the correspondence generators never hit one. -/
theorem header_alter_detected_or_coincides (c : Compression) (r : GoBytes) (pre rest : Bytes)
    (hf : FitsRec c r) (i : Nat) (x : UInt8) (hi : i < (headerOf c r).length)
    (hx : x ≠ (headerOf c r)[i]) :
    ((∃ e, readNextS c ((encRecord c r).set i x ++ rest) = .error e) ∧
     (∃ e, readAt c (pre ++ (encRecord c r).set i x ++ rest) pre.length = .error e)) ∨
    (¬ FramePreserving (headerOf c r) i x ∧
      Crc32Coincides (encRecord c r ++ rest) ((encRecord c r).set i x ++ rest)) :=
  Proofs.header_alter_detected_or_coincides c r pre rest hf i x hi hx

/-- In the residual case the altered byte is a varint byte (not the nil flag) whose continuation bit was
flipped. -/
theorem residual_is_frame_shifting (h : Bytes) (i : Nat) (x : UInt8) (hi : i < h.length)
    (hx : x ≠ h[i]) (hn : ¬ FramePreserving h i x) :
    i ≠ magicBytes.length ∧ ¬ (x.toNat ≥ 128 ↔ h[i].toNat ≥ 128) :=
  Proofs.frameShifting_of_not_preserving h i x hi hx hn

/-- Whenever the header parser accepts a window, the window begins with a well-formed, correctly
checksummed header for exactly the values it returns (this is what makes the residual explicit). -/
theorem accepted_header_is_well_formed (w : Win) (h : RecHeader) (hok : readHeader w = .ok h) :
    ∃ nb, WellFormedHeader w.bytes nb h.ulen h.clen ∧ h.isNil = (nb == 1) ∧
      h.hlen = (rawBody nb h.ulen h.clen).length +
        (uvarintEnc (crc32c (rawBody nb h.ulen h.clen)).toNat).length :=
  Proofs.readHeader_ok_wellFormed w h hok

/-- non-vacuity: clearing the continuation bit of a marker byte is a frame-shifting alteration -/
example : ¬ FramePreserving (headerOf none (some [1, 2, 3])) 0 0x11 := by
  rintro ⟨_, _, h | h⟩
  · exact absurd h (by decide)
  · have h0 : (headerOf none (some [1, 2, 3]))[0]'(by simp [headerOf, encHeader, headerBody, magicBytes]) = 0x91 := by
      simp [headerOf, encHeader, headerBody, magicBytes]
    rw [h0] at h
    exact absurd (h.mpr (by decide)) (by decide)

end SST.C12.Shift
