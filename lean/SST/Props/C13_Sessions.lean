/-
C13, whole histories — the asynchronous WAL with `Close` and re-`Open` inside the interleaved crash model.  Same model
and same proofs as Props/C02_Sessions.lean (read its header): `Session.async = true` makes an append return as soon as
the record is in the appender's buffer; the buffer is written out inside later appends, when a rotation closes the
file — `Close`'s own rotation included (`Mv.torn` / `Mv.append` while `Close` holds the lock) — and by `wal.Close()`
(where it is provably empty).
-/
import SST.Proofs.FSSessionsHistory
namespace SST.C13.Sessions
open SST SST.FS SST.DBM SST.FSI SST.FSS SST.Proofs.FS SST.Proofs.FSI SST.Proofs.FSS

/-- MAIN THEOREM — for EVERY well-formed initial disk and EVERY history (any number of sessions, each with killed
`Open`s, any program, ANY schedule cut anywhere or run to a completed `Close`; any WAL flavour per session — in
particular all asynchronous): the final disk is well-formed, `Open` succeeds on it, and there is one number `p` per
session such that the opened database is the reference after, session by session, the first `p` mutations of the
session's history — a PREFIX (no holes, no reordering) that contains every mutation issued up to the session's last
completed rotation (`mark`), and is the WHOLE history when `Close` completed (or only got past waiting for the
flusher): closed sessions are fully durable.  In every session at most one call was not yet acknowledged. -/
theorem async_crash_prefix_history (d0 : Disk) (h0 : DiskOk d0) (H : History) (o : Opts) :
    let r := runHistory d0 H
    DiskOk r.1 ∧ r.2.length = H.sessions.length ∧
      ∃ ps : List Nat, ps.length = H.sessions.length ∧
        (∀ x ∈ triples H.sessions r.2 ps,
          x.2.1.opened = true ∧ x.2.1.acked ≤ x.2.1.hist.length ∧ x.2.1.hist.length ≤ x.2.1.acked + 1 ∧
          x.2.1.mark ≤ x.2.2 ∧ x.2.2 ≤ x.2.1.hist.length ∧
          (x.2.1.ph.rejecting = true → x.2.2 = x.2.1.hist.length ∧ x.2.1.acked = x.2.1.hist.length) ∧
          ∃ pre rej post, x.1.prog = pre ++ rej ++ post ∧ x.2.1.hist = pre.filterMap Op.accepted) ∧
        ∃ d' st, recover r.1 o = .ok (d', st) ∧ abs st = applySpec (logical d0) (chosenMuts (r.2.zip ps)) := by
  intro r
  obtain ⟨hok, hlen, ps, hpl, hall, d', st, hr, habs⟩ := history_good d0 h0 H o
  refine ⟨hok, hlen, ps, hpl, ?_, d', st, hr, by rw [habs, refAfter_eq]⟩
  intro x hx
  have hso := hall x hx
  obtain ⟨pre, rej, post, e1, e2, _⟩ := hso.prog
  exact ⟨hso.opened, hso.a1, hso.a2, hso.mark, hso.le, hso.all, pre, rej, post, e1, e2⟩

/-- a session that ends with a completed `Close` is fully durable whatever the flavour: see
`C02.Sessions.close_complete_all_durable` (stated for both).  Here: the per-session form of the theorem above. -/
theorem async_session_prefix (d : Disk) (h : DiskOk d) (s : Session) (o : Opts) :
    let r := runSession d s
    DiskOk r.1 ∧ ∃ p, r.2.mark ≤ p ∧ p ≤ r.2.hist.length ∧ (r.2.closed = true → p = r.2.hist.length) ∧
      ∃ d' st, recover r.1 o = .ok (d', st) ∧ abs st = applySpec (logical d) (r.2.hist.take p) := by
  intro r
  obtain ⟨hok, p, hso, hlog, _⟩ := session_good d h s
  obtain ⟨d', st, hr⟩ := recover_ok r.1 hok o
  refine ⟨hok, p, hso.mark, hso.le, ?_, d', st, hr, by rw [recover_abs r.1 o d' st hr]; exact hlog⟩
  intro hc
  have hph : r.2.ph = .closed := by
    have : (r.2.ph == Ph.closed) = true := hc
    simpa using this
  exact (hso.all (by rw [hph]; rfl)).1

/-! ### non-vacuity -/

def bd : List SMv := [.sys .begin, .sys .done]
def rot4 : List SMv := [.sys .close, .sys .create, .sys .header, .sys .handoff]
def fl7 : List SMv := [.sys .fstep, .sys .fstep, .sys .fstep, .sys .fstep, .sys .fstep, .sys .fstep, .sys .fadd]

/-- session 1: three puts acknowledged with NOTHING written; `Close` writes the buffer out (in pieces) when its rotation
closes the file, hands the store over, waits for the flusher, … -/
def a1 : Session :=
  { async := true
    prog := [.put [1] [1] false, .put [2] [2] false, .put [3] [3] false]
    sched := bd ++ bd ++ bd ++ [.cbegin, .sys .append, .sys .torn, .sys .append, .sys .append] ++ rot4 ++ fl7 ++
      [.cunlock, .kexit, .cwal, .sys .close, .cfinish] }

/-- session 2: a put that rotates (written by the rotation), a delete (written during the next append), a put that is
acknowledged and still in the buffer when the process is killed -/
def a2 : Session :=
  { async := true
    prog := [.put [4] [4] true, .del [1], .put [5] [5] false]
    sched := [.sys .begin, .sys .done, .sys .append] ++ rot4 ++ [.sys .begin, .sys .done, .sys .begin, .sys .append, .sys .done] }

def histA : History := { sessions := [a1, a2] }

/-- the closed session is fully durable; the killed one keeps a prefix of its 3 acknowledged mutations that contains
the one before its rotation (`mark = 1`): here `p = 2`, the acknowledged `put [5]` is lost — `ps = [3, 2]` -/
example :
    let r := runHistory {} histA
    r.2.map (fun g => (g.hist.length, g.acked, g.mark, g.ph)) = [(3, 3, 3, .closed), (3, 3, 1, .running)] ∧
      DiskOk r.1 ∧ r.1.wal.map (fun f => (f.num, f.recs.length)) = [(0, 1), (1, 1)] ∧
      [[1], [2], [3], [4], [5]].map (logical r.1) = [none, some [2], some [3], some [4], none] ∧
      (∀ k ∈ [[1], [2], [3], [4], [5]], logical r.1 k = applySpec (fun _ => none) (chosenMuts (r.2.zip [3, 2])) k) := by
  decide +kernel

/-- session 1 killed INSIDE `Close` (after 9 moves: the rotation is writing the buffer out, one record and a piece of
the next have reached the file): three acknowledged mutations, one durable — the asynchronous WAL's guarantee, not
more, until `Close` has closed the file -/
example :
    let r := runSession {} { a1 with sched := a1.sched.take 9 }
    r.2.ph = .locked ∧ r.2.acked = 3 ∧ r.2.mark = 0 ∧ DiskOk r.1 ∧
      r.1.wal = [{ num := 0, recs := [.put [1] [1]], torn := true }] ∧
      [[1], [2], [3]].map (logical r.1) = [some [1], none, none] := by
  decide +kernel

end SST.C13.Sessions
