/-
C07 — WAL replay yields the appended records in order; synced appends survive a kill.
Property theorems only; the lemmas live in SST/Proofs/{BufW,WalEvents,WalReplay,Wal}.lean.

Model (SST/Model/Wal.lean): the vendored buffered writer as coded (`BufW`), the recordio file writer over
it (`FW`), the appender (`Wal.append/rotate/close`, size rule `Size() + len(record) > max` before the write,
one-million-files guard after the close), the file-system events every call issues (`create`, one `write`
per chunk the buffered writer hands down, `fsync`, `close`), and the replayer (`replay`: `*.wal` names
sorted as strings, per file `Open` + `ReadNext`; in the LAST file a missing/short header means "empty" and an
unexpected EOF means "torn final record").

Quantifiers: ALL maximum file sizes, buffer sizes (0 included), compression codes with ANY lawful compressor,
ALL programs over Append/AppendSync/Rotate (nil, empty, larger-than-limit, larger-than-buffer records), and
ALL kill points = numbers of file-system events that have happened.
-/
import SST.Proofs.Wal
namespace SST.C07
open SST Generated

/-! ## the buffered writer (also used by C04 and C13) -/

/-- For every buffer size (0 and 1 included) and every sequence of `Write`/`Flush`: what was handed to the
underlying writer, followed by what is still buffered, is exactly what was written. -/
theorem bufw_transparent (size : Nat) (ops : List BufOp) :
    ((BufW.init size).run ops).2.flatten ++ ((BufW.init size).run ops).1.buf = BufOp.logical ops := by
  have := Proofs.run_transp (BufW.init size) ops rfl
  simpa [BufW.init] using this

/-- Every chunk boundary lies at a prefix of the logical stream (a kill between two `write` calls leaves a
byte prefix), and after a `Flush` the buffer is empty and the whole stream has been handed down. -/
theorem bufw_flush_boundaries (size : Nat) (ops : List BufOp) :
    (∀ k, (((BufW.init size).run ops).2.take k).flatten <+: BufOp.logical ops) ∧
    ((BufW.init size).run (ops ++ [.flush])).1.buf = [] ∧
    ((BufW.init size).run (ops ++ [.flush])).2.flatten = BufOp.logical ops := by
  refine ⟨fun k => ?_, ?_⟩
  · have := Proofs.run_prefix (BufW.init size) ops rfl k
    simpa [BufW.init] using this
  · have := Proofs.run_then_flush (BufW.init size) ops rfl
    simpa [BufW.init] using this

/-- The `for len(p) > b.Available()` loop ends within three iterations (the model's fuel is never the reason
it stops): when the modelled loop returns, the rest of `p` fits the buffer. -/
theorem bufw_loop_terminates (b : BufW) (p : Bytes) :
    (BufW.writeLoop BufW.loopFuel b p []).2.1.length ≤ (BufW.writeLoop BufW.loopFuel b p []).1.avail :=
  Proofs.writeLoop_done b p

/-- Aligned (direct-I/O) mode, no single write longer than the buffer: every chunk handed to the file is
exactly one buffer long (full, or zero-padded by `Flush`).  (A write longer than the buffer arriving at an
empty buffer bypasses it and is handed down unaligned: see `bufw_aligned_bypass`.) -/
theorem bufw_aligned (size : Nat) (ops : List BufOp) (hp : ∀ p, BufOp.write p ∈ ops → p.length ≤ size) :
    ∀ ch ∈ ((BufW.init size true).run ops).2, ch.length = size :=
  Proofs.run_aligned_len (BufW.init size true) ops rfl (by simp [BufW.init]) hp

/-- witness for the side condition of `bufw_aligned`: a 5-byte write into an empty 4-byte aligned buffer is
handed down as one unaligned 5-byte chunk -/
theorem bufw_aligned_bypass :
    ((BufW.init 4 true).run [.write [1, 2, 3, 4, 5]]).2 = [[1, 2, 3, 4, 5]] := by decide

/-! ## the log -/

/-- `replay_eq_appends`: for every configuration and every program, the directory left by the program and
`Close` replays without error to exactly the records whose append returned without error, in order.
(`walRecords` = all records of the program unless the one-million-files guard fired:
`replay_eq_appends_all`.) -/
theorem replay_eq_appends (o : WalOpts) (c : Compression) (cOf : Nat → Compression)
    (hra : ReaderAgrees cOf o c) (hl : LawfulC c) (prog : List WalOp) (hpf : ProgFits c prog) :
    replay cOf (dirOf o c prog) = (walRecords o c prog, none) :=
  Proofs.replay_eq_appends o c cOf hra hl prog hpf

/-- ... and with fewer than 999 999 operations (every operation opens at most one file, so fewer than one
million files) no call fails and replay delivers every record of the program. -/
theorem replay_eq_appends_all (o : WalOpts) (c : Compression) (cOf : Nat → Compression)
    (hra : ReaderAgrees cOf o c) (hl : LawfulC c) (prog : List WalOp) (hpf : ProgFits c prog)
    (hlen : prog.length < maxWalFiles - 1) :
    NoGuard o c prog ∧ replay cOf (dirOf o c prog) = (progRecords prog, none) := by
  obtain ⟨h1, h2⟩ := Proofs.noGuard_of_short o c prog hlen
  exact ⟨h1, by rw [← h2]; exact Proofs.replay_eq_appends o c cOf hra hl prog hpf⟩

/-- The guard as coded: the rotation that would create file number 1 000 000 fails AFTER closing the current
file; the appender is then unusable (`dead`), the log on disk stays complete. -/
theorem million_guard (o : WalOpts) (w : Wal) (hd : w.dead = false) (hn : w.next ≥ maxWalFiles) :
    (w.rotate o).2.2 = some .other ∧ (w.rotate o).1.dead = true ∧
    (w.rotate o).2.1 = w.fw.flush.2.map (.write w.num) ++ [.close w.num] := by
  rw [Proofs.rotate_eq, if_neg (by simp [hd]), if_pos hn]
  exact ⟨rfl, rfl, rfl⟩

/-- `sync_is_durable`: an `AppendSync r` that returns without error has, in this order, issued `write`s to
the file the record went to that end with all bytes of the encoded record, then an `fsync` of that file as
its LAST event; nothing of the record is left in the buffer. -/
theorem sync_is_durable (o : WalOpts) (c : Compression) (w : Wal) (r : GoBytes)
    (hna : w.fw.w.aligned = false) (hok : (w.append o c true r).2.2 = none) :
    ∃ evs0 pre, (w.append o c true r).2.1 = evs0 ++ [.fsync (w.append o c true r).1.num] ∧
      bytesWritten (w.append o c true r).1.num evs0 = pre ++ encRecord c r ∧
      (w.append o c true r).1.fw.w.buf = [] :=
  Proofs.sync_is_durable o c w r hna hok

/-- `replay_after_crash`: kill the process after ANY number `n` of file-system events of the run (the events
of `NewAppender`, of every operation and of the final `Close`; `n` past the end = no kill): the replayer
succeeds on what is on disk, delivers a prefix of the appended records, and this prefix contains every record
appended up to the last `AppendSync` that had returned within the first `n` events. -/
theorem replay_after_crash (o : WalOpts) (c : Compression) (cOf : Nat → Compression)
    (hra : ReaderAgrees cOf o c) (hl : LawfulC c) (prog : List WalOp) (hpf : ProgFits c prog) (n : Nat) :
    ∃ rs, replay cOf (dirAfter ((walEventsClosed o c prog).take n)) = (rs, none) ∧
      rs <+: walRecords o c prog ∧
      (walRecords o c prog).take (durableWithin o c prog n) <+: rs :=
  Proofs.replay_after_crash o c cOf hra hl prog hpf n

/-- Ingredient "only the last file can be incomplete", as a statement of its own: after any number of
events the directory is empty, or holds files `0 .. j-1` complete and a byte prefix of file `j`. -/
theorem crash_image_shape (o : WalOpts) (c : Compression) (cOf : Nat → Compression)
    (hra : ReaderAgrees cOf o c) (hl : LawfulC c) (prog : List WalOp) (hpf : ProgFits c prog) (n : Nat) :
    ∃ full : List (List GoBytes), full.flatten = walRecords o c prog ∧
      Img (fileOf c o.ct full) full.length (dirAfterN ((walEventsClosed o c prog).take n)) := by
  obtain ⟨cl, cu, g1, g2, _, _⟩ := Proofs.run_inv o c cOf hra hl prog hpf
  obtain ⟨w', h1, _⟩ := Proofs.close_inv o c _ cl cu _ g1
  rw [← Proofs.walEventsClosed_eq] at h1
  refine ⟨cl ++ [cu], g2, ?_⟩
  have hadm := h1.adm
  rw [show cl.length + 1 = (cl ++ [cu]).length by simp] at hadm
  exact Proofs.img_take _ _ _ n hadm

/-- Ingredient: below the guard, Go's string order on `%06d.wal` names is the order of the file numbers. -/
theorem names_sorted (a b : Nat) (ha : a < maxWalFiles) (hb : b < maxWalFiles) :
    bytesLt (walName a) (walName b) = decide (a < b) :=
  Proofs.walName_lt a b ha hb

/-! ## non-vacuity -/

/-- an uncompressed log: the reader's choice agrees with the writer's -/
example : ReaderAgrees (fun _ => none) { maxSize := 20, bufSize := 5, ct := 0 } none :=
  ⟨rfl, by decide⟩

/-- a program with a nil record, an empty record, a record larger than the limit and the buffer, a rotation -/
example : ProgFits none [.append none, .appendSync (some []), .rotate,
    .appendSync (some (List.replicate 40 7)), .append (some [1])] := by
  intro op hop
  simp only [List.mem_cons, List.not_mem_nil, or_false] at hop
  rcases hop with rfl | rfl | rfl | rfl | rfl <;> simp [OpFits, FitsRec, clenOf]

/-- `durableWithin` is not trivially 0, and a kill before the sync returns guarantees nothing yet:
`NewAppender` = 2 events, `AppendSync [1,2]` with a 5-byte buffer = write(header), write(payload), fsync. -/
example : durableWithin { maxSize := 100, bufSize := 5, ct := 0 } none
    [.appendSync (some [1, 2]), .append (some [3])] 5 = 1 := by decide +kernel
example : durableWithin { maxSize := 100, bufSize := 5, ct := 0 } none
    [.appendSync (some [1, 2]), .append (some [3])] 4 = 0 := by decide +kernel

/-- the hypothesis of `sync_is_durable` is met by the first append on a fresh log -/
example : ((Wal.init { maxSize := 100, bufSize := 5, ct := 0 }).1.append
    { maxSize := 100, bufSize := 5, ct := 0 } none true (some [1, 2])).2.2 = none := by decide

end SST.C07
