/-
C02, whole histories — `Close` and re-`Open` INSIDE the interleaved crash model (synchronous WAL; the asynchronous
flavour is Props/C13_Sessions.lean).  Removes the restriction of `C02.Interleave.crash_safe_sync_interleaved` to ONE
session after `Open` (DESIGN.md §9.6: "Close / re-Open inside the interleaved run are not moves").

Model: SST/Model/FSSessions.lean.  A session is the transition system of SST/Model/FSInterleave.lean (client ∥ flusher
∥ compactor, one file-system call per move) wrapped with the moves of `DB.Close` AS CODED NOW (simpledb/db.go:152-189):
  `cbegin`   db.rwLock.Lock(); db.closed = true                       (only when the lock is free)
  rotation   rotateWalAndFlushMemstore(): wal.Rotate() = close the file (its buffer is written out), create the next
             one, write its header; hand-off over the unbuffered channel — the SAME moves as a forced rotation.  The
             rotation is NOT skipped for an empty memstore (flush.go:92-101 does not look at it); `executeFlush` skips the
             empty store (flush.go:37-40) and then does not remove its WAL file: a header-only file stays behind.
  `cunlock`  close(storeFlushChannel); <-doneFlushChannel; Unlock()   (enabled when the flusher is idle again; the
             lock is held until here: no `reflectCompactionResult`, no client call in between)
  `kexit`    ticker.Stop(); stop signal (buffered); <-doneCompactionChannel: the compactor returns between two cycles;
             a running cycle — even one more — runs to its end first, `reflectCompactionResult` included
  `cwal` … `cfinish`   wal.Close() = Appender.Close = currentWriter.Close(): buffer written out, file closed; readers closed
Client calls after `closed = true` are rejected (ErrAlreadyClosed): no event, no effect.
A HISTORY = sessions; each starts with `Open` = `FS.recoverEvents` cut any number of times after any number of calls
(killed `Open`s, C10) before it completes, and ends where its schedule ends: `Ph.closed` (a completed `Close`:
quiescent) or a kill at that point — inside `Close` included.  `runHistory` is total and computable.

The proofs reuse the invariants `S` / `G` of the interleaved session and their per-move preservation lemmas
(`S_move`, `G_move`, `start_SG`), C10's `recover_prefix`, and add: the `Close` moves preserve `S` / `G` (the lock
acquisition IS the first move of a forced rotation on a one-call program: `begin_rotate`), the phase invariant `W`
(Proofs/FSSessions.lean), and the composition over sessions (Proofs/FSSessionsHistory.lean).

TIES (no new stream):
* call order of `Close`: `Generated/Order.lean` lists `DB.Close` (fn01), `DB.rotateWalAndFlushMemstore`,
  `Appender.Rotate`, `Appender.Close`, `simpledb.flushMemstoreContinuously`, `simpledb.backgroundCompaction`;
  `C02.Order.close_waits_for_flusher_before_closing_wal` and `model_close_order_matches_source` tie the sequential
  `fsStep … .close`; below `close_moves_match_source` ties THIS model's `Close` moves (compactions enabled: lock …
  unlock BEFORE the compactor is stopped, `wal.Close()` after the compactor has returned) to the regenerated table;
* the per-thread call sequences of the wrapped moves: `C02.Interleave.flusher_calls`, `rotateCalls_eq`, `logCalls_eq`,
  `compactCalls_eq`, `kstart_run` (unchanged: the moves are the same);
* real runs: the crash stream's `reopen` profile (harness crash_gen.go / crash_child.go: sessions with `Close` +
  re-`Open` in one traced process, every system-call boundary imaged and re-opened) and the `nested` flavour (C10:
  recovery killed and repeated) sample exactly these histories against the real code.
-/
import SST.Proofs.FSSessionsHistory
import SST.Spec.Order
namespace SST.C02.Sessions
open SST SST.FS SST.DBM SST.FSI SST.FSS SST.Proofs.FS SST.Proofs.FSI SST.Proofs.FSS

/-! ## 1. a completed `Close` -/

/-- `close_complete_all_durable` — for EVERY well-formed disk, every number of killed `Open`s, every client program,
every schedule and BOTH WAL flavours: if the session ends with a completed `Close`, then
* the session was quiescent (client, flusher, compactor idle; nothing buffered);
* the disk is well-formed; every table directory loads, there is no compaction directory, and every WAL file holds a
  header and NOTHING else — no record remains unflushed.  (What the code leaves: the file created by `Close`'s own
  rotation, plus one header-only file per rotation that found the memstore empty — `Close`'s own rotation included
  when nothing was written since the last one; see `close_leaves_header_only_wal_files`);
* every accepted call has returned, and the content served by any later `Open` is the reference after ALL accepted
  mutations of the session — asynchronous WAL included;
* the accepted mutations are those of the calls begun before `Close`; the calls after it were rejected. -/
theorem close_complete_all_durable (d : Disk) (h : DiskOk d) (s : Session)
    (hclosed : (runSession d s).2.closed = true) (o : Opts) :
    let r := runSession d s
    DiskOk r.1 ∧ CleanlyClosed r.1 ∧ walMuts r.1.wal = [] ∧
      (∃ sc, sessionEnd d s = some sc ∧ quiescent sc = true) ∧
      r.2.acked = r.2.hist.length ∧
      (∃ pre rej post, s.prog = pre ++ rej ++ post ∧ r.2.hist = pre.filterMap Op.accepted) ∧
      logical r.1 = applySpec (logical d) r.2.hist ∧
      ∃ d' st, recover r.1 o = .ok (d', st) ∧ abs st = applySpec (logical d) r.2.hist := by
  intro r
  have hph : r.2.ph = .closed := by
    have : (r.2.ph == Ph.closed) = true := hclosed
    simpa using this
  obtain ⟨hok, p, hso, hlog, hcl⟩ := session_good d h s
  obtain ⟨hcc, hq⟩ := hcl hph
  have hrej : r.2.ph.rejecting = true := by rw [hph]; rfl
  obtain ⟨hp, hacked⟩ := hso.all hrej
  have hlog' : logical r.1 = applySpec (logical d) r.2.hist := by
    have := hlog
    rw [hp, List.take_length] at this
    exact this
  obtain ⟨pre, rej, post, e1, e2, _⟩ := hso.prog
  obtain ⟨d', st, hr⟩ := recover_ok r.1 hok o
  exact ⟨hok, hcc, junk_muts hcc.2.2.2, hq, hacked, ⟨pre, rej, post, e1, e2⟩, hlog', d', st, hr,
    by rw [recover_abs r.1 o d' st hr]; exact hlog'⟩

/-! ## 2. whole histories, synchronous WAL -/

/-- MAIN THEOREM — for EVERY well-formed initial disk and EVERY history: any number of sessions, each with any
number of killed `Open`s before the one that completes, any client program, ANY schedule of client ∥ flusher ∥
compactor ∥ `Close` cut ANYWHERE (a kill) or run to a completed `Close`; finally any number of killed `Open`s:
* the final disk is well-formed and `Open` succeeds on it;
* there is one number `p` per session (`ps`) — the acknowledged mutations of that session, or those plus the one call
  in flight when it was killed; ALL of them if `Close` completed (or only got past the flusher) — such that the opened
  database is the reference obtained by applying, session by session, the first `p` mutations of each session's
  history (later sessions build on the earlier choices);
* in every session at most one call was in flight; its history lists the accepted calls begun before `Close`.
`x = (session, ghost data, p)` ranges over the sessions of the history. -/
theorem crash_safe_sync_history (d0 : Disk) (h0 : DiskOk d0) (H : History)
    (hsync : ∀ s ∈ H.sessions, s.async = false) (o : Opts) :
    let r := runHistory d0 H
    DiskOk r.1 ∧ r.2.length = H.sessions.length ∧
      ∃ ps : List Nat, ps.length = H.sessions.length ∧
        (∀ x ∈ triples H.sessions r.2 ps,
          x.2.1.opened = true ∧ x.2.1.acked ≤ x.2.1.hist.length ∧ x.2.1.hist.length ≤ x.2.1.acked + 1 ∧
          (x.2.2 = x.2.1.acked ∨ x.2.2 = x.2.1.hist.length) ∧
          (x.2.1.ph.rejecting = true → x.2.2 = x.2.1.hist.length ∧ x.2.1.acked = x.2.1.hist.length) ∧
          ∃ pre rej post, x.1.prog = pre ++ rej ++ post ∧ x.2.1.hist = pre.filterMap Op.accepted) ∧
        ∃ d' st, recover r.1 o = .ok (d', st) ∧ abs st = applySpec (logical d0) (chosenMuts (r.2.zip ps)) := by
  intro r
  obtain ⟨hok, hlen, ps, hpl, hall, d', st, hr, habs⟩ := history_good d0 h0 H o
  refine ⟨hok, hlen, ps, hpl, ?_, d', st, hr, by rw [habs, refAfter_eq]⟩
  intro x hx
  have hso := hall x hx
  have hs : x.1.async = false := hsync x.1 (List.of_mem_zip hx).1
  obtain ⟨pre, rej, post, e1, e2, _⟩ := hso.prog
  refine ⟨hso.opened, hso.a1, hso.a2, ?_, hso.all, pre, rej, post, e1, e2⟩
  have h1 := hso.sync hs
  have h2 := hso.le
  have h3 := hso.a2
  omega

/-- the same from the empty directory -/
theorem crash_safe_sync_history_fresh (H : History) (hsync : ∀ s ∈ H.sessions, s.async = false) (o : Opts) :
    let r := runHistory {} H
    DiskOk r.1 ∧ ∃ ps : List Nat, ps.length = H.sessions.length ∧
      (∀ x ∈ triples H.sessions r.2 ps, x.2.2 = x.2.1.acked ∨ x.2.2 = x.2.1.hist.length) ∧
      ∃ d' st, recover r.1 o = .ok (d', st) ∧ abs st = applySpec (fun _ => none) (chosenMuts (r.2.zip ps)) := by
  intro r
  have h0 : DiskOk ({} : Disk) := by decide
  obtain ⟨hok, _, ps, hpl, hall, d', st, hr, habs⟩ := crash_safe_sync_history {} h0 H hsync o
  exact ⟨hok, ps, hpl, fun x hx => (hall x hx).2.2.2.1, d', st, hr, habs⟩

/-- the final disk of a history is the result of its file-system calls, in order (`Open`s, killed or not, included) -/
theorem history_disk_is_its_calls (d0 : Disk) (H : History) : (runHistory d0 H).1 = applyEvs d0 (historyEvents d0 H) :=
  runHistory_events d0 H

/-- killed `Open`s of the model are C10's interrupted recoveries -/
theorem killedOpens_is_C10 : ∀ (ms : List KilledOpen) (d : Disk),
    killedOpens d ms = ms.foldl (fun d m => applyEvs d ((recoverEvents d m.2).take m.1)) d := by
  intro ms
  induction ms with
  | nil => intro d; rfl
  | cons m ms ih => intro d; simp only [killedOpens, List.foldl_cons]; exact ih _

/-- the histories contain the runs of `C02.Interleave.crash_safe_sync_interleaved` / `C13.…`: a session without killed
`Open`s whose schedule has no `Close` move ends in exactly the configuration the interleaved model reaches -/
theorem interleaved_run_is_a_session (d : Disk) (h : DiskOk d) (o : Opts) (d1 : Disk) (s1 : State)
    (hr : recover d o = .ok (d1, s1)) (async : Bool) (prog : List Op) (sched : List Mv) :
    sessionEnd d { async := async, opts := o, prog := prog, sched := sched.map .sys } =
      some { c := FSI.run async (start d1 (openedVol s1) prog) sched } := by
  have hev : applyEvs d (recoverEvents d []) = d1 := recover_events d h o d1 s1 hr []
  unfold sessionEnd sessionStart openDisk
  simp only [killedOpens]
  rw [hr, hev]
  simp only
  rw [runS_sys async sched _ rfl rfl rfl]
  rfl

/-! ## 4. a killed `Close` -/

/-- `killed_close_is_a_crash` — a `Close` cut ANYWHERE is covered: cut the schedule of any session (e.g. one that
completes `Close`) after any number `n` of moves.  The cut schedule is a schedule (the full run passes through the
state it ends in), the disk is well-formed, `Open` succeeds and serves the reference after a prefix `hist.take p`
that contains every mutation up to the last completed rotation and (synchronous WAL) every acknowledged one; once
`Close` had received the flusher's completion (`Ph.unlocked` or later) the prefix is the WHOLE history: a kill in the
rest of `Close` (compactor wait, `wal.Close()`) loses nothing, whatever the WAL flavour. -/
theorem killed_close_is_a_crash (d : Disk) (h : DiskOk d) (s : Session) (n : Nat) (o : Opts) :
    let s' : Session := { s with sched := s.sched.take n }
    let r := runSession d s'
    (∀ sc, sessionEnd d s' = some sc → sessionEnd d s = some (runS s.async sc (s.sched.drop n))) ∧
    DiskOk r.1 ∧
      ∃ p, r.2.mark ≤ p ∧ p ≤ r.2.hist.length ∧ (s.async = false → r.2.acked ≤ p) ∧
        (r.2.ph.rejecting = true → p = r.2.hist.length) ∧
        ∃ d' st, recover r.1 o = .ok (d', st) ∧ abs st = applySpec (logical d) (r.2.hist.take p) := by
  intro s' r
  obtain ⟨hok, p, hso, hlog, _⟩ := session_good d h s'
  obtain ⟨d', st, hr⟩ := recover_ok r.1 hok o
  refine ⟨?_, hok, p, hso.mark, hso.le, hso.sync, fun hp => (hso.all hp).1, d', st, hr,
    by rw [recover_abs r.1 o d' st hr]; exact hlog⟩
  intro sc hsc
  have hstart : sessionStart d s' = sessionStart d s := rfl
  unfold sessionEnd at hsc ⊢
  rw [hstart] at hsc
  cases hs : sessionStart d s with
  | none => rw [hs] at hsc; cases hsc
  | some sc0 =>
    rw [hs] at hsc
    simp only [Option.some.injEq] at hsc ⊢
    rw [← hsc]
    show runS s.async sc0 s.sched = runS s.async (runS s.async sc0 (s.sched.take n)) (s.sched.drop n)
    rw [← runS_append, List.take_append_drop]

/-! ## 5. non-vacuity -/

def put4 : List SMv := [.sys .begin, .sys .torn, .sys .append, .sys .done]
def rot4 : List SMv := [.sys .close, .sys .create, .sys .header, .sys .handoff]
def fl7 : List SMv := [.sys .fstep, .sys .fstep, .sys .fstep, .sys .fstep, .sys .fstep, .sys .fstep, .sys .fadd]
/-- a complete `Close`, one thread after the other -/
def closeSched : List SMv := [.cbegin] ++ rot4 ++ fl7 ++ [.cunlock, .kexit, .cwal, .sys .close, .cfinish]

/-- session 1: two puts, a completed `Close`, one more call (rejected) -/
def s1 : Session :=
  { prog := [.put [1] [1] false, .put [2] [2] false, .put [9] [9] false]
    sched := put4 ++ put4 ++ closeSched ++ [.sys .begin] }

/-- session 2: a put that rotates; a delete is acknowledged WHILE the flusher writes table 2; the next put is in
flight (a piece of its record written) when the process is killed — inside the flush -/
def s2 : Session :=
  { prog := [.put [3] [3] true, .del [1], .put [4] [4] false]
    sched := put4 ++ rot4 ++ [.sys .fstep, .sys .begin, .sys .fstep, .sys .torn, .sys .append, .sys .fstep, .sys .done,
                              .sys .begin, .sys .fstep, .sys .torn] }

/-- session 3: `Open` killed after 3 calls (it has removed the unfinished table 2 and is re-creating it for the
recovery flush: the directory loads as an empty legacy table), then completed; a put whose record has reached the file
but which has not returned when the process is killed -/
def s3 : Session :=
  { opens := [(3, [])]
    prog := [.put [5] [5] false]
    sched := [.sys .begin, .sys .torn, .sys .append] }

/-- … and a last `Open` that is killed after two calls -/
def hist3 : History := { sessions := [s1, s2, s3], lastOpens := [(2, [])] }

/-- session 1 ends closed and quiescent; it leaves table 1 and the header-only WAL file its rotation created -/
example :
    (runSession {} s1).1 = { tables := [(1, .complete [([2], some [2]), ([1], some [1])])], walDir := true, wal := [{ num := 1 }] } ∧
      (runSession {} s1).2.closed = true ∧ (runSession {} s1).2.hist = [.put [1] [1], .put [2] [2]] ∧
      (sessionEnd {} s1).map quiescent = some true ∧ (sessionEnd {} s1).map (·.c.prog.length) = some 0 := by decide +kernel

/-- the calls of session 2 (its `Open` first removes the WAL file session 1 left): the flusher's calls between and
inside the client's -/
example : sessionEvents (runSession {} s1).1 s2 =
    [.walUnlink 1, .walDirRemove, .walDirCreate, .walCreate 0, .walHeader 0,
     .walTorn 0, .walAppend 0 (.put [3] [3]), .walClose 0, .walCreate 1, .walHeader 1,
     .tblMkdir 2, .tblLoadable 2 [], .walTorn 1, .walAppend 1 (.del [1]), .tblMetaCreate 2, .tblProgress 2, .walTorn 1] := by
  decide +kernel

/-- the calls of session 3: the killed `Open` (3 calls), the completing `Open` (keeps the empty legacy table 2,
flushes both WAL files into table 3), the put -/
example : sessionEvents (runSessions {} [s1, s2]).1 s3 =
    [.tblRmdir 2, .tblMkdir 2, .tblLoadable 2 [],
     .tblMkdir 3, .tblLoadable 3 [], .tblMetaCreate 3, .tblProgress 3, .tblComplete 3 [([1], none), ([3], some [3])],
     .walUnlink 0, .walUnlink 1, .walDirRemove, .walDirCreate, .walCreate 0, .walHeader 0,
     .walTorn 0, .walAppend 0 (.put [5] [5])] := by decide +kernel

/-- the whole history: 54 calls; ghost data per session (mutations begun, acknowledged, up to the last rotation, phase
of `Close`); the final disk is well-formed and serves: key 1 deleted (session 2, acknowledged), 2 ↦ 2, 3 ↦ 3, key 4
absent (in flight at the kill of session 2: lost), 5 ↦ 5 (in flight at the kill of session 3: survived), key 9 absent
(rejected after `Close`) — the choice `ps = [2, 2, 1]` of `crash_safe_sync_history` -/
example :
    let r := runHistory {} hist3
    (historyEvents {} hist3).length = 54 ∧
      r.2.map (fun g => (g.hist.length, g.acked, g.mark, g.ph)) = [(2, 2, 2, .closed), (3, 2, 1, .running), (1, 0, 0, .running)] ∧
      DiskOk r.1 ∧ r.1.tables.map (·.1) = [1, 2, 3, 4] ∧ r.1.wal.map (fun f => (f.num, f.recs.length)) = [(0, 1)] ∧
      [[1], [2], [3], [4], [5], [9]].map (logical r.1) = [none, some [2], some [3], none, some [5], none] ∧
      (∀ k ∈ [[1], [2], [3], [4], [5], [9]], logical r.1 k = applySpec (fun _ => none) (chosenMuts (r.2.zip [2, 2, 1])) k) := by
  decide +kernel

/-- the hypotheses of `crash_safe_sync_history` hold for it -/
example : DiskOk ({} : Disk) ∧ ∀ s ∈ hist3.sessions, s.async = false := by decide

/-- what `Close` leaves in the WAL directory.  Called right after `Open` (empty memstore): the rotation happens
anyway, the flush is skipped, file 0 STAYS next to the new file 1 — both header-only.  With a non-empty memstore the
flusher removes file 0 after writing the table. -/
theorem close_leaves_header_only_wal_files :
    (runSession {} { sched := closeSched }).1 = { walDir := true, wal := [{ num := 0 }, { num := 1 }] } ∧
      (runSession {} { sched := closeSched }).2.closed = true ∧
      sessionEvents {} { sched := closeSched } =
        [.walDirCreate, .walDirRemove, .walDirCreate, .walCreate 0, .walHeader 0,
         .walClose 0, .walCreate 1, .walHeader 1, .walClose 1] ∧
      (runSession {} { prog := [.put [1] [1] false], sched := put4 ++ closeSched }).1.wal = [{ num := 1 }] := by
  decide +kernel

/-- a `Close` that has to wait: it is called while the compactor merges tables 1 and 2 and the flusher is still
writing table 3.  The hand-off waits for the flusher; after the unlock the compactor reflects its result (removes the
inputs, renames) and only then returns; `wal.Close()` comes last. -/
def s4 : Session :=
  { opts := { maxSize := 100 }
    prog := [.put [1] [1] true, .put [2] [2] true, .put [3] [3] true, .put [4] [4] false]
    sched := put4 ++ rot4 ++ fl7 ++ put4 ++ rot4 ++ fl7 ++ put4 ++ rot4 ++ [.sys .fstep, .sys .fstep] ++ put4 ++
      [.sys (.kstart [1, 1] 0 { maxSize := 100 }), .sys (.kstep none), .sys (.kstep none),
       .cbegin, .sys .kreflect, .sys .close, .sys .create, .sys .header,
       .sys .handoff,                                     -- skipped: the flusher is busy
       .sys (.kstep none), .sys (.kstep none), .sys (.kstep none),
       .sys .kreflect,                                    -- skipped: `Close` holds the db lock
       .sys .fstep, .sys .fstep, .sys .fstep, .sys .fstep, .sys .fadd,
       .cunlock,                                          -- skipped: the hand-off has not happened
       .sys .handoff] ++ fl7 ++
      [.sys .kreflect,                                    -- skipped: `Close` still holds the db lock
       .cunlock, .kexit,                                  -- `kexit` skipped: the compactor is inside a cycle
       .sys .kreflect, .cwal,                             -- `cwal` skipped: the compactor has not returned
       .sys (.kstep none), .sys (.kstep none), .sys (.kstep none), .sys (.kstep none), .sys (.kstep none),
       .sys (.kstep none), .sys (.kstep none), .kexit, .cwal, .sys .close, .cfinish] }

example :
    let r := runSession {} s4
    r.2.closed = true ∧ r.2.hist.length = 4 ∧ r.2.acked = 4 ∧
      r.1 = { tables := [(1, .complete [([1], some [1]), ([2], some [2])]), (3, .complete [([3], some [3])]),
                         (4, .complete [([4], some [4])])],
              walDir := true, wal := [{ num := 4 }] } ∧
      (sessionEvents {} s4).drop 36 =
        [.compMkdir 1, .compProgress 1, .walClose 3, .walCreate 4, .walHeader 4, .compComplete 1 [([1], some [1]), ([2], some [2])],
         .compProgress 1, .compFlag 1 { inputs := [1, 2], replacement := 1 },
         .tblMetaCreate 3, .tblProgress 3, .tblComplete 3 [([3], some [3])], .walUnlink 2,
         .tblMkdir 4, .tblLoadable 4 [], .tblMetaCreate 4, .tblProgress 4, .tblComplete 4 [([4], some [4])], .walUnlink 3,
         .tblUnlinkPart 1 true, .tblUnlinkPart 1 false, .tblRmdir 1, .tblUnlinkPart 2 true, .tblUnlinkPart 2 false, .tblRmdir 2,
         .compRename 1 1, .walClose 4] := by
  decide +kernel

/-- the same session killed at each of its 88 schedule positions (0 … 87 moves) (inside the flushes, the compaction, `Close`): the
disk is well-formed and serves the acknowledged mutations, or those plus the one in flight -/
example : (List.range 88).all (fun n =>
    let r := runSession {} { s4 with sched := s4.sched.take n }
    decide (DiskOk r.1) &&
      ([[1], [2], [3], [4]].map (logical r.1) == [[1], [2], [3], [4]].map (applySpec (fun _ => none) (r.2.hist.take r.2.acked)) ||
       [[1], [2], [3], [4]].map (logical r.1) == [[1], [2], [3], [4]].map (applySpec (fun _ => none) r.2.hist))) = true := by
  decide +kernel

/-! ## 6. the order tie for `Close` with compactions enabled -/

open SST.OrderSpec SST.Generated.Order in
/-- `Close` of an open database with a non-empty write store, compactions ENABLED (cf. `OrderSpec.cfgClose`) -/
def cfgCloseComp : OrderSpec.Cfg :=
  { dec := [("DB.Close", "!db.open", [false]), ("DB.Close", "db.closed", [false]), ("DB.Close", "db.enableCompactions", [true]),
            -- the same two state checks in the normal form of a called body (function literal / helper method)
            ("DB.Close", "simpledb.DB.open", [true]), ("DB.Close", "!simpledb.DB.closed", [true]),
            ("simpledb.executeFlush", "walPath != \"\"", [true])] ++ commonDec
    reps := commonReps
    callee := callees }

open SST.OrderSpec SST.Generated.Order in
/-- the actions of `Close` that the model's moves stand for -/
def closeLabels : List Label :=
  [.lock, .closeCurrentWalWriter, .walWriterFactory, .openWalWriter, .chanSendFlush, .closeFlushChannel, .mkdirTable,
   .writeMeta, .removeWalFile, .addReader, .unlock, .stopTicker, .chanSendStopCompaction, .waitCompactorDone, .readerClose]

/-- the model's complete `Close` (one entry in the write store, compactor idle) on the disk right after `Open` -/
def scDirty : SCfg := { c := start { walDir := true, wal := [{ num := 0 }] } OrderSpec.vDirty [] }

open SST.OrderSpec SST.Generated.Order in
/-- MODEL = SOURCE for `Close` as a sequence of moves.  On the path "open, not closed, compactions enabled, non-empty
store" the regenerated call table of `DB.Close` (with `rotateWalAndFlushMemstore`, `Appender.Rotate`, `executeFlush`,
`Appender.Close` inlined) performs, in this order: lock — Rotate = close file, create next, header — hand-off — close the
channel — (the flusher:) table directory … metadata, remove the WAL file, addReader — unlock — stop the ticker, send the
stop signal, wait for the compactor — close the last WAL file — close the readers.  The model's `closeSched` is
`cbegin`, `close`/`create`/`header`/`handoff`, 6 × `fstep` + `fadd`, `cunlock`, `kexit`, `cwal` + `close`, `cfinish`; the
file-system event kinds of both sides are equal. -/
theorem close_moves_match_source :
    (trace cfgCloseComp "DB.Close").map (fun tr => (acts tr).filter (closeLabels.contains ·)) =
      some [.lock, .closeCurrentWalWriter, .walWriterFactory, .openWalWriter, .chanSendFlush, .closeFlushChannel, .mkdirTable,
            .writeMeta, .removeWalFile, .addReader, .unlock, .stopTicker, .chanSendStopCompaction, .waitCompactorDone,
            .closeCurrentWalWriter, .readerClose] ∧
    srcKinds .table cfgCloseComp "DB.Close" = some (modelKinds (traceS false scDirty closeSched)) ∧
    modelKinds (traceS false scDirty closeSched) =
      [.walClose, .walCreate, .walHeader, .tblMkdir, .tblLoadable, .tblMetaCreate, .tblComplete, .walUnlink, .walClose] ∧
    (runS false scDirty closeSched).ph = .closed := by
  decide +kernel

open SST.OrderSpec SST.Generated.Order in
/-- the flusher goroutine on the path `Close` relies on: one store handed over, then the channel is closed, no error -/
def cfgFlusherOnce : OrderSpec.Cfg :=
  { dec := [("simpledb.flushMemstoreContinuously", "err != nil", [false]),
            ("simpledb.executeFlush", "walPath != \"\"", [true])] ++ commonDec
    reps := ("simpledb.flushMemstoreContinuously", "db.storeFlushChannel", 1) :: commonReps
    callee := callees }

open SST.OrderSpec SST.Generated.Order in
/-- why `<-db.doneFlushChannel` in `Close` may stand for the flusher's flush (the inlining `waitFlusherDone ↦ executeFlush`
used above), after 6dd9211: on its normal path the flusher goroutine executes the flush of the store handed over —
table directory … metadata, remove the WAL file, addReader — and sends the done signal as its LAST action, no panic;
the signal is a plain statement at the end of the function, not a deferred one (`C02.Order.done_signal_not_on_error_path`
has the error-path half), and the file-system event kinds of this path are the model's `fstep` events. -/
theorem flusher_signals_done_after_its_flush :
    (trace cfgFlusherOnce "simpledb.flushMemstoreContinuously").map
        (fun tr => (acts tr).filter ([Label.mkdirTable, .writeMeta, .removeWalFile, .addReader, .signalFlusherDone, .panicLog].contains ·)) =
      some [.mkdirTable, .writeMeta, .removeWalFile, .addReader, .signalFlusherDone] ∧
    (trace cfgFlusherOnce "simpledb.flushMemstoreContinuously").map (fun tr => (acts tr).getLast?) = some (some .signalFlusherDone) ∧
    srcKinds .table cfgFlusherOnce "simpledb.flushMemstoreContinuously" =
      some [.tblMkdir, .tblLoadable, .tblMetaCreate, .tblComplete, .walUnlink] := by
  decide +kernel

end SST.C02.Sessions
