/-
C11 — I/O failures during merge, compaction and flush are reported, never absorbed.
THIS FILE: the merger half (`SSTableMerger.Merge`, `MergeCompact`, the iterator adapter, the heap) for ALL
input sets, ALL read-fault positions of every input iterator and ALL sets of failing `WriteNext` calls.
The system-level half (a flush/compaction whose merge failed never installs its output, the flusher/compactor
stop the process) is about simpledb/compaction.go and flush.go and belongs to a later layer (L6).

Model: SST/Model/PQF.lean (heap over iterators that can fail) + SST/Model/Merge.lean.
An input is `FInput`: its items and optionally the number `p` of the `Next` call that returns an error.
`i.endErr ≠ none` ⇔ `p ≤ items.length`, i.e. the failing call is one of the `items.length + 1` calls a
complete run makes on that iterator = the fault is CONSUMED unless the operation stopped earlier (with an
error).  The writer fails at the call numbers in `w.failAt`.
-/
import SST.Proofs.Merge
namespace SST.C11
open SST SST.Merge

/-- which faults are reachable -/
theorem endErr_ne_none_iff {K V : Type} (i : FInput K V) :
    i.endErr ≠ none ↔ ∃ p, i.failAt = some p ∧ p ≤ i.items.length := by
  unfold FInput.endErr
  cases i.failAt with
  | none => simp
  | some p => by_cases h : p ≤ i.items.length <;> simp [h]

/-- The (available items, how it ends) view the heap model uses is exactly the iterator called call by call:
call `n < avail.length` returns item `n`, call `avail.length` returns the error (if reachable) or Done. -/
theorem iterator_view {K V : Type} (i : FInput K V) :
    (∀ n (h : n < i.avail.length), i.nextAt n = .item i.avail[n].1 i.avail[n].2) ∧
    i.nextAt i.avail.length = (match i.endErr with | some e => .err e | none => .done) :=
  ⟨Proofs.FH.nextAt_avail i, Proofs.FH.nextAt_end i⟩

/-- The adapter `SSTableMergeIteratorContext.Next` passes every non-Done error on (D6 fixed) -/
theorem adapter_passes_errors (e : Err) (k v : GoBytes) :
    adapterNext (.err e) = .err e ∧ adapterNext .done = .done ∧ adapterNext (.item k v) = .item k v :=
  ⟨rfl, rfl, rfl⟩

/-- When no input has a reachable fault the fallible heap IS the heap of C16: `init` gives the same heap and
the sequence of `Next` results is `PQ.drain`, ending in Done — so `pq_sorted_merge` / `pq_per_input_order`
carry over. -/
theorem pqf_coincides_with_pq {K V : Type} (cmp : K → K → Ordering) (hl : LawfulCmp cmp)
    (ins : List (FInput K V)) (hc : ∀ i ∈ ins, i.endErr = none) :
    PQF.init cmp ins = .ok (PQ.init cmp (ins.map FInput.items)) ∧
    PQF.run cmp (PQF.endErrOf ins) (PQ.total (ins.map FInput.items) + 1) (PQ.init cmp (ins.map FInput.items))
      = (PQ.drain cmp (ins.map FInput.items), .done) :=
  ⟨(Proofs.FH.init_clean hl ins hc).1, Proofs.FH.run_eq_drain hl ins hc⟩

/-- `Merge`, for every input set, every fault position of every input and every set of failing writes
(starting from any writer state):
 (1) a reachable fault of ANY input's `Next` makes `Merge` return an error;
 (2) a failing `WriteNext` among the writes a complete run performs makes `Merge` return an error;
 (3) if `Merge` returns nil then no reachable fault exists, and the writer received exactly the complete
     k-way merge of all items of all inputs, in order, one `WriteNext` each — success is never reported
     for an output that is missing or misrepresents records. -/
theorem merge_fault_reported (ins : List Input) (w : Merge.WState) :
    ((∃ i ∈ ins, i.endErr ≠ none) → (merge ins w).1 ≠ none) ∧
    ((∃ n ∈ w.failAt, w.calls ≤ n ∧ n < w.calls + (mergedOf ins).length) → (merge ins w).1 ≠ none) ∧
    ((merge ins w).1 = none →
      (∀ i ∈ ins, i.endErr = none) ∧
      (merge ins w).2.out = w.out ++ recordsOf (untag (mergedOf ins)) ∧
      (merge ins w).2.calls = w.calls + (mergedOf ins).length) := by
  refine ⟨?_, ?_, ?_⟩
  · rintro ⟨i, hi, hne⟩ hnone
    exact hne ((Proofs.Merge.merge_success ins w hnone).1 i hi)
  · rintro ⟨n, hn, h1, h2⟩ hnone
    exact (Proofs.Merge.merge_success ins w hnone).2.2.2 n h1 h2 hn
  · intro hnone
    obtain ⟨h1, h2, h3, _⟩ := Proofs.Merge.merge_success ins w hnone
    exact ⟨h1, h2, h3⟩

/-- Conversely nothing is invented: without any reachable fault `Merge` succeeds, or returns the writer's
rejection of a non-ascending/duplicate key (inputs sharing a key) — never an I/O error. -/
theorem merge_no_spurious_error (ins : List Input) (w : Merge.WState) (hc : ∀ i ∈ ins, i.endErr = none)
    (hw : ∀ n, w.calls ≤ n → n < w.calls + (mergedOf ins).length → n ∉ w.failAt) :
    (merge ins w).1 = none ∨ (merge ins w).1 = some .rejected :=
  Proofs.Merge.merge_noFault ins w hc hw

/-- `MergeCompact` with ANY reduce function: the same three statements; the complete output is the compaction
(`compactOf`: group equal adjacent keys of the complete merge, reduce, keep non-nil results) — by C08 the
overlay for the provided reducers.  (2) covers the D7 defect: the result of `WriteNext` is checked. -/
theorem mergeCompact_fault_reported (ins : List Input) (w : Merge.WState) (reduce : ReduceFn) :
    ((∃ i ∈ ins, i.endErr ≠ none) → (mergeCompact ins w reduce).1 ≠ none) ∧
    ((∃ n ∈ w.failAt, w.calls ≤ n ∧ n < w.calls + (compactOf reduce (mergedOf ins)).length) →
      (mergeCompact ins w reduce).1 ≠ none) ∧
    ((mergeCompact ins w reduce).1 = none →
      (∀ i ∈ ins, i.endErr = none) ∧
      (mergeCompact ins w reduce).2.out = w.out ++ recordsOf (compactOf reduce (mergedOf ins)) ∧
      (mergeCompact ins w reduce).2.calls = w.calls + (compactOf reduce (mergedOf ins)).length) := by
  refine ⟨?_, ?_, ?_⟩
  · rintro ⟨i, hi, hne⟩ hnone
    exact hne ((Proofs.Merge.mergeCompact_success ins w reduce hnone).1 i hi)
  · rintro ⟨n, hn, h1, h2⟩ hnone
    exact (Proofs.Merge.mergeCompact_success ins w reduce hnone).2.2.2 n h1 h2 hn
  · intro hnone
    obtain ⟨h1, h2, h3, _⟩ := Proofs.Merge.mergeCompact_success ins w reduce hnone
    exact ⟨h1, h2, h3⟩

theorem mergeCompact_no_spurious_error (ins : List Input) (w : Merge.WState) (reduce : ReduceFn)
    (hc : ∀ i ∈ ins, i.endErr = none)
    (hw : ∀ n, w.calls ≤ n → n < w.calls + (compactOf reduce (mergedOf ins)).length → n ∉ w.failAt) :
    (mergeCompact ins w reduce).1 = none ∨ (mergeCompact ins w reduce).1 = some .rejected :=
  Proofs.Merge.mergeCompact_noFault ins w reduce hc hw

/-! ### non-vacuity: concrete faults are reachable and reported -/

def exIns (f0 f1 : Option Nat) : List Input :=
  [ { items := [(none, some [1]), (some [97], none)], failAt := f0 },
    { items := [(some [97], some [7]), (some [98], some [])], failAt := f1 } ]

/-- a read fault on the call that would have returned Done -/
example : ∃ i ∈ exIns none (some 2), i.endErr ≠ none :=
  ⟨_, List.mem_cons_of_mem _ List.mem_cons_self, by decide⟩
example : (mergeCompact (exIns none (some 2)) {} scanReduceLatestWins).1 = some .io := by rfl
/-- the dropped element: the heap had popped `a` of input 0 when input 1 failed -/
example : (mergeCompact (exIns (some 1) none) {} scanReduceLatestWins).2.out = [] := by rfl
/-- a write fault on the second write -/
example : (mergeCompact (exIns none none) { failAt := [1] } scanReduceLatestWins).1 = some .io := by rfl
example : (mergeCompact (exIns none none) {} scanReduceLatestWins) =
    (none, { lastKey := some [98], out := [([], some [1]), ([97], some [7]), ([98], some [])], calls := 3 }) := by
  rfl
/-- a fault position that is never reached is not an error -/
example : ∀ i ∈ exIns none (some 3), i.endErr = none := by
  intro i hi
  simp only [exIns, List.mem_cons, List.not_mem_nil, or_false] at hi
  rcases hi with rfl | rfl <;> decide
example : (mergeCompact (exIns none (some 3)) {} scanReduceLatestWins).1 = none := by rfl

end SST.C11
