/-
C03 — An SSTable returns exactly what was written, for every index type and option.
Property theorems only; lemmas live in SST/Proofs/SSTable{Writer,Index,Reader}.lean.
Quantification: ALL strictly ascending key lists with ALL values (nil, empty, marker bytes, …), any lawful
compressor pair and compression codes, any bloom filter without false negatives, all reader options
(verify on load / on read), all probe keys and range bounds.
-/
import SST.Proofs.SSTableReader
namespace SST.C03
open SST Generated

/-- Slice loader (the default): the table written from `kvs` opens, and Contains / Get / Scan /
ScanStartingAt / ScanRange answer exactly like the sorted map of `kvs` (`ReadsAsMap`: Get returns the
value with nil ≠ empty or `NotFound`; scans are ascending, bounds inclusive, lower > upper rejected;
scanned keys are as protobuf returns them, i.e. the empty key comes back as nil). -/
theorem table_reads_as_map_slice (comps : Nat → Compression) (cfg : SstCfg) (kvs : List KV)
    (hcmp : cfg.cmp = bytesCmp) (hc : CompsOk comps cfg) (hf : FitsKV cfg kvs) (hs : StrictAsc bytesCmp kvs)
    (o : ReadOpts) (bloom : Option (Bytes → Bool)) (hb : BloomOk bloom kvs) :
    ∃ r idx, openTable comps .slice o (writeTable cfg kvs) bloom = .ok (r, idx) ∧
      ReadsAsMap comps (fun _ => True) r idx kvs :=
  Proofs.Sst.table_reads comps cfg kvs hcmp hc hf hs .slice o bloom hb _
    (Proofs.Sst.slice_table comps cfg kvs hc hf hs)

/-- Skip-list loader, for all node heights the random generator may produce. -/
theorem table_reads_as_map_skip (comps : Nat → Compression) (cfg : SstCfg) (kvs : List KV)
    (hcmp : cfg.cmp = bytesCmp) (hc : CompsOk comps cfg) (hf : FitsKV cfg kvs) (hs : StrictAsc bytesCmp kvs)
    (o : ReadOpts) (bloom : Option (Bytes → Bool)) (hb : BloomOk bloom kvs)
    (heights : List Nat) (hh : ∀ h ∈ heights, 1 ≤ h) :
    ∃ r idx, openTable comps (.skip heights) o (writeTable cfg kvs) bloom = .ok (r, idx) ∧
      ReadsAsMap comps (fun _ => True) r idx kvs :=
  Proofs.Sst.table_reads comps cfg kvs hcmp hc hf hs (.skip heights) o bloom hb _
    (Proofs.Sst.skip_table comps cfg kvs hc hf hs heights hh)

/-- No bloom-filter false negative: whatever the filter answers for other keys, every written key is
reported present (stated for any reader that reads as the map, hence for the slice and skip loaders). -/
theorem contains_no_false_negative (comps : Nat → Compression) (r : Reader) (idx : Index) (kvs : List KV)
    (h : ReadsAsMap comps (fun _ => True) r idx kvs) :
    ∀ p ∈ kvs, r.contains idx p.1 = (idx, some (.ok true)) :=
  Proofs.Sst.contains_no_false_negative comps r idx kvs h

/-- PARTIAL (map loader, `Byte4KeyMapper` / `Byte20KeyMapper` = `n` 4 / 20).  Full statement: as for the
slice loader.  Proved: the scans always; Contains / Get for every probe `k` such that
`PadInjective n keys k` — all keys and the probe fit `n` bytes and zero padding identifies no two of them.
What is missing is false of the code: see `map_index_pad_collision`. -/
theorem table_reads_as_map_map_partial (comps : Nat → Compression) (cfg : SstCfg) (kvs : List KV)
    (hcmp : cfg.cmp = bytesCmp) (hc : CompsOk comps cfg) (hf : FitsKV cfg kvs) (hs : StrictAsc bytesCmp kvs)
    (o : ReadOpts) (bloom : Option (Bytes → Bool)) (hb : BloomOk bloom kvs)
    (n : Nat) (hn : ∀ p ∈ kvs, p.1.length ≤ n) :
    ∃ r idx, openTable comps (.map n) o (writeTable cfg kvs) bloom = .ok (r, idx) ∧
      ReadsAsMap comps (fun k => PadInjective n (kvs.map (·.1)) k) r idx kvs :=
  Proofs.Sst.table_reads comps cfg kvs hcmp hc hf hs (.map n) o bloom hb _
    (Proofs.Sst.map_table comps cfg kvs hc hf hs n hn)

/-- COUNTEREXAMPLE to the full statement for the map loader (known limitation D21, finding
`map-index:zero-pad-collision`): with the keys "a" and "a\0" written (any values, any compression, any
options), `Get("a")` returns the value of "a\0" where the sorted map says the value of "a", and the
never-written key "a\0\0" is found. -/
theorem map_index_pad_collision (comps : Nat → Compression) (cfg : SstCfg) (hcmp : cfg.cmp = bytesCmp)
    (hc : CompsOk comps cfg) (v1 v2 : GoBytes) (hf : FitsKV cfg [([97], v1), ([97, 0], v2)])
    (o : ReadOpts) (bloom : Option (Bytes → Bool)) :
    ∃ r idx, openTable comps (.map 4) o (writeTable cfg [([97], v1), ([97, 0], v2)]) bloom = .ok (r, idx) ∧
      (r.get idx [97]).2 = some (.ok v2) ∧ specGetRes [([97], v1), ([97, 0], v2)] [97] = .ok v1 ∧
      (r.get idx [97, 0, 0]).2 = some (.ok v2) ∧
      specGetRes [([97], v1), ([97, 0], v2)] [97, 0, 0] = .error .notFound :=
  Proofs.Sst.map_index_pad_collision comps cfg hcmp hc v1 v2 hf o bloom

/-- the collision input violates the hypothesis of the partial theorem, as it must -/
example : ¬ PadInjective 4 [[97], [97, 0]] [97] := by decide

/-- non-vacuity: a concrete ascending list with a nil value, an empty value, marker bytes and the empty key;
a probe that zero padding keeps apart from the keys -/
example : StrictAsc bytesCmp [(([] : Bytes), (none : GoBytes)), ([0x91], some []), ([0x91, 0x8d], some [0x91, 0x8d, 0x4c])] := by
  unfold StrictAsc; decide

example : PadInjective 4 [[97], [98, 0, 1]] [97, 1] := by decide

end SST.C03
