/-
C03 — An SSTable returns exactly what was written, for every index type and option.
Property theorems only; lemmas live in SST/Proofs/SSTable{Writer,Index,Reader}.lean.
Quantification: ALL strictly ascending key lists with ALL values (nil, empty, marker bytes, …), any lawful
compressor pair and compression codes, any bloom filter without false negatives, all reader options
(verify on load / on read), all probe keys and range bounds.
-/
import SST.Proofs.SSTableReader
import SST.Proofs.SSTableDisk
import SST.Proofs.SSTableDiskLookup
namespace SST.C03
open SST Generated

/-- Slice loader (the default): the table written from `kvs` opens, and Contains / Get / Scan /
ScanStartingAt / ScanRange answer exactly like the sorted map of `kvs` (`ReadsAsMap`: Get returns the
value with nil ≠ empty or `NotFound`; scans are ascending, bounds inclusive, lower > upper rejected;
scanned keys are as protobuf returns them, i.e. the empty key comes back as nil). -/
theorem table_reads_as_map_slice (comps : Nat → Compression) (cfg : SstCfg) (kvs : List KV)
    (hcmp : cfg.cmp = bytesCmp) (hc : CompsOk comps cfg) (hf : FitsKV cfg kvs) (hs : StrictAsc bytesCmp kvs)
    (o : ReadOpts) (bloom : Option (Bytes → Bool)) (hb : BloomOk bloom kvs) :
    ∃ r idx, openTable comps .slice o (writeTable cfg kvs) bloom = .ok (r, idx) ∧
      ReadsAsMap comps (fun _ => True) r idx kvs :=
  Proofs.Sst.table_reads comps cfg kvs hcmp hc hf hs .slice o bloom hb _
    (Proofs.Sst.slice_table comps cfg kvs hc hf hs)

/-- Skip-list loader, for all node heights the random generator may produce. -/
theorem table_reads_as_map_skip (comps : Nat → Compression) (cfg : SstCfg) (kvs : List KV)
    (hcmp : cfg.cmp = bytesCmp) (hc : CompsOk comps cfg) (hf : FitsKV cfg kvs) (hs : StrictAsc bytesCmp kvs)
    (o : ReadOpts) (bloom : Option (Bytes → Bool)) (hb : BloomOk bloom kvs)
    (heights : List Nat) (hh : ∀ h ∈ heights, 1 ≤ h) :
    ∃ r idx, openTable comps (.skip heights) o (writeTable cfg kvs) bloom = .ok (r, idx) ∧
      ReadsAsMap comps (fun _ => True) r idx kvs :=
  Proofs.Sst.table_reads comps cfg kvs hcmp hc hf hs (.skip heights) o bloom hb _
    (Proofs.Sst.skip_table comps cfg kvs hc hf hs heights hh)

/-- No bloom-filter false negative: whatever the filter answers for other keys, every written key is
reported present (stated for any reader that reads as the map, hence for the slice and skip loaders). -/
theorem contains_no_false_negative (comps : Nat → Compression) (r : Reader) (idx : Index) (kvs : List KV)
    (h : ReadsAsMap comps (fun _ => True) r idx kvs) :
    ∀ p ∈ kvs, r.contains idx p.1 = (idx, some (.ok true)) :=
  Proofs.Sst.contains_no_false_negative comps r idx kvs h

/-- PARTIAL (map loader, `Byte4KeyMapper` / `Byte20KeyMapper` = `n` 4 / 20).  Full statement: as for the
slice loader.  Proved: the scans always; Contains / Get for every probe `k` such that
`PadInjective n keys k` — all keys and the probe fit `n` bytes and zero padding identifies no two of them.
What is missing is false of the code: see `map_index_pad_collision`. -/
theorem table_reads_as_map_map_partial (comps : Nat → Compression) (cfg : SstCfg) (kvs : List KV)
    (hcmp : cfg.cmp = bytesCmp) (hc : CompsOk comps cfg) (hf : FitsKV cfg kvs) (hs : StrictAsc bytesCmp kvs)
    (o : ReadOpts) (bloom : Option (Bytes → Bool)) (hb : BloomOk bloom kvs)
    (n : Nat) (hn : ∀ p ∈ kvs, p.1.length ≤ n) :
    ∃ r idx, openTable comps (.map n) o (writeTable cfg kvs) bloom = .ok (r, idx) ∧
      ReadsAsMap comps (fun k => PadInjective n (kvs.map (·.1)) k) r idx kvs :=
  Proofs.Sst.table_reads comps cfg kvs hcmp hc hf hs (.map n) o bloom hb _
    (Proofs.Sst.map_table comps cfg kvs hc hf hs n hn)

/-- COUNTEREXAMPLE to the full statement for the map loader (known limitation D21, finding
`map-index:zero-pad-collision`): with the keys "a" and "a\0" written (any values, any compression, any
options), `Get("a")` returns the value of "a\0" where the sorted map says the value of "a", and the
never-written key "a\0\0" is found. -/
theorem map_index_pad_collision (comps : Nat → Compression) (cfg : SstCfg) (hcmp : cfg.cmp = bytesCmp)
    (hc : CompsOk comps cfg) (v1 v2 : GoBytes) (hf : FitsKV cfg [([97], v1), ([97, 0], v2)])
    (o : ReadOpts) (bloom : Option (Bytes → Bool)) :
    ∃ r idx, openTable comps (.map 4) o (writeTable cfg [([97], v1), ([97, 0], v2)]) bloom = .ok (r, idx) ∧
      (r.get idx [97]).2 = some (.ok v2) ∧ specGetRes [([97], v1), ([97, 0], v2)] [97] = .ok v1 ∧
      (r.get idx [97, 0, 0]).2 = some (.ok v2) ∧
      specGetRes [([97], v1), ([97, 0], v2)] [97, 0, 0] = .error .notFound :=
  Proofs.Sst.map_index_pad_collision comps cfg hcmp hc v1 v2 hf o bloom

/-- the collision input violates the hypothesis of the partial theorem, as it must -/
example : ¬ PadInjective 4 [[97], [97, 0]] [97] := by decide

/-! ## disk loader (documented EXPERIMENTAL in sstables/README.md) -/

/-- Disk loader, after the repairs 37d0b89, 93d8a40, 90fd3ef: the FULL read-like-a-map statement, provided
no index record embeds the bytes of a complete valid record (`NoPhantom`, decidable on the index file;
without it see `disk_index_phantom_in_index_payload`).  The table written from `kvs` opens (verification on
load included) and Contains / Get / Scan / ScanStartingAt / ScanRange answer exactly like the sorted map of
`kvs` — the same five conjuncts as `table_reads_as_map_slice` (lower > upper rejected; bounds absent, present,
below and above all keys; nil ≠ empty values; bloom filter without false negatives).

The disk index has STATE, the offset cache (at most 1024 offsets, only successful reads are remembered), so
the conjuncts are stated for EVERY index state calls may leave behind (`ReadsAsMapFrom`, `IndexState`: the
same file and compressor, a cache holding only what a fresh read of that offset returns) and every call is
shown to leave such a state: no answer depends on the lookups made before.  `table_reads_as_map_disk_calls`
tells the same over call sequences. -/
theorem table_reads_as_map_disk (comps : Nat → Compression) (cfg : SstCfg) (kvs : List KV)
    (hcmp : cfg.cmp = bytesCmp) (hc : CompsOk comps cfg) (hf : FitsKV cfg kvs) (hs : StrictAsc bytesCmp kvs)
    (hnp : Proofs.NoPhantom cfg.ic cfg.ict ((entriesOf cfg.dc kvs).map indexRecOf))
    (o : ReadOpts) (bloom : Option (Bytes → Bool)) (hb : BloomOk bloom kvs) :
    ∃ r idx, openTable comps .disk o (writeTable cfg kvs) bloom = .ok (r, idx) ∧
      ReadsAsMapFrom comps r idx kvs :=
  Proofs.Sst.disk_table_reads comps cfg kvs hcmp hc hf hs hnp o bloom hb

/-- The same over call sequences: ANY sequence of Get / Contains / Scan / ScanStartingAt / ScanRange calls on
the opened reader (the offset cache threaded from call to call) gets, call by call, the answers of the
sorted map of `kvs`. -/
theorem table_reads_as_map_disk_calls (comps : Nat → Compression) (cfg : SstCfg) (kvs : List KV)
    (hcmp : cfg.cmp = bytesCmp) (hc : CompsOk comps cfg) (hf : FitsKV cfg kvs) (hs : StrictAsc bytesCmp kvs)
    (hnp : Proofs.NoPhantom cfg.ic cfg.ict ((entriesOf cfg.dc kvs).map indexRecOf))
    (o : ReadOpts) (bloom : Option (Bytes → Bool)) (hb : BloomOk bloom kvs) :
    ∃ r idx, openTable comps .disk o (writeTable cfg kvs) bloom = .ok (r, idx) ∧
      ∀ calls : List ReadCall, r.calls comps idx calls = calls.map (specAns kvs) := by
  obtain ⟨r, idx, h1, h2⟩ := table_reads_as_map_disk comps cfg kvs hcmp hc hf hs hnp o bloom hb
  exact ⟨r, idx, h1, h2.calls⟩

/-- `ReadsAsMapFrom` is `ReadsAsMap` with the index state threaded: for the loaders without state (their
only reachable state is the loaded index) the slice theorem has exactly this form too. -/
theorem table_reads_as_map_slice_from (comps : Nat → Compression) (cfg : SstCfg) (kvs : List KV)
    (hcmp : cfg.cmp = bytesCmp) (hc : CompsOk comps cfg) (hf : FitsKV cfg kvs) (hs : StrictAsc bytesCmp kvs)
    (o : ReadOpts) (bloom : Option (Bytes → Bool)) (hb : BloomOk bloom kvs) :
    ∃ r idx, openTable comps .slice o (writeTable cfg kvs) bloom = .ok (r, idx) ∧
      ReadsAsMapFrom comps r idx kvs :=
  Proofs.Sst.slice_table_reads_from comps cfg kvs hcmp hc hf hs o bloom hb

/-- non-vacuity of the `NoPhantom` hypothesis: the index file of the three-key table of the regression
theorem below holds no phantom record (the check runs over every position of the file) -/
example : Proofs.NoPhantom plainCfg.ic plainCfg.ict
    ((entriesOf plainCfg.dc [([5], some [1]), ([6], some [2]), ([7], some [3])]).map indexRecOf) :=
  Proofs.Sst.noPhantom_of_check _ _ _ (by decide +kernel)

/-- the disk index never changes the FILE it answers from: a reachable state differs from the opened index
in its offset cache only, and that cache holds only fresh reads -/
example (d0 : DiskIdx) (idx : Index) (h : IndexState (.disk d0) idx) :
    ∃ d, idx = .disk d ∧ d.file = d0.file ∧ d.c = d0.c ∧ DiskCacheFresh d := h

/-- REGRESSION (was the counterexample `disk_index_eof_in_binary_search`, D4, finding
`disk-index:eof-in-binary-search`; repaired by 93d8a40): two keys, the second longer than the first, so that
the binary search over byte offsets probes an offset behind the start of the last index record.  End-of-file
there now means "look below": both written keys are found, an unwritten key in between is not. -/
theorem disk_index_eof_in_binary_search_fixed :
    probeGet .disk [([1], some [7]), ([2, 2, 2, 2, 2, 2, 2, 2, 2, 2, 2, 2], some [8])]
      [2, 2, 2, 2, 2, 2, 2, 2, 2, 2, 2, 2] = some (.ok (some [8])) ∧
    probeGet .disk [([1], some [7]), ([2, 2, 2, 2, 2, 2, 2, 2, 2, 2, 2, 2], some [8])] [1] = some (.ok (some [7])) ∧
    probeGet .disk [([1], some [7]), ([2, 2, 2, 2, 2, 2, 2, 2, 2, 2, 2, 2], some [8])] [2] = some (.error .notFound) ∧
    probeGet .slice [([1], some [7]), ([2, 2, 2, 2, 2, 2, 2, 2, 2, 2, 2, 2], some [8])] [1] = some (.ok (some [7])) := by
  decide +kernel

/-- REGRESSION (was the counterexample `disk_index_range_upper_below_min`, D5, finding
`disk-index:range-upper-below-min`; repaired by 90fd3ef): a range whose upper bound lies below the smallest
key is empty (it used to be the WHOLE table: `endOffset - 1` wrapped around at offset 0); a range that ends
on the smallest key still delivers it. -/
theorem disk_index_range_upper_below_min_fixed :
    probeRange .disk [([5], some [1]), ([6], some [2]), ([7], some [3])] [1] [2] = .ok ([], .done) ∧
    probeRange .disk [([5], some [1]), ([6], some [2]), ([7], some [3])] [1] [5] =
      .ok ([(some [5], some [1])], .done) ∧
    probeRange .slice [([5], some [1]), ([6], some [2]), ([7], some [3])] [1] [2] = .ok ([], .done) := by
  decide +kernel

/-- a key that embeds the bytes of a complete valid record whose payload parses as an index entry for "zz" -/
def phantomKey : Bytes := [9] ++ encRecord none (some (encIndexEntry [122, 122] 8 0))

/-- COUNTEREXAMPLE (finding `disk-index:phantom-in-index-payload`): `SeekNext` stops at the record embedded
in a key; the disk iterator then yields an index entry nobody wrote: `Scan` delivers the unwritten key "zz"
(and then runs out of data records), `Get("zz")` finds it with the first value of the table. -/
theorem disk_index_phantom_in_index_payload :
    probeScan .disk [([1], some [1]), (phantomKey, some [2]), ([200], some [3])] =
      .ok ([(some [1], some [1]), (some phantomKey, some [2]), (some [122, 122], some [3])], .err .eof) ∧
    probeGet .disk [([1], some [1]), (phantomKey, some [2]), ([200], some [3])] [122, 122] = some (.ok (some [1])) ∧
    probeScan .slice [([1], some [1]), (phantomKey, some [2]), ([200], some [3])] =
      .ok ([(some [1], some [1]), (some phantomKey, some [2]), (some [200], some [3])], .done) := by
  decide +kernel

/-- REGRESSION (was the counterexample `disk_index_cached_failed_read`, finding
`disk-index:cached-failed-read-matches-empty-key`; repaired by 37d0b89): `findAt` no longer remembers the
empty record a FAILED `SeekNext` leaves behind.  On an empty table the same call `Get("")` is "not found"
every time (the fifth call used to "find" the cached empty record and fail with a magic-number error). -/
theorem disk_index_cached_failed_read_fixed :
    probeGets .disk [] [[], [], [], [], [], []] =
      [some (.error .notFound), some (.error .notFound), some (.error .notFound), some (.error .notFound),
       some (.error .notFound), some (.error .notFound)] := by
  decide +kernel

/-- non-vacuity: a concrete ascending list with a nil value, an empty value, marker bytes and the empty key;
a probe that zero padding keeps apart from the keys -/
example : StrictAsc bytesCmp [(([] : Bytes), (none : GoBytes)), ([0x91], some []), ([0x91, 0x8d], some [0x91, 0x8d, 0x4c])] := by
  unfold StrictAsc; decide

example : PadInjective 4 [[97], [98, 0, 1]] [97, 1] := by decide

/-- the configuration hypotheses are satisfiable: no compression, and the sizes of that list fit -/
example : CompsOk plainComps plainCfg := ⟨rfl, rfl, trivial, trivial, by decide, by decide⟩

example : FitsKV plainCfg [([], none), ([0x91], some []), ([0x91, 0x8d], some [0x91, 0x8d, 0x4c])] := by
  unfold FitsKV
  exact ⟨by decide +kernel, by decide +kernel, by decide +kernel⟩

example : BloomOk (some fun _ => true) [(([1] : Bytes), (none : GoBytes))] := by
  intro bf h p _; cases h; rfl

end SST.C03
