/-
C03 — An SSTable returns exactly what was written, for every index type and option.
Property theorems only; lemmas live in SST/Proofs/SSTable{Writer,Index,Reader}.lean.
Quantification: ALL strictly ascending key lists with ALL values (nil, empty, marker bytes, …), any lawful
compressor pair and compression codes, any bloom filter without false negatives, all reader options
(verify on load / on read), all probe keys and range bounds.
-/
import SST.Proofs.SSTableReader
import SST.Proofs.SSTableDisk
namespace SST.C03
open SST Generated

/-- Slice loader (the default): the table written from `kvs` opens, and Contains / Get / Scan /
ScanStartingAt / ScanRange answer exactly like the sorted map of `kvs` (`ReadsAsMap`: Get returns the
value with nil ≠ empty or `NotFound`; scans are ascending, bounds inclusive, lower > upper rejected;
scanned keys are as protobuf returns them, i.e. the empty key comes back as nil). -/
theorem table_reads_as_map_slice (comps : Nat → Compression) (cfg : SstCfg) (kvs : List KV)
    (hcmp : cfg.cmp = bytesCmp) (hc : CompsOk comps cfg) (hf : FitsKV cfg kvs) (hs : StrictAsc bytesCmp kvs)
    (o : ReadOpts) (bloom : Option (Bytes → Bool)) (hb : BloomOk bloom kvs) :
    ∃ r idx, openTable comps .slice o (writeTable cfg kvs) bloom = .ok (r, idx) ∧
      ReadsAsMap comps (fun _ => True) r idx kvs :=
  Proofs.Sst.table_reads comps cfg kvs hcmp hc hf hs .slice o bloom hb _
    (Proofs.Sst.slice_table comps cfg kvs hc hf hs)

/-- Skip-list loader, for all node heights the random generator may produce. -/
theorem table_reads_as_map_skip (comps : Nat → Compression) (cfg : SstCfg) (kvs : List KV)
    (hcmp : cfg.cmp = bytesCmp) (hc : CompsOk comps cfg) (hf : FitsKV cfg kvs) (hs : StrictAsc bytesCmp kvs)
    (o : ReadOpts) (bloom : Option (Bytes → Bool)) (hb : BloomOk bloom kvs)
    (heights : List Nat) (hh : ∀ h ∈ heights, 1 ≤ h) :
    ∃ r idx, openTable comps (.skip heights) o (writeTable cfg kvs) bloom = .ok (r, idx) ∧
      ReadsAsMap comps (fun _ => True) r idx kvs :=
  Proofs.Sst.table_reads comps cfg kvs hcmp hc hf hs (.skip heights) o bloom hb _
    (Proofs.Sst.skip_table comps cfg kvs hc hf hs heights hh)

/-- No bloom-filter false negative: whatever the filter answers for other keys, every written key is
reported present (stated for any reader that reads as the map, hence for the slice and skip loaders). -/
theorem contains_no_false_negative (comps : Nat → Compression) (r : Reader) (idx : Index) (kvs : List KV)
    (h : ReadsAsMap comps (fun _ => True) r idx kvs) :
    ∀ p ∈ kvs, r.contains idx p.1 = (idx, some (.ok true)) :=
  Proofs.Sst.contains_no_false_negative comps r idx kvs h

/-- PARTIAL (map loader, `Byte4KeyMapper` / `Byte20KeyMapper` = `n` 4 / 20).  Full statement: as for the
slice loader.  Proved: the scans always; Contains / Get for every probe `k` such that
`PadInjective n keys k` — all keys and the probe fit `n` bytes and zero padding identifies no two of them.
What is missing is false of the code: see `map_index_pad_collision`. -/
theorem table_reads_as_map_map_partial (comps : Nat → Compression) (cfg : SstCfg) (kvs : List KV)
    (hcmp : cfg.cmp = bytesCmp) (hc : CompsOk comps cfg) (hf : FitsKV cfg kvs) (hs : StrictAsc bytesCmp kvs)
    (o : ReadOpts) (bloom : Option (Bytes → Bool)) (hb : BloomOk bloom kvs)
    (n : Nat) (hn : ∀ p ∈ kvs, p.1.length ≤ n) :
    ∃ r idx, openTable comps (.map n) o (writeTable cfg kvs) bloom = .ok (r, idx) ∧
      ReadsAsMap comps (fun k => PadInjective n (kvs.map (·.1)) k) r idx kvs :=
  Proofs.Sst.table_reads comps cfg kvs hcmp hc hf hs (.map n) o bloom hb _
    (Proofs.Sst.map_table comps cfg kvs hc hf hs n hn)

/-- COUNTEREXAMPLE to the full statement for the map loader (known limitation D21, finding
`map-index:zero-pad-collision`): with the keys "a" and "a\0" written (any values, any compression, any
options), `Get("a")` returns the value of "a\0" where the sorted map says the value of "a", and the
never-written key "a\0\0" is found. -/
theorem map_index_pad_collision (comps : Nat → Compression) (cfg : SstCfg) (hcmp : cfg.cmp = bytesCmp)
    (hc : CompsOk comps cfg) (v1 v2 : GoBytes) (hf : FitsKV cfg [([97], v1), ([97, 0], v2)])
    (o : ReadOpts) (bloom : Option (Bytes → Bool)) :
    ∃ r idx, openTable comps (.map 4) o (writeTable cfg [([97], v1), ([97, 0], v2)]) bloom = .ok (r, idx) ∧
      (r.get idx [97]).2 = some (.ok v2) ∧ specGetRes [([97], v1), ([97, 0], v2)] [97] = .ok v1 ∧
      (r.get idx [97, 0, 0]).2 = some (.ok v2) ∧
      specGetRes [([97], v1), ([97, 0], v2)] [97, 0, 0] = .error .notFound :=
  Proofs.Sst.map_index_pad_collision comps cfg hcmp hc v1 v2 hf o bloom

/-- the collision input violates the hypothesis of the partial theorem, as it must -/
example : ¬ PadInjective 4 [[97], [97, 0]] [97] := by decide

/-! ## disk loader (documented EXPERIMENTAL in sstables/README.md) -/

/-- PARTIAL (disk loader).  Full statement: as for the slice loader.  Proved: the table opens (verification
on load included) and the full `Scan` is the sorted map, provided no index record embeds the bytes of a
complete valid record (`NoPhantom`, decidable on the index file).  Contains / Get / ScanStartingAt /
ScanRange are NOT proved because they are false of the code even without phantoms: see
`disk_index_eof_in_binary_search` and `disk_index_range_upper_below_min`; without the hypothesis the scan
fails too: `disk_index_phantom_in_index_payload`. -/
theorem table_reads_as_map_disk_partial (comps : Nat → Compression) (cfg : SstCfg) (kvs : List KV)
    (hcmp : cfg.cmp = bytesCmp) (hc : CompsOk comps cfg) (hf : FitsKV cfg kvs) (hs : StrictAsc bytesCmp kvs)
    (hnp : Proofs.NoPhantom cfg.ic cfg.ict ((entriesOf cfg.dc kvs).map indexRecOf))
    (o : ReadOpts) (bloom : Option (Bytes → Bool)) :
    ∃ r idx, openTable comps .disk o (writeTable cfg kvs) bloom = .ok (r, idx) ∧
      r.scan comps idx = .ok (kvs.map normKV, .done) :=
  Proofs.Sst.disk_scan comps cfg kvs hcmp hc hf hs hnp o bloom

/-- COUNTEREXAMPLE (D4, finding `disk-index:eof-in-binary-search`): the binary search over byte offsets
probes an offset behind the start of the last index record, `SeekNext` reports end-of-file there and the
search answers "absent".  Two keys, the second longer than the first: BOTH written keys are not found. -/
theorem disk_index_eof_in_binary_search :
    probeGet .disk [([1], some [7]), ([2, 2, 2, 2, 2, 2, 2, 2, 2, 2, 2, 2], some [8])]
      [2, 2, 2, 2, 2, 2, 2, 2, 2, 2, 2, 2] = some (.error .notFound) ∧
    probeGet .disk [([1], some [7]), ([2, 2, 2, 2, 2, 2, 2, 2, 2, 2, 2, 2], some [8])] [1] = some (.error .notFound) ∧
    probeGet .slice [([1], some [7]), ([2, 2, 2, 2, 2, 2, 2, 2, 2, 2, 2, 2], some [8])] [1] = some (.ok (some [7])) := by
  decide +kernel

/-- COUNTEREXAMPLE (D5, finding `disk-index:range-upper-below-min`): a range whose upper bound lies below
the smallest key returns the WHOLE table (`endOffset - 1` wraps around at offset 0); the sorted map (and the
slice loader) answer the empty range. -/
theorem disk_index_range_upper_below_min :
    probeRange .disk [([5], some [1]), ([6], some [2]), ([7], some [3])] [1] [2] =
      .ok ([(some [5], some [1]), (some [6], some [2]), (some [7], some [3])], .done) ∧
    probeRange .slice [([5], some [1]), ([6], some [2]), ([7], some [3])] [1] [2] = .ok ([], .done) := by
  decide +kernel

/-- a key that embeds the bytes of a complete valid record whose payload parses as an index entry for "zz" -/
def phantomKey : Bytes := [9] ++ encRecord none (some (encIndexEntry [122, 122] 8 0))

/-- COUNTEREXAMPLE (finding `disk-index:phantom-in-index-payload`): `SeekNext` stops at the record embedded
in a key; the disk iterator then yields an index entry nobody wrote: `Scan` delivers the unwritten key "zz"
(and then runs out of data records), `Get("zz")` finds it with the first value of the table. -/
theorem disk_index_phantom_in_index_payload :
    probeScan .disk [([1], some [1]), (phantomKey, some [2]), ([200], some [3])] =
      .ok ([(some [1], some [1]), (some phantomKey, some [2]), (some [122, 122], some [3])], .err .eof) ∧
    probeGet .disk [([1], some [1]), (phantomKey, some [2]), ([200], some [3])] [122, 122] = some (.ok (some [1])) ∧
    probeScan .slice [([1], some [1]), (phantomKey, some [2]), ([200], some [3])] =
      .ok ([(some [1], some [1]), (some phantomKey, some [2]), (some [200], some [3])], .done) := by
  decide +kernel

/-- COUNTEREXAMPLE (finding `disk-index:cached-failed-read-matches-empty-key`): `findAt` caches the empty
record left behind by a FAILED `SeekNext` and returns it later without the error; an empty record compares
equal to the empty key.  On an empty table the same call `Get("")` is "not found" four times (each failed probe offset
is cached) and the fifth time "finds" the cached record and fails reading the data file at offset 0. -/
theorem disk_index_cached_failed_read :
    probeGets .disk [] [[], [], [], [], []] =
      [some (.error .notFound), some (.error .notFound), some (.error .notFound), some (.error .notFound),
       some (.error .magic)] := by
  decide +kernel

/-- non-vacuity: a concrete ascending list with a nil value, an empty value, marker bytes and the empty key;
a probe that zero padding keeps apart from the keys -/
example : StrictAsc bytesCmp [(([] : Bytes), (none : GoBytes)), ([0x91], some []), ([0x91, 0x8d], some [0x91, 0x8d, 0x4c])] := by
  unfold StrictAsc; decide

example : PadInjective 4 [[97], [98, 0, 1]] [97, 1] := by decide

/-- the configuration hypotheses are satisfiable: no compression, and the sizes of that list fit -/
example : CompsOk plainComps plainCfg := ⟨rfl, rfl, trivial, trivial, by decide, by decide⟩

example : FitsKV plainCfg [([], none), ([0x91], some []), ([0x91, 0x8d], some [0x91, 0x8d, 0x4c])] := by
  unfold FitsKV
  exact ⟨by decide +kernel, by decide +kernel, by decide +kernel⟩

example : BloomOk (some fun _ => true) [(([1] : Bytes), (none : GoBytes))] := by
  intro bf h p _; cases h; rfl

end SST.C03
