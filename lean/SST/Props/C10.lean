/-
C10 — Recovery may be killed at any instant and repeated without changing the outcome.
Abstract-disk model L6-fs; `recoverEvents d` is the sequence of file-system calls `Open` makes on the disk `d`
(finishing / discarding compactions, removing unfinished tables, flushing the replayed WAL into a new table,
removing the WAL files oldest first, re-creating the WAL directory).
-/
import SST.Proofs.FSRecover
namespace SST.C10
open SST SST.FS SST.DBM SST.Proofs.FS

/-- the calls of `Open`, run to the end, leave exactly the disk the function `recover` computes -/
theorem recover_events_sound (d : Disk) (h : DiskOk d) (o : Opts) (d' : Disk) (s : State)
    (hr : recover d o = .ok (d', s)) (junks : List (Nat × Layer)) : applyEvs d (recoverEvents d junks) = d' :=
  recover_events d h o d' s hr junks

/-- MAIN THEOREM — for EVERY well-formed disk (every crash image of C02 is one) and EVERY number `m` of calls
after which the recovery is killed: the disk left behind is again well-formed, a later `Open` succeeds on it and
serves exactly the content the uninterrupted recovery serves.  The unlink order inside a `RemoveAll` of a table
directory does not matter: the abstract states complete → part true → part false → gone that `recoverEvents`
visits, plus — for a COMPLETE table — the state "metadata file unlinked first, index.rio / data.rio still load: a
legacy table showing `junks g`" inserted by `detour`, cover every order; in each of them the table is still listed
by the flagged compaction (deleted again).  An unfinished table is removed index.rio first: every state on the way
fails to load and is discarded again.  "Same
outcome" is the same CONTENT; the table layout may differ (a second recovery may flush the remaining WAL files
into one more table). -/
theorem recover_idempotent_under_crash (d : Disk) (h : DiskOk d) (o o' : Opts) (m : Nat) (junks : List (Nat × Layer)) :
    let dm := applyEvs d ((recoverEvents d junks).take m)
    DiskOk dm ∧ ∃ d1 s1 d2 s2, recover d o = .ok (d1, s1) ∧ recover dm o' = .ok (d2, s2) ∧ abs s2 = abs s1 := by
  intro dm
  obtain ⟨h1, h2⟩ := recover_prefix d h m junks
  obtain ⟨d1, s1, hr1⟩ := recover_ok d h o
  obtain ⟨d2, s2, hr2⟩ := recover_ok dm h1 o'
  refine ⟨h1, d1, s1, d2, s2, hr1, hr2, ?_⟩
  rw [recover_abs d o d1 s1 hr1, recover_abs dm o' d2 s2 hr2]
  exact h2

/-- the disk after a sequence of interrupted recovery attempts (attempt i killed after `ms[i].1` calls; `ms[i].2` =
its `junk` assignment) -/
def interrupted : Disk → List (Nat × List (Nat × Layer)) → Disk
  | d, [] => d
  | d, m :: ms => interrupted (applyEvs d ((recoverEvents d m.2).take m.1)) ms

/-- any number of interrupted attempts is equivalent to none -/
theorem recover_after_interruptions (d : Disk) (h : DiskOk d) (ms : List (Nat × List (Nat × Layer))) (o o' : Opts) :
    DiskOk (interrupted d ms) ∧
    ∃ d1 s1 d2 s2, recover d o = .ok (d1, s1) ∧ recover (interrupted d ms) o' = .ok (d2, s2) ∧ abs s2 = abs s1 := by
  have key : ∀ ms d, DiskOk d → DiskOk (interrupted d ms) ∧ logical (interrupted d ms) = logical d := by
    intro ms
    induction ms with
    | nil => intro d h; exact ⟨h, rfl⟩
    | cons m ms ih =>
      intro d h
      obtain ⟨h1, h2⟩ := recover_prefix d h m.1 m.2
      obtain ⟨h3, h4⟩ := ih _ h1
      exact ⟨h3, h4.trans h2⟩
  obtain ⟨h1, h2⟩ := key ms d h
  obtain ⟨d1, s1, hr1⟩ := recover_ok d h o
  obtain ⟨d2, s2, hr2⟩ := recover_ok _ h1 o'
  refine ⟨h1, d1, s1, d2, s2, hr1, hr2, ?_⟩
  rw [recover_abs d o d1 s1 hr1, recover_abs _ o' d2 s2 hr2]
  exact h2

/-! ### non-vacuity and sanity -/

/-- a flagged compaction of tables 1,2 (of 1,2,3) with table 1 half deleted (metadata still there), table 2
already without metadata, an unflagged leftover compaction directory, an unfinished newest table and two WAL files
of which the last has a cut record -/
def dCompCrash : Disk :=
  { tables := [(1, .part true), (2, .part false), (3, .complete [([3], some [7])]), (4, .part false)], walDir := true,
    wal := [{ num := 0, recs := [.put [1] [5]] }, { num := 1, recs := [.del [3]], torn := true }],
    comps := [{ id := 4, out := .complete [([9], some [9])] },
              { id := 7, out := .complete [([1], some [1]), ([2], some [2])], flag := some { inputs := [1, 2], replacement := 1 } }] }

example : DiskOk dCompCrash := by decide
example : (recoverEvents dCompCrash).length = 18 := by decide
example : (List.range 19).all (fun m =>
    let dm := applyEvs dCompCrash ((recoverEvents dCompCrash).take m)
    decide (DiskOk dm) && ([[1], [2], [3], [9]].map (logical dm) == [some [5], some [2], none, none])) = true := by decide

/-- before commit d2bdde6 recovery removed an unfinished table (empty metadata file, complete index / data) with a
plain `RemoveAll`: an order that unlinks meta.pb.bin first, killed right then, leaves a directory WITHOUT metadata
file that loads — the next recovery keeps it as a legacy table (here showing `[1] ↦ 0x0707`).  Now index.rio goes
first (`removeUnfinishedTable`) and every intermediate state is discarded again. -/
def dUnfinished : Disk :=
  { tables := [(1, .part false)], walDir := true, wal := [{ num := 0, recs := [.put [1] [9]] }] }

theorem prefix_metadata_first_removal_kept_legacy_table :
    let dOld := applyEv dUnfinished (.tblLoadable 1 [([1], some [7, 7])])     -- pre-fix: metadata unlinked first
    let dNew := applyEv dUnfinished (.tblUnlinkPart 1 false)                   -- now: index.rio unlinked first
    dOld.tables = [(1, .complete [([1], some [7, 7])])] ∧ dNew.tables = [(1, .part false)] ∧
      (recover dOld).toOption.map (fun r => r.2.tables.map (·.gen)) = some [1, 2] ∧
      (recover dNew).toOption.map (fun r => r.2.tables.map (·.gen)) = some [1] ∧
      recoverEvents dUnfinished [(1, [([1], some [7, 7])])] = recoverEvents dUnfinished [] := by
  decide

/-- pre-fix D15 (rename BEFORE the other inputs are deleted): the rename takes the flag away, an interruption
inside the following RemoveAll leaves a half-deleted table nobody cleans up — not well-formed, `Open` fails -/
def dRenameFirst : Disk :=
  { tables := [(1, .complete [([1], some [1]), ([2], some [2])]), (2, .part true)], walDir := true, wal := [{ num := 0 }] }

theorem rename_before_delete_breaks_recovery : ¬ DiskOk dRenameFirst ∧ errOf (recover dRenameFirst) = some .tableLoad := by
  decide

/-- pre-fix D16 (WAL files removed in directory order): after the recovery flush, removing the NEWER file first
changes what the next recovery serves; removing the older one first does not -/
def dWalTwo : Disk :=
  { tables := [(1, .complete [([1], some [2])])], walDir := true,
    wal := [{ num := 0, recs := [.put [1] [1]] }, { num := 1, recs := [.put [1] [2]] }] }

theorem newest_wal_first_changes_outcome :
    logical dWalTwo [1] = some [2] ∧ logical (applyEv dWalTwo (.walUnlink 0)) [1] = some [2] ∧
      logical (applyEv dWalTwo (.walUnlink 1)) [1] = some [1] := by
  decide

end SST.C10
