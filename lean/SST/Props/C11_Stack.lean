/-
C11, SYSTEM-LEVEL HALF, for the composed byte-level model (L7): "If reading any input record or writing any
output record fails while tables are merged, compacted or a memstore is flushed, the operation returns an error
(or the process stops); it never reports success for an output that is missing or misrepresents records.
Consequently a compaction whose output is incomplete is never installed in place of its inputs."

Model: SST/Model/StackFault.lean — `flushStepF` / `compactStepF` = the flush / compaction steps of
SST/Model/Stack.lean where every `WriteNext` may carry a fault (`Fault.data` / `Fault.index`, the faults of the
byte-level writer `SstW`), `SSTableStreamWriter.Close` may fail at any of its five I/O actions (`closeErrs`:
index close and data close joined, bloom file, metadata write, deferred metadata file close — as coded every
one of them ends up in the returned error), and every input scanner of a compaction may fail at a chosen `Next`
call (`FInput.failAt`, C11's fallible inputs).  A memstore iterator reads memory and cannot fail.
"Returns an error" = the step is `.error _` — as coded the flusher / compactor goroutine then panics (or the
hook returns the error); no new state exists: `stateAfter` is the old state.
Lemmas: SST/Proofs/StackFault*.lean.  The merger half (C11.mergeCompact_fault_reported), C15 (`call_results`:
what a faulty `WriteNext` answers) and the L7 refinement (`compact_sim`, `flush_sim`) are used as black boxes.

Quantification: ANY state for the "fault ⇒ error" statements (no invariant needed), ANY fault lists; the
"success ⇒ complete and correct output" statements are for states related to a layer state (`Rel`, which
`SST.StackRefine.stack_refines_layers` establishes for every reachable state) under the explicit hypotheses of
L7 (`ParamsOk`: lawful compressors, bloom filter without false negatives; sizes fit 64 bits).
-/
import SST.Proofs.StackFaultCompact
namespace SST.C11.Stack
open SST SST.Stack SST.DBM SST.Proofs.Stack Generated

/-- `Close` returns nil exactly when none of its five I/O actions fails. -/
theorem close_error_iff (cf : CloseFault) :
    closeErrs cf = [] ↔ cf = {} := by
  obtain ⟨a, b, c, d, e⟩ := cf
  cases a <;> cases b <;> cases c <;> cases d <;> cases e <;> simp [closeErrs]

/-- FLUSH.  In ANY state in which a flush has work to do (a store was handed over and is not empty): a fault
attached to one of the `WriteNext` calls the flush issues (data append or index append; position `i` below the
number of entries of the store), or any failing I/O action of the writer's `Close`, makes the flush step return
an error; the live tables (and the whole state) are what they were — no table is added. -/
theorem flush_fault_reported (P : Params) (ff : FlushFaults) (c : SST.Stack.State)
    (hp : c.flushPending = true) (hn : c.r.sl.size ≠ 0)
    (hit : (∃ i, i < ((Mem.flushCalls c.r true).getD []).length ∧ ff.writes.getD i .none ≠ .none) ∨
      closeErrs ff.close ≠ []) :
    (∃ f, flushStepF P ff c = .error f) ∧ stateAfter c id (flushStepF P ff c) = c ∧
      (stateAfter c id (flushStepF P ff c)).tables = c.tables := by
  obtain ⟨f, hf⟩ := flushF_fault P ff c hp hn hit
  rw [hf]
  exact ⟨⟨f, rfl⟩, rfl, rfl⟩

/-- FLUSH, success is never reported for a missing or misrepresented output: a flush step that succeeds under
ANY fault assignment hit no fault — it IS the fault-free flush step (any state); and in a state related to a
layer state the table it added decodes to exactly the flushed memstore (`Rel` with `DBM.flushStep`: files =
`tableOf` the store's entries, tombstones included). -/
theorem flush_success_complete (P : Params) (hP : ParamsOk P) (ff : FlushFaults) (c c' : SST.Stack.State)
    (hok : flushStepF P ff c = .ok c') :
    SST.Stack.flushStep P c = .ok c' ∧
    ∀ s, Rel P c s → FitsMem P c.r → Rel P c' (DBM.flushStep s) := by
  have h1 := flushF_ok P ff c c' hok
  refine ⟨h1, ?_⟩
  intro s hr hf
  obtain ⟨c'', h2, h3⟩ := flush_sim hP hr hf
  rw [h1] at h2
  cases h2
  exact h3

/-- COMPACTION, faults are reported and the incomplete output is NEVER installed.  In ANY state and for ANY
fault assignment:
 (1) if the cycle has selected tables and opened their scanners (`compactSel`) and some scanner has a fault that
     a complete merge consumes (`endErr ≠ none` ⇔ the failing `Next` call is one of the `items.length + 1` calls,
     see `C11.endErr_ne_none_iff`), the cycle returns an error;
 (2) if the merge produced its records (`compactPlanF`) and a `WriteNext` among them carries a fault, or any I/O
     action of `Close` fails, the cycle returns an error;
 (3) whenever the cycle returns an error, the database afterwards is the database before: the same live tables
     (nothing replaced, nothing removed) and every `Get` of every key answers the same. -/
theorem compaction_fault_not_installed (P : Params) (cf : CompactFaults) (c : SST.Stack.State) :
    (∀ si, compactSel P c = .ok (some si) → (∃ i ∈ attachReads si.scans cf.reads, i.endErr ≠ none) →
      ∃ f, compactStepF P cf c = .error f) ∧
    (∀ pl, compactPlanF P cf.reads c = .ok (some pl) →
      ((∃ i, i < pl.out.length ∧ cf.writes.getD i .none ≠ .none) ∨ closeErrs cf.close ≠ []) →
      ∃ f, compactStepF P cf c = .error f) ∧
    (∀ f, compactStepF P cf c = .error f →
      stateAfter c (·.1) (compactStepF P cf c) = c ∧
      (stateAfter c (·.1) (compactStepF P cf c)).tables = c.tables ∧
      ∀ k, SST.Stack.get (stateAfter c (·.1) (compactStepF P cf c)) k = SST.Stack.get c k) := by
  refine ⟨fun si hs h => compactF_read_fault P cf c si hs h,
    fun pl hp h => compactF_write_close_fault P cf c pl hp h, ?_⟩
  intro f hf
  rw [hf]
  exact ⟨rfl, rfl, fun _ => rfl⟩

/-- COMPACTION, the converse: in a state related to a layer state, a cycle that reports success under ANY fault
assignment consumed no fault — it IS the fault-free cycle — and therefore (L7 refinement) selected what the
layer model selects, and the table installed in place of its inputs decodes to exactly `DBM.mergeRun` of the
selected tables (latest wins; tombstones dropped only when the run starts at the oldest table); every `Get` of
every key answers as before the cycle. -/
theorem compaction_success_complete (P : Params) (hP : ParamsOk P) (cf : CompactFaults)
    (c c' : SST.Stack.State) (gens : List Nat) (s : DBM.State) (h : Rel P c s) (hfit : StepOk P c .compact)
    (hok : compactStepF P cf c = .ok (c', gens)) :
    SST.Stack.compactStep P c = .ok (c', gens) ∧
    gens = (DBM.compactStep s (sizesOf c)).2 ∧ Rel P c' (DBM.compactStep s (sizesOf c)).1 ∧
    ∀ k, SST.Stack.get c' k = SST.Stack.get c k := by
  have h1 := compactF_ok_eq h cf (c', gens) hok
  obtain ⟨c'', h2, h3⟩ := compact_sim hP h hfit
  rw [h1] at h2
  cases h2
  refine ⟨h1, rfl, h3, ?_⟩
  intro k
  rw [get_sim h3 k, get_sim h k, Proofs.DB.get_eq, Proofs.DB.get_eq s]
  obtain ⟨g1, g2, g3, g4⟩ := Proofs.DB.compact_get s (sizesOf c) k
  rw [g1, g2, g3, g4]

/-- NO FAULTS = THE EXISTING STEPS: with the empty fault assignment the generalised steps are the steps of
SST/Model/Stack.lean (errors embedded by `liftFail`), so `stack_refines_layers`, `stack_refines_map`,
`stack_no_step_fails` are statements about them. -/
theorem fault_free_is_existing_step (P : Params) (c : SST.Stack.State) :
    flushStepF P {} c = liftFail (SST.Stack.flushStep P c) ∧
    compactStepF P {} c = liftFail (SST.Stack.compactStep P c) :=
  ⟨flushF_nofault P c, compactF_nofault P c⟩

/-! ## non-vacuity: concrete fault positions -/

def errOf {ε α : Type} : Except ε α → Option ε
  | .ok _ => none
  | .error e => some e

def stateOf (steps : List SST.Stack.Step) : SST.Stack.State :=
  match SST.Stack.runState plainParams {} steps with
  | .ok c => c
  | .error _ => {}

/-- a store with two entries has been handed to the flusher -/
def cFlush : SST.Stack.State :=
  stateOf [.reopen {}, .putS [1] [2] false 1, .putS [5] [6] false 1, .rotate]

example : cFlush.flushPending = true ∧ cFlush.r.sl.size = 2 ∧
    ((Mem.flushCalls cFlush.r true).getD []).length = 2 := by decide +kernel

/-- the index append of the SECOND `WriteNext` fails -/
example : errOf (flushStepF plainParams { writes := [.none, .index] } cFlush) = some (.base (.flushWrite .io)) := by
  decide +kernel
/-- the data append of the first one fails -/
example : errOf (flushStepF plainParams { writes := [.data] } cFlush) = some (.base (.flushWrite .io)) := by
  decide +kernel
/-- all writes succeed, the data writer's `Close` and the metadata file's `Close` fail -/
example : errOf (flushStepF plainParams { close := { dataClose := true, metaClose := true } } cFlush) =
    some (.flushClose [.dataClose, .metaClose]) := by decide +kernel
/-- a fault position that is never reached (the flush issues two calls) is not an error -/
example : errOf (flushStepF plainParams { writes := [.none, .none, .data] } cFlush) = none := by decide +kernel

/-- three tables; the cycle selects tables 2 and 3 (one record each) -/
def cCompact : SST.Stack.State :=
  stateOf [.reopen { threshold := 1, maxSize := 0 }, .putS [1] [2] false 1, .putS [5] [6] false 4, .rotate, .flush,
    .delS [1] 2, .rotate, .flush, .delS [5] 1, .rotate, .flush]

example : (cCompact.tables.map (·.gen)) = [1, 2, 3] ∧
    (match compactPlanF plainParams [] cCompact with
     | .ok (some pl) => some (pl.gens, pl.out) | _ => none) = some ([2, 3], [([1], some []), ([5], some [])]) := by
  decide +kernel

/-- the scanner of the second selected table fails on its first `Next` -/
example : errOf (compactStepF plainParams { reads := [none, some 0] } cCompact) = some (.base (.compactMerge .io)) := by
  decide +kernel
/-- … on the call that would have returned Done (the record before it was delivered) -/
example : errOf (compactStepF plainParams { reads := [some 1] } cCompact) = some (.base (.compactMerge .io)) := by
  decide +kernel
/-- the second `WriteNext` of the merge fails at the data append -/
example : errOf (compactStepF plainParams { writes := [.none, .data] } cCompact) = some (.base (.compactWrite .io)) := by
  decide +kernel
/-- the metadata write of `Close` fails -/
example : errOf (compactStepF plainParams { close := { metaWrite := true } } cCompact) =
    some (.compactClose [.metaWrite]) := by decide +kernel
/-- no fault reached: the cycle succeeds and installs table 2 in place of tables 2 and 3 -/
example : (match compactStepF plainParams { reads := [some 2], writes := [.none, .none, .index] } cCompact with
    | .ok (c', gens) => some (c'.tables.map (·.gen), gens) | .error _ => none) = some ([1, 2], [2, 3]) := by
  decide +kernel

end SST.C11.Stack
