/-
C06 with version-0 (legacy) tables in the database directory: every compaction cycle, whatever it selects,
leaves every key's read unchanged and the legacy table's records reach the merged table.

The argument extends the layer argument of C06 (`DBM`: a table is its cells) in three steps:
 (1) the version-0 reader delivers exactly the table's cells to the merge (`v0_merge_input`, from C03.V0);
 (2) the selection the real code makes on such a table is NOT the one the layer model computes from the cells —
     its metadata are all zero — so the compaction theorems are proved for ANY selection (`compactStepSel`);
 (3) what the selection test does conclude from all-zero metadata is stated exactly
     (`v0_selected_by_size_never_by_ratio`).
`v0_table_survives_compaction` puts the three together.

`DBM.compactStep` computes the per-table candidate test from the table's cells, i.e. from what truthful metadata
report.  A legacy table without a metadata file is loaded with the all-zero default metadata
(`TblDir.readMeta none = .ok {}`) although it holds records, so the selection the real code makes
(`Stack.candidateMd` on the metadata) is NOT the one `DBM.candidate` computes.  Therefore the compaction theorems
are stated here for `DBM.compactStepSel s raw`: one compaction cycle for ANY list `raw` of per-table candidate
flags whatsoever (no assumption on its length: missing entries count as `false`, surplus entries are ignored),
and the exact behaviour of the test on all-zero metadata is stated separately.
-/
import SST.Proofs.DBSel
import SST.Proofs.SSTableV0
namespace SST.C06.V0
open SST SST.DBM

/-! ## compaction with an arbitrary selection -/

/-- `compactStep` is `compactStepSel` on the flags `candidate` computes from the cells and the given sizes -/
theorem compactStep_eq_sel (s : State) (sizes : List Nat) :
    compactStep s sizes = compactStepSel s (rawOf s sizes) :=
  Proofs.DB.compactStep_eq_sel s sizes

/-- whatever the per-table flags are, one cycle either leaves the state alone or replaces a gap-free run
`t0 :: sel'` of the table list by one table — the merge of the run, under the number of `t0`, tombstones dropped
exactly when the run starts at the oldest table -/
theorem compactStepSel_spec (s : State) (raw : List Bool) :
    (compactStepSel s raw).1 = s ∨
    ∃ pre t0 sel' post, s.tables = pre ++ (t0 :: sel') ++ post ∧
      (compactStepSel s raw).1 = { s with tables :=
        pre ++ [{ gen := t0.gen, cells := mergeRun (t0 :: sel') (pre.length == 0) }] ++ post } :=
  Proofs.DB.compactStepSel_spec s raw

/-- the same with everything the cycle decides: nothing is done and nothing is reported, or the tables whose
flood-filled flag is set are exactly the run `t0 :: sel'`, they are more than `CompactionFileThreshold`, the run is
replaced by its merge and the reported numbers are those of the run -/
theorem compactStepSel_full (s : State) (raw : List Bool) :
    compactStepSel s raw = (s, []) ∨
    ∃ pre t0 sel' post, s.tables = pre ++ (t0 :: sel') ++ post ∧
      (∀ i, i < s.tables.length →
        ((floodFill raw).getD i false = true ↔ pre.length ≤ i ∧ i < pre.length + (sel'.length + 1))) ∧
      s.opts.threshold < ((sel'.length + 1 : Nat) : Int) ∧
      compactStepSel s raw = ({ s with tables :=
        pre ++ [{ gen := t0.gen, cells := mergeRun (t0 :: sel') (pre.length == 0) }] ++ post },
        (t0 :: sel').map (·.gen)) :=
  Proofs.DB.compactStepSel_full s raw

/-- a table flagged in `raw` is flagged after the flood fill -/
theorem raw_le_floodFill (raw : List Bool) (i : Nat) (h : raw.getD i false = true) :
    (floodFill raw).getD i false = true :=
  Proofs.DB.raw_le_floodFill raw i h

/-- Compaction never changes what a key reads as — for EVERY state (reachable or not: no invariant is needed),
every selection `raw` (so also the one the real code makes when some tables have all-zero or otherwise untruthful
metadata) and every key: the result of `Get` and the abstract map are unchanged by one cycle -/
theorem compactSel_preserves_reads (s : State) (raw : List Bool) (k : Key) :
    get (compactStepSel s raw).1 k = get s k ∧ abs (compactStepSel s raw).1 k = abs s k :=
  Proofs.DB.compactSel_preserves_reads s raw k

/-- … and the invariant of reachable states is kept, so all the whole-history statements (`C01.db_refines_map`)
continue from the state after such a cycle; nothing but the table list changes -/
theorem compactSel_inv (s : State) (h : Proofs.DB.Inv s) (raw : List Bool) :
    Proofs.DB.Inv (compactStepSel s raw).1 ∧ (compactStepSel s raw).1.isOpen = s.isOpen ∧
      (compactStepSel s raw).1.closed = s.closed ∧ (compactStepSel s raw).1.w = s.w ∧
      (compactStepSel s raw).1.r = s.r ∧ (compactStepSel s raw).1.gen = s.gen ∧
      (compactStepSel s raw).1.opts = s.opts :=
  Proofs.DB.compactSel_inv s h raw

/-- When a cycle does something, the records of the selected tables reach the merged table: the table `merged`
that takes the place of the run `t0 :: sel'` binds every key to the newest binding inside the run
(`Proofs.DB.mergeVal drop`: a non-empty value as it is; a tombstone or empty value is dropped when `drop`, i.e.
when the run starts at the oldest table, and carried as an EMPTY value otherwise).  Spelled out per table: for a
selected table `t` (e.g. the legacy one) and a key bound in `t` and in no NEWER selected table, `merged` binds the
key to `t`'s value; a non-empty value is there whatever `drop` is. -/
theorem compactSel_records_reach_merged (s : State) (raw : List Bool) :
    compactStepSel s raw = (s, []) ∨
    ∃ pre t0 sel' post merged, s.tables = pre ++ (t0 :: sel') ++ post ∧
      (compactStepSel s raw).1 = { s with tables := pre ++ [merged] ++ post } ∧
      (compactStepSel s raw).2 = (t0 :: sel').map (·.gen) ∧
      merged.gen = t0.gen ∧
      (∀ k, Layer.get merged.cells k = Proofs.DB.mergeVal (pre.length == 0) (tablesGet (t0 :: sel') k)) ∧
      (∀ older t newer, t0 :: sel' = older ++ t :: newer → ∀ k v, Layer.get t.cells k = some v →
        (∀ u ∈ newer, Layer.get u.cells k = none) →
        Layer.get merged.cells k = Proofs.DB.mergeVal (pre.length == 0) (some v)) ∧
      (∀ older t newer, t0 :: sel' = older ++ t :: newer → ∀ k v, v ≠ [] →
        Layer.get t.cells k = some (some v) → (∀ u ∈ newer, Layer.get u.cells k = none) →
        Layer.get merged.cells k = some (some v)) :=
  Proofs.DB.compactSel_records_reach_merged s raw

/-- the merge of a run, per table of the run: the newest binding wins -/
theorem mergeRun_newest (older : List Tbl) (t : Tbl) (newer : List Tbl) (drop : Bool) (k : Key) (v : GoBytes)
    (ht : Layer.get t.cells k = some v) (hn : ∀ u ∈ newer, Layer.get u.cells k = none) :
    Layer.get (mergeRun (older ++ t :: newer) drop) k = Proofs.DB.mergeVal drop (some v) :=
  Proofs.DB.mergeRun_newest older t newer drop k v ht hn

/-- the legacy table is the OLDEST selected table, at position 0 of the database (`pre = []`, `drop = true`): a
non-empty value `v` of a key that no newer selected table rebinds is in the merged table -/
theorem legacy_oldest_value_reaches_merged (t0 : Tbl) (sel' : List Tbl) (k : Key) (v : Bytes) (hv : v ≠ [])
    (ht : Layer.get t0.cells k = some (some v)) (hn : ∀ u ∈ sel', Layer.get u.cells k = none) :
    Layer.get (mergeRun (t0 :: sel') true) k = some (some v) :=
  Proofs.DB.mergeRun_oldest_value t0 sel' k v hv ht hn

/-- … and a tombstone / empty value of it that no newer selected table rebinds is dropped (nothing older is left
that it could have to shadow) -/
theorem legacy_oldest_tombstone_dropped (t0 : Tbl) (sel' : List Tbl) (k : Key) (v : GoBytes)
    (hv : v = none ∨ v = some []) (ht : Layer.get t0.cells k = some v)
    (hn : ∀ u ∈ sel', Layer.get u.cells k = none) :
    Layer.get (mergeRun (t0 :: sel') true) k = none :=
  Proofs.DB.mergeRun_oldest_tombstone t0 sel' k v hv ht hn

/-- the same as a statement about the cycle: table 0 is flagged in `raw` (the legacy table, selected through its
metadata).  If the cycle does anything, table 0 is the first table of the merged run, the result keeps its number
and binds every non-empty value of table 0 that the rest of the run does not rebind. -/
theorem compactSel_oldest_flagged (s : State) (raw : List Bool) (h0 : raw.getD 0 false = true) :
    compactStepSel s raw = (s, []) ∨
    ∃ t0 sel' post merged, s.tables = (t0 :: sel') ++ post ∧
      (compactStepSel s raw).1 = { s with tables := merged :: post } ∧
      (compactStepSel s raw).2 = (t0 :: sel').map (·.gen) ∧
      merged.gen = t0.gen ∧
      (∀ k, Layer.get merged.cells k = Proofs.DB.mergeVal true (tablesGet (t0 :: sel') k)) ∧
      (∀ k v, v ≠ [] → Layer.get t0.cells k = some (some v) → (∀ u ∈ sel', Layer.get u.cells k = none) →
        Layer.get merged.cells k = some (some v)) :=
  Proofs.DB.compactSel_oldest_flagged s raw h0

/-! ## the selection test on all-zero metadata -/

/-- a legacy table without a metadata file is loaded with the default message -/
theorem readMeta_none : TblDir.readMeta none = .ok {} := Proofs.DB.readMeta_none

/-- metadata that report 0 bytes and 0 records (all-zero metadata in particular) make the table a compaction
candidate exactly when `CompactionMaxSizeBytes > 0` — by the size limit, whatever the table really holds, and
never by the tombstone ratio -/
theorem v0_selected_by_size_never_by_ratio (o : DBM.Opts) (md : Meta) (h0 : md.totalBytes = 0)
    (hn : md.numRecords = 0) : Stack.candidateMd o md = decide (0 < o.maxSize) :=
  Proofs.DB.v0_selected_by_size_never_by_ratio o md h0 hn

/-- the ratio disjunct of the test is `false` for EVERY ratio — including ratio 0, "compact every table with any
tombstone share" — once the metadata report 0 records -/
theorem v0_never_ratio_candidate (o : DBM.Opts) (md : Meta) (hn : md.numRecords = 0) :
    (decide (md.numRecords > 0) && decide (md.nullValues * o.ratioDen ≥ o.ratioNum * md.numRecords)) = false :=
  Proofs.DB.v0_never_ratio_candidate o md hn

theorem v0_size_candidate_iff (o : DBM.Opts) (md : Meta) (h0 : md.totalBytes = 0) (hn : md.numRecords = 0) :
    Stack.candidateMd o md = true ↔ 0 < o.maxSize :=
  Proofs.DB.v0_size_candidate_iff o md h0 hn

/-- the instance for the default message -/
theorem v0_default_meta (o : DBM.Opts) : Stack.candidateMd o ({} : Meta) = decide (0 < o.maxSize) :=
  Proofs.DB.v0_default_meta o

/-- a legacy table WITH a version-0 metadata file (the repository's test table: 7 records, 0 null values, 0 total
bytes): a candidate by the size limit as above, by the ratio only for ratio 0 -/
theorem v0_meta_with_counts (o : DBM.Opts) (md : Meta) (h0 : md.totalBytes = 0) (hz : md.nullValues = 0)
    (hn : md.numRecords > 0) :
    Stack.candidateMd o md = (decide (0 < o.maxSize) || decide (o.ratioNum = 0)) :=
  Proofs.DB.v0_meta_with_counts o md h0 hz hn

/-- selection on all-zero metadata is what the layer model computes for an EMPTY table of size 0 … -/
theorem candidate_zero_meta_matches_layer_model (o : DBM.Opts) (g : Nat) :
    Stack.candidateMd o {} = DBM.candidate o { gen := g, cells := [] } 0 :=
  Proofs.DB.candidate_zero_meta_matches_layer_model o g

/-- … and NOT what it computes from the cells of a non-empty table: one tombstone cell, ratio 1/5, no size limit —
the cells say "candidate", the all-zero metadata say "no".  This is why the theorems above quantify over `raw`. -/
example :
    DBM.candidate { threshold := 0, maxSize := 0, ratioNum := 1, ratioDen := 5 } { gen := 1, cells := [([1], none)] } 0
      = true ∧
    Stack.candidateMd { threshold := 0, maxSize := 0, ratioNum := 1, ratioDen := 5 } {} = false := by
  decide

/-- the repository's version-0 test table (metadata file present: 7 records, no sizes) with the default options -/
example : Stack.candidateMd {} { numRecords := 7 } = false ∧
    Stack.candidateMd { maxSize := 1 } { numRecords := 7 } = true ∧
    Stack.candidateMd { ratioNum := 0 } { numRecords := 7 } = true := by
  decide

/-! ## non-vacuity -/

/-- three tables; the first one plays the legacy table: with its truthful size (1000 ≥ the limit 100) and cells
(no tombstone) `candidate` does not flag it and a cycle merges tables 2 and 3 only, carrying the tombstone of key 1
as an EMPTY value; with all-zero metadata the size test flags it (`raw = [true, true, true]`), the cycle merges all
three tables under number 1 and drops the tombstone together with the shadowed value; every key reads as before -/
example : let s := runState {} [.reopen {threshold := 0, maxSize := 100, ratioNum := 1, ratioDen := 1},
      .putS [1] [9, 9] false, .putS [3] [5] false, .rotate, .flush, .delS [1], .rotate, .flush,
      .putS [2] [7] false, .rotate, .flush]
    s.tables.map (·.gen) = [1, 2, 3] ∧
    rawOf s [1000, 10, 10] = [false, true, true] ∧
    (compactStep s [1000, 10, 10]).2 = [2, 3] ∧
    (compactStepSel s [true, true, true]).2 = [1, 2, 3] ∧
    (compactStepSel s [true, true, true]).1.tables.map (·.gen) = [1] ∧
    (compactStepSel s [true, true, true]).1.tables.map (fun t => Layer.get t.cells [3]) = [some (some [5])] ∧
    (compactStepSel s [true, true, true]).1.tables.map (fun t => Layer.get t.cells [1]) = [none] ∧
    get s [1] = .notFound ∧ get (compactStepSel s [true, true, true]).1 [1] = .notFound ∧
    get s [3] = .value [5] ∧ get (compactStepSel s [true, true, true]).1 [3] = .value [5] ∧
    get s [2] = .value [7] ∧ get (compactStepSel s [true, true, true]).1 [2] = .value [7] := by
  decide

/-- the legacy table flagged alone with a newer flagged table: the flood fill takes the table in between too -/
example : let s := runState {} [.reopen {threshold := 1, maxSize := 0, ratioNum := 1, ratioDen := 1},
      .putS [1] [9, 9] false, .putS [3] [5] false, .rotate, .flush, .delS [1], .rotate, .flush,
      .putS [2] [7] false, .rotate, .flush]
    floodFill [true, false, true] = [true, true, true] ∧
    (compactStepSel s [true, false, true]).2 = [1, 2, 3] ∧
    get (compactStepSel s [true, false, true]).1 [1] = .notFound ∧
    get (compactStepSel s [true, false, true]).1 [3] = .value [5] := by
  decide

/-- the direction of the seeded defect: ratio 0 ("compact every table"), no size limit.  The cells say all three
tables are candidates; all-zero metadata of the first table say it is not (`raw = [false, true, true]`): the cycle
leaves the legacy table alone, merges the other two without dropping the tombstone that shadows the legacy value,
and the deleted key stays deleted. -/
example : let s := runState {} [.reopen {threshold := 0, maxSize := 0, ratioNum := 0, ratioDen := 1},
      .putS [1] [9, 9] false, .putS [3] [5] false, .rotate, .flush, .delS [1], .rotate, .flush,
      .putS [2] [7] false, .rotate, .flush]
    rawOf s [0, 0, 0] = [true, true, true] ∧
    Stack.candidateMd s.opts {} = false ∧
    (compactStepSel s [false, true, true]).2 = [2, 3] ∧
    (compactStepSel s [false, true, true]).1.tables.map (·.gen) = [1, 2] ∧
    (compactStepSel s [false, true, true]).1.tables.map (fun t => Layer.get t.cells [1])
      = [some (some [9, 9]), some (some [])] ∧
    get (compactStepSel s [false, true, true]).1 [1] = .notFound ∧
    get (compactStepSel s [false, true, true]).1 [3] = .value [5] := by
  decide

/-- a `raw` list of the wrong length is harmless: a short list selects nothing past its end, surplus entries are
ignored -/
example : let s := runState {} [.reopen {threshold := 0, maxSize := 0, ratioNum := 0, ratioDen := 1},
      .putS [1] [9, 9] false, .rotate, .flush, .delS [1], .rotate, .flush]
    (compactStepSel s [true]).2 = [1] ∧ (compactStepSel s [false, true, false, true]).2 = [2] ∧
    (compactStepSel s []).2 = [] ∧ get (compactStepSel s [true]).1 [1] = .notFound := by
  decide


/-! ## the version-0 reader delivers exactly its cells to the merge -/

/-- `executeCompaction` opens a new reader (default options, slice loader) and a full scanner on every selected
table.  For a version-0 table holding `kvs` (any recordio versions 1–4 of its two files, any lawful compressors,
metadata file absent or saying version 0) the merge receives, as an input that cannot fail, exactly the pairs of
the table in ascending key order — values as a version-0 table can hold them (`normKVs`: nil for nil/empty) — i.e.
the same `Merge.Input` a current table with these cells delivers (`Stack.scanInput` of a complete scan), and these
pairs are the layer `normKVs kvs` of the layer model. -/
theorem v0_merge_input (comps : Nat → Compression) (cfg : SST.V0.Cfg) (kvs : List KV) (metaf : Option Bytes)
    (md : Meta) (hc : SST.V0.CfgOk comps cfg) (hf : SST.V0.FitsV0 cfg kvs) (hs : StrictAsc bytesCmp kvs)
    (hm : SST.V0.MetaV0 metaf md) (bloom : Option (Bytes → Bool)) :
    SST.V0.mergeInputV0 comps (SST.V0.filesOf cfg kvs metaf) bloom =
      some (.ok (Merge.inputOf ((SST.V0.normKVs kvs).map normKV))) ∧
    Stack.scanInput ((SST.V0.normKVs kvs).map normKV, .done) = Merge.inputOf ((SST.V0.normKVs kvs).map normKV) ∧
    SST.V0.cellsOf ((SST.V0.normKVs kvs).map normKV, .done) = SST.V0.normKVs kvs :=
  ⟨Proofs.V0.mergeInputV0_table comps cfg kvs metaf md hc hf hs hm bloom, rfl, Proofs.V0.cellsOf_norm _⟩

/-- what `candidateTablesForCompaction` concludes from the reader of a table without metadata file: a candidate by
SIZE for every positive size limit (reported total 0), never by tombstone ratio (reported record count 0) -/
theorem v0_reader_candidate (o : DBM.Opts) (r : SST.V0.Reader) (h : r.metaData = {}) :
    SST.V0.candidateV0 o r = decide (0 < o.maxSize) :=
  Proofs.V0.candidateV0_no_meta o r h

/-- A database whose table list contains a version-0 table survives every compaction cycle.
For the version-0 table holding `kvs` (layout `cfg`, metadata absent or version 0), ANY layer state `s` (in
particular one whose table list holds the legacy table as the layer `normKVs kvs`), ANY selection `raw` the
candidate tests may have produced, and every key `k`:
 (1) the compaction reads from the legacy table exactly its cells;
 (2) `Get k` and the abstract map are the same before and after the cycle;
 (3) if the cycle does anything, the merged table binds every key to its newest binding inside the selected run —
     so a record of the legacy table that no newer selected table rebinds is in the merged table (non-empty values
     as they are; tombstones / empty values dropped when the run starts at the oldest table, carried as EMPTY
     otherwise). -/
theorem v0_table_survives_compaction (comps : Nat → Compression) (cfg : SST.V0.Cfg) (kvs : List KV)
    (metaf : Option Bytes) (md : Meta) (hc : SST.V0.CfgOk comps cfg) (hf : SST.V0.FitsV0 cfg kvs)
    (hs : StrictAsc bytesCmp kvs) (hm : SST.V0.MetaV0 metaf md) (bloom : Option (Bytes → Bool))
    (s : State) (raw : List Bool) (k : Key) :
    (SST.V0.mergeInputV0 comps (SST.V0.filesOf cfg kvs metaf) bloom =
        some (.ok (Merge.inputOf ((SST.V0.normKVs kvs).map normKV))) ∧
      SST.V0.cellsOf ((SST.V0.normKVs kvs).map normKV, .done) = SST.V0.normKVs kvs) ∧
    (get (compactStepSel s raw).1 k = get s k ∧ abs (compactStepSel s raw).1 k = abs s k) ∧
    (compactStepSel s raw = (s, []) ∨
      ∃ pre t0 sel' post merged, s.tables = pre ++ (t0 :: sel') ++ post ∧
        (compactStepSel s raw).1 = { s with tables := pre ++ [merged] ++ post } ∧
        (∀ k', Layer.get merged.cells k' = Proofs.DB.mergeVal (pre.length == 0) (tablesGet (t0 :: sel') k')) ∧
        (∀ older t newer, t0 :: sel' = older ++ t :: newer → ∀ k' v, v ≠ [] →
          Layer.get t.cells k' = some (some v) → (∀ u ∈ newer, Layer.get u.cells k' = none) →
          Layer.get merged.cells k' = some (some v))) := by
  refine ⟨⟨(v0_merge_input comps cfg kvs metaf md hc hf hs hm bloom).1,
    (v0_merge_input comps cfg kvs metaf md hc hf hs hm bloom).2.2⟩, compactSel_preserves_reads s raw k, ?_⟩
  rcases compactSel_records_reach_merged s raw with h | ⟨pre, t0, sel', post, merged, h1, h2, _, _, h5, _, h7⟩
  · exact Or.inl h
  · exact Or.inr ⟨pre, t0, sel', post, merged, h1, h2, h5, h7⟩

/-- non-vacuity: the hypotheses about the table are those of `C03.V0.v0_table_reads_as_map_slice`; here the
instance for the empty table without metadata file, recordio V1 index and V2 data, no compression -/
example : SST.V0.MetaV0 none {} := Proofs.V0.metaV0_none

end SST.C06.V0
