/-
L7 ("stack") — the FORMAL COMPOSITION of the layers: SimpleDB built from the byte-level table writer and reader
(C03, C15), the merge iterator and reducers (C08), the memstore on the skip list (C14, C16) refines the layer
model `DBM` of C01/C06/C17 step by step, hence the reference map.  Strengthens C01 (`db_refines_map`), C06
(`compact_preserves_reads`) and C17 (rejected calls) from abstract layers to the bytes of `index.rio`,
`data.rio`, `meta.pb.bin`.

Model: SST/Model/Stack.lean.  Relation and hypotheses: SST/Spec/Stack.lean.  Lemmas: SST/Proofs/Stack*.lean.
Quantification: ALL step lists (client programs of Put/Delete/Get/Close/re-Open in both API flavours, valid and
rejected, interleaved with ANY placement of rotations, flush completions and compaction cycles), ALL skip-list
node heights ≥ 1, ALL options per session (threshold, max size, ratio), ALL lawful compressors and bloom
filters without false negatives.  Hypotheses, explicit: `ParamsOk` (laws of the external code) and `RunOk`
(heights ≥ 1; every table a step writes fits the 64-bit fields of the formats — `FitsKV`, always true of real
slices); I/O is fault-free (`Fault.none` in every `WriteNext`).
-/
import SST.Proofs.StackSim
import SST.Proofs.StackLoops
import SST.Props.C01
namespace SST.StackRefine
open SST SST.Stack SST.DBM SST.Proofs.Stack Generated

/-- The relation holds between the two initial states. -/
theorem rel_initial (P : Params) : Rel P ({} : Stack.State) ({} : DBM.State) := rel_init P

/-- ONE STEP.  From related states, any step of the byte-level stack (with its node height and with sizes
that fit) does not fail, returns exactly the client-visible result of the layer step it stands for, selects
the same tables (compaction) and leads to related states: each memstore's reference map is the layer, each
live table's three files are `tableOf` a strictly ascending list holding the layer table's cells, its open
reader answers as that list's sorted map and carries truthful metadata; generation, flags, options equal. -/
theorem stack_step_refines_layers (P : Params) (hP : ParamsOk P) (c : Stack.State) (s : DBM.State)
    (h : Rel P c s) (st : Stack.Step) (hok : StepOk P c st) :
    ∃ c', Stack.step P c st =
        .ok (c', (DBM.step s (absStep c st)).2.1.map SRes.db, (DBM.step s (absStep c st)).2.2) ∧
      Rel P c' (DBM.step s (absStep c st)).1 :=
  step_sim hP h st hok

/-- MAIN THEOREM 1 — the concrete stack refines the layer model: for EVERY step list the run of the byte-level
stack from the initial state never fails, and its outputs (client results, selected table numbers) are
exactly the outputs of the layer model `DBM` on the corresponding layer program (`absSteps`: heights forgotten,
a compaction given the `TotalBytes` the tables' metadata report); the final states are related. -/
theorem stack_refines_layers (P : Params) (hP : ParamsOk P) (steps : List Stack.Step)
    (hok : RunOk P {} steps) :
    Stack.run P {} steps = ((DBM.run {} (absSteps P {} steps)).map liftOut, none) ∧
    ∃ c', Stack.runState P {} steps = .ok c' ∧ Rel P c' (DBM.runState {} (absSteps P {} steps)) :=
  run_sim hP steps {} {} (rel_init P) hok

/-- MAIN THEOREM 2 — by `C01.db_refines_map`: every client call of the concrete byte-level stack returns what
the reference map returns (`specRun`: a map with open/closed flags; flushes, rotations, compactions do
nothing), whatever the schedule of background work, the node heights, the table sizes and the options. -/
theorem stack_refines_map (P : Params) (hP : ParamsOk P) (steps : List Stack.Step)
    (hok : RunOk P {} steps) :
    (Stack.run P {} steps).2 = none ∧
    (Stack.run P {} steps).1.map (·.1) = (specRun {} (steps.map specOf)).map (Option.map SRes.db) := by
  obtain ⟨h, _⟩ := stack_refines_layers P hP steps hok
  rw [h]
  refine ⟨rfl, ?_⟩
  rw [← specRun_abs P steps {} {}, ← C01.db_refines_map, List.map_map, List.map_map]
  rfl

/-- NO STEP FAILS (C01's last clause).  From the initial state, for every step list — valid or rejected client
calls, rotations, flush completions, compaction cycles under any options, close / re-open — under the explicit
hypotheses (lawful compressors, bloom filter without false negatives, heights ≥ 1, sizes fit 64 bits,
fault-free I/O) NO step returns an error, where the model's step fails exactly when the code's would:
`NewSSTableStreamWriter` rejects its options (bloom size 0: the flush of an empty store is skipped, the
compaction raises 0 to 1), a `WriteNext` of a flush or compaction is rejected (duplicate / non-ascending key),
the merge fails, a written table does not load again (`NewSSTableReader` incl. verify-on-load: every stored
checksum is compared with the CRC-64 of the value read back), a table does not load at re-open, or a memstore
iterator hits a wild pointer.  Moreover every client result is a result of the reference vocabulary: no
read ever reports an I/O error, no memstore call an error or a panic. -/
theorem stack_no_step_fails (P : Params) (hP : ParamsOk P) (steps : List Stack.Step)
    (hok : RunOk P {} steps) :
    (Stack.run P {} steps).2 = none ∧ (Stack.run P {} steps).1.length = steps.length ∧
    (∀ o ∈ (Stack.run P {} steps).1, ∀ r, o.1 = some r → ∃ d, r = SRes.db d) ∧
    ∀ (pre post : List Stack.Step) (st : Stack.Step), steps = pre ++ st :: post →
      ∃ c out, Stack.runState P {} pre = .ok c ∧ Stack.step P c st = .ok out := by
  obtain ⟨h, _⟩ := stack_refines_layers P hP steps hok
  refine ⟨by rw [h], ?_, ?_, ?_⟩
  · rw [h]
    simp only [List.length_map]
    have : ∀ (steps : List Stack.Step) (c : Stack.State) (s : DBM.State),
        (DBM.run s (absSteps P c steps)).length = steps.length := by
      intro steps
      induction steps with
      | nil => intro _ _; rfl
      | cons st rest ih => intro c s; simp only [absSteps, DBM.run, List.length_cons, ih]
    exact this steps {} {}
  · rw [h]
    intro o ho r hr
    obtain ⟨o', _, rfl⟩ := List.mem_map.mp ho
    simp only [liftOut] at hr
    cases ho' : o'.1 with
    | none => rw [ho'] at hr; cases hr
    | some d => rw [ho'] at hr; exact ⟨d, (Option.some.inj hr).symm⟩
  · intro pre post st hsteps
    subst hsteps
    have hsplit : ∀ (pre : List Stack.Step) (c : Stack.State) (s : DBM.State), Rel P c s →
        RunOk P c (pre ++ st :: post) →
        ∃ c' out, Stack.runState P c pre = .ok c' ∧ Stack.step P c' st = .ok out := by
      intro pre
      induction pre with
      | nil =>
        intro c s hr hk
        obtain ⟨c', h1, _⟩ := step_sim hP hr st hk.1
        exact ⟨c, _, rfl, h1⟩
      | cons st0 pre ih =>
        intro c s hr hk
        obtain ⟨hk0, hk1⟩ := hk
        obtain ⟨c', h1, h2⟩ := step_sim hP hr st0 hk0
        rw [h1] at hk1
        obtain ⟨c'', out, i1, i2⟩ := ih c' _ h2 hk1
        exact ⟨c'', out, by simp only [Stack.runState, h1, i1], i2⟩
    exact hsplit pre {} {} (rel_init P) hok

/-- BYTE-LEVEL CONTENT of every reachable state: each live table's three files are EXACTLY `tableOf` (C15's
file images) of a strictly ascending list of pairs whose sizes fit; `NewSSTableReader` on these bytes (default
options: slice index, verify on load) yields the table's open reader, which answers `Get` / `Contains` / the
scans as the sorted map of that list (C03) and whose metadata is the truthful `metaOf` (C15). -/
theorem stack_tables_decode (P : Params) (hP : ParamsOk P) (steps : List Stack.Step)
    (hok : RunOk P {} steps) :
    ∃ c, Stack.runState P {} steps = .ok c ∧ ∀ t ∈ c.tables, ∃ kvs, TblDec P t kvs := by
  obtain ⟨_, c, hc, hr⟩ := stack_refines_layers P hP steps hok
  refine ⟨c, hc, ?_⟩
  exact hr.tables.forall_left fun t _ ht => by
    obtain ⟨kvs, hd, _⟩ := ht.dec
    exact ⟨kvs, hd⟩

/-! ## the bridging lemmas between neighbouring layers, as theorems of their own -/

/-- C14 ∘ C15 ∘ C03: a strictly ascending list written call by call through the byte-level writer with the
default options is accepted entirely, and the closed table loads (verify on load included) into a reader that
answers as the list's sorted map, with truthful metadata. -/
theorem written_table_loads (P : Params) (hP : ParamsOk P) (g : Nat) (kvs : List KV)
    (ha : StrictAsc bytesCmp kvs) (hf : FitsKV P.cfg kvs) (onW : WRes → Fail) (onO : Err → Fail) :
    ∃ t, writeAndOpen P g (kvs.map fun p => { key := p.1, value := p.2, fault := .none }) onW onO = .ok t ∧
      t.gen = g ∧ TblDec P t kvs :=
  writeAndOpen_ok P hP g kvs ha hf onW onO

/-- C08 for simpledb's own reducer `scanReduceLatestWinsKeepTombstones` (the one a compaction uses when the
run does not start at the oldest table): `MergeCompact` succeeds and writes the overlay of the tables with
every tombstone / empty newest value as the EMPTY non-nil value — no key of the overlay is dropped. -/
theorem mergeCompact_keepTombstones_eq_overlay (ts : List Merge.Table) (hts : ∀ t ∈ ts, Merge.Asc t) :
    (Merge.mergeCompact ((ts.map Merge.toItems).map Merge.inputOf) {} scanReduceLatestWinsKeepTombstones).1 = none ∧
    (Merge.mergeCompact ((ts.map Merge.toItems).map Merge.inputOf) {} scanReduceLatestWinsKeepTombstones).2.out
      = keepEmpty (Merge.overlay ts) :=
  mergeCompact_keep ts hts

/-- C03 ∘ C08: the newest-first `Get` loop over the byte-level readers answers as the layer stack. -/
theorem reader_stack_get_eq_layers (P : Params) (ts : List LiveTbl) (tbls : List Tbl)
    (h : Rel2 (TblRel P) ts tbls) (k : Bytes) :
    superGet ts k = some (match tablesGet tbls k with | some v => .ok v | none => .error .notFound) :=
  superGet_tables h k

/-- C15 → C06: the compaction's candidate test evaluated on the metadata the byte-level writer produced is
the layer model's test (NumRecords, NullValues truthful; TotalBytes as reported). -/
theorem candidate_on_metadata (P : Params) (t : LiveTbl) (a : Tbl) (h : TblRel P t a) (o : Opts) :
    DBM.candidate o a t.rd.md.totalBytes = candidateMd o t.rd.md :=
  candidate_eq h o

/-! ## fidelity of the two-phase formulation of flush and compaction -/

/-- The literal loop of `flushMemstore` (`Mem.flushLoop` of C14, `includeTombstones = true`) driving the
byte-level writer call by call ends in the writer state of the collected call list, whenever that list is
accepted (by `stack_no_step_fails` it always is). -/
theorem flush_loop_literal (cfg : SstCfg) (l : List (GoBytes × GoBytes)) (w : SstW)
    (h : ∀ r ∈ (w.run cfg (l.map mkCall)).2, r = .ok) :
    Mem.flushLoop (sstWriteNext cfg) true w l = .ok (w.run cfg (l.map mkCall)).1 :=
  flushLoop_sstw cfg l w h

/-- The literal loop of `MergeCompact` (iterator `Next`, then `WriteNext` on the byte-level writer): whenever
the Merge model's loop with its abstract order-checking writer succeeds from fresh writers, the literal loop
succeeds, every `WriteNext` is accepted, and `Close` yields exactly the table the compaction step of the
model writes (`writeTable` of the abstract writer's records). -/
theorem compact_loop_literal (P : Params) (endErr : Nat → Option Err) (reduce : Merge.ReduceFn) (fuel : Nat)
    (s : Merge.MCIter) (h : (Merge.mergeCompactLoop endErr reduce fuel s {}).1 = none) :
    ∃ w', compactLoopSst P.cfg endErr reduce fuel s (SstW.open P.cfg) = (none, w') ∧
      w'.close = writeTable P.cfg (Merge.mergeCompactLoop endErr reduce fuel s {}).2.out := by
  obtain ⟨extra, h1, h2, _⟩ := compactLoop_eq P.cfg rfl endErr reduce fuel s {} (SstW.open P.cfg) ⟨rfl, rfl⟩ h
  refine ⟨_, h2, ?_⟩
  rw [h1]
  rfl

/-! ## non-vacuity -/

/-- the laws of the external code are satisfiable: no compression, an exact bloom filter -/
example : ParamsOk plainParams :=
  ⟨trivial, trivial, fun keys bf h k hk => by
    simp only [plainParams, Option.some.injEq] at h
    subst h
    simpa using hk⟩

/-- a session with two flushes, a delete over a flushed value, a compaction that starts at the oldest table
(tombstones dropped), close and re-open -/
def exSteps : List Stack.Step :=
  [.reopen { threshold := 0, maxSize := 1000 }, .putS [1] [2] false 2, .putB (some [3]) (some [4, 4]) false 1,
   .putB (some []) (some [1]) false 1, .rotate, .flush, .delS [1] 3, .get [1], .get [3], .rotate, .flush,
   .get [1], .compact, .get [1], .get [3], .close, .get [3], .reopen {}, .get [3]]

example : RunOk plainParams {} exSteps := by decide +kernel

example : Stack.run plainParams {} exSteps =
    ([(none, []), (some (.db .ok), []), (some (.db .ok), []), (some (.db .rejected), []), (none, []), (none, []),
      (some (.db .ok), []), (some (.db .notFound), []), (some (.db (.value [4, 4])), []), (none, []), (none, []),
      (some (.db .notFound), []), (none, [1, 2]), (some (.db .notFound), []), (some (.db (.value [4, 4])), []),
      (some (.db .ok), []), (some (.db .notOpen), []), (none, []), (some (.db (.value [4, 4])), [])], none) := by
  decide +kernel

/-- a session whose compaction EXCLUDES the oldest table (size limit 0, tombstone ratio selects tables 2 and 3):
the keep-tombstones reducer carries the tombstones over as empty values, the deleted keys stay deleted -/
def exStepsKeep : List Stack.Step :=
  [.reopen { threshold := 1, maxSize := 0 }, .putS [1] [2] false 1, .putS [5] [6] false 4, .rotate, .flush,
   .delS [1] 2, .rotate, .flush, .delS [5] 1, .rotate, .flush, .compact, .get [1], .get [5], .compact]

example : RunOk plainParams {} exStepsKeep := by decide +kernel

example : Stack.run plainParams {} exStepsKeep =
    ([(none, []), (some (.db .ok), []), (some (.db .ok), []), (none, []), (none, []), (some (.db .ok), []),
      (none, []), (none, []), (some (.db .ok), []), (none, []), (none, []), (none, [2, 3]),
      (some (.db .notFound), []), (some (.db .notFound), []), (none, [])], none) := by
  decide +kernel

end SST.StackRefine
