/-
C19 — Descriptors, mappings and goroutines stay bounded and are released by Close.

PARTIAL BY NATURE.  What is proved here is the BOOKKEEPING of the handle model `SST.HM` (Model/Handles.lean):
for every program, which descriptors / mappings / goroutines the library's code paths have opened and not yet
closed.  What a theorem about the model cannot carry, and what the `handles` correspondence stream observes
instead on every run (`/proc/self/fd`, `/proc/self/maps`, goroutine profile, compared with the model after
every step):
  * that `close(2)`/`munmap(2)` really drop the kernel's descriptor-table entry / VMA, and that nothing else
    in the process (runtime, dependencies) keeps a descriptor below the directory;
  * finalizers: `os.File` and `mmap.ReaderAt` release a LEAKED handle when the garbage collector gets to it,
    at an unpredictable time (the stream switches the collector off while a case runs);
  * the goroutine scheduler: the model says which goroutines `Open` starts and `Close` joins, not when they run;
  * error paths of the library (a failing `Open`/`Close`) and crash recovery (`Open` on a directory that a crash
    left: replay + flush) are outside the layer model.

FULL STATEMENT (programs × schedules): while a database is open the number of open descriptors and mappings under
its directory is at most #live tables + a small constant, however many flush/compaction cycles happened; after
`Close` none remain and both goroutines have ended; closing a table reader releases everything it opened incl.
scanners.  Proved below for the model at QUIESCENT points (between steps) with the constant 1 (the WAL file; +2
goroutines), for every step list; DURING a step the model holds transient handles: `compaction_peak_bounded`
(a compaction cycle over k tables holds at most 2k + 4 more than the steady set; exact value in the model 2k + 3:
three writer descriptors, one reader mapping and one scanner per input) and `step_peak_bounded` (any step).
-/
import SST.Proofs.Handles
namespace SST.C19
open SST SST.DBM SST.HM

/-- MAIN THEOREM 1 (`handles_bounded`) — for EVERY list of steps (client calls through both API flavours,
rotations, flush completions, compaction cycles with any reported sizes, `Close`, `Open` with any options and
with the compaction goroutine on or off, in any order and number): every open handle is the current WAL file,
the data mapping of a LIVE table, the flusher or (if enabled) the compaction goroutine; hence at most
#live tables + 1 descriptors/mappings and at most #live tables + 3 handles in total — independent of how many
flush and compaction cycles the list contains. -/
theorem handles_bounded (steps : List HStep) :
    let s := hrun {} steps
    (∀ h ∈ s.handles,
        h = .walFile s.walNo ∨ (∃ t ∈ s.db.tables, h = .tableMmap t.gen) ∨ h = .goroutine .flusher ∨
          (s.ticker = true ∧ h = .goroutine .ticker)) ∧
      (s.handles.filter (fun h => !isGoroutine h)).length ≤ s.db.tables.length + 1 ∧
      s.handles.length ≤ s.db.tables.length + 3 := by
  intro s
  have hp := Proofs.Handles.handles_perm_steady steps
  refine ⟨fun h hm => Proofs.Handles.steady_mem s h (hp.mem_iff.1 hm), ?_, Proofs.Handles.length_le_of_perm_steady steps⟩
  rw [(hp.filter _).length_eq]
  exact Proofs.Handles.steady_files_le s

/-- the exact form: the open handles ARE the steady multiset (each live table is mapped exactly once, there is
exactly one WAL descriptor, each goroutine exists once) -/
theorem handles_exact (steps : List HStep) :
    (hrun {} steps).handles.Perm (steady (hrun {} steps)) :=
  Proofs.Handles.handles_perm_steady steps

/-- MAIN THEOREM 2 (`close_releases_all`) — after `Close`, whatever came before: no descriptor, no mapping and
no goroutine is left … -/
theorem close_releases_all (steps : List HStep) :
    (hrun {} (steps ++ [.op .close])).handles = [] := by
  apply Proofs.Handles.not_usable_handles_nil
  rw [Proofs.Handles.hrun_append]
  exact Proofs.Handles.close_not_usable _

/-- … so the directory can be opened again by the same process: the next `Open` (any options, compaction
goroutine on or off) holds exactly WAL file 0, one mapping per table and its own goroutines. -/
theorem reopen_after_close (steps : List HStep) (o : Opts) (ticker : Bool) :
    let s := hrun {} (steps ++ [.op .close])
    (hrun {} (steps ++ [.op .close] ++ [if ticker then .openTicker o else .op (.reopen o)])).handles.Perm
      (.walFile 0 :: (s.db.tables.map (·.gen)).map Handle.tableMmap ++ goroutines ticker) := by
  intro s
  have hp := Proofs.Handles.handles_perm_steady (steps ++ [.op .close] ++ [if ticker then .openTicker o else .op (.reopen o)])
  have e := Proofs.Handles.hrun_append {} (steps ++ [.op .close]) [if ticker then .openTicker o else .op (.reopen o)]
  rw [e] at hp ⊢
  have hn : usable s.db = false := by
    show usable (hrun {} (steps ++ [.op .close])).db = false
    rw [Proofs.Handles.hrun_append]; exact Proofs.Handles.close_not_usable _
  have := Proofs.Handles.reopen_steady s hn o ticker
  simp only [hrun] at hp ⊢
  rw [this] at hp
  exact hp

/-- MAIN THEOREM 3 (`reader_close_releases_scanners`) — a table reader on any table, ANY sequence of
`NewSSTableReader` / `Scan` / `ScanStartingAt`·`ScanRange` / scans iterated to the end / scans abandoned /
earlier `Close` calls, then `Close`: nothing is left (no scanner descriptor, no mapping). -/
theorem reader_close_releases_scanners (gen : Nat) (steps : List RStep) :
    (rrun { gen := gen } (steps ++ [.closeReader])).handles = [] := by
  rw [Proofs.Handles.rrun_append]
  exact Proofs.Handles.close_reader_nil _
    (Proofs.Handles.rinv_run steps { gen := gen } ⟨fun _ => rfl, fun _ => Nat.zero_le _⟩).1

/-- the quirk next to it (documented, outside the property): `Scan()` does not check for a closed reader, a scan
after `Close` opens a descriptor that stays until `Close` is called once more -/
theorem scan_after_close_stays_open :
    (rrun { gen := 7 } [.newReader, .scan, .closeReader, .scan]).handles = [.scanner 7 1] ∧
    (rrun { gen := 7 } [.newReader, .scan, .closeReader, .scan, .closeReader]).handles = [] := by
  decide

/-- transient handles: WHILE a step runs, never more than the handles before it plus everything the step opens.
For a flush that is at most 8, for a compaction cycle of k selected tables at most 5k + 9 (crude: every handle
the cycle ever opens is counted as if none was closed before the end; read off the code, the model's
exact peak is 2k + 3: one reader mapping and one scanner per input, three writer descriptors; see the example below). -/
theorem step_peak_bounded (steps : List HStep) (st : HStep) :
    let s := hrun {} steps
    peak s.handles (phasesOf s st) ≤ s.db.tables.length + 3 + opens (phasesOf s st) := by
  intro s
  have h1 := Proofs.Handles.peak_le_opens s.handles (phasesOf s st)
  have h2 := Proofs.Handles.length_le_of_perm_steady steps
  show peak s.handles (phasesOf s st) ≤ _
  have h2' : s.handles.length ≤ s.db.tables.length + 3 := h2
  omega

/-- sharper, for the step with the largest transient set: while a compaction cycle runs in any reachable state,
at most (#live tables + 3) + 2k + 4 handles are open, k = number of selected tables (so at most 3·#live + 7) -/
theorem compaction_peak_bounded (steps : List HStep) (sizes : List Nat) :
    let s := hrun {} steps
    peak s.handles (phasesOf s (.op (.compact sizes)))
      ≤ s.db.tables.length + 3 + (2 * (compactStep s.db sizes).2.length + 4) := by
  intro s
  have h2 : s.handles.length ≤ s.db.tables.length + 3 := Proofs.Handles.length_le_of_perm_steady steps
  show peak s.handles (if usable s.db then compactPhases (compactStep s.db sizes).2 else []) ≤ _
  split
  · cases hsel : (compactStep s.db sizes).2 with
    | nil => simp [compactPhases, peak]; omega
    | cons first rest =>
      have := Proofs.Handles.peak_compactPhases s.handles first rest
      simp only [List.length_cons]; omega
  · simp [peak]; omega

theorem flush_opens_le (d : State) : opens (flushPhases d) ≤ 8 := Proofs.Handles.opens_flushPhases d

theorem compaction_opens_le (sel : List Nat) : opens (compactPhases sel) ≤ 5 * sel.length + 9 :=
  Proofs.Handles.opens_compactPhases sel

/-! ## non-vacuity -/

set_option maxRecDepth 10000 in
/-- a session with two flushes, a merging compaction, a size-triggered rotation, close and re-open with the
compaction goroutine: the handle multiset after every prefix -/
example :
    let prog : List HStep :=
      [.op (.reopen { threshold := 0, maxSize := 1000 }), .op (.putS [1] [2] false), .op .rotate, .op .flush,
       .op (.putS [3] [4] true), .op .flush, .op (.compact [50, 50]), .op .close, .openTicker {}]
    (List.range 10).map (fun n => (hrun {} (prog.take n)).handles) =
      [[],
       [.goroutine .flusher, .walFile 0],
       [.goroutine .flusher, .walFile 0],
       [.walFile 1, .goroutine .flusher],
       [.tableMmap 1, .walFile 1, .goroutine .flusher],
       [.walFile 2, .tableMmap 1, .goroutine .flusher],
       [.tableMmap 2, .walFile 2, .tableMmap 1, .goroutine .flusher],
       [.tableMmap 1, .walFile 2, .goroutine .flusher],
       [],
       [.goroutine .flusher, .goroutine .ticker, .walFile 0, .tableMmap 1]] := by
  decide

set_option maxRecDepth 10000 in
/-- the hypotheses of `close_releases_all` / `handles_bounded` are met by a state that really holds handles:
3 live tables, 6 handles, and the peak of the following compaction cycle of all three (3 writer descriptors + one reader mapping and one
scanner per input = 9 more than before) -/
example :
    let prog : List HStep :=
      [.openTicker { threshold := 0, maxSize := 1000 }, .op (.putS [1] [2] true), .op (.putS [1] [3] true),
       .op (.putS [2] [3] true), .op .flush]
    (hrun {} prog).handles.length = 6 ∧ (hrun {} prog).db.tables.length = 3 ∧
      (compactStep (hrun {} prog).db [10, 10, 10]).2 = [1, 2, 3] ∧
      peak (hrun {} prog).handles (phasesOf (hrun {} prog) (.op (.compact [10, 10, 10]))) = 15 ∧
      (hrun {} (prog ++ [.op (.compact [10, 10, 10])])).handles.length = 4 := by
  decide

/-- a reader with three scanners (one complete, one abandoned) and a range scan holds 4 handles before `Close` -/
example :
    (rrun { gen := 5 } [.newReader, .scan, .scan, .finishScan, .scanAt, .scan, .abandonScan]).handles
      = [.scanner 5 2, .scanner 5 1, .scanner 5 0, .tableMmap 5] := by
  decide

end SST.C19
