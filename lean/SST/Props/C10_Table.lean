/-
C10 / C02 / C13 — the BYTES of a table directory refine the abstract disk of L6-fs.

The crash theorems (`C02.crash_safe_sync`, `C10.recover_idempotent_under_crash`, C13) are proved on the abstract disk
(SST/Model/FS.lean), where a table directory is `part hasMeta | complete cells` and a table writer is the event
sequence `tblMkdir g, tblLoadable g [], tblMetaCreate g, tblProgress g, tblComplete g cells` (`FS.flushEvs`,
`FS.phase3Events`), a `RemoveAll` of a complete table `FS.rmAll`.  Here the same is derived from the bytes:
SST/Model/TableDirBytes.lean has the directory image (`DirImage`: index.rio, data.rio, meta.pb.bin, bloom.bf.gz), the
file-system calls of one table-writer run as the code performs them now (`flushCalls`: header of each recordio file
written at `Open`, records through the buffered writers with the flush points as a parameter — every chunking that
writes no byte before the code handed it to the buffered writer —, metadata written LAST into a file created EMPTY at
`Open`), the clean-up calls (`removeUnfinishedCalls`: index.rio first; `removeAllCalls`: any order) and `classify` =
`reconstructSSTables` on one directory, literally (`hasEmptyMetadata`, `NewSSTableReader` with SimpleDB's options
through the byte-level `openTable` / version-0 path, `isUnfinishedTable`).

Hypotheses (`Hyp`): byte-wise comparator, lawful compressors matching the codes in the file headers, sizes within the
64-bit fields of the formats, strictly ascending keys (= the pairs the writer accepts); `BloomReads`: the filter file
the writer wrote reads back.  Proofs: SST/Proofs/TableDirBytes{,Class,FS}.lean.  Kill-9 model: each call atomic.
-/
import SST.Proofs.TableDirBytesFS
namespace SST.C10.Table
open SST SST.TblDir SST.FS Generated
open SST.Proofs.TblDir (Hyp BloomReads evState rmState finalImg preMetaImg)

/-- the abstract events of a flush ARE `tableEvs` (followed by the unlink of the WAL file) -/
theorem flush_events_are_table_events (v : Vol) (h1 : v.s.flushPending = true) (h2 : v.s.r.isEmpty = false) :
    (flushEvs v).1 = tableEvs (v.s.gen + 1) v.s.r ++
      (match v.walOld with | some n => [Ev.walUnlink n] | none => []) := by
  simp [flushEvs, h1, h2, tableEvs]
  cases v.walOld <;> rfl

/-! ## 1. every prefix of a table writer's calls -/

/-- `writer_prefix_classified`: for EVERY accepted write sequence `kvs` (strictly ascending keys; any values, nil and
empty included), EVERY chunking `ch` of the two byte streams into write calls, EVERY number `n` of completed
file-system calls of `MkdirAll` + `Open` + the `WriteNext`s + `Close`: what `reconstructSSTables` makes of the
directory image IS the abstract table state after the first `evIdx len n` events of `tableEvs` on any abstract disk
`d` that has no directory `g` yet.  `evIdx` counts: the directory (call 1) — the header of data.rio (call 5) — the
creation of the EMPTY meta.pb.bin (call 6) — anything after it — the metadata write (the last but one call). -/
theorem writer_prefix_classified (P : Params) (cfg : SstCfg) (ch : Chunking) (kvs : List KV) (h : Hyp P cfg kvs)
    (hb : BloomReads P ch) (g : Nat) (d : Disk) (hd : lookupT g d.tables = none) (n : Nat) :
    abstractOf P (applyCalls {} ((flushCalls cfg ch kvs).take n)) =
      lookupT g (applyEvs d ((tableEvs g kvs).take (evIdx (flushCalls cfg ch kvs).length n))).tables := by
  rw [Proofs.TblDir.writer_prefix P cfg ch kvs h hb n, Proofs.TblDir.tableEvs_state g kvs d hd]

/-- … and the event count is monotone in the call count: the byte-level run walks through the abstract run -/
theorem writer_prefix_monotone (len : Nat) {n n' : Nat} (h : n ≤ n') : evIdx len n ≤ evIdx len n' :=
  Proofs.TblDir.evIdx_mono len h

/-- the same, spelled out.  Before the metadata write the directory is: absent (nothing done), an EMPTY LEGACY TABLE
that recovery keeps exactly when 5 calls are done (index.rio and data.rio hold their headers, meta.pb.bin does not
exist yet: `tblLoadable g []`), and discarded (`part false`) at every other point — in particular at every point
after the creation of the empty metadata file, whatever has reached index.rio / data.rio / bloom.bf.gz: records are
never visible without metadata. -/
theorem writer_window (P : Params) (cfg : SstCfg) (ch : Chunking) (kvs : List KV) (h : Hyp P cfg kvs)
    (hb : BloomReads P ch) (n : Nat) (hn : n + 1 < (flushCalls cfg ch kvs).length) :
    abstractOf P (applyCalls {} ((flushCalls cfg ch kvs).take n)) =
      if n = 0 then none else if n = 5 then some (.complete []) else some (.part false) :=
  Proofs.TblDir.writer_window P cfg ch kvs h hb n hn

/-- from the metadata write on (the last call is the `close` of meta.pb.bin): the complete table, serving exactly the
written pairs as SimpleDB reads them -/
theorem writer_complete (P : Params) (cfg : SstCfg) (ch : Chunking) (kvs : List KV) (h : Hyp P cfg kvs)
    (hb : BloomReads P ch) (n : Nat) (hn : (flushCalls cfg ch kvs).length ≤ n + 1) :
    abstractOf P (applyCalls {} ((flushCalls cfg ch kvs).take n)) = some (.complete kvs) :=
  Proofs.TblDir.writer_final P cfg ch kvs h hb n hn

/-- `served_has_no_error`: the `Get` of every key of the complete directory answers the written value — no failing
`Get`, nil and empty values kept apart (so `Served.toLayer` loses nothing there) -/
theorem served_has_no_error (P : Params) (cfg : SstCfg) (ch : Chunking) (kvs : List KV) (h : Hyp P cfg kvs)
    (hb : BloomReads P ch) :
    classifyX P (applyCalls {} (flushCalls cfg ch kvs)) = .complete (kvs.map fun p => (p.1, .val p.2)) :=
  Proofs.TblDir.final_served P cfg ch kvs h hb

/-- the files a complete run leaves are those of the stream-writer model `SstW` (C15), whatever the chunking -/
theorem writer_final_files (cfg : SstCfg) (ch : Chunking) (kvs : List KV) :
    applyCalls {} (flushCalls cfg ch kvs) =
      { dir := true, index := some (writeTable cfg kvs).index, data := some (writeTable cfg kvs).data,
        metaf := some (writeTable cfg kvs).metaf, bloom := some ch.bloom.flatten } :=
  Proofs.TblDir.final_image cfg ch kvs

/-! ## 2. `removeUnfinishedTable` -/

/-- `unfinished_removal_classified`: on ANY directory image that recovery classifies as unfinished (`part false`),
after EVERY prefix of `removeUnfinishedTable` — index.rio first, then the remaining files in ANY order (any list of
files, repetitions allowed), then the directory — the directory is gone or classifies `part false` again: never
`complete _`, never `part true`. -/
theorem unfinished_removal_classified (P : Params) (img : DirImage) (hd : img.dir = true)
    (hp : classify P img = .part false) (order : List File) (k : Nat) :
    abstractOf P (applyCalls img ((removeUnfinishedCalls order).take k)) = none ∨
    abstractOf P (applyCalls img ((removeUnfinishedCalls order).take k)) = some (.part false) :=
  Proofs.TblDir.unfinished_removal P img hd hp order k

/-- … in particular on every image of a writer run that recovery discards (all but "nothing done" and the
empty-legacy-table window, which recovery does not remove) -/
theorem unfinished_removal_of_writer_image (P : Params) (cfg : SstCfg) (ch : Chunking) (kvs : List KV)
    (h : Hyp P cfg kvs) (hb : BloomReads P ch) (n : Nat) (hn : n + 1 < (flushCalls cfg ch kvs).length)
    (h0 : n ≠ 0) (h5 : n ≠ 5) (order : List File) (k : Nat) :
    let img := applyCalls (applyCalls {} ((flushCalls cfg ch kvs).take n)) ((removeUnfinishedCalls order).take k)
    abstractOf P img = none ∨ abstractOf P img = some (.part false) :=
  Proofs.TblDir.unfinished_removal_reachable P cfg ch kvs h hb n hn h0 h5 order k

/-- … and a clean-up whose `RemoveAll` names every file that is left removes the directory -/
theorem unfinished_removal_ends (img : DirImage) (hd : img.dir = true) (order : List File)
    (hall : ∀ f, (applyCall img (.unlink .index)).get f ≠ none → f ∈ order) :
    (applyCalls img (removeUnfinishedCalls order)).dir = false := by
  have hd' : (applyCall img (.unlink .index)).dir = true := by simp [applyCall, hd]
  exact Proofs.TblDir.removeAll_gone _ hd' order hall

/-- THE PRE-FIX COUNTEREXAMPLE (what commit d2bdde6 closes), for every table: take the writer image just before the
metadata write (index.rio, data.rio, bloom.bf.gz complete, meta.pb.bin still empty — recovery discards it,
`preMeta_discarded`); a plain `RemoveAll` that unlinks meta.pb.bin first and is killed leaves a directory that
LOADS: a legacy table whose values are the written values parsed as `DataEntry` protobufs (`junkOf`). -/
theorem prefix_removal_keeps_legacy_table (P : Params) (cfg : SstCfg) (ch : Chunking) (kvs : List KV)
    (h : Hyp P cfg kvs) (hb : BloomReads P ch) (order : List File) :
    abstractOf P (applyCalls (applyCalls {} ((flushCalls cfg ch kvs).take ((flushCalls cfg ch kvs).length - 2)))
      ((removeUnfinishedCallsPreFix (.metaf :: order)).take 1)) = some (.complete (junkOf kvs).toLayer) :=
  Proofs.TblDir.prefix_removal_legacy P cfg ch kvs h hb order

theorem preMeta_discarded (P : Params) (cfg : SstCfg) (ch : Chunking) (kvs : List KV) :
    abstractOf P (preMetaImg cfg ch kvs) = some (.part false) :=
  Proofs.TblDir.preMeta_discarded P cfg ch kvs

/-! ## 3. `RemoveAll` of a complete table -/

/-- `complete_removal_classified`: for EVERY order in which `RemoveAll` unlinks the files of a complete table (any
list of files) and EVERY number `k` of completed calls: the directory's classification IS the abstract state after
`rmIdx img` events of `FS.rmAll g (some junk)` = `[tblLoadable g junk, tblUnlinkPart g true, tblUnlinkPart g false,
tblRmdir g]`, with `junk` characterised from the bytes: `junkOf kvs` = every written value parsed as a `DataEntry`
protobuf (a value that does not parse makes `Get` fail: listed as a tombstone in the layer, see `legacy_get_fails`).
`rmIdx`: 0 = meta.pb.bin, index.rio, data.rio all there (bloom.bf.gz or not: `complete kvs`), 1 = metadata gone
first, index.rio and data.rio still there (`complete junk`), 2 = metadata there, index.rio or data.rio gone
(`part true`: `Open` fails), 3 = metadata and one of the two gone (`part false`), 4 = directory gone. -/
theorem complete_removal_classified (P : Params) (cfg : SstCfg) (ch : Chunking) (kvs : List KV) (h : Hyp P cfg kvs)
    (hb : BloomReads P ch) (g : Nat) (d : Disk) (hd : lookupT g d.tables = some (.complete kvs))
    (order : List File) (k : Nat) :
    let img := applyCalls (applyCalls {} (flushCalls cfg ch kvs)) ((removeAllCalls order).take k)
    abstractOf P img =
      lookupT g (applyEvs d ((rmAll g (some (junkOf kvs).toLayer)).take (rmIdx img))).tables := by
  intro img
  have h1 := Proofs.TblDir.complete_removal h ch hb order k
  rw [← Proofs.TblDir.final_image cfg ch kvs] at h1
  rw [Proofs.TblDir.rmAll_state g kvs _ d hd]
  exact h1

/-- … monotone: a later kill point is never at an earlier abstract event — the chain complete → (legacy) →
part true → part false → gone is only walked forwards -/
theorem complete_removal_monotone (img0 : DirImage) (order : List File) {k k' : Nat} (hk : k ≤ k') :
    rmIdx (applyCalls img0 ((removeAllCalls order).take k)) ≤
      rmIdx (applyCalls img0 ((removeAllCalls order).take k')) :=
  Proofs.TblDir.complete_removal_mono img0 order hk

/-- … spelled out: one of exactly five outcomes -/
theorem complete_removal_cases (P : Params) (cfg : SstCfg) (ch : Chunking) (kvs : List KV) (h : Hyp P cfg kvs)
    (hb : BloomReads P ch) (order : List File) (k : Nat) :
    let a := abstractOf P (applyCalls (applyCalls {} (flushCalls cfg ch kvs)) ((removeAllCalls order).take k))
    a = some (.complete kvs) ∨ a = some (.complete (junkOf kvs).toLayer) ∨ a = some (.part true) ∨
      a = some (.part false) ∨ a = none := by
  intro a
  have h1 := Proofs.TblDir.complete_removal h ch hb order k
  rw [← Proofs.TblDir.final_image cfg ch kvs] at h1
  have ha : a = rmState kvs (junkOf kvs).toLayer
      (rmIdx (applyCalls (applyCalls {} (flushCalls cfg ch kvs)) ((removeAllCalls order).take k))) := h1
  rw [ha]
  generalize rmIdx _ = i
  match i with
  | 0 => exact .inl rfl
  | 1 => exact .inr (.inl rfl)
  | 2 => exact .inr (.inr (.inl rfl))
  | 3 => exact .inr (.inr (.inr (.inl rfl)))
  | _ + 4 => exact .inr (.inr (.inr (.inr rfl)))

/-! ## 4. non-vacuity: a three-key table with a tombstone, no compression -/

def P0 : Params := { comps := plainComps, readBloom := fun _ => some fun _ => true }

/-- `a ↦ 0a 01 41` (a value that happens to be a `DataEntry` protobuf holding "A"), `b ↦ tombstone`, `c ↦ 01 02 03` -/
def kvs0 : List KV := [([97], some [0x0a, 0x01, 0x41]), ([98], none), ([99], some [1, 2, 3])]

/-- data.rio: 3 bytes then the rest of record 0 during the first `WriteNext`; index.rio: 5 bytes during the second -/
def ch0 : Chunking := { recs := [([3, 100], []), ([], [5]), ([], [])], bloom := [[0xaa, 0xbb], [0xcc]] }

example : Hyp P0 plainCfg kvs0 :=
  { cmp := rfl
    comps := ⟨rfl, rfl, trivial, trivial, by decide, by decide⟩
    fits := by unfold FitsKV; exact ⟨by decide +kernel, by decide +kernel, by decide +kernel⟩
    asc := by unfold StrictAsc; decide }

example : BloomReads P0 ch0 := ⟨_, rfl⟩

/-- 19 calls: mkdir, 5 of `Open`, 2 + 1 buffer flushes, 10 of `Close` -/
example : (flushCalls plainCfg ch0 kvs0).length = 19 := by decide +kernel

/-- the window: after 5 calls an empty legacy table, after 6 (empty metadata file) discarded again … -/
example : abstractOf P0 (applyCalls {} ((flushCalls plainCfg ch0 kvs0).take 5)) = some (.complete []) := by
  decide +kernel
example : abstractOf P0 (applyCalls {} ((flushCalls plainCfg ch0 kvs0).take 6)) = some (.part false) := by
  decide +kernel

/-- … still discarded when everything but the metadata is written (17 calls) … -/
example : abstractOf P0 (applyCalls {} ((flushCalls plainCfg ch0 kvs0).take 17)) = some (.part false) := by
  decide +kernel

/-- … and complete with the metadata write (call 18) -/
example : abstractOf P0 (applyCalls {} ((flushCalls plainCfg ch0 kvs0).take 18)) = some (.complete kvs0) := by
  decide +kernel

/-- the image after 8 calls: 3 + 18 bytes of the first record in data.rio, nothing yet in index.rio -/
example : (applyCalls {} ((flushCalls plainCfg ch0 kvs0).take 8)).data.map List.length = some 21 ∧
    (applyCalls {} ((flushCalls plainCfg ch0 kvs0).take 8)).index.map List.length = some 8 := by decide +kernel

/-- `removeUnfinishedTable` on the 17-call image, every prefix (data.rio, metadata, filter in that order) -/
example : (List.range 6).map (fun k => abstractOf P0 (applyCalls (applyCalls {} ((flushCalls plainCfg ch0 kvs0).take 17))
      ((removeUnfinishedCalls [.data, .metaf, .bloom]).take k))) =
    [some (.part false), some (.part false), some (.part false), some (.part false), some (.part false), none] := by
  decide +kernel

/-- `legacy_get_fails` — the pre-fix order on the same image: the metadata file unlinked first.  The directory loads;
key `a` reads as "A" (not as the three bytes written), key `c` makes `Get` fail (01 02 03 is not a protobuf). -/
theorem legacy_get_fails :
    classifyX P0 (applyCalls (applyCalls {} ((flushCalls plainCfg ch0 kvs0).take 17)) [.unlink .metaf]) =
      .complete [([97], .val (some [0x41])), ([98], .val none), ([99], .err .other)] := by decide +kernel

example : junkOf kvs0 = [([97], .val (some [0x41])), ([98], .val none), ([99], .err .other)] := by decide +kernel

/-- `RemoveAll` of the complete table, metadata first: complete, legacy, legacy, discarded, discarded, gone … -/
example : (List.range 6).map (fun k => abstractOf P0 (applyCalls (applyCalls {} (flushCalls plainCfg ch0 kvs0))
      ((removeAllCalls [.metaf, .bloom, .index, .data]).take k))) =
    [some (.complete kvs0), some (.complete [([97], some [0x41]), ([98], none), ([99], none)]),
     some (.complete [([97], some [0x41]), ([98], none), ([99], none)]), some (.part false), some (.part false), none] := by
  decide +kernel

/-- … index.rio first: complete, `Open` fails, `Open` fails, discarded, discarded, gone -/
example : (List.range 6).map (fun k => abstractOf P0 (applyCalls (applyCalls {} (flushCalls plainCfg ch0 kvs0))
      ((removeAllCalls [.index, .bloom, .metaf, .data]).take k))) =
    [some (.complete kvs0), some (.part true), some (.part true), some (.part false), some (.part false), none] := by
  decide +kernel

end SST.C10.Table
