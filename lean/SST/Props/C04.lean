/-
C04 — RecordIO returns written records unchanged through every reader and access path.
Property theorems only; helper lemmas live in SST/Proofs.
-/
import SST.Proofs.RecordIO
import SST.Proofs.RecordIOSeek
namespace SST.C04
open SST Generated

/-- Writer: after any program of writes and seeks back to record boundaries, the closed file is exactly
the file header followed by the surviving records, and `Size()` is its length. -/
theorem close_exact (c : Compression) (ct : Nat) (ops : List AOp) (hc : CutsOk [] ops) :
    let w := (runWriter c (WState.init ct) (concretize c [] ops)).1
    w.close = fileHeader currentVersion ct ++ encAll c (survivors [] ops) ∧ w.cur = w.close.length :=
  Proofs.close_exact c ct ops hc

/-- Writer: every `Write` returns the offset at which its record starts in the final file (if it survives). -/
theorem write_offsets (c : Compression) (ct : Nat) (rs : List GoBytes) :
    (runWriter c (WState.init ct) (rs.map WOp.write)).2 = (List.range rs.length).map (offsetOf c rs) :=
  Proofs.write_offsets c ct rs

/-- Sequential reader: exactly the surviving records, nil distinguished from empty, then end-of-file. -/
theorem seq_roundtrip (c : Compression) (ct : Nat) (rs : List GoBytes)
    (hl : LawfulC c) (hf : ∀ r ∈ rs, FitsRec c r) :
    readAll c (fileHeader currentVersion ct ++ encAll c rs) = (rs, .eof) :=
  Proofs.seq_roundtrip c ct rs hl hf

/-- Random access: record `k` is returned at the offset `Write` returned for it. -/
theorem readAt_offset (c : Compression) (ct : Nat) (rs : List GoBytes) (k : Nat) (hk : k < rs.length)
    (hl : LawfulC c) (hf : ∀ r ∈ rs, FitsRec c r) :
    readAt c (fileHeader currentVersion ct ++ encAll c rs) (offsetOf c rs k) = .ok rs[k] :=
  Proofs.readAt_offset c ct rs k hk hl hf

/-- Skipping a record moves the reader exactly as far as reading it does. -/
theorem skip_eq_read_discard (c : Compression) (r : GoBytes) (rest : Bytes)
    (hl : LawfulC c) (hf : FitsRec c r) :
    skipNextS c (encRecord c r ++ rest) = .ok (encRecord c r).length ∧
    readNextS c (encRecord c r ++ rest) = .ok (r, (encRecord c r).length) :=
  Proofs.skip_eq_read_discard c r rest hl hf

/-- A tail of zero bytes (direct-I/O block padding) reads as end-of-file. -/
theorem zero_tail_is_eof (c : Compression) (n : Nat) :
    readNextS c (List.replicate n 0) = .error .eof :=
  Proofs.zero_tail_is_eof c n

/-- SeekNext as coded (4 KiB windows, marker scan, trial reads) returns the FIRST position at or after the start
offset where the marker stands and a complete valid record can be read, and end-of-file if there is none —
for every file content and every offset. -/
theorem seekNext_spec (c : Compression) (file : Bytes) (off : Nat) (hoff : off ≤ file.length) :
    match seekNext c file off with
    | .ok (p, r) => off ≤ p ∧ Proofs.MarkerAt file p ∧ readAt c file p = .ok r ∧
        ∀ q, off ≤ q → q < p → ¬ Proofs.ValidAt c file q
    | .error e => e = .eof ∧ ∀ q, off ≤ q → ¬ Proofs.ValidAt c file q :=
  Proofs.seekNext_spec c file off hoff

/-- On a written file in which no payload embeds the bytes of a complete valid record (`NoPhantom`; the
format has no escaping, see the known finding), seeking from any byte offset returns the first record that
starts at or after that offset, or end-of-file. -/
theorem seekNext_first_record (c : Compression) (ct : Nat) (rs : List GoBytes)
    (hl : LawfulC c) (hf : ∀ r ∈ rs, FitsRec c r) (hnp : Proofs.NoPhantom c ct rs) (off : Nat)
    (hoff : off ≤ (fileHeader currentVersion ct ++ encAll c rs).length) :
    match seekNext c (fileHeader currentVersion ct ++ encAll c rs) off with
    | .ok (p, r) => ∃ k, ∃ hk : k < rs.length, p = offsetOf c rs k ∧ r = rs[k] ∧ off ≤ p ∧
        ∀ j, j < k → offsetOf c rs j < off
    | .error e => e = .eof ∧ ∀ k, k < rs.length → offsetOf c rs k < off :=
  Proofs.seekNext_first_record c ct rs hl hf hnp off hoff

/-- Non-vacuity: a concrete non-trivial program (write, write nil, cut back, write) meets the hypotheses. -/
example : CutsOk [] [.write (some [1, 2]), .write none, .cut 1, .write (some [])] := by
  simp [CutsOk]

end SST.C04
