/-
C02 — Acknowledged writes survive a process kill at any instant (synchronous WAL).
Proved for the abstract-disk model L6-fs (SST/Model/FS.lean): table directories, WAL files and compaction
directories as abstract objects, one event per completed file-system call at the granularity that matters,
kill-9 assumption (a completed call is retained, each call is atomic, no power loss).  Background steps
(flusher, compactor) are placed at operation boundaries; the finer interleavings with client calls are
constrained by the locks / the hand-off channel and are sampled by the real crash images (stream `crash`),
which also tie the abstract objects to real directory images (`fs.recover`).
-/
import SST.Proofs.FSSync
namespace SST.C02
open SST SST.FS SST.DBM SST.Proofs.FS

/-- MAIN THEOREM — crash points × programs × configurations: for EVERY list of steps (client calls of both API
flavours, valid and rejected; forced and size-triggered rotations; flush completions; compaction cycles with any
table sizes; close; re-open with any options; each step with ANY assignment `junk` of what a table directory shows
while a `RemoveAll` has unlinked its metadata file first — `drain`/`torn` are ignored by the synchronous WAL), and
EVERY number `n` of completed file-system calls: the directory image after the first `n` calls is a well-formed
disk, `Open` succeeds on it, and the opened database holds exactly the reference map after all acknowledged steps
(those whose calls are all among the first `n`), or after those plus the single step in flight.
(`n` beyond the end of the session = the image after the session.) -/
theorem crash_safe_sync (steps : List AStep) (n : Nat) (o : Opts) :
    let evs := sessionFrom false {} {} steps
    let d := applyEvs {} (evs.flatten.take n)
    let a := ackedCount evs n
    DiskOk d ∧ ∃ d' s, recover d o = .ok (d', s) ∧
      (abs s = (specFold {} ((steps.take a).map (·.st))).m ∨ abs s = (specFold {} ((steps.take (a + 1)).map (·.st))).m) := by
  intro evs d a
  obtain ⟨h1, h2⟩ := sync_run steps {} {} {} QS_init Proofs.DB.rel_init n
  obtain ⟨d', s, hr⟩ := recover_ok d h1 o
  refine ⟨h1, d', s, hr, ?_⟩
  rw [recover_abs d o d' s hr]
  exact h2

/-- … and the same from ANY well-formed disk (in particular any crash image, of this or of an earlier session, or
an image left by an interrupted recovery): after `Open` the session may continue with any steps and be killed
again anywhere.  The reference starts from the content `logical d0` the first `Open` recovered. -/
theorem crash_safe_sync_after_recovery (d0 : Disk) (h0 : DiskOk d0) (o0 : Opts) (d1 : Disk) (s1 : State)
    (hr0 : recover d0 o0 = .ok (d1, s1)) (steps : List AStep) (n : Nat) (o : Opts) :
    let evs := sessionFrom false d1 (openedVol s1) steps
    let d := applyEvs d1 (evs.flatten.take n)
    let a := ackedCount evs n
    let sp0 : Spec := { m := logical d0, isOpen := true, closed := false }
    DiskOk d ∧ ∃ d' s, recover d o = .ok (d', s) ∧
      (abs s = (specFold sp0 ((steps.take a).map (·.st))).m ∨
        abs s = (specFold sp0 ((steps.take (a + 1)).map (·.st))).m) := by
  intro evs d a sp0
  have hq := recover_QW d0 h0 o0 d1 s1 hr0
  have hflags : s1.isOpen = true ∧ s1.closed = false := by
    rw [recover_eq d0 h0] at hr0
    unfold phase3 at hr0
    split at hr0
    · cases hr0
    · simp only at hr0
      split at hr0 <;> cases hr0 <;> exact ⟨rfl, rfl⟩
  have hrel : Proofs.DB.Rel (openedVol s1).s sp0 :=
    { inv := hq.inv, o := hflags.1, c := hflags.2, m := fun k => by
        show abs s1 k = logical d0 k
        rw [recover_abs d0 o0 d1 s1 hr0] }
  obtain ⟨h1, h2⟩ := sync_run steps d1 (openedVol s1) sp0 ⟨⟨[], [], [], false, hq⟩, rfl⟩ hrel n
  obtain ⟨d', s, hr⟩ := recover_ok d h1 o
  refine ⟨h1, d', s, hr, ?_⟩
  rw [recover_abs d o d' s hr]
  exact h2

/-- `Open` never fails on a well-formed disk and serves exactly its `logical` content -/
theorem recover_total (d : Disk) (h : DiskOk d) (o : Opts) :
    ∃ d' s, recover d o = .ok (d', s) ∧ abs s = logical d ∧ DiskOk d' := by
  obtain ⟨d', s, hr⟩ := recover_ok d h o
  exact ⟨d', s, hr, recover_abs d o d' s hr, (recover_diskOk d h o d' s hr).1⟩

/-- crash part of C17: a call that returns an error makes no file-system call and leaves the process state alone,
so no crash image taken after it differs from one taken before it -/
theorem rejected_call_no_disk_effect (async : Bool) (d : Disk) (v : Vol) (a : AStep) (r : Res)
    (hr : (step v.s a.st).2.1 = some r) (hbad : r = .rejected ∨ r = .notOpen) : fsStep async d v a = ([], v) :=
  rejected_no_events async d v a r hr hbad

/-! ### non-vacuity and sanity -/

/-- a session with rotations, flushes, a delete, a compaction (whose first input is seen as a legacy table while it
is being removed) and a close: event counts per step -/
example : (sessionFrom false {} {} [{ st := .reopen {threshold := 0, maxSize := 100} }, { st := .putS [1] [9] false },
      { st := .putS [2] [8] true }, { st := .flush }, { st := .delS [1] }, { st := .rotate }, { st := .flush },
      { st := .compact [10, 10], junk := [(1, [([1], some [7, 7])])] }, { st := .putS [3] [3] false },
      { st := .close }]).map (·.length) = [5, 2, 5, 6, 2, 3, 6, 13, 2, 10] := by decide

/-- crash images inside a flush: (a) index.rio and data.rio have their headers, the metadata file does not exist yet —
the directory loads as an EMPTY legacy table and recovery keeps it; (b) the metadata file exists and is empty, the
other files may be complete — recovery discards the directory.  Both well-formed, both serve the logged values. -/
def dLoadable : Disk :=
  { tables := [(1, .complete [])], walDir := true,
    wal := [{ num := 0, recs := [.put [1] [9], .put [2] [8]] }, { num := 1 }] }

def dEmptyMeta : Disk := { dLoadable with tables := [(1, .part false)] }

example : DiskOk dLoadable ∧ logical dLoadable [1] = some [9] ∧ logical dLoadable [2] = some [8] := by decide
example : DiskOk dEmptyMeta ∧ logical dEmptyMeta [1] = some [9] ∧
    (recover dLoadable).toOption.map (fun r => r.2.tables.map (·.gen)) = some [1, 2] ∧
    (recover dEmptyMeta).toOption.map (fun r => r.2.tables.map (·.gen)) = some [1] := by decide

/-- before commit 2cc0c75 a directory with an EMPTY metadata file and complete index / data files was loaded (as a
legacy table with mis-parsed values, here `junk`) and kept for good; now it is discarded -/
def dKeptJunk : Disk := { dLoadable with tables := [(1, .complete [([1], some [7, 7])])] }

theorem prefix_unfinished_table_was_kept :
    (recover dKeptJunk).toOption.map (fun r => (r.2.tables.map (·.gen), r.2.tables.head?.bind (fun t => t.cells.get [1]))) =
      some ([1, 2], some (some [7, 7])) ∧
    (recover dEmptyMeta).toOption.map (fun r => (r.2.tables.map (·.gen), r.2.tables.head?.bind (fun t => t.cells.get [1]))) =
      some ([1], some (some [9])) := by decide

/-- a disk with an unfinished newest table and the WAL file that still holds its records (crash inside a flush),
a header-less newest WAL file (crash inside the rotation) — well-formed, recovers, and serves the logged value -/
def dFlushCrash : Disk :=
  { tables := [(1, .complete [([2], some [8])]), (2, .part false)], walDir := true,
    wal := [{ num := 0, recs := [.put [1] [9], .del [2]] }, { num := 1, header := false }] }

example : DiskOk dFlushCrash := by decide
example : (recover dFlushCrash).toOption.map (fun r => (r.1.tables.map (·.1), abs r.2 [1], abs r.2 [2])) =
    some ([1, 2], some [9], none) := by decide

/-- pre-fix D11: had recovery not discarded the unfinished directory (i.e. had it been treated like a finished
table that does not load), `Open` would fail -/
theorem unfinished_table_with_meta_fails :
    errOf (recover { dFlushCrash with tables := [(1, .complete [([2], some [8])]), (2, .part true)] }) = some .tableLoad := by
  decide

/-- pre-fix D14 (flag written before the merged table is complete): such a disk is not well-formed, recovery
"succeeds" and every key of the inputs is lost -/
def dFlagEarly : Disk :=
  { tables := [(1, .complete [([1], some [9])]), (2, .complete [([2], some [8])])], walDir := true, wal := [{ num := 0 }],
    comps := [{ id := 1, out := .part false, flag := some { inputs := [1, 2], replacement := 1 } }] }

theorem flag_before_complete_loses_data :
    ¬ DiskOk dFlagEarly ∧ (recover dFlagEarly).toOption.map (fun r => (abs r.2 [1], abs r.2 [2])) = some (none, none) := by
  decide

end SST.C02
