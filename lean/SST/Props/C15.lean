/-
C15 — A table holds exactly the accepted writes, ascending, with truthful metadata.
Property theorems only; helper lemmas live in SST/Proofs/SSTableWriter.lean and SSTableReader.lean.
Quantification: ALL programs of `WriteNext` calls (`cs : List Call`: arbitrary keys and values, in any
order, repeated, of any length, empty) with ANY subset of calls failing at the data append or at the
index append (`Call.fault`), any comparator, any compressors and compression codes.
-/
import SST.Proofs.SSTableReader
namespace SST.C15
open SST Generated

/-- After any program `cs`, a fault-free call is accepted iff its key is strictly greater than the last
ACCEPTED key (or nothing has been accepted yet); otherwise it is rejected with the duplicate / non-ascending
error and leaves the writer untouched. -/
theorem writer_accepts_iff_ascending (cfg : SstCfg) (cs : List Call) (key : Bytes) (value : GoBytes) :
    let w := ((SstW.open cfg).run cfg cs).1
    let acc := accepted cfg.cmp cs
    ((w.writeNext cfg key value .none).2 = .ok ↔
      (acc = [] ∨ ∃ l, acc.getLast? = some l ∧ cfg.cmp l.1 key = .lt)) ∧
    ((w.writeNext cfg key value .none).2 ≠ .ok →
      (w.writeNext cfg key value .none).1 = w ∧
      ((w.writeNext cfg key value .none).2 = .dup ∨ (w.writeNext cfg key value .none).2 = .desc)) :=
  Proofs.Sst.writer_accepts_iff_ascending cfg cs key value

/-- A call that fails for an I/O reason (at the data append or at the index append) reports an error and
leaves the writer exactly as if the call had not been made: the files `Close` would produce and the
metadata are unchanged, and EVERY continuation program `cs'` (in particular a retry of the same key) gets
the same answers and produces the same table and metadata. -/
theorem fault_rolled_back (cfg : SstCfg) (cs : List Call) (key : Bytes) (value : GoBytes) (f : Fault)
    (hf : f ≠ .none) (cs' : List Call) :
    let w := ((SstW.open cfg).run cfg cs).1
    let w' := (w.writeNext cfg key value f).1
    (w.writeNext cfg key value f).2 ≠ .ok ∧
    w'.close = w.close ∧ w'.finalMeta = w.finalMeta ∧
    (w'.run cfg cs').2 = (w.run cfg cs').2 ∧
    (w'.run cfg cs').1.close = (w.run cfg cs').1.close ∧
    (w'.run cfg cs').1.finalMeta = (w.run cfg cs').1.finalMeta :=
  Proofs.Sst.fault_rolled_back cfg cs key value f hf cs'

/-- Every call of a program gets the specified answer (ok / duplicate / non-ascending / I/O error). -/
theorem call_results (cfg : SstCfg) (cs : List Call) :
    ((SstW.open cfg).run cfg cs).2 = specResults cfg.cmp [] cs :=
  (Proofs.Sst.run_open_spec cfg cs).2

/-- After `Close` the three files are exactly those of the accepted pairs; the accepted pairs are strictly
ascending; `data.rio` reads sequentially as exactly their values and `index.rio` loads as exactly their
keys (in that order) with the offset and CRC-64 of each value. -/
theorem closed_table_eq_accepted (comps : Nat → Compression) (cfg : SstCfg) (cs : List Call)
    (htr : ∀ a b c, cfg.cmp a b = .lt → cfg.cmp b c = .lt → cfg.cmp a c = .lt)
    (hc : CompsOk comps cfg) (hf : FitsKV cfg (accepted cfg.cmp cs)) :
    StrictAsc cfg.cmp (accepted cfg.cmp cs) ∧
    ((SstW.open cfg).run cfg cs).1.close = tableOf cfg (accepted cfg.cmp cs) ∧
    readAll cfg.dc ((SstW.open cfg).run cfg cs).1.close.data = ((accepted cfg.cmp cs).map (·.2), .eof) ∧
    loadEntries comps ((SstW.open cfg).run cfg cs).1.close.index =
      .ok ((entriesOf cfg.dc (accepted cfg.cmp cs)).map fun e => (normKey e.1, e.2)) :=
  Proofs.Sst.closed_table_eq_accepted comps cfg cs htr hc hf

/-- The metadata `Close` writes is `metaOf` of the accepted pairs: their count, the number of nil values,
the first and the last accepted key, the byte sizes of `data.rio` and `index.rio` as closed and their sum;
`meta.pb.bin` is its protobuf encoding and decodes back to it (empty keys become nil). -/
theorem metadata_truthful (cfg : SstCfg) (cs : List Call) :
    ((SstW.open cfg).run cfg cs).1.close.metaf = encMeta ((SstW.open cfg).run cfg cs).1.finalMeta ∧
    ((SstW.open cfg).run cfg cs).1.finalMeta = metaOf cfg (accepted cfg.cmp cs) ∧
    ((SstW.open cfg).run cfg cs).1.close = tableOf cfg (accepted cfg.cmp cs) ∧
    (FitsKV cfg (accepted cfg.cmp cs) →
      decMeta ((SstW.open cfg).run cfg cs).1.close.metaf = .ok (metaOf cfg (accepted cfg.cmp cs)).norm) :=
  Proofs.Sst.metadata_truthful cfg cs

/-- what `metaOf` says, spelled out (definitional) -/
theorem metaOf_fields (cfg : SstCfg) (kvs : List KV) :
    (metaOf cfg kvs).numRecords = kvs.length ∧
    (metaOf cfg kvs).nullValues = (kvs.filter (·.2.isNone)).length ∧
    (metaOf cfg kvs).minKey = kvs.head?.map (·.1) ∧
    (metaOf cfg kvs).maxKey = kvs.getLast?.map (·.1) ∧
    (metaOf cfg kvs).dataBytes = (tableOf cfg kvs).data.length ∧
    (metaOf cfg kvs).indexBytes = (tableOf cfg kvs).index.length ∧
    (metaOf cfg kvs).totalBytes = (tableOf cfg kvs).data.length + (tableOf cfg kvs).index.length :=
  ⟨rfl, rfl, rfl, rfl, rfl, rfl, rfl⟩

/-- non-vacuity: a program with an unsorted key, a duplicate, an empty key and both kinds of fault; the
accepted pairs are the ones the property names -/
example : accepted bytesCmp
    [⟨[5], some [1], .none⟩, ⟨[1], none, .index⟩, ⟨[5], some [], .none⟩, ⟨[9], none, .data⟩,
     ⟨[], some [2], .none⟩, ⟨[9], none, .none⟩] = [([5], some [1]), ([9], none)] := by decide

example : bytesCmp [5] [9] = .lt := by decide

/-- the hypotheses of `closed_table_eq_accepted` are satisfiable: no compression, and the sizes of the
accepted pairs of the program above fit -/
example : CompsOk plainComps plainCfg := ⟨rfl, rfl, trivial, trivial, by decide, by decide⟩

example : FitsKV plainCfg [([5], some [1]), ([9], none)] := by
  unfold FitsKV
  exact ⟨by decide +kernel, by decide +kernel, by decide +kernel⟩

end SST.C15
