/-
C17 — A SimpleDB call that returns an error has no effect; string and byte APIs agree.
(The crash-recovery observation point of this property is covered with C02's machinery.)
-/
import SST.Proofs.DB
namespace SST.C17
open SST SST.DBM

/-- Put/PutBytes and Delete/DeleteBytes are the same function of the same bytes -/
theorem api_flavours_agree (s : State) (k v : Bytes) (rot : Bool) :
    putStr s k v rot = putBytes s (some k) (some v) rot ∧ deleteStr s k = deleteBytes s (some k) :=
  Proofs.DB.api_flavours_agree s k v rot

/-- empty or nil keys and values are rejected, as documented, by the byte flavour as well -/
theorem empty_or_nil_rejected (s : State) (k v : GoBytes) (rot : Bool)
    (h : k.getD [] = [] ∨ v.getD [] = []) : putBytes s k v rot = (s, .rejected) :=
  Proofs.DB.empty_or_nil_rejected s k v rot h

/-- any call that returns an error leaves the database state — memstores, tables, generation, flags — exactly as it was -/
theorem rejected_call_no_effect (s : State) (st : Step) (r : Res)
    (hr : (step s st).2.1 = some r) (hbad : r = .rejected ∨ r = .notOpen) : (step s st).1 = s :=
  Proofs.DB.rejected_call_no_effect s st r hr hbad

/-- what a key reads as never changes merely because a flush, a compaction … -/
theorem reads_stable_across_flush (steps : List Step) (st : Step) (k : Key)
    (hint : match st with | .rotate | .flush | .compact _ => True | _ => False) :
    abs (step (runState {} steps) st).1 k = abs (runState {} steps) k :=
  Proofs.DB.reads_stable steps st k hint

/-- … or a clean restart happened -/
theorem reads_stable_across_restart (steps : List Step) (o : Opts) (k : Key)
    (hu : (runState {} steps).isOpen = true ∧ (runState {} steps).closed = false) :
    abs (runState {} (steps ++ [.close, .reopen o])) k = abs (runState {} steps) k :=
  Proofs.DB.reads_stable_close_reopen steps o k hu

example : (step (runState {} [.reopen {}]) (.putB none (some [1]) false)).2.1 = some .rejected := by decide

end SST.C17
