/-
C08 — Merging or stacking tables equals the latest-wins union of their contents.

Model: SST/Model/Merge.lean (sstables/sstable_merger.go, sstables/super_sstable_reader.go as coded after the
D6/D7/D8 fixes) on top of the merge heap SST/Model/PQ.lean / PQF.lean.  Spec: SST/Spec/Merge.lean (`overlay`).
Everything is for ALL lists of tables (oldest → newest), each a strictly ascending list of
(key, value) with value `none` = tombstone, `some []` = empty value: arbitrary overlap, empty tables, the empty
key, tombstones over values and vice versa.  Assumptions that are part of every statement: the comparator is
`skiplist.BytesComparator` (`bytes.Compare`, proved consistent in SST/Proofs/MergeOrd.lean); a table is the
abstract reader of SST/Model/Merge.lean (that byte-level table files implement it is another layer).
-/
import SST.Proofs.Merge
namespace SST.C08
open SST SST.Merge

/-- The spec is what the property text says: `overlay` (apply the tables in order, later ones overriding)
is a sorted map that holds, for every key, the value of the newest table having that key. -/
theorem overlay_spec (ts : List Table) (hts : ∀ t ∈ ts, Asc t) :
    Asc (overlay ts) ∧ ∀ k, tget (overlay ts) k = newestValue ts k :=
  ⟨Proofs.MergeSpec.overlay_asc ts, Proofs.MergeSpec.tget_overlay hts⟩

/-- … where "newest" is: table number `c` has the key with value `v` and no table after it has the key. -/
theorem newestValue_char (ts : List Table) (k : Bytes) (v : GoBytes) :
    newestValue ts k = some v ↔
      ∃ (c : Nat) (t : Table), ts[c]? = some t ∧ tget t k = some v ∧
        ∀ (c' : Nat) (t' : Table), c < c' → ts[c']? = some t' → tget t' k = none :=
  Proofs.MergeSpec.newestValue_some_iff

/-- `SuperSSTableReader.Get` = lookup in the overlay; a key absent from every table is NotFound.  As coded, a
key whose newest value is a tombstone yields `(nil, nil)` — the overlay's entry — not NotFound. -/
theorem super_get_eq_overlay (ts : List Table) (hts : ∀ t ∈ ts, Asc t) (k : Bytes) :
    superGet ts k = (match tget (overlay ts) k with | some v => .ok v | none => .error .notFound) :=
  Proofs.Merge.super_get ts hts k

/-- `SuperSSTableReader.Contains` = "the overlay has an entry for the key".  As coded a tombstone entry
counts: Contains is true iff ANY table has the key, live or deleted. -/
theorem super_contains_eq_overlay (ts : List Table) (hts : ∀ t ∈ ts, Asc t) (k : Bytes) :
    superContains ts k = .ok (tget (overlay ts) k).isSome :=
  Proofs.Merge.super_contains ts hts k

/-- `SuperSSTableReader.Scan`, drained until Done, returns exactly the overlay's entries whose value is not a
tombstone, in order (`asItems`: keys are handed out as NON-nil slices, also the empty key).  As coded an
EMPTY non-nil newest value is not a tombstone and IS returned. -/
theorem super_scan_eq_overlay (ts : List Table) (hts : ∀ t ∈ ts, Asc t) :
    superScan ts = .ok (asItems (live (overlay ts))) :=
  Proofs.Merge.super_scan ts hts

/-- `ScanStartingAt k`: the same, restricted to keys ≥ k (any k: present, absent, below or above all keys). -/
theorem super_scanFrom_eq_overlay (ts : List Table) (hts : ∀ t ∈ ts, Asc t) (k : Bytes) :
    superScanFrom ts k = .ok (asItems (fromKey (live (overlay ts)) k)) :=
  Proofs.Merge.super_scanFrom ts hts k

/-- `ScanRange lo hi`: the same, restricted to lo ≤ key ≤ hi; lower > upper is the first reader's error
(as coded a reader stack without readers has nobody to reject it and returns the empty scan). -/
theorem super_scanRange_eq_overlay (ts : List Table) (hts : ∀ t ∈ ts, Asc t) (lo hi : Bytes) :
    superScanRange ts lo hi =
      if bytesCmp lo hi = .gt ∧ ts ≠ [] then .error .rejected
      else .ok (asItems (between (live (overlay ts)) lo hi)) :=
  Proofs.Merge.super_scanRange ts hts lo hi

/-- What the scans' right-hand side means, spelled out: every key at most once and in ascending order, and
an entry `(k, v)` is returned iff `v` is the value of the newest table that has `k` and is not a tombstone —
no value is ever attributed to a different key, the empty key included (k ranges over all byte strings). -/
theorem scan_content (ts : List Table) (hts : ∀ t ∈ ts, Asc t) :
    Asc (live (overlay ts)) ∧
    ∀ k v, (k, v) ∈ live (overlay ts) ↔ (newestValue ts k = some v ∧ v.isSome) := by
  refine ⟨Proofs.MergeSpec.filter_asc _ (Proofs.MergeSpec.overlay_asc ts), ?_⟩
  intro k v
  unfold live
  rw [List.mem_filter, ← Proofs.MergeSpec.tget_some_iff (Proofs.MergeSpec.overlay_asc ts),
    Proofs.MergeSpec.tget_overlay hts]

/-- `MergeCompact` with `ScanReduceLatestWins` over all tables into a fresh writer succeeds and writes exactly
the overlay without its tombstoned keys; with `ScanReduceLatestWinsSkipTombstones` additionally without the
keys whose newest value is EMPTY (`len(val) == 0`, as coded and documented for that reducer). -/
theorem mergeCompact_latestWins_eq_overlay (ts : List Table) (hts : ∀ t ∈ ts, Asc t) :
    ((mergeCompact ((ts.map toItems).map inputOf) {} scanReduceLatestWins).1 = none ∧
     (mergeCompact ((ts.map toItems).map inputOf) {} scanReduceLatestWins).2.out = live (overlay ts)) ∧
    ((mergeCompact ((ts.map toItems).map inputOf) {} scanReduceLatestWinsSkipTombstones).1 = none ∧
     (mergeCompact ((ts.map toItems).map inputOf) {} scanReduceLatestWinsSkipTombstones).2.out
        = liveNonEmpty (overlay ts)) :=
  ⟨Proofs.Merge.mergeCompact_lw ts hts, Proofs.Merge.mergeCompact_skip ts hts⟩

/-- Plain `Merge`: on pairwise key-disjoint tables it succeeds and writes the overlay, which then is the
sorted union of all records (tombstones included); on tables sharing a key the writer rejects the duplicate
and `Merge` returns that error. -/
theorem merge_disjoint_eq_union (ts : List Table) (hts : ∀ t ∈ ts, Asc t) :
    (PairwiseDisjoint ts →
      (merge ((ts.map toItems).map inputOf) {}).1 = none ∧
      (merge ((ts.map toItems).map inputOf) {}).2.out = overlay ts ∧
      (overlay ts).Perm ts.flatten) ∧
    (¬ PairwiseDisjoint ts → (merge ((ts.map toItems).map inputOf) {}).1 = some .rejected) :=
  ⟨Proofs.Merge.merge_disjoint ts hts, Proofs.Merge.merge_overlap ts hts⟩

/-- The reducer never indexes out of range for the groups the iterator builds (a group is never empty). -/
theorem reducer_index_in_range (cs : List Nat) (hne : cs ≠ []) : maxCtxIndex cs 0 0 0 < cs.length :=
  Proofs.MergeGroup.maxCtxIndex_lt cs hne

/-! ### non-vacuity: a concrete stack with the empty key, an empty table, a tombstone over a live value, a
live value over a tombstone, an empty value -/

def exTables : List Table :=
  [ [([], some [1]), ([97], none), ([98], some []), ([99], some [3])],
    [],
    [([], none), ([97], some [7]), ([99], none), ([100], some [9])] ]

example : ∀ t ∈ exTables, Asc t := by
  intro t ht
  simp only [exTables, List.mem_cons, List.not_mem_nil, or_false] at ht
  rcases ht with rfl | rfl | rfl <;> simp [Asc, StrictAsc, bytesCmp] <;> decide

example : superScan exTables = .ok [(some [97], some [7]), (some [98], some []), (some [100], some [9])] := by rfl
example : superGet exTables [] = .ok none := by rfl
example : superContains exTables [] = .ok true := by rfl
example : (mergeCompact ((exTables.map toItems).map inputOf) {} scanReduceLatestWinsSkipTombstones).2.out
    = [([97], some [7]), ([100], some [9])] := by rfl
example : ¬ PairwiseDisjoint exTables := by
  intro h
  have := (merge_disjoint_eq_union exTables (by
    intro t ht
    simp only [exTables, List.mem_cons, List.not_mem_nil, or_false] at ht
    rcases ht with rfl | rfl | rfl <;> simp [Asc, StrictAsc, bytesCmp] <;> decide)).1 h
  exact absurd this.1 (by decide)
example : PairwiseDisjoint [[([], some [1])], [([97], none)]] := by
  simp [PairwiseDisjoint]

end SST.C08
