/-
C05 — Concurrent Get/Put/Delete are linearizable while flushes and compactions run.

FULL PROPERTY (about the real goroutines): for every interleaving the Go scheduler can produce of client
goroutines calling Get/Put/Delete with memstore rotation, background flushing, table installation and
compaction result reflection, every recorded history of invocation/response pairs is linearizable with
respect to a single-copy map.

WHAT IS PROVED HERE (`partial`, by nature): the same statement for the interleaving semantics of
SST/Model/Conc.lean, whose micro-steps are the LOCK-PROTECTED SECTIONS of simpledb (see the table at the
top of that file).  The proof carries the lock-granularity bookkeeping — which sections can overlap which,
where each call takes effect, why a read whose two halves are separated by a table installation still
returns the atomic answer, why a stale compaction selection is harmless.

MODELLED, NOT VERIFIED (assumed, named in tools/props.py as trusted base):
  * `sync.RWMutex` gives mutual exclusion (one writer, or any number of readers) and the unbuffered
    `storeFlushChannel` hands a store over only when the flusher is ready to receive it;
  * the Go scheduler and memory model: what a critical section wrote is what the next lock holder reads;
  * every client method takes `db.rwLock` exactly as the model says (Get: read mode around both halves;
    Put/Delete: write mode around WAL append + memstore update + rotation; `reflectCompactionResult`: db
    write lock, then manager lock; `addReader`/`currentSSTable`: manager lock only).  This last item is not
    taken on faith: it is re-extracted from the source on every run (tools/lockfacts →
    SST/Generated/Access.lean) and checked by `C18.race_free` and `C05.lock_facts_as_modelled`.
The model cannot exhibit a violation that needs finer-than-lock granularity; the recorded-history stream
`conc` (porcupine on the real DB under forced rotations/compactions) and the race-detector stream `race`
are the validation of the model against the code, not part of the theorem.
-/
import SST.Proofs.Conc
import SST.Spec.Access
namespace SST.C05
open SST SST.DBM SST.Conc

/-- the micro-steps of the flusher (`addReader`), the compactor (`reflect` of a selection made on any prefix
of the live list, with any sizes) and the rotation hook never change what any key reads as, in any
reachable state — neither the abstraction map nor the answer of an (atomic) `GetBytes` -/
theorem bg_steps_preserve_abs (steps : List Step) (s' : State)
    (hb : Proofs.Conc.BgStep (runState {} steps) s') (k : Key) :
    abs s' k = abs (runState {} steps) k ∧ DBM.get s' k = DBM.get (runState {} steps) k :=
  Proofs.Conc.bg_steps_preserve_abs steps s' hb k

/-- `GetBytes` is not atomic: it snapshots the stacked tables in a reachable state `s`, and reads the
memstore pair in any state `s'` reachable from `s` by flusher `addReader` steps (the only state-changing
steps the db READ lock admits; other readers' steps change nothing).  It returns what an atomic read at the
first half would have returned — which is also what an atomic read at the second half would have returned,
and is `abs s k`. -/
theorem get_two_phase_ok (steps : List Step) (s' : State) (k : Key)
    (hm : Proofs.Conc.ReaderMay (runState {} steps) s') :
    let s := runState {} steps
    readMemRes s s' k = DBM.get s k ∧
    readMemRes s s' k = DBM.get s' k ∧
    readMemRes s s' k = (if (!s.isOpen || s.closed) = true then .notOpen else
      match abs s k with | some v => .value v | none => .notFound) :=
  Proofs.Conc.get_two_phase_ok steps s' k hm

/-- the compactor's reflection of a FRESH selection is the L6 compaction cycle (`DBM.compactStep`); the model
admits stale selections too (tables appended by the flusher in between) -/
theorem reflect_fresh_is_compactStep (s : State) (sizes : List Nat) :
    reflectOn s s.tables.length sizes = (compactStep s sizes).1 :=
  Proofs.Conc.reflectOn_fresh s sizes

/-- MAIN THEOREM (partial, see the header): start from ANY reachable database state (any L6 program: earlier
sessions, flushes, compactions, restarts), take ANY schedule of micro-steps that the locks admit — any number
of client threads, each issuing any sequence of Get/Put/Delete calls with any arguments (valid or rejected),
any placement of size-triggered rotations inside puts, of `addReader`, `select`, `reflect` and forced
rotations, invocation and response events anywhere outside the locked sections.  Then the history it
produces (invocations `calls`, completed calls `hist` with their invocation/response indices and results)
has a sequential witness: a duplicate-free list of calls that were really made, containing every completed
call with the result it returned, respecting real time (response-before-invocation order), in which each
call returns what the reference map (`specPut/specDel/specGet`, the same functions `DBM.specStep` uses),
started at the map the initial state stands for, returns.  The linearisation point of a put/delete is its
critical section, of a get its `readTables` half. -/
theorem linearizable_partial (steps : List Step) (sched : Sched) (calls : List Call) (hist : List HEntry)
    (h : exec (runState {} steps) sched = some (calls, hist)) :
    ∃ w, IsWitness (specOf (runState {} steps)) calls hist w :=
  Proofs.Conc.linearizable steps sched calls hist h

/-- the reference semantics of the witness is the one of C01 (`DBM.specStep`) -/
theorem specOp_is_specStep (sp : Spec) (k v : GoBytes) (key : Key) (rot : Bool) :
    specStep sp (.putB k v rot) = ((specOp sp (.put k v)).1, some (specOp sp (.put k v)).2) ∧
    specStep sp (.delB k) = ((specOp sp (.del k)).1, some (specOp sp (.del k)).2) ∧
    specStep sp (.get key) = ((specOp sp (.get key)).1, some (specOp sp (.get key)).2) :=
  ⟨rfl, rfl, rfl⟩

/-! ## the tie of the model's lock structure to the source (regenerated on every run) -/

open SST.Generated SST.AccessSpec in
/-- the lock structure SST/Model/Conc.lean assumes is the one extracted from /repo/simpledb today:
* every access a CLIENT thread makes — other than reading the lock field itself — happens under `db.rwLock`
  (read or write mode), and every client WRITE (WAL append, memstore update, memstore swap) under the write lock:
  `write t` is one critical section, `readTables t ; readMem t` is inside one read-locked section;
* `swapMemstore` runs only with the db write lock held, whoever calls it (caller-held locks, fixed point);
* the flusher's `addReader` holds the manager write lock and NOT the db lock, so it can run between the two
  halves of a get; the client's `currentSSTable` snapshot holds the manager read lock;
* `reflectCompactionResult` writes only under db write lock + manager write lock; the selection
  (`candidateTablesForCompaction`) and the merge (`executeCompaction`) hold no db lock;
* the rotation hands the flusher `swapMemstore(r)` (`r`: the receiver, whatever it is called): swap first (operand evaluation), then the send, on an
  UNBUFFERED channel (`make(chan memStoreFlushAction)`): the send completes only when the flusher is back at its
  receive, i.e. has installed the previous table — which is why `DBM.rotate` starts with `flushStep`. -/
theorem lock_facts_as_modelled :
    (accesses.all fun a => !(a.thread == .client) || a.obj == objRwLock || hasL a .dbR || hasL a .dbW) = true ∧
    (accesses.all fun a => !(a.thread == .client) || a.kind == .read || hasL a .dbW) = true ∧
    (accesses.all fun a => !(a.fn == "swapMemstore") || hasL a .dbW) = true ∧
    (accesses.all fun a => !(a.fn == "SSTableManager.addReader" && a.thread == .flusher) ||
        a.obj == objManagerLock || (hasL a .mgrW && !hasL a .dbW && !hasL a .dbR)) = true ∧
    (accesses.all fun a => !(a.fn == "SSTableManager.currentSSTable") || a.obj == objManagerLock || hasL a .mgrR) = true ∧
    (accesses.all fun a => !(a.fn == "SSTableManager.reflectCompactionResult") || a.kind == .read ||
        (hasL a .dbW && hasL a .mgrW)) = true ∧
    (accesses.all fun a => !(a.fn == "SSTableManager.candidateTablesForCompaction" || a.fn == "executeCompaction") ||
        (!hasL a .dbW && !hasL a .dbR)) = true ∧
    ((accesses.filter fun a => a.fn == "SSTableManager.reflectCompactionResult" && a.kind == .write).length > 0) ∧
    ((accesses.filter fun a => a.thread == .client && a.kind == .write).length > 0) ∧
    flushSends = [("DB.VerifWaitFlushIdle", "&v0"), ("DB.rotateWalAndFlushMemstore", "swapMemstore(r)")] ∧
    dbChannels.lookup "storeFlushChannel" = some "make(chan memStoreFlushAction)" := by
  decide +kernel

/-! ## non-vacuity -/

/-- an opened database with one table, a pending flush and a non-empty write store -/
def demoSteps : List Step :=
  [.reopen { threshold := 0, maxSize := 100, ratioNum := 1, ratioDen := 1 },
   .putS [1] [9] false, .rotate, .flush, .putS [2] [8] false, .delS [1], .rotate, .putS [3] [7] false]

/-- two clients and the background threads: client 1's get is split around the flusher's `addReader` and
overlaps client 0's get; a compaction is selected, a table is appended, then the stale selection is reflected;
a put rotates inside its critical section -/
def demoSched : Sched :=
  [.inv 1 (.get [2]), .inv 0 (.get [1]), .readTables 1, .addReader, .readTables 0, .select [10, 10],
   .readMem 1, .resp 1, .readMem 0, .inv 1 (.put (some [1]) (some [5])), .resp 0,
   .write 1 true, .addReader, .reflect, .resp 1, .inv 0 (.get [1]), .inv 2 (.del (some [2])),
   .readTables 0, .readMem 0, .write 2 false, .hookRotate, .resp 2, .resp 0,
   .inv 2 (.get [2]), .readTables 2, .readMem 2, .resp 2]

example : Valid (runState {} demoSteps) demoSched := by decide

example : (exec (runState {} demoSteps) demoSched).map (fun h => h.2.map (fun e => (e.thread, e.inv, e.resp, e.res)))
    = some [(1, 0, 7, .value [8]), (0, 1, 10, .notFound), (1, 9, 14, .ok), (2, 16, 21, .ok),
            (0, 15, 22, .value [5]), (2, 23, 26, .notFound)] := by decide

/-- the locks reject a writer between the two halves of a get, and a reflection while a reader is inside -/
example : ¬ Valid (runState {} demoSteps)
    [.inv 0 (.get [1]), .inv 1 (.del (some [1])), .readTables 0, .write 1 false] := by decide
example : ¬ Valid (runState {} demoSteps) [.select [1], .inv 0 (.get [1]), .readTables 0, .reflect] := by decide

/-- the hypotheses of `bg_steps_preserve_abs` / `get_two_phase_ok` are met by a state with a pending flush -/
example : Proofs.Conc.ReaderMay (runState {} demoSteps) (flushStep (runState {} demoSteps)) :=
  .addReader _ _ (.refl _)
example : (flushStep (runState {} demoSteps)).tables.length = (runState {} demoSteps).tables.length + 1 := by
  decide

end SST.C05
