/-
C03 (extension) — An SSTable returns exactly what was written: VERSION-0 tables.
Property theorems only; lemmas live in SST/Proofs/SSTableV0.lean, concrete evaluations in
SST/Proofs/SSTableV0Examples.lean, the per-record recordio round trips in SST/Proofs/RecordIOLegacy.lean.

A version-0 table (values stored as `DataEntry` protobuf messages, index entries without checksum, metadata file
absent or saying version 0, both recordio files in ANY recordio version 1–4) is still served by the table reader
through a code path of its own (sstable_reader.go `metaData.Version == 0`: `v0DataReader`, `getValueAtOffset`;
sstable_iterator.go `V0SSTableFullScanIterator`).  The repository has no writer for such tables any more: the
reference layout `V0.filesOf` is shown to reproduce the repository's own test tables byte for byte
(`repo_v0_table_v1_layout`, `repo_v0_table_v2_layout`).

Quantification of the read theorems: ALL layouts `cfg` with both recordio versions anywhere in 1..4 and any lawful
compressors (`CfgOk`), ALL strictly ascending key lists with ALL values (nil, empty, marker bytes, …), ANY metadata
file that is absent or parses to a message of version 0 (whatever else it says), any bloom filter without false
negatives, all reader options, all probe keys and range bounds.
What a version-0 table cannot do: tell a nil value from an empty one (both are the empty message and read as nil:
`normKVs`), and notice damage (`v0_damage_not_detected`).
Abstracted, as everywhere in the model: allocations succeed.  This matters for "whatever else the metadata says":
the slice and map loaders use `metadata.NumRecords` as the capacity of a `make` (slice_key_index.go,
map_key_index.go), so a metadata file claiming an absurd record count makes the real loader panic or run out of
memory; the model's loaders do not look at the metadata.
-/
import SST.Proofs.SSTableV0
import SST.Proofs.SSTableV0Examples
namespace SST.C03.V0
open SST Generated SST.V0 SST.Legacy SST.Proofs.Sst SST.Proofs.V0

/-! ## a. reads like the sorted map -/

/-- Slice loader (the default).  `NewSSTableReader` on the version-0 table holding `kvs` succeeds — nothing of the
data file is verified on load, whatever the options say — reports the metadata of the metadata file (`r.md = md`;
the all-zero default when there is no file), and Contains / Get / Scan / ScanStartingAt / ScanRange answer exactly
like the sorted map of `normKVs kvs`, i.e. of `kvs` with nil and empty values both read as nil (`ReadsAsMapV0`:
`NotFound` for absent keys, ascending scans, inclusive bounds, lower > upper rejected, the empty key scanned as
nil, no call changes the index).  With `EnableHashCheckOnReads` the answers are the same: a version-0 index
entry has checksum 0, the reader's "older formats" bypass. -/
theorem v0_table_reads_as_map_slice (comps : Nat → Compression) (cfg : Cfg) (kvs : List KV) (metaf : Option Bytes)
    (md : Meta) (hc : CfgOk comps cfg) (hf : FitsV0 cfg kvs) (hs : StrictAsc bytesCmp kvs) (hm : MetaV0 metaf md)
    (o : ReadOpts) (bloom : Option (Bytes → Bool)) (hb : BloomOk bloom kvs) :
    ∃ r idx, openTableV0 comps .slice o (filesOf cfg kvs metaf) bloom = some (.ok (r, idx)) ∧ r.md = md ∧
      ReadsAsMapV0 comps (fun _ => True) r idx (normKVs kvs) :=
  table_reads_v0 comps cfg kvs metaf md hc hf hm .slice o bloom hb _ (slice_table_v0 comps cfg kvs hc hf hs)

/-- Skip-list loader, for all node heights the random generator may produce. -/
theorem v0_table_reads_as_map_skip (comps : Nat → Compression) (cfg : Cfg) (kvs : List KV) (metaf : Option Bytes)
    (md : Meta) (hc : CfgOk comps cfg) (hf : FitsV0 cfg kvs) (hs : StrictAsc bytesCmp kvs) (hm : MetaV0 metaf md)
    (o : ReadOpts) (bloom : Option (Bytes → Bool)) (hb : BloomOk bloom kvs)
    (heights : List Nat) (hh : ∀ h ∈ heights, 1 ≤ h) :
    ∃ r idx, openTableV0 comps (.skip heights) o (filesOf cfg kvs metaf) bloom = some (.ok (r, idx)) ∧ r.md = md ∧
      ReadsAsMapV0 comps (fun _ => True) r idx (normKVs kvs) :=
  table_reads_v0 comps cfg kvs metaf md hc hf hm (.skip heights) o bloom hb _
    (skip_table_v0 comps cfg kvs hc hf hs heights hh)

/-- PARTIAL (map loader, `Byte4KeyMapper` / `Byte20KeyMapper` = `n` 4 / 20).  Full statement: as for the slice
loader.  Proved: the scans always; Contains / Get for every probe `k` with `PadInjective n keys k` (all keys and
the probe fit `n` bytes and zero padding identifies no two of them).  What is missing is false of the code, exactly
as for current tables (C03 `map_index_pad_collision`): see `v0_map_pad_collision`. -/
theorem v0_table_reads_as_map_map_partial (comps : Nat → Compression) (cfg : Cfg) (kvs : List KV)
    (metaf : Option Bytes) (md : Meta) (hc : CfgOk comps cfg) (hf : FitsV0 cfg kvs) (hs : StrictAsc bytesCmp kvs)
    (hm : MetaV0 metaf md) (o : ReadOpts) (bloom : Option (Bytes → Bool)) (hb : BloomOk bloom kvs)
    (n : Nat) (hn : ∀ p ∈ kvs, p.1.length ≤ n) :
    ∃ r idx, openTableV0 comps (.map n) o (filesOf cfg kvs metaf) bloom = some (.ok (r, idx)) ∧ r.md = md ∧
      ReadsAsMapV0 comps (fun k => PadInjective n (kvs.map (·.1)) k) r idx (normKVs kvs) :=
  table_reads_v0 comps cfg kvs metaf md hc hf hm (.map n) o bloom hb _ (map_table_v0 comps cfg kvs hc hf hs n hn)

/-- COUNTEREXAMPLE to the full statement for the map loader on a version-0 table: keys "a" and "a\0", the 4-byte
mapper; `Get("a")` returns the value stored for "a\0" where the sorted map says the value of "a". -/
theorem v0_map_pad_collision :
    (match openTableV0 toyComps (.map 4) {} (filesOf toyCfgA [([97], some [1]), ([97, 0], some [2])] none) none with
     | some (.ok (r, idx)) => (r.get idx [97]).2
     | _ => none) = some (.ok (some [2])) ∧
    specGetRes (normKVs [([97], some [1]), ([97, 0], some [2])]) [97] = .ok (some [1]) :=
  Proofs.V0.v0_map_pad_collision

/-- the collision input violates the hypothesis of the partial theorem, as it must -/
example : ¬ PadInjective 4 [[97], [97, 0]] [97] := by decide

/-- No bloom-filter false negative on a version-0 table: every stored key is reported present (for any reader
that reads as the map, hence for the slice and skip loaders). -/
theorem v0_contains_no_false_negative (comps : Nat → Compression) (r : V0.Reader) (idx : Index) (kvs : List KV)
    (h : ReadsAsMapV0 comps (fun _ => True) r idx kvs) :
    ∀ p ∈ kvs, r.contains idx p.1 = (idx, some (.ok true)) := by
  intro p hp
  rw [h.contains p.1 trivial]
  have : (specGet bytesCmp kvs p.1).isSome = true := by
    unfold specGet
    rw [Option.isSome_map, List.find?_isSome]
    exact ⟨p, hp, by simp [bytesCmp_refl]⟩
  rw [this]

/-! ## b. the metadata such a table reports -/

/-- A table WITHOUT a metadata file (the oldest tables; also what a current table looks like to the reader when
its meta.pb.bin is missing): the reader works with the default message.  `MetaData()` says numRecords = 0,
totalBytes = 0, nullValues = 0, version = 0, no min / max key — although the table holds `kvs.length` records,
all of which the full scan delivers.  (Consumers of the metadata: `candidateTablesForCompaction`, see
`v0_candidate_by_size_only`.) -/
theorem v0_meta_reported (comps : Nat → Compression) (cfg : Cfg) (kvs : List KV)
    (hc : CfgOk comps cfg) (hf : FitsV0 cfg kvs) (hs : StrictAsc bytesCmp kvs)
    (o : ReadOpts) (bloom : Option (Bytes → Bool)) (hb : BloomOk bloom kvs) :
    MetaV0 none {} ∧
    ∃ r idx, openTableV0 comps .slice o (filesOf cfg kvs none) bloom = some (.ok (r, idx)) ∧
      r.metaData = {} ∧ r.metaData.numRecords = 0 ∧ r.metaData.totalBytes = 0 ∧ r.metaData.nullValues = 0 ∧
      r.metaData.version = 0 ∧ r.metaData.minKey = none ∧ r.metaData.maxKey = none ∧
      ∃ out, r.scan comps idx = .ok (out, .done) ∧ out.length = kvs.length := by
  refine ⟨metaV0_none, ?_⟩
  obtain ⟨r, idx, h1, h2, h3⟩ := v0_table_reads_as_map_slice comps cfg kvs none {} hc hf hs metaV0_none o bloom hb
  refine ⟨r, idx, h1, h2, ?_, ?_, ?_, ?_, ?_, ?_, _, h3.scan, by simp [normKVs]⟩ <;>
    (unfold V0.Reader.metaData; rw [h2])

/-- The same for ANY files whatsoever: if `NewSSTableReader` takes the version-0 path and succeeds, the metadata
it reports is exactly what the metadata file parses as (the default when absent) and says version 0; the reader
serves from the data file as it is. -/
theorem v0_meta_is_the_file (comps : Nat → Compression) (k : LoaderKind) (o : ReadOpts) (t : Files)
    (bloom : Option (Bytes → Bool)) (r : V0.Reader) (idx : Index)
    (h : openTableV0 comps k o t bloom = some (.ok (r, idx))) :
    TblDir.readMeta t.metaf = .ok r.metaData ∧ r.metaData.version = 0 ∧ r.data = t.data ∧
      (t.metaf = none → r.metaData = {}) :=
  ⟨(openTableV0_md comps k o t bloom r idx h).1, (openTableV0_md comps k o t bloom r idx h).2.1,
   (openTableV0_md comps k o t bloom r idx h).2.2.1, fun hn => openTableV0_no_meta comps k o t bloom r idx hn h⟩

/-- What `candidateTablesForCompaction` concludes from a reader without metadata: candidate by SIZE for every
positive size limit (reported total 0), never by tombstone ratio (reported record count 0). -/
theorem v0_candidate_by_size_only (o : DBM.Opts) (r : V0.Reader) (h : r.metaData = {}) :
    candidateV0 o r = decide (0 < o.maxSize) :=
  candidateV0_no_meta o r h

/-! ## c. what a compaction receives -/

/-- `executeCompaction` opens a new reader (default options, slice loader) and a full scanner on the table: the
merge gets, as an input that cannot fail, exactly the pairs `normKVs kvs` in ascending order (keys as protobuf
returns them), and these stand for the layer `normKVs kvs` (key ↦ value as delivered). -/
theorem v0_merge_input (comps : Nat → Compression) (cfg : Cfg) (kvs : List KV) (metaf : Option Bytes) (md : Meta)
    (hc : CfgOk comps cfg) (hf : FitsV0 cfg kvs) (hs : StrictAsc bytesCmp kvs) (hm : MetaV0 metaf md)
    (bloom : Option (Bytes → Bool)) :
    mergeInputV0 comps (filesOf cfg kvs metaf) bloom = some (.ok (Merge.inputOf ((normKVs kvs).map normKV))) ∧
    Stack.scanInput ((normKVs kvs).map normKV, .done) = Merge.inputOf ((normKVs kvs).map normKV) ∧
    cellsOf ((normKVs kvs).map normKV, .done) = normKVs kvs :=
  ⟨mergeInputV0_table comps cfg kvs metaf md hc hf hs hm bloom, rfl, cellsOf_norm _⟩

/-! ## d. LIMITATION: version-0 values are served without any verification -/

/-- For ANY data file and ANY offset: on an index entry without checksum — every entry of a version-0 index —
`getValueAtOffset` with `EnableHashCheckOnReads` returns exactly what it returns without: whatever the bytes at the
offset parse as.  (`validateDataFile` on load returns at once for a version-0 reader: `openTableV0` does not look
at `skipHashOnLoad` at all.) -/
theorem v0_hash_check_is_void (dv : Nat) (dc : Compression) (data : Bytes) (off : Nat) (skip : Bool) :
    getValueV0 dv dc data ⟨off, 0⟩ skip = protoValueAt dv dc data off :=
  getValueV0_sum_zero dv dc data off skip

/-- RECORDED LIMITATION, concrete witness.  The version-0 table of ("\x01" ↦ 0a 0b, "\x02" ↦ 14 15) (recordio
V2, no compression, no metadata file), one byte of the first VALUE in data.rio changed (0a → 63): with every
combination of the verification options the table opens, `Get("\x01")` returns the altered value 63 0b as
genuine, and the full scan delivers it too. -/
theorem v0_damage_not_detected :
    (filesOf dmgCfg dmgKvs none).data[15]? = some 10 ∧
    dmgFiles = { filesOf dmgCfg dmgKvs none with data := (filesOf dmgCfg dmgKvs none).data.set 15 99 } ∧
    probeGetV0 (fun _ => none) {} (filesOf dmgCfg dmgKvs none) [1] = some (.ok (some [10, 11])) ∧
    probeGetV0 (fun _ => none) {} dmgFiles [1] = some (.ok (some [99, 11])) ∧
    probeGetV0 (fun _ => none) { skipHashOnRead := false } dmgFiles [1] = some (.ok (some [99, 11])) ∧
    probeGetV0 (fun _ => none) { skipHashOnLoad := false, skipHashOnRead := false } dmgFiles [1] =
      some (.ok (some [99, 11])) ∧
    probeScanV0 (fun _ => none) dmgFiles =
      some (.ok ([(some [1], some [99, 11]), (some [2], some [20, 21])], .done)) :=
  ⟨dmg_position, rfl, v0_damage_served⟩

/-- CONTRAST: the same pairs in a CURRENT table (`writeTable plainCfg`), the same value byte changed: with the
default options `NewSSTableReader` fails with a checksum error; when only reads are verified the table opens and
`Get("\x01")` fails with a checksum error (C09 in general: `C09.payload_alteration_detected`,
`C09.load_verified_sound`). -/
theorem current_format_detects_same_damage :
    (writeTable plainCfg dmgKvs).data[19]? = some 10 ∧
    dmgCur = { writeTable plainCfg dmgKvs with data := (writeTable plainCfg dmgKvs).data.set 19 99 } ∧
    openTable plainComps .slice {} dmgCur none = .error .checksum ∧
    curOpenErr { skipHashOnLoad := true, skipHashOnRead := false } dmgCur = none ∧
    curGet { skipHashOnLoad := true, skipHashOnRead := false } dmgCur [1] = some (.error .checksum) :=
  ⟨dmg_cur_position, rfl, current_damage_detected⟩

/-! ## e. the repository's own version-0 tables -/

/-- The reference layout reproduces /repo/sstables/test_files/v0_compat/SimpleWriteHappyPathSSTable (index.rio
206 bytes, data.rio 204 bytes, both recordio V1, data snappy-compressed, no metadata file) byte for byte from the
seven pairs 00 00 00 i ↦ 00 00 00 i+1. -/
theorem repo_v0_table_v1_layout : filesOf cfgV1 kvs7 none = repoV1 := repo_v1_layout

/-- The reference layout reproduces v0_compat/SimpleWriteHappyPathSSTableRecordIOV2 (index.rio 99 bytes, data.rio
99 bytes, both recordio V2, data snappy-compressed; meta.pb.bin 14 bytes) byte for byte. -/
theorem repo_v0_table_v2_layout : filesOf cfgV2 kvs7 (some repoV2Meta) = repoV2 := repo_v2_layout

/-- The model on the repository's files (snappy = a decoder for single-literal blocks, which is all these files
contain): full scan = the seven pairs; Get of the first, the last and a middle key (the latter with
`EnableHashCheckOnReads`); an absent key and the empty key are `NotFound`; the V1 table, which has no metadata
file, reports the all-zero default; the V2 table reports numRecords 7, minKey, maxKey and version 0. -/
theorem repo_v0_table_reads :
    (probeScanV0 evalComps repoV1 = some (.ok (kvs7.map normKV, .done)) ∧
     probeGetV0 evalComps {} repoV1 [0, 0, 0, 1] = some (.ok (some [0, 0, 0, 2])) ∧
     probeGetV0 evalComps {} repoV1 [0, 0, 0, 7] = some (.ok (some [0, 0, 0, 8])) ∧
     probeGetV0 evalComps { skipHashOnRead := false } repoV1 [0, 0, 0, 4] = some (.ok (some [0, 0, 0, 5])) ∧
     probeGetV0 evalComps {} repoV1 [0, 0, 0, 8] = some (.error .notFound) ∧
     probeGetV0 evalComps {} repoV1 [] = some (.error .notFound) ∧
     probeMetaV0 evalComps repoV1 = some (.ok {})) ∧
    (probeScanV0 evalComps repoV2 = some (.ok (kvs7.map normKV, .done)) ∧
     probeGetV0 evalComps {} repoV2 [0, 0, 0, 1] = some (.ok (some [0, 0, 0, 2])) ∧
     probeGetV0 evalComps {} repoV2 [0, 0, 0, 7] = some (.ok (some [0, 0, 0, 8])) ∧
     probeGetV0 evalComps { skipHashOnRead := false } repoV2 [0, 0, 0, 4] = some (.ok (some [0, 0, 0, 5])) ∧
     probeGetV0 evalComps {} repoV2 [0, 0, 0, 8] = some (.error .notFound) ∧
     probeGetV0 evalComps {} repoV2 [] = some (.error .notFound) ∧
     probeMetaV0 evalComps repoV2 = some (.ok repoV2Md)) :=
  ⟨repo_v1_reads, repo_v2_reads⟩

/-- The other loaders on the repository's files: skip list (Get, ScanRange, ScanStartingAt), 4-byte map (Get,
Contains of an absent key). -/
theorem repo_v0_table_other_loaders :
    probeWithV0 (.skip [1, 3, 2]) repoV2 (fun r idx => (r.get idx [0, 0, 0, 5]).2) =
      some (some (.ok (some [0, 0, 0, 6]))) ∧
    probeWithV0 (.skip [1, 3, 2]) repoV2 (fun r idx => (r.scanRange idx [0, 0, 0, 2] [0, 0, 0, 3]).2) =
      some (.ok ([(some [0, 0, 0, 2], some [0, 0, 0, 3]), (some [0, 0, 0, 3], some [0, 0, 0, 4])], .done)) ∧
    probeWithV0 (.map 4) repoV1 (fun r idx => (r.get idx [0, 0, 0, 5]).2) =
      some (some (.ok (some [0, 0, 0, 6]))) ∧
    probeWithV0 (.map 4) repoV1 (fun r idx => (r.contains idx [0, 0, 0, 9]).2) = some (some (.ok false)) ∧
    probeWithV0 (.skip []) repoV1 (fun r idx => (r.scanFrom idx [0, 0, 0, 6]).2) =
      some (.ok ([(some [0, 0, 0, 6], some [0, 0, 0, 7]), (some [0, 0, 0, 7], some [0, 0, 0, 8])], .done)) :=
  repo_other_loaders

/-- The GENERAL theorem reaches the real files: the decompressor is external code, so let `sn` be ANY lawful
snappy implementation that compresses the seven 6-byte `DataEntry` messages to the bytes the files contain
(`AgreesOnRepo`: one literal each — what the files witness of the real encoder).  Then a reader with `sn` behind
compression code 2 opens both repository tables, with all options and any bloom filter without false negatives,
reports `{}` resp. the content of meta.pb.bin, and reads them as the sorted map of the seven pairs. -/
theorem repo_v0_table_reads_any_snappy (sn : Comp) (hl : sn.Lawful) (h : AgreesOnRepo sn) (o : ReadOpts)
    (bloom : Option (Bytes → Bool)) (hb : BloomOk bloom kvs7) :
    (∃ r idx, openTableV0 (compsWith sn) .slice o repoV1 bloom = some (.ok (r, idx)) ∧ r.md = {} ∧
      ReadsAsMapV0 (compsWith sn) (fun _ => True) r idx kvs7) ∧
    (∃ r idx, openTableV0 (compsWith sn) .slice o repoV2 bloom = some (.ok (r, idx)) ∧ r.md = repoV2Md ∧
      ReadsAsMapV0 (compsWith sn) (fun _ => True) r idx kvs7) :=
  ⟨repo_v1_reads_any_snappy sn hl h o bloom hb, repo_v2_reads_any_snappy sn hl h o bloom hb⟩

/-! ## non-vacuity -/

/-- the hypotheses are satisfiable together, for mixed recordio versions (index V3 + data V1, index V4 + data V3,
index V2 + data V1 with a compressor), a lawful compressor, the empty key, a nil, an empty and a marker-bytes value -/
example : CfgOk toyComps toyCfgA ∧ CfgOk toyComps toyCfgB ∧ CfgOk toyComps toyCfgC := toy_cfgOk

example : FitsV0 toyCfgA toyKvs ∧ FitsV0 toyCfgB toyKvs ∧ FitsV0 toyCfgC toyKvs := toy_fits

example : StrictAsc bytesCmp toyKvs := toyKvs_strictAsc

example : toyKvs = [([], none), ([0x91], some []), ([0x91, 0x8d], some [0x91, 0x8d, 0x4c])] := rfl

/-- metadata: absent; the repository's real meta.pb.bin; a file claiming nonsense but version 0 -/
example : MetaV0 none {} := metaV0_none

example : MetaV0 (some repoV2Meta) repoV2Md := repo_v2_meta

example : MetaV0 (some (encMeta { numRecords := 1000, nullValues := 999 })) { numRecords := 1000, nullValues := 999 } :=
  ⟨by decide +kernel, rfl⟩

/-- a metadata file of a CURRENT table is not `MetaV0` (such a table goes through `SST.openTable`) -/
example : ¬ ∃ md, MetaV0 (some (encMeta { numRecords := 1, version := 1 })) md := by
  rintro ⟨md, h1, h2⟩
  have : TblDir.readMeta (some (encMeta { numRecords := 1, version := 1 })) = .ok { numRecords := 1, version := 1 } := by
    decide +kernel
  rw [this] at h1
  cases h1
  cases h2

example : BloomOk (some fun _ => true) toyKvs := by
  intro bf h p _; cases h; rfl

/-- the general theorem instantiated, and its conclusion used: the stored EMPTY value is read back as nil, with
hash checks on reads enabled -/
example : ∃ r idx, openTableV0 toyComps .slice { skipHashOnRead := false } (filesOf toyCfgC toyKvs none) none =
      some (.ok (r, idx)) ∧ r.get idx [0x91] = (idx, some (.ok none)) := by
  obtain ⟨r, idx, h1, _, h3⟩ := v0_table_reads_as_map_slice toyComps toyCfgC toyKvs none {} toy_cfgOk.2.2 toy_fits.2.2
    toyKvs_strictAsc metaV0_none { skipHashOnRead := false } none (by intro bf h; cases h)
  refine ⟨r, idx, h1, ?_⟩
  rw [h3.get [0x91] trivial]
  have : specGetRes (normKVs toyKvs) [0x91] = .ok none := by decide +kernel
  rw [this]

/-- the model evaluated on the synthetic tables agrees with what the theorems say -/
example :
    probeGetV0 toyComps {} (filesOf toyCfgA toyKvs none) [0x91] = some (.ok none) ∧
    probeGetV0 toyComps {} (filesOf toyCfgC toyKvs none) [0x92] = some (.error .notFound) :=
  ⟨toy_reads.2.1, toy_reads.2.2.2.2.1⟩

/-- `AgreesOnRepo` is satisfiable (by the literal-only encoder itself; a real snappy encoder emits the same bytes
for these inputs, as the repository's files show) -/
example : AgreesOnRepo snappyLiteral := fun _ _ => rfl

end SST.C03.V0
