/-
C12 — A cut or header-damaged RecordIO file yields only genuine records, in order.
-/
import SST.Proofs.RecordIODamage
namespace SST.C12
open SST Generated

/-- A file cut off at ANY length n reads as exactly the records completely contained in the first n bytes,
in order, followed by end-of-file or an error (never a record that was not written or a shortened payload). -/
theorem truncate_prefix (c : Compression) (ct : Nat) (rs : List GoBytes)
    (hl : LawfulC c) (hf : ∀ r ∈ rs, FitsRec c r) (hct : ct ≤ maxCompression) (n : Nat) :
    ∃ e, openReadAll c ((fileHeader currentVersion ct ++ encAll c rs).take n)
      = (rs.take (wholeIn c rs n), e) :=
  Proofs.truncate_prefix c ct rs hl hf hct n

/-- The random-access reader on a cut file: record k is returned iff it is completely contained. -/
theorem truncate_readAt (c : Compression) (ct : Nat) (rs : List GoBytes) (k : Nat) (hk : k < rs.length)
    (hl : LawfulC c) (hf : ∀ r ∈ rs, FitsRec c r) (n : Nat) :
    (offsetOf c rs (k + 1) ≤ n →
      readAt c ((fileHeader currentVersion ct ++ encAll c rs).take n) (offsetOf c rs k) = .ok rs[k]) ∧
    (n < offsetOf c rs (k + 1) →
      ∃ e, readAt c ((fileHeader currentVersion ct ++ encAll c rs).take n) (offsetOf c rs k) = .error e) :=
  Proofs.truncate_readAt c ct rs k hk hl hf n

/-- CRC-32C changes whenever exactly one byte changes (the engine of header-damage detection). -/
theorem crc32c_single_byte (a : Bytes) (i : Nat) (hi : i < a.length) (x : UInt8) (hx : x ≠ a[i]) :
    crc32c (a.set i x) ≠ crc32c a :=
  Proofs.crc32c_single_byte a i hi x hx

/-- PARTIAL (frame-preserving alterations only; the full statement "any alteration of any header byte"
additionally covers continuation-bit flips, for which detection is a 32-bit CRC compared at a moved
position — see DESIGN.md C12): altering a header byte makes both readers fail on that record. -/
theorem header_alter_detected_partial (c : Compression) (r : GoBytes) (pre rest : Bytes)
    (hf : FitsRec c r) (i : Nat) (x : UInt8) (hfp : FramePreserving (headerOf c r) i x) :
    (∃ e, readNextS c ((encRecord c r).set i x ++ rest) = .error e) ∧
    (∃ e, readAt c (pre ++ (encRecord c r).set i x ++ rest) pre.length = .error e) :=
  Proofs.header_alter_detected_partial c r pre rest hf i x hfp

/-- A file header with an unsupported version or compression code is rejected on open. -/
theorem file_header_rejected (v ct : Nat) (rest : Bytes) (hv : v < 2 ^ 32) (hc : ct < 2 ^ 32)
    (hbad : v > currentVersion ∨ v < minVersion ∨ ct > maxCompression) :
    parseFileHeader (le32 v ++ le32 ct ++ rest) = .error .rejected :=
  Proofs.file_header_rejected v ct rest hv hc hbad

theorem file_header_accepted (v ct : Nat) (rest : Bytes)
    (hv : minVersion ≤ v ∧ v ≤ currentVersion) (hc : ct ≤ maxCompression) :
    parseFileHeader (le32 v ++ le32 ct ++ rest) = .ok (v, ct) :=
  Proofs.file_header_accepted v ct rest hv hc

/-- non-vacuity: changing the nil flag, or a length byte without touching its continuation bit, is frame preserving -/
example : FramePreserving (headerOf none (some [1, 2, 3])) 3 1 := by
  refine ⟨by decide, by decide, Or.inl rfl⟩

end SST.C12
