/-
C10 / C02 — the BYTES of a compaction directory refine the abstract disk of L6-fs.

The crash theorems (`C02.crash_safe_sync`, `C10.recover_idempotent_under_crash`, C13) are proved on the abstract disk
(SST/Model/FS.lean), where a compaction directory is `CompDir {id, out : TableDir, flag : Option CompMeta}`, a
compaction run the event sequence `compMkdir id, compProgress id, compComplete id cells, compProgress id, compFlag id cm`
(`FS.compactEvs`) and `repairCompactions` is `FS.phase1` / `FS.finishComp`.  `C10.Table` derived the table part from the
bytes; here the same is done for the whole directory: SST/Model/CompDirBytes.lean has the flag file
`compaction_successful` (`FlagImage`), the protobuf encoding of `CompactionMetadata` (`encCompMeta`, three strings, the
third repeated), the calls of `saveCompactionMetadata` as coded now (`flagCalls`: the file is created EMPTY, the 8
header bytes are written at `Open`, the record reaches the file in the `write` calls of the buffered writer — flush
points are a parameter — the last one at `Close`), the reading code of `repairCompactions` (`readFlag`: proto reader
`Open` = file header, `ReadNext`, unmarshal with UTF-8 validation; ANY failure = `none` = the directory is deleted), the
whole call sequence of `executeCompaction` (`compCalls`: `MkdirTemp`, the table writer's calls of `C10.Table`, then the
flag), the directory names ↔ table numbers map (`tableName`, `compName`, `absMeta`, `rawOf`) and `repairCompactions` on
a database directory image (`repairBytes`).

Hypotheses: `MetaOk m` (the strings are valid UTF-8 — otherwise `proto.Marshal` refuses them and nothing but the file
header is written, `invalid_metadata_never_flags` — and the record length fits the 64-bit header field);
`comps 0 = none` (compression code 0 of a recordio file header means "no compression", what the flag writer uses); for
the table part the hypotheses of `C10.Table` (`Hyp`, `BloomReads`); for names `Canonical` (a readable flag names its own
directory and table directories: what `executeCompaction` writes, `written_flag_canonical`).
Proofs: SST/Proofs/CompDirBytes{Defs,Flag,Pad,PadPb,PadRec,PadNames,Names,Dir}.lean.  Kill-9 model: each call atomic.
-/
import SST.Proofs.CompDirBytesFlag
import SST.Proofs.CompDirBytesPadNames
import SST.Proofs.CompDirBytesDir
import SST.Props.C10_Table
namespace SST.C10.Comp
open SST SST.CompDir SST.TblDir SST.FS Generated
open SST.Proofs.CompDir (MetaOk zeros zeroTail zeroTailStr compState lookupC)
open SST.Proofs.TblDir (Hyp BloomReads)

/-- the abstract events of a compaction cycle ARE `compEvs` (followed by the removal of the inputs and the rename) -/
theorem compact_events_are_comp_events (d : Disk) (v : Vol) (sizes : List Nat) (junk : List (Nat × DBM.Layer))
    (r : Nat) (rest : List Nat) (h : (DBM.compactStep v.s sizes).2 = r :: rest) :
    (compactEvs d v sizes junk).1 =
      compEvs (freshId d)
        (match (DBM.compactStep v.s sizes).1.tables.find? (·.gen == r) with
          | some t => t.cells
          | none => [])
        { inputs := r :: rest, replacement := r } ++
      (r :: rest).flatMap (fun g => rmAll g (lookupJ junk g)) ++ [Ev.compRename (freshId d) r] := by
  unfold compactEvs
  generalize hcs : DBM.compactStep v.s sizes = cs at h
  obtain ⟨s', sel⟩ := cs
  simp only at h
  subst h
  simp only [compEvs, List.cons_append, List.nil_append]
  rfl

/-! ## 1. the flag file: round trip -/

/-- `flag_roundtrip`, message level: `proto.Unmarshal (proto.Marshal m) = m` for EVERY metadata value `Marshal` accepts —
any write path, any replacement path, any list of paths: the empty list, empty strings inside the list, strings of any
length (the length prefix is a varint of any size below 2^64) -/
theorem meta_roundtrip (m : RawMeta) (h : MetaOk m) : decCompMeta (encCompMeta m) = some m :=
  Proofs.CompDir.decCompMeta_enc m h

/-- `flag_roundtrip`, file level: the complete flag file (file header ++ the one record), read with the reading code of
`repairCompactions`, gives EXACTLY the metadata written — whatever follows the record in the file -/
theorem flag_roundtrip (comps : Nat → Compression) (hc : comps 0 = none) (m : RawMeta) (h : MetaOk m) (t : Bytes) :
    readFlag comps (some (flagBytes m ++ t)) = some m :=
  Proofs.CompDir.flag_roundtrip comps hc m h t

/-- … and in terms of the abstract disk: the flag `executeCompaction` writes into directory `id` for the tables `cm`
reads as `cm` (inputs and replacement), and names its own directory -/
theorem flag_roundtrip_abstract (comps : Nat → Compression) (hc : comps 0 = none) (id : Nat) (cm : CompMeta)
    (hf : (encCompMeta (rawOf id cm)).length < 2 ^ 64) :
    absFlag comps (some (flagBytes (rawOf id cm))) = some cm ∧
    (readFlag comps (some (flagBytes (rawOf id cm)))).map (·.writePath) = some (compName id) := by
  have hm : MetaOk (rawOf id cm) := ⟨Proofs.CompDir.rawOf_valid id cm, hf⟩
  have h := Proofs.CompDir.flag_roundtrip comps hc _ hm []
  rw [List.append_nil] at h
  refine ⟨by simp [absFlag, h, Proofs.CompDir.absMeta_rawOf], ?_⟩
  rw [h]; rfl

/-- the path ↔ number map: names written for numbers resolve back to them; a table name is never taken for a
compaction directory and vice versa; generated names are ASCII (so `Marshal` accepts them) -/
theorem names_roundtrip (id : Nat) (cm : CompMeta) (g : Nat) :
    absMeta (rawOf id cm) = some cm ∧ compOfName (compName id) = some id ∧ tableOfName (tableName g) = some g ∧
    tableOfName (compName id) = none ∧ compOfName (tableName g) = none ∧ (rawOf id cm).valid = true :=
  ⟨Proofs.CompDir.absMeta_rawOf id cm, Proofs.CompDir.compOfName_compName id, Proofs.CompDir.tableOfName_tableName g,
   Proofs.CompDir.tableOfName_compName id, Proofs.CompDir.compOfName_tableName g, Proofs.CompDir.rawOf_valid id cm⟩

/-- only the canonical name of a table resolves, and different numbers have different names -/
theorem names_injective {p : Bytes} {g g' : Nat} :
    (tableOfName p = some g → p = tableName g) ∧ (tableName g = tableName g' → g = g') :=
  ⟨Proofs.CompDir.tableOfName_some, Proofs.CompDir.tableName_inj⟩

/-! ## 2. every prefix of `saveCompactionMetadata`'s calls -/

/-- `flag_prefix_classified`: for EVERY metadata value, EVERY chunking `sizes` of the buffered writer's flushes and
EVERY number `n` of completed calls of `saveCompactionMetadata` (`open(O_CREATE)`, `close`, `open(O_CREATE)`, `write`
of the file header, the `write`s during `Write`, the `write` of `Close`, `close`): the reading code of
`repairCompactions` fails as long as a `write` call remains, and reads EXACTLY `m` once the last one has completed. -/
theorem flag_prefix_classified (comps : Nat → Compression) (hc : comps 0 = none) (m : RawMeta) (h : MetaOk m)
    (sizes : List Nat) (n : Nat) :
    readFlag comps (applyFlagCalls none ((flagCalls sizes m).take n)) =
      if flagDone (flagCalls sizes m) n then some m else none :=
  Proofs.CompDir.flag_prefix comps hc m h sizes n

/-- the same as a statement about the abstract disk: the flag of directory `id` after `n` calls IS its flag after the
first `flagEvIdx` (0 or 1) events of `[compFlag id cm]` on any disk on which the directory is not flagged yet -/
theorem flag_prefix_events (comps : Nat → Compression) (hc : comps 0 = none) (m : RawMeta) (h : MetaOk m)
    (cm : CompMeta) (ha : absMeta m = some cm) (sizes : List Nat) (n : Nat) (id : Nat) (d : Disk) (c0 : CompDir)
    (hd : lookupC id d.comps = some c0) (h0 : c0.flag = none) :
    absFlag comps (applyFlagCalls none ((flagCalls sizes m).take n)) =
      (lookupC id (applyEvs d ([Ev.compFlag id cm].take (flagEvIdx (flagCalls sizes m) n))).comps).bind (·.flag) := by
  unfold absFlag
  rw [Proofs.CompDir.flag_prefix comps hc m h sizes n]
  unfold flagEvIdx
  cases hdn : flagDone (flagCalls sizes m) n
  · simp [applyEvs, hd, h0]
  · have := Proofs.CompDir.lookupC_updC id (fun c => { c with flag := some cm }) (fun _ => rfl) d.comps
    simp [applyEvs, applyEv, this, hd, ha]

/-- the image itself: after the first call the flag file exists and holds a PREFIX of the final file; it is the whole
file exactly when no `write` call remains.  (So the images of a kill are the cuts of `flag_cut_never_misread`.) -/
theorem flag_prefix_image (sizes : List Nat) (m : RawMeta) (hv : m.valid = true) (n : Nat) :
    ∃ w, w ≤ (flagBytes m).length ∧
      applyFlagCalls none ((flagCalls sizes m).take n) = (if n = 0 then none else some ((flagBytes m).take w)) ∧
      (flagDone (flagCalls sizes m) n = true ↔ (n ≠ 0 ∧ w = (flagBytes m).length)) :=
  Proofs.CompDir.flag_prefix_image sizes m hv n

/-- once readable, always readable: `flagDone` is monotone in the number of completed calls -/
theorem flag_prefix_monotone (sizes : List Nat) (m : RawMeta) {n n' : Nat} (hn : n ≤ n') :
    flagEvIdx (flagCalls sizes m) n ≤ flagEvIdx (flagCalls sizes m) n' := by
  unfold flagEvIdx
  cases h : flagDone (flagCalls sizes m) n
  · simp
  · simp [Proofs.CompDir.flagDone_mono _ hn h]

/-- metadata `proto.Marshal` rejects (a string that is not UTF-8) never produces a readable flag: `Write` fails
before anything but the file header has been written -/
theorem invalid_metadata_never_flags (comps : Nat → Compression) (hc : comps 0 = none) (m : RawMeta)
    (hv : m.valid = false) (sizes : List Nat) (n : Nat) :
    readFlag comps (applyFlagCalls none ((flagCalls sizes m).take n)) = none :=
  Proofs.CompDir.flag_invalid_never_reads comps hc m hv sizes n

/-! ## 3. cuts of the flag file

FULL STATEMENT ASKED FOR: "ANY proper prefix of the flag file's bytes, and any prefix followed by zero padding, reads as
`none` — never as a DIFFERENT metadata".  The first half (every image a kill can leave: the writer only appends) HOLDS:
`flag_cut_never_misread`.  The second half is FALSE as the code is now (the recordio V4 record checksums its header, not
its payload): `zero_padded_flag_misread` is a concrete counterexample, `flag_cut_zero_padded_partial` the exact
characterisation of what a zero-padded cut can read as.  Zero padding is NOT a kill-9 image (it needs a file system
that extends a file before its data is durable + a power loss), so C10/C02 as stated (kill-9) are not affected. -/

/-- `flag_cut_never_misread`: for EVERY metadata value, ANY proper prefix of the flag file does not read: "any read
failure = unfinished compaction" never takes a half-written flag for a finished one, nor for another metadata -/
theorem flag_cut_never_misread (comps : Nat → Compression) (hc : comps 0 = none) (m : RawMeta) (h : MetaOk m) (k : Nat)
    (hk : k < (flagBytes m).length) : readFlag comps (some ((flagBytes m).take k)) = none :=
  Proofs.CompDir.flag_cut_none comps hc m h k hk

/-- `flag_cut_zero_padded_partial`: for EVERY metadata value, EVERY proper prefix of its flag file and EVERY amount of
zero padding: the flag does not read, or it reads as `zeroTail m i` = `m` with the bytes of its LAST written string (the
last path) replaced by NUL bytes from position `i` on.  (`zeroTail m i = m` when that tail is empty or was zero anyway.)
MISSING for "reads as none": exactly the cuts inside the content of the last string — see the counterexample. -/
theorem flag_cut_zero_padded_partial (comps : Nat → Compression) (hc : comps 0 = none) (m : RawMeta) (h : MetaOk m)
    (k : Nat) (hk : k < (flagBytes m).length) (z : Nat) :
    readFlag comps (some ((flagBytes m).take k ++ zeros z)) = none ∨
    ∃ i, readFlag comps (some ((flagBytes m).take k ++ zeros z)) = some (zeroTail m i) :=
  Proofs.CompDir.flag_pad comps hc m h k hk z

/-- … and with the names `executeCompaction` writes the misread is harmless in ONE respect: whatever a zero-padded cut of
the flag of directory `id` for tables `cm` reads as, it is that very flag or metadata whose paths do not all name tables
(the zeroed path contains NUL bytes) — never a finished compaction of OTHER tables.  (The real `Open` fails on it with
EINVAL, persistently: reported as a finding outside the kill-9 model.) -/
theorem zero_padded_never_names_other_tables (comps : Nat → Compression) (hc : comps 0 = none) (id : Nat) (cm : CompMeta)
    (hf : (encCompMeta (rawOf id cm)).length < 2 ^ 64) (k : Nat) (hk : k < (flagBytes (rawOf id cm)).length) (z : Nat)
    (r : RawMeta) (hr : readFlag comps (some ((flagBytes (rawOf id cm)).take k ++ zeros z)) = some r) :
    r = rawOf id cm ∨ absMeta r = none :=
  Proofs.CompDir.flag_pad_generated comps hc id cm hf k hk z r hr

/-- the payload level of the same: a cut marshalled message padded with zeros to its length -/
theorem meta_cut_zero_padded (m : RawMeta) (h : MetaOk m) (j : Nat) (hj : j < (encCompMeta m).length) :
    decCompMeta ((encCompMeta m).take j ++ zeros ((encCompMeta m).length - j)) = none ∨
    ∃ i, decCompMeta ((encCompMeta m).take j ++ zeros ((encCompMeta m).length - j)) = some (zeroTail m i) :=
  Proofs.CompDir.decCompMeta_pad m h j hj

/-! ## 4. every prefix of `executeCompaction`'s calls -/

/-- `compdir_prefix_classified`: for EVERY merged table `kvs` (strictly ascending keys, any values), EVERY chunking of
the table writer and of the flag writer, EVERY metadata value `m` naming the tables `cm`, and EVERY number `n ≠ 5` of
completed calls of `MkdirTemp` + table writer (`Open`, `WriteNext`s, `Close`) + `saveCompactionMetadata`: what recovery
makes of the directory image (`abstractComp`: table part as `reconstructSSTables` classifies it, flag as
`repairCompactions` reads it) IS the abstract directory after the first `cevIdx` events of `compEvs` on any abstract
disk that has no directory `id` yet.  (`n = 5`: `compdir_window`.) -/
theorem compdir_prefix_classified (P : Params) (cfg : SstCfg) (ch : Chunking) (kvs : List KV) (h : Hyp P cfg kvs)
    (hb : BloomReads P ch) (hc : P.comps 0 = none) (sizes : List Nat) (m : RawMeta) (hm : MetaOk m) (cm : CompMeta)
    (ha : absMeta m = some cm) (id : Nat) (d : Disk) (hd : lookupC id d.comps = none) (n : Nat) (h5 : n ≠ 5) :
    abstractComp P id (applyCCalls {} ((compCalls cfg ch kvs sizes m).take n)) =
      lookupC id (applyEvs d ((compEvs id kvs cm).take
        (cevIdx (flushCalls cfg ch kvs).length (flagCalls sizes m) n))).comps := by
  rw [Proofs.CompDir.compdir_prefix P cfg ch kvs h hb sizes m cm ha
    (fun j => Proofs.CompDir.flag_prefix P.comps hc m hm sizes j) id n, if_neg h5,
    Proofs.CompDir.compEvs_state id kvs cm d hd]

/-- … and the event count is monotone in the call count: the byte-level run walks through the abstract run -/
theorem compdir_prefix_monotone (lenT : Nat) (fcs : List FlagCall) {n n' : Nat} (h : n ≤ n') :
    cevIdx lenT fcs n ≤ cevIdx lenT fcs n' :=
  Proofs.CompDir.cevIdx_mono lenT fcs h

/-- `compdir_window`: after exactly 5 calls (index.rio and data.rio hold their headers, meta.pb.bin does not exist yet)
the table part classifies as an EMPTY LEGACY TABLE (`C10.Table.writer_window`), where the abstract run has `part false`;
the flag is unreadable there … -/
theorem compdir_window (P : Params) (cfg : SstCfg) (ch : Chunking) (kvs : List KV) (h : Hyp P cfg kvs)
    (hb : BloomReads P ch) (hc : P.comps 0 = none) (sizes : List Nat) (m : RawMeta) (hm : MetaOk m) (cm : CompMeta)
    (ha : absMeta m = some cm) (id : Nat) :
    abstractComp P id (applyCCalls {} ((compCalls cfg ch kvs sizes m).take 5)) =
      some { id := id, out := .complete [], flag := none } := by
  rw [Proofs.CompDir.compdir_prefix P cfg ch kvs h hb sizes m cm ha
    (fun j => Proofs.CompDir.flag_prefix P.comps hc m hm sizes j) id 5, if_pos rfl]

/-- … which makes the difference INVISIBLE to recovery: an unflagged compaction directory is deleted whatever its table
part is (`finishComp` ignores `out` without a flag) -/
theorem window_invisible (ts : List (Nat × TableDir)) (c : CompDir) (o : TableDir) (h : c.flag = none) :
    finishComp ts { c with out := o } = finishComp ts c ∧ finishComp ts c = ts := by
  refine ⟨Proofs.CompDir.finishComp_unflagged ts c o h, ?_⟩
  simp [finishComp, h]

/-- `flag_never_before_table` (what commit 036cc7d established, seeded change C11-m4 breaks): at EVERY prefix of
`executeCompaction`'s calls, a readable flag implies the COMPLETE output table with exactly the merged records -/
theorem flag_never_before_table (P : Params) (cfg : SstCfg) (ch : Chunking) (kvs : List KV) (h : Hyp P cfg kvs)
    (hb : BloomReads P ch) (hc : P.comps 0 = none) (sizes : List Nat) (m : RawMeta) (hm : MetaOk m) (cm : CompMeta)
    (ha : absMeta m = some cm) (id n : Nat) (c : CompDir)
    (hcd : abstractComp P id (applyCCalls {} ((compCalls cfg ch kvs sizes m).take n)) = some c)
    (hfl : c.flag.isSome = true) : c.out = .complete kvs ∧ c.flag = some cm := by
  rw [Proofs.CompDir.compdir_prefix P cfg ch kvs h hb sizes m cm ha
    (fun j => Proofs.CompDir.flag_prefix P.comps hc m hm sizes j) id n] at hcd
  split at hcd
  · cases hcd; simp at hfl
  · generalize cevIdx (flushCalls cfg ch kvs).length (flagCalls sizes m) n = e at hcd
    match e, hcd with
    | 0, hcd => simp [compState] at hcd
    | 1, hcd | 2, hcd | 3, hcd | 4, hcd => simp only [compState, Option.some.injEq] at hcd; subst hcd; simp at hfl
    | _ + 5, hcd => simp only [compState, Option.some.injEq] at hcd; subst hcd; exact ⟨rfl, rfl⟩

/-- after ALL calls: the complete table and the flag naming `cm` -/
theorem compdir_complete (P : Params) (cfg : SstCfg) (ch : Chunking) (kvs : List KV) (h : Hyp P cfg kvs)
    (hb : BloomReads P ch) (hc : P.comps 0 = none) (sizes : List Nat) (m : RawMeta) (hm : MetaOk m) (cm : CompMeta)
    (ha : absMeta m = some cm) (id : Nat) :
    abstractComp P id (applyCCalls {} (compCalls cfg ch kvs sizes m)) =
      some { id := id, out := .complete kvs, flag := some cm } := by
  have hn := Proofs.CompDir.compdir_prefix P cfg ch kvs h hb sizes m cm ha
    (fun j => Proofs.CompDir.flag_prefix P.comps hc m hm sizes j) id (compCalls cfg ch kvs sizes m).length
  rw [List.take_length] at hn
  rw [hn]
  have hl : (compCalls cfg ch kvs sizes m).length = (flushCalls cfg ch kvs).length + (flagCalls sizes m).length := by
    simp [compCalls]
  have hT : 8 ≤ (flushCalls cfg ch kvs).length := by
    rw [Proofs.TblDir.flushCalls_length]; omega
  have hF : 5 ≤ (flagCalls sizes m).length := by
    unfold flagCalls; split <;> simp [flagOpenCalls] <;> omega
  rw [if_neg (by omega)]
  have hdone : flagDone (flagCalls sizes m)
      ((compCalls cfg ch kvs sizes m).length - (flushCalls cfg ch kvs).length) = true := by
    rw [hl, Nat.add_sub_cancel_left]; simp [flagDone]
  have : cevIdx (flushCalls cfg ch kvs).length (flagCalls sizes m) (compCalls cfg ch kvs sizes m).length = 5 := by
    unfold cevIdx
    rw [if_neg (by omega), if_neg (by omega), if_neg (by omega), if_pos hdone]
  rw [this]; rfl

/-! ## 5. removal, and `repairCompactions` on the bytes -/

/-- a compaction directory whose flag does not read stays unflagged under EVERY prefix of its `RemoveAll`, whatever the
order of the unlinks: an interrupted clean-up is cleaned up again by the next `Open` -/
theorem unflagged_removal_classified (comps : Nat → Compression) (img : CompImage)
    (h : readFlag comps img.flag = none) (order : List (Option File)) (k : Nat) :
    readFlag comps (applyCCalls img ((removeCompCalls order).take k)).flag = none :=
  Proofs.CompDir.unflagged_removal comps img h order k

/-- `phase1_on_bytes`: for EVERY database directory image whose readable flags name their own directory and table
directories (`Canonical`), `repairCompactions` as it acts on the bytes and names (`repairBytes`: unreadable flag ⇒ the
directory is deleted; readable ⇒ `RemoveAll` of the other inputs, `RemoveAll` of the replacement path, `Rename`) succeeds
and commutes with the abstraction: its result abstracts to `FS.phase1` of the abstract disk. -/
theorem phase1_on_bytes (P : Params) (D : DiskImage) (hC : Canonical P.comps D) :
    ∃ D', repairBytes P.comps D = some D' ∧ absDisk P D' = phase1 (absDisk P D) :=
  Proofs.CompDir.repair_on_bytes P D hC

/-- … per directory: the decision read off the flag bytes (`repairDecision`: delete, or finish with these paths) is
`FS.finishComp` of the directory's abstraction, on every abstract table list -/
theorem decision_on_bytes (P : Params) (id : Nat) (ci : CompImage) (hF : FlagCanonical P.comps id ci.flag)
    (ts : List (Nat × TableDir)) :
    finishComp ts (classifyComp P id ci) =
      match repairDecision P.comps ci.flag with
      | .delete => ts
      | .finish remove replacement _ =>
        match remove.mapM tableOfName, tableOfName replacement with
        | some rm, some rp =>
          insertT rp (classify P ci.tbl) ((ts.filter fun p => !rm.contains p.1).filter fun p => p.1 != rp)
        | _, _ => ts :=
  Proofs.CompDir.decision_on_bytes P id ci hF ts

/-- the assumption on names holds for what `executeCompaction` writes: every prefix image of the flag of directory `id`
for tables `cm` is `FlagCanonical` -/
theorem written_flag_canonical (comps : Nat → Compression) (hc : comps 0 = none) (id : Nat) (cm : CompMeta)
    (hf : (encCompMeta (rawOf id cm)).length < 2 ^ 64) (sizes : List Nat) (n : Nat) :
    FlagCanonical comps id (applyFlagCalls none ((flagCalls sizes (rawOf id cm)).take n)) := by
  intro r hr
  have hm : MetaOk (rawOf id cm) := ⟨Proofs.CompDir.rawOf_valid id cm, hf⟩
  rw [Proofs.CompDir.flag_prefix comps hc _ hm sizes n] at hr
  split at hr
  · cases hr
    exact ⟨rfl, by rw [Proofs.CompDir.absMeta_rawOf]; rfl⟩
  · cases hr

/-! ## 6. non-vacuity: a compaction of tables 1 and 2 into directory `sstable_compaction42`, replacing table 1 -/

open SST.C10.Table (P0 kvs0 ch0)

def cm0 : CompMeta := { inputs := [1, 2], replacement := 1 }
def m0 : RawMeta := rawOf 42 cm0

example : MetaOk m0 := ⟨by decide +kernel, by decide +kernel⟩
example : absMeta m0 = some cm0 := by decide +kernel

/-- the flag file: 8 + 11 + 97 bytes -/
example : (flagBytes m0).length = 116 := by decide +kernel

/-- `saveCompactionMetadata` with a buffered writer that flushes 3 and then 50 bytes during `Write`: 8 calls, the
writes carry 8, 3, 50 and 55 bytes -/
example : (flagCalls [3, 50] m0).map (fun c => match c with | .write b => b.length | _ => 0) = [0, 0, 0, 8, 3, 50, 55, 0] := by
  decide +kernel

/-- the flag reads after the 7th call (the last `write`), not before -/
example : (List.range 9).map (fun n => (readFlag plainComps (applyFlagCalls none ((flagCalls [3, 50] m0).take n))).isSome) =
    [false, false, false, false, false, false, false, true, true] := by decide +kernel
example : readFlag plainComps (applyFlagCalls none (flagCalls [3, 50] m0)) = some m0 := by decide +kernel

/-- every one of the 116 proper prefixes is unreadable -/
example : (List.range 116).all (fun k => (readFlag plainComps (some ((flagBytes m0).take k))).isNone) = true := by
  decide +kernel

/-- THE COUNTEREXAMPLE to "a zero-padded cut never reads as a different metadata": cut the flag 10 bytes before its end
(inside the name of input table 2) and pad with 10 zero bytes: the flag READS, as metadata whose last path is
"sstable_00000" followed by ten NUL bytes — a path that names no table (the real `Open` then fails with EINVAL on
`RemoveAll`, after having removed nothing: the replacement comes first in the list and is skipped) -/
theorem zero_padded_flag_misread :
    readFlag plainComps (some ((flagBytes m0).take 106 ++ zeros 10)) = some (zeroTail m0 13) ∧
    zeroTail m0 13 ≠ m0 ∧ absMeta (zeroTail m0 13) = none := by decide +kernel

/-- the whole directory: 19 table calls + 8 flag calls; abstract events done after each call -/
example : (compCalls plainCfg ch0 kvs0 [3, 50] m0).length = 27 := by decide +kernel

example : (List.range 28).map (cevIdx 19 (flagCalls [3, 50] m0)) =
    [0, 1, 2, 2, 2, 2, 2, 2, 2, 2, 2, 2, 2, 2, 2, 2, 2, 2, 3, 3, 4, 4, 4, 4, 4, 4, 5, 5] := by decide +kernel

/-- the classification of every prefix image: gone, unflagged with an unfinished table (the legacy window at 5 calls),
unflagged with the complete table from the metadata write (call 18) on, flagged with the last flag write (call 26) -/
example : (List.range 28).map (fun n => abstractComp P0 42 (applyCCalls {} ((compCalls plainCfg ch0 kvs0 [3, 50] m0).take n))) =
    [none] ++ List.replicate 4 (some { id := 42 }) ++ [some { id := 42, out := .complete [] }] ++
    List.replicate 12 (some { id := 42 }) ++ List.replicate 8 (some { id := 42, out := .complete kvs0 }) ++
    List.replicate 2 (some { id := 42, out := .complete kvs0, flag := some cm0 }) := by decide +kernel

/-- `repairCompactions` on a database directory with tables 1, 2, 3 and the finished compaction 42 of 1 and 2: tables 1
and 2 go, the merged table takes the place of table 1, table 3 stays, no compaction directory is left -/
def tblA : DirImage := applyCalls {} (flushCalls plainCfg {} [([97], some [1])])
def tblB : DirImage := applyCalls {} (flushCalls plainCfg {} [([98], none)])
def tblC : DirImage := applyCalls {} (flushCalls plainCfg {} [([99], some [3])])
def merged : CompImage := applyCCalls {} (compCalls plainCfg ch0 kvs0 [3, 50] m0)
def D0 : DiskImage := { tables := [(1, tblA), (2, tblB), (3, tblC)], comps := [(42, merged)] }

example : repairBytes plainComps D0 = some { tables := [(1, merged.tbl), (3, tblC)], comps := [] } := by decide +kernel
example : (absDisk P0 D0).comps = [{ id := 42, out := .complete kvs0, flag := some cm0 }] := by decide +kernel
example : (phase1 (absDisk P0 D0)).tables = [(1, .complete kvs0), (3, .complete [([99], some [3])])] := by decide +kernel

/-- the same directory with the flag cut after its file header (what seeded change C02-m7 turns into a failing `Open`):
the compaction directory is deleted, the tables stay -/
def D1 : DiskImage := { D0 with comps := [(42, { merged with flag := some ((flagBytes m0).take 8) })] }
example : repairBytes plainComps D1 = some { tables := [(1, tblA), (2, tblB), (3, tblC)], comps := [] } := by decide +kernel
example : repairDecision plainComps (some ((flagBytes m0).take 8)) = .delete := by decide +kernel

end SST.C10.Comp
