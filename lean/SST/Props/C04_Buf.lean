/-
C04 (extension) — the buffered reader stack under the RecordIO file reader.

The C04 / C12 theorems are about the pure-stream reader model (`readNextS`, `skipNextS`, … on `Bytes`).  The Go
code reads through `Reader` (bufio_vendor.go), `CountingBufferedReader`, `checksumByteReader`, `io.ReadFull`,
`io.ReadAll` and `binary.ReadUvarint`.  The theorems below show that this stack — modelled literally in
SST/Model/BufReader.lean over an underlying reader that hands out its bytes according to an arbitrary SCHEDULE
of short and empty reads — returns exactly what the pure-stream model returns:
for EVERY requested buffer capacity (0 included), EVERY schedule without 100 consecutive empty reads, EVERY byte stream.
So "sizes around every buffer and page boundary" is a theorem, not a sample.

Supported capacities: EVERY requested buffer length.  `NewReaderBuf` replaces a zero-length buffer by a
16-byte one (`effCap cap = if cap = 0 then 16 else cap`; /repo commit 964130e — before it capacity 0 panicked on
the first `ReadByte`, i.e. on the first `ReadNext`/`SkipNext`), so a constructed reader always has capacity ≥ 1
(`constructed_cap_pos`) and `fill`'s panic branch is unreachable; `cap0_reader_works_fixed` is the
regression theorem on the input that used to panic.

Both constructors are covered: `NewReaderBuf` (`aligned = false`) and `NewAlignedReaderBuf` (`aligned = true`,
used by `DirectIOFactory.CreateNewReader` since /repo commit 9c40b59; it never takes the "large read, empty
buffer" shortcut).  The theorems quantify over `aligned : Bool` (`Rd.make aligned cap u`), the state-based ones
(`readByte_refines`, `bufReadNext_eq_readNextS`, …) hold in every state whatever the flag is, and
`aligned_reads_only_into_own_buffer` states what the flag is for.

Property theorems only; lemmas are in SST/Proofs/BufReader*.lean.
-/
import SST.Proofs.BufReaderRun
import SST.Proofs.BufReaderRoundtrip
import SST.Proofs.BufReaderAligned
namespace SST.C04Buf
open SST Generated SST.Buf

/-! ## 1. ReadByte / ReadFull refine the raw stream -/

/-- Any sequence of `ReadByte` / `io.ReadFull(n)` calls on `NewCountingByteReader(NewReaderBuf(u, buf))`:
every result (byte, bytes, EOF iff nothing is left, ErrUnexpectedEOF iff 0 < available < n) and every value of
`Count()` equals the one computed on the raw byte stream — for EVERY requested capacity (0 included: the
constructor then uses 16 bytes), every schedule of short and empty reads without 100 consecutive empty ones,
every data.  Independent of capacity and schedule: the right hand side mentions neither. -/
theorem calls_refine (aligned : Bool) (cap : Nat) (data : Bytes) (sched : List Nat) (hns : NoStall sched)
    (calls : List Call) :
    runCalls { rd := Rd.make aligned cap { rem := data, sched := sched, eofData := false }, count := 0 } calls
      = specCalls data 0 calls :=
  (calls_refine_aux (effCap cap) false calls _ data 0
    (rep_make aligned cap { rem := data, sched := sched, eofData := false } hns)).2 rfl

/-- The same for an underlying reader that returns its last bytes TOGETHER with `io.EOF` (legal for an
io.Reader): all results are still those of the raw stream; only `Count()` is not claimed (see
`eofData_not_counted`). -/
theorem calls_refine_eofData (aligned : Bool) (cap : Nat) (data : Bytes) (sched : List Nat) (hns : NoStall sched)
    (ed : Bool) (calls : List Call) :
    (runCalls { rd := Rd.make aligned cap { rem := data, sched := sched, eofData := ed }, count := 0 } calls).map
        CallRes.erase = (specCalls data 0 calls).map CallRes.erase :=
  (calls_refine_aux (effCap cap) ed calls _ data 0
    (rep_make aligned cap { rem := data, sched := sched, eofData := ed } hns)).1

/-- One `ReadByte` in ANY state of the stack that stands for the raw stream `s` with `k` bytes consumed
(`CRd.Rep`: capacity ≥ 1, the schedule never stalls, a sticky error is the EOF of an exhausted reader): the next
byte, or EOF iff nothing is left; the new state stands for the rest; the count moves by one. -/
theorem readByte_refines (cap : Nat) (ed : Bool) (c : CRd) (s : Bytes) (k : Nat) (h : c.Rep cap ed s k) :
    ∃ c', c.readByte = ((specByte s).1, c') ∧
      c'.Rep cap ed (specByte s).2 (k + if s.isEmpty then 0 else 1) := by
  cases s with
  | nil => obtain ⟨c', h1, h2, _⟩ := crd_readByte_nil h; exact ⟨c', h1, by simpa [specByte] using h2⟩
  | cons x t => obtain ⟨c', h1, h2, _⟩ := crd_readByte_cons h; exact ⟨c', h1, by simpa [specByte] using h2⟩

/-- One `io.ReadFull` of `n` bytes in any such state: the next `n` bytes; EOF iff nothing is left;
ErrUnexpectedEOF iff 0 < available < n; the count moves by the number of bytes handed out. -/
theorem readFull_refines (cap : Nat) (ed : Bool) (c : CRd) (s : Bytes) (k n : Nat) (h : c.Rep cap ed s k) :
    ∃ c', c.readFull n = ⟨(specFull s n).1, (specFull s n).2.1, c'⟩ ∧
      c'.Rep cap ed (specFull s n).2.2 (k + (specFull s n).1.length) := by
  obtain ⟨c', h1, h2, _⟩ := readFull_spec n h
  exact ⟨c', h1, h2⟩

/-- `io.ReadAll` (used by the zero-tail rule) in any such state: everything that is left, no error — whatever
growth policy `append` follows. -/
theorem readAll_refines (cap : Nat) (ed : Bool) (c : CRd) (s : Bytes) (k : Nat) (grow : Nat → Nat)
    (hg : ∀ x, x < grow x) (h : c.Rep cap ed s k) :
    ∃ c', c.readAll grow = ⟨s, none, c'⟩ ∧ c'.Rep cap ed [] (k + s.length) :=
  readAll_spec grow hg h

/-! ## 2. the file reader over the stack = the pure-stream model -/

/-- `Open` over the stack = `parseFileHeader`; afterwards the reader stands behind the 8 header bytes. -/
theorem bufOpen_eq_parseFileHeader (aligned : Bool) (cap : Nat) (file : Bytes) (sched : List Nat)
    (hns : NoStall sched) (ed : Bool) :
    ∃ fr', (FileRd.new file cap { rem := file, sched := sched, eofData := ed } aligned).open
        = (liftE (parseFileHeader file), fr') ∧
      (∀ v ct, parseFileHeader file = .ok (v, ct) → fr'.Rep (effCap cap) ed file v fileHeaderSize) :=
  open_spec cap file { rem := file, sched := sched, eofData := ed } hns rfl aligned

/-- `ReadNext` (file version 4) through buffered reader, counting reader, checksum byte reader, ReadUvarint,
ReadFull and ReadAll returns exactly what `readNextS` returns on the raw stream — same record (nil ≠ empty), same
error class — in every state that stands at byte `pos` of the file: every effective capacity (≥ 1 by construction, see `bufOpen_eq_parseFileHeader`), every non-stalling
schedule, every file content (valid, damaged, cut), with or without data-with-EOF.  After a success the reader
stands behind the record (for an aligned reader as well: the invariant does not mention the flag).  Hence C04's
and C12's reader theorems hold for the real stack, buffered and direct-I/O. -/
theorem bufReadNext_eq_readNextS (cap : Nat) (ed : Bool) (cmp : Compression) (grow : Nat → Nat)
    (hg : ∀ x, x < grow x) (file : Bytes) (v : Nat) (fr : FileRd) (pos : Nat)
    (hrep : fr.Rep cap ed file v pos) :
    ∃ fr', bufReadNext cmp grow fr = (liftE ((readNextS cmp (file.drop pos)).map Prod.fst), fr') ∧
      (∀ r n, readNextS cmp (file.drop pos) = .ok (r, n) → fr'.Rep cap ed file v (pos + n)) :=
  readNextV4_spec cap ed cmp grow hg file v fr pos hrep

/-- `SkipNext` (file version 4): header through the stack, `Seek`, `Reset` = `skipNextS`.  The only proviso is
the seek itself: Go converts the target with `int64(...)` and `lseek` rejects offsets above the file system's
limit `maxOff` (< 2^63), so the target must not exceed `maxOff` — true of every real file; a header that passes
the checksum may claim any length (example `hugeFile` at the end). -/
theorem bufSkipNext_eq_skipNextS (cap : Nat) (cmp : Compression) (maxOff : Nat) (hmax : maxOff < 2 ^ 63)
    (file : Bytes) (v : Nat) (fr : FileRd)
    (pos : Nat) (hrep : fr.Rep cap false file v pos)
    (hfit : ∀ n, skipNextS cmp (file.drop pos) = .ok n → pos + n ≤ maxOff) :
    ∃ fr', bufSkipNext cmp maxOff fr = (liftE ((skipNextS cmp (file.drop pos)).map (fun _ => ())), fr') ∧
      (∀ n, skipNextS cmp (file.drop pos) = .ok n → fr'.Rep cap false file v (pos + n)) :=
  skipNextV4_spec cap cmp maxOff hmax file v fr pos hrep hfit

/-- The legacy versions: `ReadNext` of version-3 and version-2 files = their pure-stream readers. -/
theorem bufReadNext_legacy (cap : Nat) (ed : Bool) (cmp : Compression) (grow : Nat → Nat)
    (hg : ∀ x, x < grow x) (file : Bytes) (v : Nat) (hv : v = 2 ∨ v = 3 ∨ v = 4) (fr : FileRd) (pos : Nat)
    (hrep : fr.Rep cap ed file v pos) :
    ∃ fr', fr.readNext cmp grow = (liftE ((readNextSV v cmp (file.drop pos)).map Prod.fst), fr') ∧
      (∀ r n, readNextSV v cmp (file.drop pos) = .ok (r, n) → fr'.Rep cap ed file v (pos + n)) :=
  readNext_spec cap ed cmp grow hg file v hv fr pos hrep

/-- Whole programs: open a file of version 2, 3 or 4 with ANY requested buffer capacity over ANY non-stalling read
schedule and run ANY program of ReadNext / SkipNext up to its first error: the outputs are exactly those of the
pure-stream model (`streamRun`, which for version 4 is `readNextS` / `skipNextS`). -/
theorem bufFile_eq_stream (aligned : Bool) (cap : Nat) (file : Bytes) (sched : List Nat) (hns : NoStall sched)
    (cmp : Compression) (grow : Nat → Nat) (hg : ∀ x, x < grow x) (maxOff : Nat) (hmax : maxOff < 2 ^ 63)
    (v ct : Nat)
    (hp : parseFileHeader file = .ok (v, ct)) (hv : v = 2 ∨ v = 3 ∨ v = 4) (ops : List ROp)
    (hfit : skipsFit v cmp maxOff file fileHeaderSize ops = true) :
    ∃ fr, (FileRd.new file cap { rem := file, sched := sched, eofData := false } aligned).open
        = (.ok (v, ct), fr) ∧
      bufRun cmp grow maxOff fr ops = streamRun v cmp file fileHeaderSize ops := by
  obtain ⟨fr, h1, h2⟩ := open_spec cap file { rem := file, sched := sched, eofData := false } hns rfl aligned
  rw [hp] at h1
  exact ⟨fr, h1, bufRun_eq_streamRun (effCap cap) cmp grow hg maxOff hmax file v hv ops fr _ (h2 v ct hp) hfit⟩

/-- C04's sequential round trip for the REAL reader stack: any records (nil, empty, any bytes, any lawful
compressor) written back to back after the file header, read through the buffered stack (either constructor) with
any requested capacity
over any non-stalling schedule of short and empty reads: `Open` succeeds and `ReadNext` yields exactly the
records, nil distinguished from empty, then end-of-file. -/
theorem buffered_seq_roundtrip (aligned : Bool) (cap : Nat) (sched : List Nat) (hns : NoStall sched)
    (c : Compression) (ct : Nat) (hct : ct ≤ maxCompression) (rs : List GoBytes)
    (hl : LawfulC c) (hf : ∀ r ∈ rs, FitsRec c r) (grow : Nat → Nat) (hg : ∀ x, x < grow x)
    (maxOff : Nat) (hmax : maxOff < 2 ^ 63) :
    ∃ fr, (FileRd.new (fileHeader currentVersion ct ++ encAll c rs) cap
          { rem := fileHeader currentVersion ct ++ encAll c rs, sched := sched, eofData := false } aligned).open
        = (.ok (currentVersion, ct), fr) ∧
      bufRun c grow maxOff fr (List.replicate rs.length .read ++ [.read])
        = rs.map .record ++ [.fail (.e .eof)] := by
  have hp : parseFileHeader (fileHeader currentVersion ct ++ encAll c rs) = .ok (currentVersion, ct) :=
    Proofs.file_header_accepted currentVersion ct (encAll c rs) ⟨by decide, by decide⟩ hct
  have hfit := skipsFit_reads 4 c maxOff (fileHeader currentVersion ct ++ encAll c rs)
    (List.replicate rs.length .read ++ [.read])
    (by intro o ho; simp only [List.mem_append, List.mem_replicate, List.mem_singleton] at ho
        rcases ho with ⟨_, h⟩ | h <;> exact h) fileHeaderSize
  obtain ⟨fr, h1, h2⟩ := bufFile_eq_stream aligned cap _ sched hns c grow hg maxOff hmax currentVersion ct hp
    (Or.inr (Or.inr rfl)) _ hfit
  refine ⟨fr, h1, ?_⟩
  rw [h2]
  exact streamRun_reads c hl rs (fileHeader currentVersion ct) hf

/-! ## 2b. what the aligned reader is for -/

/-- The point of `NewAlignedReaderBuf` (/repo commit 9c40b59, direct I/O): whatever `Read(p)` / `ReadByte` calls
are made on it (`io.ReadFull`, `io.ReadAll`, `ReadUvarint` and the wrappers are nothing else), with whatever
`len p`, EVERY `Read` call the underlying reader sees asks for at most the reader's own buffer length — the
aligned reader only ever hands (a suffix of) its own block-aligned buffer down, never the caller's slice.  (The
underlying reader of the model logs the `len p` of every call it receives.) -/
theorem aligned_reads_only_into_own_buffer (cap : Nat) (u : Under) (hu : u.reqs = []) (ops : List RdOp) :
    ∀ r ∈ ((Rd.newAligned cap u).run ops).under.reqs, r ≤ effCap cap := by
  have h0 : (Rd.newAligned cap u).OwnBuf := by intro r hr; simp [Rd.newAligned, Rd.reset, hu] at hr
  obtain ⟨h1, h2⟩ := run_ownBuf ops (Rd.newAligned cap u) rfl h0
  intro r hr
  have := h1 r hr
  rwa [h2] at this

/-- the contrast: the unaligned reader passes the caller's length straight through (a 10-byte read on a 4-byte
buffer asks the file for 10 bytes — into the caller's unaligned slice, EINVAL under O_DIRECT), the aligned one
asks for its 4-byte buffer -/
example : ((Rd.new 4 { rem := [1, 2, 3, 4, 5, 6, 7, 8, 9, 10, 11], sched := [], eofData := false }).read 10).st.under.reqs
      = [10] ∧
    ((Rd.newAligned 4 { rem := [1, 2, 3, 4, 5, 6, 7, 8, 9, 10, 11], sched := [], eofData := false }).read 10).st.under.reqs
      = [4] := by decide

/-! ## 3. no progress -/

/-- A schedule with 100 consecutive empty reads: `ReadByte` (hence `ReadUvarint`, hence the record header
reader) reports `io.ErrNoProgress` — an error, never data; nothing of the stream is lost, the 100 schedule
entries are used up and the sticky error is cleared, so the next call tries again. -/
theorem no_progress_reported (b : Rd) (hp : b.pend = []) (he : b.err = none) (hcap : 0 < b.cap)
    (hz : 100 ≤ zeroRun b.under.sched) :
    ∃ b', b.readByte = (.error .noProgress, b') ∧ b'.pend = [] ∧ b'.err = none ∧ b'.cap = b.cap ∧
      b'.under.rem = b.under.rem ∧ b'.under.sched = b.under.sched.drop 100 ∧ b'.stream = b.stream :=
  readByte_no_progress b hp he hcap hz

/-! ## 4. quirks -/

/-- A reader made by `NewReaderBuf` never has capacity 0 (a zero-length buffer is replaced by 16 bytes), so the
literal panic branch of `fill` ("bufio: tried to fill full buffer") cannot be reached from the constructors
`NewReaderBuf`, `BufferedIOFactory.CreateNewReader`, `NewFileReader(ReaderBufferSizeBytes(n))`. -/
theorem constructed_cap_pos (cap : Nat) (u : Under) : 0 < (Rd.new cap u).cap :=
  Buf.constructed_cap_pos cap u

/-- QUIRK (data together with EOF).  When the underlying reader returns its last bytes together with `io.EOF`
and the read bypasses the buffer (len(p) ≥ effective capacity), `Reader.Read` returns `(n, EOF)`,
`CountingBufferedReader.Read` does not count those `n` bytes, and `io.ReadFull` returns them with a nil error:
the data is right, `Count()` is too small by `n`.  `os.File` never returns `(n>0, EOF)`, so the file reader's
offset bookkeeping is not affected; the exported `NewCountingByteReader(NewReaderBuf(r, buf))` over another
io.Reader is. -/
theorem eofData_not_counted (cap k : Nat) (d : Bytes) (hd : d ≠ []) (hcap : effCap cap ≤ d.length) :
    let c : CRd := { rd := Rd.new cap { rem := d, sched := [], eofData := true }, count := k }
    (c.readFull d.length).data = d ∧ (c.readFull d.length).err = none ∧ (c.readFull d.length).st.count = k :=
  readFull_uncounted cap k d hd hcap

/-! ## non-vacuity and concrete instances -/

/-- a schedule with short and empty reads that never stalls -/
example : NoStall [3, 0, 0, 1, 0, 7] := by decide

/-- a stalling schedule meets the hypothesis of `no_progress_reported` -/
example : 100 ≤ zeroRun (List.replicate 100 0 ++ [5]) := by decide +kernel

/-- `calls_refine` on a concrete case: capacity 2, schedule 1,0,2, mixed calls -/
example : runCalls { rd := Rd.new 2 { rem := [1, 2, 3, 4], sched := [1, 0, 2], eofData := false }, count := 0 }
      [.readByte, .readFull 2, .readFull 3, .readByte]
    = [.byte (.ok 1) 1, .bytes [2, 3] none 3, .bytes [4] (some (.e .unexpectedEof)) 4,
       .byte (.error (.e .eof)) 4] := by decide

/-- the state hypothesis `CRd.Rep` holds of every freshly constructed stack, whatever capacity was requested -/
example (aligned : Bool) (cap : Nat) (data : Bytes) (sched : List Nat) (hns : NoStall sched) (ed : Bool) :
    ({ rd := Rd.make aligned cap { rem := data, sched := sched, eofData := ed }, count := 0 } : CRd).Rep
      (effCap cap) ed data 0 :=
  rep_make aligned cap { rem := data, sched := sched, eofData := ed } hns

/-- the count quirk, concretely: three bytes delivered with EOF through a 2-byte buffer, `Count()` stays 0 -/
example : (({ rd := Rd.new 2 { rem := [1, 2, 3], sched := [], eofData := true }, count := 0 } : CRd).readFull 3).data
      = [1, 2, 3] ∧
    (({ rd := Rd.new 2 { rem := [1, 2, 3], sched := [], eofData := true }, count := 0 } : CRd).readFull 3).st.count
      = 0 := by decide

/-- 100 empty reads, concretely: error, and the byte is still there for the next call -/
example : ((Rd.new 4 { rem := [9], sched := List.replicate 100 0, eofData := false }).readByte).1
      = .error .noProgress ∧
    (((Rd.new 4 { rem := [9], sched := List.replicate 100 0, eofData := false }).readByte).2.readByte).1
      = .ok 9 := by decide +kernel

/-- a small version-4 file: a record, a nil record, an empty record -/
def demoFile : Bytes :=
  fileHeader 4 0 ++ encRecord none (some [7, 8]) ++ encRecord none none ++ encRecord none (some [])

/-- `bufFile_eq_stream`'s hypothesis holds of a concrete program with a skip … -/
example : skipsFit 4 none (2 ^ 63 - 1) demoFile 8 [.read, .skip, .read, .read] = true := by decide +kernel

/-- … and its conclusion, concretely: capacity 5, schedule 1,0,0,3,2 -/
example : bufRun none (· + 1) (2 ^ 63 - 1)
      ((FileRd.new demoFile 5 { rem := demoFile, sched := [1, 0, 0, 3, 2], eofData := false }).open).2
      [.read, .skip, .read, .read]
    = [.record (some [7, 8]), .skipped, .record (some []), .fail (.e .eof)] := by decide +kernel

/-- the same through an ALIGNED reader with a 1-byte buffer (every record is larger than the buffer) -/
example : bufRun none (· + 1) (2 ^ 63 - 1)
      ((FileRd.new demoFile 1 { rem := demoFile, sched := [1, 0, 0, 3, 2], eofData := false } true).open).2
      [.read, .skip, .read, .read]
    = [.record (some [7, 8]), .skipped, .record (some []), .fail (.e .eof)] := by decide +kernel

/-- REGRESSION (/repo commit 964130e, "fix: a reader with buffer size 0 panicked on its first read").
`recordio.NewFileReader(ReaderPath(p), ReaderBufferSizeBytes(0))` on `demoFile`: before the fix `Open` succeeded
and the first `ReadNext` panicked ("bufio: tried to fill full buffer"); now the whole file reads back —
record, skipped nil record, empty record, end-of-file — and so does a byte-wise reader with a requested
capacity of 0. -/
theorem cap0_reader_works_fixed :
    ((FileRd.new demoFile 0 { rem := demoFile, sched := [], eofData := false }).open).1 = .ok (4, 0) ∧
    bufRun none (· + 1) (2 ^ 63 - 1)
        ((FileRd.new demoFile 0 { rem := demoFile, sched := [], eofData := false }).open).2
        [.read, .skip, .read, .read]
      = [.record (some [7, 8]), .skipped, .record (some []), .fail (.e .eof)] ∧
    ((Rd.new 0 { rem := [9], sched := [], eofData := false }).readByte).1 = .ok 9 := by decide +kernel

/-- a header that passes the checksum and claims 2^63 bytes -/
def hugeFile : Bytes := fileHeader 4 0 ++ encHeader false (2 ^ 63) 0

/-- QUIRK (`hugeSkip_fails`): the pure-stream `skipNextS` accepts the record, the real `SkipNext` fails because the
seek target does not fit (so `bufSkipNext_eq_skipNextS`'s proviso is needed) -/
example : skipNextS none (hugeFile.drop 8) = .ok (2 ^ 63 + 20) ∧
    ((((FileRd.new hugeFile 3 { rem := hugeFile, sched := [1, 0, 2], eofData := false }).open).2).skipNext none
      (2 ^ 63 - 1)).1 = .error (.e .other) := by decide +kernel

end SST.C04Buf
