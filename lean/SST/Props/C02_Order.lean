/-
C02 (order tie) — the ORDER of file-system actions the crash model behind C02 relies on, as it is in the Go source
TODAY.  `SST.Generated.Order.table` is regenerated from /repo by tools/orderfacts before every proof build; the
quantifier of every theorem below is that finite table, so `decide` is a proof ABOUT THE SOURCE'S CALL ORDER (up to the
tool's classification of calls — by go/types identities, see tools/orderfacts/main.go — ), not a sample.  The table is
rename-stable and in a control-flow normal form (Spec/Order.lean, header): conditions are canonical texts (`errNonNil`,
`nonNil(<type>.<field>)`, a local by its definition or its type `‹T›`), early exits are guards.
Expectations and the label → model-event map: SST/Spec/Order.lean.  The model: SST/Model/FS.lean (`flushEvs`,
`compactEvs`, `fsStep … .close`).
-/
import SST.Spec.Order
namespace SST.C02.Order
open SST SST.OrderSpec SST.Generated.Order SST.FS SST.DBM

/-- every listed function of the flush / compaction / table-writer path still exists -/
theorem listed_functions_found :
    (["simpledb.executeFlush", "simpledb.flushMemstoreContinuously", "DB.rotateWalAndFlushMemstore", "memstore.flushMemstore",
      "MemStore.FlushWithTombstones", "SSTableStreamWriter.Open", "SSTableStreamWriter.WriteNext", "SSTableStreamWriter.Close",
      "simpledb.backgroundCompaction", "simpledb.executeCompaction", "simpledb.saveCompactionMetadata",
      "SSTableManager.reflectCompactionResult", "DB.Close"].all foundFn) = true := by decide +kernel

/-- D14 (036cc7d): `executeCompaction` closes the merged table — not in a `defer`, which would run after the flag — and
only then writes the success flag; the deferred close is the guarded fall-back for the error paths. -/
theorem flag_after_table_closed :
    let xs := itemsOf "simpledb.executeCompaction"
    allBefore .writerClose .saveCompactionFlag (immediate 0 xs) = true ∧
    unconditional .writerClose (immediate 0 xs) = true ∧
    unconditional .saveCompactionFlag (immediate 0 xs) = true ∧
    -- the guard of the deferred close is the negation of a boolean local (`!writerClosed`, whatever it is called)
    condsAround .writerClose [] (deferredBlocks xs).flatten = [["!‹bool›"]] := by decide +kernel

/-- the merged table is written between opening and closing the writer, into a fresh temporary directory; the inputs
are opened in the (sorted) selection order from index 0.  Since bfb8835 the deferred close of the inputs — every element
of `readers`, unconditionally — is REGISTERED BEFORE the loop that opens them (it used to follow the loop, so an input
that failed to open or to scan left the ones before it open); the two deferred blocks are exactly the guarded writer
close and this one. -/
theorem compaction_steps_in_order :
    let all := itemsOf "simpledb.executeCompaction"
    let xs := immediate 0 all
    -- the selected paths are a local string list (`‹[]string›`), the opened inputs a local list of table readers
    inOrder [.selectCandidates, .sortStrings "‹[]string›", .mkdirTempCompaction, .newStreamWriter, .writerOpen, .mergeCompact,
             .writerClose, .saveCompactionFlag] xs = true ∧
    inSortedFullLoop .openReader "‹[]string›" xs = true ∧
    (deferredBlocks all).map acts = [[.writerClose], [.readerClose]] ∧
    allBefore .readerClose .openReader all = true ∧ inFullLoop .readerClose "‹[]sstables.SSTableReaderI›" all = true ∧
    condsAround .readerClose [] all = [[]] ∧ occurs .readerClose xs = false := by decide +kernel

/-- the success flag: written, then its writer closed (which makes it readable), nothing else.  Since a7ed007 the close
is deferred right after the writer exists, BEFORE `Open` can fail (so a flag writer that failed to open is closed, too);
at exit it is still the last action, after the write. -/
theorem flag_written_then_closed :
    let xs := itemsOf "simpledb.saveCompactionMetadata"
    acts (exitOrder xs) = [.newProtoWriter, .openFlagWriter, .writeFlag, .closeFlagWriter] ∧
    xs.take 4 = [.act .newProtoWriter, .deferBegin, .act .closeFlagWriter, .deferEnd] ∧
    acts (immediate 0 xs) = [.newProtoWriter, .openFlagWriter, .writeFlag] ∧
    unconditional .openFlagWriter xs = true ∧ unconditional .writeFlag xs = true ∧ noOther xs = true := by
  decide +kernel

/-- a compaction cycle reflects the result after — and only after — `executeCompaction` returned it -/
theorem reflect_after_execute :
    allBefore .executeCompaction .reflectCompactionResult (itemsOf "simpledb.backgroundCompaction") = true := by decide +kernel

/-- 6dd9211: in both background goroutines the done signal (`doneFlushChannel <- true` / `doneCompactionChannel <- true`)
is NOT inside a `defer` any more: it is the LAST statement of the normal path, unconditional, AFTER the
`if err != nil { log.Panicf }` block — so it is not executed on the error path, where the panic now stops the process
(a deferred send on the unbuffered channel kept the panic from unwinding: the goroutine hung).  The compactor has one
more signal: for a database without compactions — in the normal form the whole function is ONE two-armed conditional on
`enableCompactions` (the early `return` of the source does what the end of the function does): the else arm is exactly
the signal, the then arm ends with the signal after the panic block, nothing follows the conditional. -/
theorem done_signal_not_on_error_path :
    let f := itemsOf "simpledb.flushMemstoreContinuously"
    let c := itemsOf "simpledb.backgroundCompaction"
    occurs .signalFlusherDone (deferredBlocks f).flatten = false ∧ occurs .signalCompactorDone (deferredBlocks c).flatten = false ∧
    occurs .panicLog (deferredBlocks f).flatten = false ∧ occurs .panicLog (deferredBlocks c).flatten = false ∧
    condsAround .panicLog [] f = [["errNonNil"]] ∧ condsAround .panicLog [] c = [["errNonNil", "simpledb.DB.enableCompactions"]] ∧
    condsAround .signalFlusherDone [] f = [[]] ∧ unconditional .signalFlusherDone f = true ∧
    allBefore .panicLog .signalFlusherDone f = true ∧ allBefore .executeFlush .signalFlusherDone f = true ∧
    f.getLast? = some (.act .signalFlusherDone) ∧
    condsAround .signalCompactorDone [] c = [["simpledb.DB.enableCompactions"], ["else: simpledb.DB.enableCompactions"]] ∧
    c.head? = some (.ifBegin "simpledb.DB.enableCompactions") ∧ (splitBlock 0 c.tail).2 = [] ∧
    (splitElse 0 (splitBlock 0 c.tail).1).2 = [.act .signalCompactorDone] ∧
    (let t := (splitElse 0 (splitBlock 0 c.tail).1).1
     allBefore .panicLog .signalCompactorDone t = true ∧ allBefore .executeCompaction .signalCompactorDone t = true ∧
     t.getLast? = some (.act .signalCompactorDone) ∧ unconditional .signalCompactorDone t = true) ∧
    noOther f = true ∧ noOther c = true := by decide +kernel

/-- `executeFlush`: the table is written completely, THEN the WAL file that holds the same records is removed, THEN the
table is opened and added to the readers — each under the one condition "the store is not empty" (an empty store returns
nil like the end of the function does: normal form = one conditional around everything) and nothing else, except the
removal, which also needs the WAL path of the hand-off (recovery flushes have none) -/
theorem wal_removed_after_table_complete :
    let xs := itemsOf "simpledb.executeFlush"
    inOrder [.genIncrement, .mkdirTable, .flushWithTombstones, .removeWalFile, .openReader, .addReader] xs = true ∧
    count .removeWalFile xs = 1 ∧
    condsAround .removeWalFile [] xs = [["simpledb.memStoreFlushAction.walPath != \"\"", "memstore.MemStoreI.Size() != 0"]] ∧
    [Label.genIncrement, .mkdirTable, .flushWithTombstones, .openReader, .addReader].all
      (fun l => condsAround l [] xs == [["memstore.MemStoreI.Size() != 0"]] && loopsAround l [] xs == [[]]) = true ∧
    noOther xs = true := by decide +kernel

/-- `flushMemstore`: open the writer, write every entry, close the writer at exit (the only deferred action) -/
theorem memstore_flush_closes_writer_last :
    let xs := itemsOf "memstore.flushMemstore"
    inOrder [.newStreamWriter, .writerOpen, .writerWriteNext, .writerClose] (exitOrder xs) = true ∧
    acts (deferredBlocks xs).flatten = [.writerClose] ∧ noOther xs = true ∧
    acts (itemsOf "MemStore.FlushWithTombstones") = [.flushMemstoreCall] := by decide +kernel

/-- `SSTableStreamWriter.Open` creates index.rio, data.rio (each with its header) and only then the metadata file:
the model's `tblLoadable` before `tblMetaCreate` -/
theorem writer_open_creates_in_order :
    let xs := itemsOf "SSTableStreamWriter.Open"
    inOrder [.newProtoWriter, .openIndexWriter, .newFileWriter, .openDataWriter, .openMetaFile] xs = true ∧
    [Label.newProtoWriter, .openIndexWriter, .newFileWriter, .openDataWriter, .openMetaFile].all (fun l => unconditional l xs) = true ∧
    noOther xs = true := by decide +kernel

/-- 3b4867f: the clean-up of a failed `Open` is ONE deferred block, registered before the first file is opened, that
does something only when `Open` is returning an error (`errNonNil` around everything: the source spells it as an early
`return` on `err == nil`, which is the same thing in the normal form) and then closes whichever of index writer, data
writer and metadata file exists — each behind its own nil check.  Nothing of it runs where it stands, so a successful
`Open` hands all three over open (the model's flush events continue with `WriteNext` on them). -/
theorem writer_open_cleanup_only_on_error :
    let xs := itemsOf "SSTableStreamWriter.Open"
    deferredBlocks xs =
      [[.ifBegin "errNonNil",
        .ifBegin "nonNil(sstables.SSTableStreamWriter.indexWriter)", .act .closeIndexWriter, .ifEnd,
        .ifBegin "nonNil(sstables.SSTableStreamWriter.dataWriter)", .act .closeDataWriter, .ifEnd,
        .ifBegin "nonNil(sstables.SSTableStreamWriter.metaDataFile)", .act .closeMetaFile, .ifEnd,
        .ifEnd]] ∧
    xs.head? = some .deferBegin ∧
    [Label.closeIndexWriter, .closeDataWriter, .closeMetaFile].all (fun l => !occurs l (immediate 0 xs)) = true := by
  decide +kernel

/-- `WriteNext`: the value goes to data.rio before its index entry goes to index.rio -/
theorem data_written_before_index :
    let xs := itemsOf "SSTableStreamWriter.WriteNext"
    allBefore .dataWrite .indexWrite xs = true ∧ unconditional .dataWrite xs = true ∧ unconditional .indexWrite xs = true ∧
    noOther xs = true := by decide +kernel

/-- `SSTableStreamWriter.Close`: index and data writers are closed where the statement stands (not deferred, not in a
loop), each exactly once, the bloom filter is written, and the metadata write is the LAST file-content action (only
closing the metadata file follows).  Since 3b4867f each of the two closes stands behind the nil check of THAT writer and
nothing else (`Close` stays callable on a writer whose `Open` failed and gave its files back; after a successful `Open`
both writers exist — `writer_open_cleanup_only_on_error` — so on that path both closes still always run, which is what
`model_flush_order_matches_source` executes). -/
theorem meta_written_last :
    let xs := itemsOf "SSTableStreamWriter.Close"
    inOrder [.closeIndexWriter, .closeDataWriter, .writeBloom, .writeMeta] (immediate 0 xs) = true ∧
    condsAround .closeIndexWriter [] xs = [["nonNil(sstables.SSTableStreamWriter.indexWriter)"]] ∧
    condsAround .closeDataWriter [] xs = [["nonNil(sstables.SSTableStreamWriter.dataWriter)"]] ∧
    loopsAround .closeIndexWriter [] xs = [[]] ∧ loopsAround .closeDataWriter [] xs = [[]] ∧
    lastAmong .writeMeta [.closeIndexWriter, .closeDataWriter, .writeBloom, .dataWrite, .indexWrite, .openMetaFile] (exitOrder xs) = true ∧
    acts (deferredBlocks xs).flatten = [.closeMetaFile] ∧ noOther xs = true := by decide +kernel

/-- `reflectCompactionResult` (same as C10, needed here for the crash points inside a running compaction) -/
theorem reflect_deletes_before_rename :
    let xs := itemsOf "SSTableManager.reflectCompactionResult"
    allBefore .removeAllInput .renameIntoPlace xs = true ∧ count .renameIntoPlace xs = 1 := by decide +kernel

/-- `Close`: rotate and hand over, wait for the flusher, and only then close the WAL and the readers -/
theorem close_waits_for_flusher_before_closing_wal :
    inOrder [.rotateAndHandOff, .closeFlushChannel, .waitFlusherDone, .walClose, .readerClose] (itemsOf "DB.Close") = true := by
  decide +kernel

/-- the no-op events of the model: their position is irrelevant, both sides are compared without them -/
theorem progress_events_change_nothing (d : Disk) (g : Nat) :
    applyEv d (.tblProgress g) = d ∧ applyEv d (.compProgress g) = d := ⟨rfl, rfl⟩

/-- MODEL = SOURCE, flush: the event kinds of `flushEvs` for a pending one-entry store that came with a WAL file are,
in order, what `executeFlush` → `FlushWithTombstones` → `flushMemstore` → writer `Open`/`WriteNext`/`Close` do. -/
theorem model_flush_order_matches_source :
    srcKinds .table cfgFlush "simpledb.executeFlush" = some (modelKinds (flushEvs vFlush).1) ∧
    modelKinds (flushEvs vFlush).1 = [.tblMkdir, .tblLoadable, .tblMetaCreate, .tblComplete, .walUnlink] := by decide +kernel

/-- MODEL = SOURCE, compaction: `compactEvs` for two selected tables against one cycle of `backgroundCompaction`
(`executeCompaction` → writer → `saveCompactionMetadata`, then `reflectCompactionResult`). -/
theorem model_compaction_order_matches_source :
    srcKinds .compaction cfgCompact "simpledb.backgroundCompaction" = some (modelKinds (compactEvs {} vTwoTables [1, 1]).1) ∧
    modelKinds (compactEvs {} vTwoTables [1, 1]).1 =
      [.compMkdir, .compComplete, .compFlag, .tblUnlinkPart, .tblUnlinkPart, .tblRmdir, .tblUnlinkPart, .tblUnlinkPart, .tblRmdir,
       .compRename] := by decide +kernel

/-- MODEL = SOURCE, `Close` with a non-empty write store: rotation, the flusher's flush (complete when
`<-db.doneFlushChannel` returns), closing the last WAL file. -/
theorem model_close_order_matches_source :
    srcKinds .table cfgClose "DB.Close" = some (modelKinds (fsStep false {} vDirty { st := .close }).1) := by decide +kernel

/-- MODEL = SOURCE for the synchronous write path: `PutBytes` (log: buffered write, flush, fsync; then the memstore;
then the rotation: close the file, create the next one, write its header) and `DeleteBytes`. -/
theorem model_sync_write_order_matches_source :
    srcKinds .table cfgPut "DB.PutBytes" = some (modelKinds (fsStep false {} vOpen { st := .putB (some [1]) (some [2]) true }).1) ∧
    srcKinds .table cfgDelete "DB.DeleteBytes" = some (modelKinds (fsStep false {} vOpen { st := .delB (some [1]) }).1) := by
  decide +kernel

/-- the C02 part of `model_order_matches_source` in one statement -/
theorem model_order_matches_source :
    srcKinds .table cfgFlush "simpledb.executeFlush" = some (modelKinds (flushEvs vFlush).1) ∧
    srcKinds .compaction cfgCompact "simpledb.backgroundCompaction" = some (modelKinds (compactEvs {} vTwoTables [1, 1]).1) ∧
    srcKinds .table cfgClose "DB.Close" = some (modelKinds (fsStep false {} vDirty { st := .close }).1) ∧
    srcKinds .table cfgPut "DB.PutBytes" = some (modelKinds (fsStep false {} vOpen { st := .putB (some [1]) (some [2]) true }).1) :=
  ⟨model_flush_order_matches_source.1, model_compaction_order_matches_source.1, model_close_order_matches_source,
   model_sync_write_order_matches_source.1⟩

/-- FINDING (order, documented limitation of the model): in the source the hand-off to the flusher — the point after
which the PREVIOUS flush is known to be complete — comes AFTER the WAL rotation (`walRotate` precedes
`chanSendFlush`), so the previous flush may still be writing while the next WAL file is created.  `rotateEvs` places
ALL events of the pending flush BEFORE the rotation events: one legal interleaving (flusher already done), not the
other extreme.  The finer interleavings are covered by the real crash images only (Model/FS.lean, header). -/
theorem rotate_handoff_after_wal_rotation_but_model_flushes_first :
    inOrder [.walRotate, .swapMemstore, .chanSendFlush] (itemsOf "DB.rotateWalAndFlushMemstore") = true ∧
    modelKinds (rotateEvs vFlush).1 =
      [.tblMkdir, .tblLoadable, .tblMetaCreate, .tblComplete, .walUnlink, .walClose, .walCreate, .walHeader] := by decide +kernel

end SST.C02.Order
