/-
C16 — Skip-list map and merge heap behave as a sorted map and a sorted k-way merge.
-/
import SST.Proofs.SkipList
import SST.Proofs.PQ
namespace SST.C16
open SST SkipList PQ

variable {K V : Type}

/-- the reference `sortedOf` is the sorted map: strictly ascending and a permutation of the insertions -/
theorem sortedOf_spec (cmp : K → K → Ordering) (hl : LawfulCmp cmp) (ins : List (K × V))
    (hd : DistinctKeys cmp (ins.map (·.1))) :
    StrictAsc cmp (sortedOf cmp ins) ∧ (sortedOf cmp ins).Perm ins :=
  Proofs.sortedOf_spec cmp hl ins hd

/-- For any set of distinct keys inserted in any order with any node heights under any consistent
comparator: size, Get, Contains and the full / starting-at / between iterators equal the sorted map's
answers; lower > upper is rejected. -/
theorem skiplist_refines (cmp : K → K → Ordering) (hl : LawfulCmp cmp) (ins : List (K × V × Nat))
    (hd : DistinctKeys cmp (ins.map (·.1))) (hh : ∀ x ∈ ins, 1 ≤ x.2.2) :
    ∃ s : SkipList K V, insertAll cmp SkipList.empty ins = some s ∧
      let m := sortedOf cmp (ins.map fun x => (x.1, x.2.1))
      s.size = ins.length ∧
      iterAll s = m ∧
      (∀ k, get cmp s k = specGet cmp m k) ∧
      (∀ k, contains cmp s k = (specGet cmp m k).isSome) ∧
      (∀ k, iterFrom cmp s k = specFrom cmp m k) ∧
      (∀ lo hi, iterBetween cmp s lo hi = specBetween cmp m lo hi) :=
  Proofs.skiplist_refines cmp hl ins hd hh

theorem insert_duplicate_rejected (cmp : K → K → Ordering) (hl : LawfulCmp cmp) (ins : List (K × V × Nat))
    (hd : DistinctKeys cmp (ins.map (·.1))) (hh : ∀ x ∈ ins, 1 ≤ x.2.2)
    (s : SkipList K V) (hs : insertAll cmp SkipList.empty ins = some s)
    (k : K) (v : V) (h : Nat) (hk : ∃ x ∈ ins, cmp k x.1 = .eq) :
    insert cmp s k v h = none :=
  Proofs.insert_duplicate_rejected cmp hl ins hd hh s hs k v h hk

/-- k-way merge: every element of every input exactly once, non-descending, with its input's identity. -/
theorem pq_sorted_merge (cmp : K → K → Ordering) (hl : LawfulCmp cmp) (inputs : List (List (K × V)))
    (hs : ∀ l ∈ inputs, NonDesc cmp l) :
    (drain cmp inputs).Pairwise (fun a b => cmp a.1 b.1 ≠ .gt) ∧
    (drain cmp inputs).Perm (Proofs.tagged inputs) :=
  Proofs.pq_sorted_merge cmp hl inputs hs

theorem pq_per_input_order (cmp : K → K → Ordering) (hl : LawfulCmp cmp) (inputs : List (List (K × V)))
    (hs : ∀ l ∈ inputs, NonDesc cmp l) (i : Nat) (hi : i < inputs.length) :
    ((drain cmp inputs).filter (fun o => o.2.2 == i)).map (fun o => (o.1, o.2.1)) = inputs[i] :=
  Proofs.pq_per_input_order cmp hl inputs hs i hi

/-- non-vacuity: `compare` on Nat is a consistent comparator, and a concrete input meets the hypotheses -/
example : DistinctKeys (compare : Nat → Nat → Ordering) [3, 1, 2] := by
  simp [DistinctKeys, Nat.compare_eq_eq]

end SST.C16
