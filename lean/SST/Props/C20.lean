/-
C20 — The published Kaitai schema decodes every written file to the same records.
Property theorems only; the schema `Generated.schema` is regenerated from kaitai/recordio_v4.ksy by
tools/ksy2lean.py on every check run, the interpreter `Kaitai.kaitaiParse` is SST/Model/Kaitai.lean, the
lemmas are in SST/Proofs/Kaitai.lean.
-/
import SST.Proofs.Kaitai
namespace SST.C20
open SST Generated SST.Kaitai

/-- For EVERY compressor (lawful or not: only the stored bytes matter), every record list (nil and empty
records included) and every header compression code `ct` that is 0 exactly when the file is uncompressed:
interpreting the published schema over the file the writer produces (C04.close_exact: file header ++
records) succeeds and yields version 4, the compression code, and per record the nil flag, the header
numbers and the STORED payload bytes (`stored c r`; nothing for a nil record although its header carries
a compressed length).
Size hypothesis: `KFitsRec` = lengths below 2^56, because the published `vlq_base128_le` adds up 8 groups
only (`vlq_limit_is_sharp` below shows the bound cannot be relaxed to `FitsRec`'s 2^64).  Like `FitsRec` it
holds for every slice a Go program can have (heap addresses have 48 bits). -/
theorem kaitai_decodes_writer_output (c : Compression) (ct : Nat) (rs : List GoBytes)
    (hct : ct < 2 ^ 32) (hm : ct = 0 ↔ c = none) (hf : ∀ r ∈ rs, KFitsRec c r) :
    kaitaiParse schema (fileHeader currentVersion ct ++ encAll c rs)
      = .ok ({ version := currentVersion, compression := ct }, rs.map (expectedRec c)) :=
  kaitai_decodes c currentVersion ct rs (by decide) hct hm hf

/-- The property as worded: the Kaitai reader and the native sequential reader see the same number of
records, the same nil flags, and the Kaitai payloads are the stored bytes of the records the native
reader returns (equal `map`s, hence equal lengths). -/
theorem kaitai_agrees_with_native_reader (c : Compression) (ct : Nat) (rs : List GoBytes)
    (hct : ct < 2 ^ 32) (hm : ct = 0 ↔ c = none) (hl : LawfulC c) (hf : ∀ r ∈ rs, KFitsRec c r) :
    ∃ hdr krs, kaitaiParse schema (fileHeader currentVersion ct ++ encAll c rs) = .ok (hdr, krs) ∧
      hdr.version = currentVersion ∧ hdr.compression = ct ∧
      krs.map KRecord.isNil = (readAll c (fileHeader currentVersion ct ++ encAll c rs)).1.map Option.isNone ∧
      krs.map KRecord.payload = (readAll c (fileHeader currentVersion ct ++ encAll c rs)).1.map
        (fun r => match r with | none => [] | some x => stored c x) :=
  kaitai_agrees_native c ct rs hct hm hl hf

/-- Every compression code the writer can emit (0 … `maxCompression`, the Go constant
`recordio.CompressionTypeLzw` via gofacts) is named by the schema's `compression` enum.  Decided over the
regenerated table: the quantifier is the finite table. -/
theorem compression_codes_known_to_schema :
    ∀ code, code < maxCompression + 1 → ((schema.enums.lookup "compression").getD []).lookup code ≠ none :=
  codes_known

/-- The checked-in output of kaitai-struct-compiler (kaitai/gokaitai/recordio_v4.go, vlq_base128_le.go), as
far as the translator reads it back (enum constants, field order, magic literal, the if/else tree of
`LenPayload()`, number of vlq groups), is the schema the theorems above are about. -/
theorem go_reader_matches_schema :
    schema.enums.lookup "compression" = some goReaderEnum ∧
    recTy.seq.map (·.id) = goReaderRecordFields ∧
    hdrTy.seq.map (·.id) = goReaderHeaderFields ∧
    recTy.seq.head? = some { id := "magic", kind := .contents goReaderMagic } ∧
    recTy.instances.lookup "len_payload" = some goReaderLenPayload ∧
    schema.vlqMaxGroups = goReaderVlqMaxGroups :=
  go_reader_matches

/-- FINDING (outside the property's quantifier "record lists x compression types", inside its wording "every
file written by the current writer"): a writer opened with `recordio.DirectIO()` pads the file with zero
bytes up to the block size.  The native reader reads a zero tail as end-of-file (`C04.zero_tail_is_eof`);
the schema has no such rule, so the Kaitai reader fails on EVERY padded file: `magic` (contents mismatch)
for 3 or more padding bytes, `unexpected EOF` for 1 or 2. -/
theorem kaitai_rejects_zero_padding (c : Compression) (ct : Nat) (rs : List GoBytes) (k : Nat)
    (hct : ct < 2 ^ 32) (hm : ct = 0 ↔ c = none) (hf : ∀ r ∈ rs, KFitsRec c r) :
    kaitaiParse schema (fileHeader currentVersion ct ++ encAll c rs ++ List.replicate (k + 1) 0)
      = .error (if k + 1 < 3 then .unexpectedEof else .magic) :=
  kaitai_rejects_padding c currentVersion ct rs k (by decide) hct hm hf

/-- Sharpness of the size hypothesis: the length 2^56 is written by the writer as 9 varint bytes; the
Kaitai vlq reader consumes all 9 but its `value` is 0 (a record of ≥ 64 PiB cannot exist, so this is a
remark about the schema, not a reachable defect). -/
theorem vlq_limit_is_sharp : readVlq schema.vlqMaxGroups (uvarintEnc (2 ^ 56)) = .ok (0, []) :=
  readVlq_truncates

/-! Non-vacuity: a (deliberately unlawful) compressor, a list with a nil, an empty and a data record. -/

/-- a toy "compressor" that prefixes a byte (so stored ≠ raw, and a nil record still gets `clen` = 1) -/
def toyComp : Comp := { enc := fun x => 0xAA :: x, dec := fun _ => none }

example : ∀ r ∈ [some [1, 2], none, some []], KFitsRec (some toyComp) r := by
  intro r hr
  simp only [List.mem_cons, List.not_mem_nil, or_false] at hr
  rcases hr with rfl | rfl | rfl <;> simp [KFitsRec, clenOf, toyComp, vlqLimit]

example : (1 = 0 ↔ some toyComp = none) := by simp

example : (kaitaiParse schema (fileHeader currentVersion 1 ++ encAll (some toyComp) [some [1, 2], none, some []])).toOption.map
    (fun p => (p.1.compression, p.2.map (fun k => (k.isNil, k.payload))))
    = some (1, [(false, [0xAA, 1, 2]), (true, []), (false, [0xAA])]) := by
  rw [kaitai_decodes_writer_output (some toyComp) 1 _ (by decide) (by simp)
    (by intro r hr
        simp only [List.mem_cons, List.not_mem_nil, or_false] at hr
        rcases hr with rfl | rfl | rfl <;> simp [KFitsRec, clenOf, toyComp, vlqLimit])]
  rfl

end SST.C20
