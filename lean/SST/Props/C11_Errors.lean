/-
C11 (error-flow tie) — the STATIC half of "never absorbed".  The fault-injection streams (`merge`, `dbfault`) sample
fault positions; the theorems of C11.lean / C11_Stack.lean are about the model.  Here the quantifier is the SOURCE:
`SST.Generated.ErrFlow.table` is regenerated from /repo by tools/errfacts (go/types) before every proof build and has one
row per call site, in the listed functions of the merge / compaction / flush / table-writer / heap / WAL-replay path,
whose callee returns an `error` — with what happens to that error value on EVERY path of the enclosing function.  The
theorems below are decided over that finite table, so each is a statement about the code as it is today (up to the
tool's classification, whose vocabulary is in the header of tools/errfacts/main.go), not a sample.

Spelling of the facts (tools/errfacts/canon.go): a `callee` is a go/types identity, never source text — `pkg.Func` with the
module-relative package path (`recordio/proto.NewWriter`, whatever the import is called), a method by the TYPE of the root
variable of its receiver chain plus the field path (`sstables.SSTableStreamWriter.indexWriter.Close` for
`writer.indexWriter.Close`, `sstables.SSTableReaderI.Close` for `reader.Close()`), so renaming a local, a parameter, a
receiver or an import alias leaves the table as it is.  Calls of PRIVATE helpers that are not listed functions are inlined:
the rows of the helper stand where the call stands, with what the caller does with the helper's result (so the rows of
`pq.NewPriorityQueue` are those of its unexported `init` and, inside it, `fillNext`, whatever these are called; extracting
a block into a private function or renaming one changes nothing).  The listed functions are the anchors of this file.
`inBranch` is read up to guard clauses (`if c { X }` = `if !c { continue }; X`; in an inlined helper also `if !c { return
nil }; X`), except after tests of an error value.

Every theorem names the realistic regression it excludes; tools/errfacts/validate.sh replays those regressions (the seeded
changes C11-m1..m4 and relatives) on scratch overlays and shows which theorem stops building.
Run-time ORDER of the calls is the business of SST/Props/C02_Order.lean (`flag_after_table_closed` &c.); this file adds
what becomes of the error VALUES.
-/
import SST.Generated.ErrFlow
namespace SST.C11.Errors
open SST.Generated.ErrFlow

/-- the rows of one listed function -/
def rowsOf (f : String) : List Row := table.filter (fun r => r.fn == f)

def isUnknown : Disp → Bool
  | .unknown _ => true
  | _ => false

/-- the error is handed to the caller on every path: directly / joined / wrapped, or after a non-nil test -/
def reported (r : Row) : Bool := r.disp == .returned || r.disp == .checkedThenReturn

/-- the error is dropped on some path although it was never looked at, or after it was seen to be non-nil -/
def dropped (r : Row) : Bool := r.disp == .discarded || r.disp == .deferredDiscarded || r.disp == .swallowed

/-- stands at the top level of its function: executed exactly once per call, where the statement stands -/
def plain (r : Row) : Bool := !r.inLoop && !r.inDefer && !r.inBranch

/-- The three closes in the deferred clean-up of a table writer whose `Open` FAILED (3b4867f): (function, callee) -/
def failedOpenCleanup : List (String × String) :=
  [("SSTableStreamWriter.Open", "sstables.SSTableStreamWriter.indexWriter.Close"),
   ("SSTableStreamWriter.Open", "sstables.SSTableStreamWriter.dataWriter.Close"),
   ("SSTableStreamWriter.Open", "sstables.SSTableStreamWriter.metaDataFile.Close")]

/-- a row of that clean-up: a `Close` in `SSTableStreamWriter.Open`, inside the `defer`, inside a branch -/
def isFailedOpenCleanup (r : Row) : Bool :=
  r.fn == "SSTableStreamWriter.Open" && r.method == "Close" && r.inDefer && r.inBranch && !r.inLoop &&
    failedOpenCleanup.contains (r.fn, r.callee)

/-- The explicit exceptions of `no_error_discarded_on_merge_path` (reasons there), in table order: (function, callee) -/
def allowedDiscards : List (String × String) :=
  failedOpenCleanup ++
  [("SSTableStreamWriter.WriteNext", "hash.Hash64.Write"),
   ("SSTableSimpleWriter.WriteSkipListMap", "skiplist.MapI.Iterator"),
   ("memstore.flushMemstore", "memstore.MemStore.skipListMap.Iterator"),
   ("recordio.fillRecordHeaderV4", "hash.Hash32.Write")]

/-- The fixed list of functions is the one this file was written against, and every one of them still exists (a renamed
or removed function would otherwise silently take its rows — and the obligations about them — out of the table).  These
are the ANCHORS of the specification: exported entry points plus the unexported functions the theorems below name
(`executeFlush`, `flushMemstore`, `replayFile`, `writeFileHeader` …); they are found by package, receiver type and name in
any file of the package; renaming an EXPORTED anchor is reported by the tool ("listed function(s) not found"), a renamed
PRIVATE anchor is found by its role (same receiver, recorded signature: canon.go `resolveFunc`) and keeps the name used
here, with a note on stderr.  The heap's unexported `init` / `fillNext` are NOT anchors: they are reached, by inlining, from
`pq.NewPriorityQueue` and `PriorityQueue.Next`. -/
theorem every_listed_function_found :
    functions.map (·.name) =
      ["SSTableMergeIteratorContext.Next", "SSTableMerger.Merge", "MergeCompactionIterator.Next", "SSTableMerger.MergeCompactIterator",
       "SSTableMerger.MergeCompact", "SSTableIterator.Next", "V0SSTableFullScanIterator.Next", "SSTableFullScanIterator.Next",
       "SSTableStreamWriter.Open", "SSTableStreamWriter.WriteNext", "SSTableStreamWriter.Close", "SSTableSimpleWriter.WriteSkipListMap",
       "SuperSSTableReader.Contains", "SuperSSTableReader.Get", "SuperSSTableReader.Scan", "SuperSSTableReader.ScanStartingAt",
       "SuperSSTableReader.ScanRange", "SuperSSTableReader.Close",
       "PriorityQueue.Next", "pq.NewPriorityQueue",
       "MemStore.Flush", "MemStore.FlushWithTombstones", "memstore.flushMemstore",
       "simpledb.flushMemstoreContinuously", "simpledb.executeFlush", "DB.rotateWalAndFlushMemstore",
       "simpledb.backgroundCompaction", "simpledb.executeCompaction", "simpledb.saveCompactionMetadata",
       "SSTableManager.reflectCompactionResult",
       "FileWriter.Open", "recordio.writeFileHeader", "recordio.fillRecordHeaderV4", "recordio.writeRecordHeaderV4",
       "FileWriter.Write", "FileWriter.WriteSync", "FileWriter.Close", "FileWriter.Seek",
       "rproto.Writer.Open", "rproto.Writer.Write", "rproto.Writer.Close",
       "Replayer.Replay", "Replayer.replayFile"] ∧
    functions.all (·.found) = true ∧
    functions.all (fun f => !(rowsOf f.name).isEmpty) = true := by decide +kernel

/-- The tool could classify every row: no error value is stored in a field, passed to another function, leaves a function
literal through a captured variable, sits behind a `goto` / labelled branch, or is wiped by a deferred `err = …` that does
not keep what the named result held (e.g. `defer func() { err = f.Close() }()`, which would replace the error of a failed
write by the nil of a successful close). -/
theorem no_unknown_rows : table.all (fun r => !isUnknown r.disp) = true := by decide +kernel

/-- The ONLY error values dropped on these paths (`_ =`, `x, _ :=`, bare call, `defer f()`, or tested and then ignored),
each harmless for a stated reason:
* the `hash.Hash64.Write` of the bloom-filter hash (WriteNext: the one in the branch; the checksum's `Write` is tested) and
  the `hash.Hash32.Write` of the header checksum (fillRecordHeaderV4): `hash.Hash.Write` "never returns an error" (package hash);
* `skipListMap.Iterator()` in flushMemstore / WriteSkipListMap: `skiplist.Map.Iterator` is `return &Iterator{…}, nil`;
* since 3b4867f the three `_ = x.Close()` of `SSTableStreamWriter.Open`'s deferred clean-up: that block returns at once
  unless `Open` is ALREADY returning an error (`C02.Order.writer_open_cleanup_only_on_error` has the guard `err == nil →
  return` and the nil checks on the regenerated order table), so the failure is reported by the primary error and nothing
  was written through these writers yet; they are the only dropped values inside a `defer`, and every other step of `Open`
  is tested.
Excluded: `_ = writer.Close()` anywhere else, a bare `writer.WriteNext(k, v)`, `defer reader.Close()` replacing the joined
close, `if err != nil { log.Printf(…) }` followed by carrying on — and the shape of C11-m1 (the failure of an input's first
`Next()` assigned to a loop-local `err` that shadows the named result and dies with the iteration: `swallowed`, seen from
`pq.NewPriorityQueue` through the inlined `init`). -/
theorem no_error_discarded_on_merge_path :
    (table.filter dropped).map (fun r => (r.fn, r.callee)) = allowedDiscards ∧
    (table.filter dropped).all (fun r => r.disp == Disp.discarded && !r.inLoop && (!r.inDefer || isFailedOpenCleanup r)) = true ∧
    ((rowsOf "SSTableStreamWriter.Open").filter (fun r => !isFailedOpenCleanup r)).map (fun r => (r.callee, r.disp, r.inDefer)) =
      [("recordio/proto.NewWriter", Disp.checkedThenReturn, false),
       ("sstables.SSTableStreamWriter.indexWriter.Open", Disp.checkedThenReturn, false),
       ("recordio.NewFileWriter", Disp.checkedThenReturn, false),
       ("sstables.SSTableStreamWriter.dataWriter.Open", Disp.checkedThenReturn, false),
       ("os.OpenFile", Disp.checkedThenReturn, false),
       ("github.com/steakknife/bloomfilter.NewOptimal", Disp.checkedThenReturn, false)] := by
  decide +kernel

/-- No error value is lost UNSEEN: assigned to a variable that is assigned again, goes out of scope, or is left behind by a
`return` before anything looked at it.  Excludes C11-m2 (`_, err = bloomFilter.WriteFile(…)` re-using the named result
that already holds `errors.Join(indexWriter.Close(), dataWriter.Close())`: a successful bloom-filter write turns a failed
final flush of index.rio / data.rio into success), `err = x.Close()` after an earlier `err = …` without a test in
between, and a `:=` in an inner scope whose value never reaches the outer `err`. -/
theorem no_error_overwritten : table.all (fun r => r.disp != Disp.overwritten) = true := by decide +kernel

/-- EXACTLY these calls have an error value that is compared with a sentinel and turned into something that is not that
error, with exactly these sentinels; every other row has none.  Why each is right:
* an input of the merge that answers `sstables.Done` is exhausted: the heap is told `pq.Done`, the heap drops that input
  (the input's `Next()` seen from the constructor — in the loop of the unexported `init` — and from `PriorityQueue.Next`:
  only `pq.Done`), and `Merge` / `MergeCompactionIterator.Next` / `MergeCompact` end on the heap's `pq.Done` / the
  iterator's `sstables.Done`;
* the table iterators end on `skiplist.Done` of the KEY iterator (the index decides how many records there are);
* the POSITIONED value read behind `SSTableIterator.Next` (the reader's unexported `getValueAtOffset`, inlined; both the
  version-0 and the current data reader) tolerates `io.EOF` of `ReadNextAt` and goes on with what was read — as it always
  did; visible here since private helpers are inlined.  This is not the full-scan case of C11-m3: the offset comes from
  the index entry of the key just returned, nothing is ended by it;
* `SuperSSTableReader.Get` asks the next older table on `NotFound`;
* the memstore flush ends on `skiplist.Done`;
* WAL replay: `io.EOF` ends a file; `io.ErrUnexpectedEOF` (and an EOF inside the header, on Open) is tolerated — the source
  guards it with `lastFile`, the torn tail of the file that was being written when the process died (C07, C13).
NOT in the list, hence excluded: translating `io.EOF` of the DATA reader of a full-scan iterator into `Done` (C11-m3: the
index announces more records, a short data file would end the input silently and the shortened merge output would replace
its inputs); treating any error of an input's first `Next()` like exhaustion; narrowing or widening the replay's tolerance
(C07-m4 / C10-m4 remove `io.EOF` from the Open case: a zero-length last WAL file makes the database unopenable). -/
theorem translated_only_expected_sentinels :
    (table.filter (fun r => r.disp == Disp.translated)).map (fun r => (r.fn, r.callee, r.sentinels)) =
      [("SSTableMergeIteratorContext.Next", "sstables.SSTableMergeIteratorContext.iterator.Next", ["sstables.Done"]),
       ("SSTableMerger.Merge", "pq.PriorityQueueI.Next", ["pq.Done"]),
       ("MergeCompactionIterator.Next", "sstables.MergeCompactionIterator.pq.Next", ["pq.Done"]),
       ("SSTableMerger.MergeCompact", "sstables.SSTableIteratorI.Next", ["sstables.Done"]),
       ("SSTableIterator.Next", "sstables.SSTableIterator.keyIterator.Next", ["skiplist.Done"]),
       ("SSTableIterator.Next", "sstables.SSTableReader.v0DataReader.ReadNextAt", ["io.EOF"]),
       ("SSTableIterator.Next", "sstables.SSTableReader.dataReader.ReadNextAt", ["io.EOF"]),
       ("V0SSTableFullScanIterator.Next", "sstables.V0SSTableFullScanIterator.keyIterator.Next", ["skiplist.Done"]),
       ("SSTableFullScanIterator.Next", "sstables.SSTableFullScanIterator.keyIterator.Next", ["skiplist.Done"]),
       ("SSTableSimpleWriter.WriteSkipListMap", "skiplist.IteratorI.Next", ["skiplist.Done"]),
       ("SuperSSTableReader.Get", "sstables.SuperSSTableReader.readers[].Get", ["sstables.NotFound"]),
       ("PriorityQueue.Next", "pq.Element.iterator.Next", ["pq.Done"]),
       ("pq.NewPriorityQueue", "pq.Element.iterator.Next", ["pq.Done"]),
       ("memstore.flushMemstore", "skiplist.IteratorI.Next", ["skiplist.Done"]),
       ("Replayer.replayFile", "recordio.ReaderI.Open", ["io.EOF", "io.ErrUnexpectedEOF"]),
       ("Replayer.replayFile", "recordio.ReaderI.ReadNext", ["io.EOF", "io.ErrUnexpectedEOF"])] ∧
    table.all (fun r => r.disp == Disp.translated || r.sentinels.isEmpty) = true := by decide +kernel

/-- The value reads of the three table iterators exist — the positioned `ReadNextAt` of either data reader and the checksum
behind `SSTableIterator.Next` (the unexported `getValueAtOffset` and, in it, `checksumValue`, both inlined: the checksum's
`hash.Hash64.Write`), `dataReader.ReadNext` of the two full-scan iterators, the checksum of the second one — and the errors
of the FULL-SCAN reads and of the checksums are tested and returned as they are: no sentinel of the data file is given a
meaning there (C11-m3).  The positioned read tolerates `io.EOF` and nothing else (see
`translated_only_expected_sentinels`); every other error of it is tested and returned.  The errors `getValueAtOffset`
makes itself (checksum mismatch) are tested and returned by `Next` too: otherwise the tool shows the pseudo row
"error value made by an inlined private helper", which no theorem of this file allows. -/
theorem data_read_errors_reported_verbatim :
    ((rowsOf "SSTableIterator.Next" ++ rowsOf "V0SSTableFullScanIterator.Next" ++ rowsOf "SSTableFullScanIterator.Next").filter
        (fun r => r.method != "Next")).map (fun r => (r.callee, r.disp, r.sentinels)) =
      [("sstables.SSTableReader.v0DataReader.ReadNextAt", Disp.translated, ["io.EOF"]),
       ("sstables.SSTableReader.dataReader.ReadNextAt", Disp.translated, ["io.EOF"]),
       ("hash.Hash64.Write", Disp.checkedThenReturn, []),
       ("sstables.V0SSTableFullScanIterator.dataReader.ReadNext", Disp.checkedThenReturn, []),
       ("sstables.SSTableFullScanIterator.dataReader.ReadNext", Disp.checkedThenReturn, []),
       ("hash.Hash64.Write", Disp.checkedThenReturn, [])] := by decide +kernel

/-- The merge heap, stated on its exported entry points (the unexported `init` and `fillNext` are inlined, so their names,
and whether they exist as separate functions, do not matter): the ONLY error value on either path is that of the input's
`Next()` (`Element.iterator.Next`); seen from the constructor it stands in the loop over the inputs, seen from
`PriorityQueue.Next` it does not; on both it is handed on untouched by the innermost helper, tested by the next one, and
the input is skipped / dropped ONLY on `pq.Done` — every other error reaches the caller (`translated` is the WORST
disposition over all paths: a path that loses a non-sentinel error would show `swallowed` / `overwritten`), and the
constructor tests what `init` returns.  Excludes C11-m1 ("collect the failures of all inputs" into a shadowed variable:
`init` returns nil, the failing input is left out like an exhausted one, the merge "succeeds" without it — the row of
the constructor becomes `swallowed`). -/
theorem heap_reports_input_failures :
    (rowsOf "pq.NewPriorityQueue").map (fun r => (r.callee, r.disp, r.sentinels, r.inLoop)) =
      [("pq.Element.iterator.Next", Disp.translated, ["pq.Done"], true)] ∧
    (rowsOf "PriorityQueue.Next").map (fun r => (r.callee, r.disp, r.sentinels, r.inLoop)) =
      [("pq.Element.iterator.Next", Disp.translated, ["pq.Done"], false)] := by decide +kernel

/-- Every `Close` on these paths — and this is the complete list of them — is returned, joined into the returned error
(also from a deferred literal: `err = errors.Join(err, x.Close())`) or tested; the ONLY exception are the three closes of
the failed-`Open` clean-up of the table writer (3b4867f; see `no_error_discarded_on_merge_path`: they run only while `Open`
returns its own error, before anything was written).  With the 4 MiB write buffers the final flush inside `Close` carries
almost all bytes of a table, so a dropped `Close` error is a dropped write error.  Excludes `defer writer.Close()`,
`_ = reader.Close()`, a deferred `err = writer.Close()`, and the removal of a close from the path (C11-m4 removes the tested
`writer.Close` of executeCompaction).  New closes of the repairs: the readers of a compaction are closed by a deferred
loop (bfb8835: now registered before they are opened — row order), the flag writer by a deferred joined close
(a7ed007: before its `Open`). -/
theorem close_errors_joined :
    (table.filter (fun r => r.method == "Close")).map (fun r => (r.fn, r.callee, r.inDefer)) =
      [("SSTableStreamWriter.Open", "sstables.SSTableStreamWriter.indexWriter.Close", true),
       ("SSTableStreamWriter.Open", "sstables.SSTableStreamWriter.dataWriter.Close", true),
       ("SSTableStreamWriter.Open", "sstables.SSTableStreamWriter.metaDataFile.Close", true),
       ("SSTableStreamWriter.Close", "sstables.SSTableStreamWriter.indexWriter.Close", false),
       ("SSTableStreamWriter.Close", "sstables.SSTableStreamWriter.dataWriter.Close", false),
       ("SSTableStreamWriter.Close", "sstables.SSTableStreamWriter.metaDataFile.Close", true),
       ("SSTableSimpleWriter.WriteSkipListMap", "sstables.SSTableSimpleWriter.streamWriter.Close", true),
       ("SuperSSTableReader.Close", "sstables.SSTableReaderI.Close", false),
       ("memstore.flushMemstore", "sstables.SSTableStreamWriter.Close", true),
       ("simpledb.executeCompaction", "sstables.SSTableStreamWriter.Close", true),
       ("simpledb.executeCompaction", "sstables.SSTableReaderI.Close", true),
       ("simpledb.executeCompaction", "sstables.SSTableStreamWriter.Close", false),
       ("simpledb.saveCompactionMetadata", "recordio/proto.WriterI.Close", true),
       ("SSTableManager.reflectCompactionResult", "simpledb.SSTableManager.allSSTableReaders[].Close", false),
       ("FileWriter.Close", "recordio.FileWriter.file.Close", false),
       ("FileWriter.Close", "recordio.FileWriter.file.Close", false),
       ("FileWriter.Close", "recordio.FileWriter.file.Close", false),
       ("rproto.Writer.Close", "recordio/proto.Writer.writer.Close", false),
       ("Replayer.replayFile", "recordio.ReaderI.Close", true)] ∧
    table.all (fun r => r.method != "Close" || reported r || isFailedOpenCleanup r) = true ∧
    -- bfb8835 / a7ed007: the deferred closes precede, in source order, the calls whose failure they now cover
    ((rowsOf "simpledb.executeCompaction").filter (fun r => r.inLoop)).map (fun r => (r.callee, r.inDefer, r.disp)) =
      [("sstables.SSTableReaderI.Close", true, Disp.returned), ("sstables.NewSSTableReader", false, Disp.checkedThenReturn),
       ("sstables.SSTableReaderI.Scan", false, Disp.checkedThenReturn)] := by decide +kernel

/-- `executeCompaction` writes the success flag (`saveCompactionMetadata`, once, unconditionally, its error tested) only
after a `writer.Close()` (the close of the `sstables.SSTableStreamWriter` it writes the output with; the input readers are
`sstables.SSTableReaderI`) that stands at the top level of the function — not deferred, not in a branch — WHOSE ERROR IS
TESTED AND RETURNED; the deferred close is only the guarded fall-back for the error paths and joins its error.  (That the
top-level close precedes the flag at run time is `C02.Order.flag_after_table_closed`; the source order of two top-level
statements is their execution order.)  Excludes C11-m4: closing the output only in the `defer`, i.e. flagging the
compaction as successful BEFORE the buffers are flushed — the error is still reported, but the next `Open` trusts the flag,
deletes the inputs and installs the truncated table. -/
theorem flag_written_only_after_close_checked :
    let rs := rowsOf "simpledb.executeCompaction"
    (rs.filter (fun r => r.callee == "simpledb.saveCompactionMetadata")).map (fun r => (plain r, r.disp)) = [(true, Disp.checkedThenReturn)] ∧
    rs.any (fun c => c.callee == "sstables.SSTableStreamWriter.Close" && plain c && c.disp == Disp.checkedThenReturn &&
      rs.all (fun f => f.callee != "simpledb.saveCompactionMetadata" || c.idx < f.idx)) = true ∧
    (rs.filter (fun r => r.callee == "sstables.SSTableStreamWriter.Close" && r.inDefer)).map (fun r => (r.inBranch, r.disp)) = [(true, Disp.returned)] := by
  decide +kernel

/-- One compaction cycle: the result is installed (`reflectCompactionResult`) only after `executeCompaction`, whose error
is tested and ends the cycle; the merge inside `executeCompaction` and both steps of `saveCompactionMetadata` are tested
too; the close of the flag writer — the step that makes the flag readable — is joined into the returned error on every
path, since a7ed007 also when `Open` of the flag writer fails.  With C11_Stack.compaction_fault_not_installed (model) this
is the "consequently" clause of C11 on the source.  (6dd9211 moved the done signal of the goroutine out of its `defer`; the
rows of `backgroundCompaction` / `flushMemstoreContinuously` — error tested, then `log.Panicf` — are unchanged.) -/
theorem compaction_installed_only_after_execute_checked :
    (rowsOf "simpledb.backgroundCompaction").map (fun r => (r.callee, r.disp)) =
      [("func literal", Disp.checkedThenReturn), ("simpledb.executeCompaction", Disp.checkedThenReturn),
       ("simpledb.DB.sstableManager.reflectCompactionResult", Disp.checkedThenReturn)] ∧
    ((rowsOf "simpledb.executeCompaction").filter (fun r => r.method == "MergeCompact")).map (fun r => (plain r, r.disp)) =
      [(true, Disp.checkedThenReturn)] ∧
    -- a7ed007: the deferred, joined close of the flag writer is registered BEFORE `Open` (it was after it)
    (rowsOf "simpledb.saveCompactionMetadata").map (fun r => (r.callee, r.disp, r.inDefer)) =
      [("recordio/proto.NewWriter", Disp.checkedThenReturn, false), ("recordio/proto.WriterI.Close", Disp.returned, true),
       ("recordio/proto.WriterI.Open", Disp.checkedThenReturn, false),
       ("recordio/proto.WriterI.Write", Disp.checkedThenReturn, false)] := by decide +kernel

/-- The flusher: `executeFlush` tests every step (directory, table, WAL removal, re-open); the goroutine tests
`executeFlush` and stops (`log.Panicf`) — a failed flush never removes the WAL file or adds a reader, because each `return
err` precedes them.  Excludes `_ = os.Remove(walPath)`-style "best effort" edits on this path. -/
theorem flush_steps_all_checked :
    (rowsOf "simpledb.executeFlush").map (fun r => (r.callee, r.disp)) =
      [("os.MkdirAll", Disp.checkedThenReturn), ("memstore.MemStoreI.FlushWithTombstones", Disp.checkedThenReturn),
       ("os.Remove", Disp.checkedThenReturn), ("sstables.NewSSTableReader", Disp.checkedThenReturn)] ∧
    (rowsOf "simpledb.flushMemstoreContinuously").all reported = true ∧
    (rowsOf "MemStore.FlushWithTombstones" ++ rowsOf "MemStore.Flush").all (fun r => r.disp == Disp.returned) = true := by
  decide +kernel

/-- The writers release what they hold where the statement stands: `FileWriter.Close` flushes and closes the file on every
call (only the truncation is conditional; since 855b3b1 the two error branches close the file as well and join its error);
the table writer closes index and data writer where the statements stand — NOT in a `defer` (C02-m2), not in a loop, as
its first two calls, before the bloom filter and the metadata; since 3b4867f each stands behind a condition (the nil check of
that writer: `C02.Order.meta_written_last` has the condition texts), so they are no longer `plain`, and NO other call of
`Close` is.  Excludes C19-m4 (an `if … else if` chain that closes the file only when no truncation was needed: the error
flow stays intact, the descriptor leaks). -/
theorem writer_close_steps_unconditional :
    (rowsOf "FileWriter.Close").map (fun r => (r.callee, plain r)) =
      [("recordio.FileWriter.bufWriter.Flush", true), ("recordio.FileWriter.file.Close", false),
       ("recordio.FileWriter.file.Truncate", false), ("recordio.FileWriter.file.Close", false),
       ("recordio.FileWriter.file.Close", true)] ∧
    (rowsOf "SSTableStreamWriter.Close").map (fun r => (r.callee, r.inDefer, r.inLoop)) =
      [("sstables.SSTableStreamWriter.indexWriter.Close", false, false),
       ("sstables.SSTableStreamWriter.dataWriter.Close", false, false),
       ("sstables.SSTableStreamWriter.bloomFilter.WriteFile", false, false),
       ("sstables.SSTableStreamWriter.metaDataFile.Close", true, false),
       ("google.golang.org/protobuf/proto.Marshal", false, false),
       ("sstables.SSTableStreamWriter.metaDataFile.Write", false, false)] ∧
    (rowsOf "SSTableStreamWriter.Close").all (fun r => r.inBranch) = true ∧
    (rowsOf "FileWriter.WriteSync").map (fun r => (r.callee, plain r)) =
      [("recordio.FileWriter.Write", true), ("recordio.FileWriter.bufWriter.Flush", true),
       ("recordio.FileWriter.file.Sync", true)] := by decide +kernel

/-- A failed index write rolls the data file back and reports BOTH errors (`errors.Join(err, seekErr)`); the data write
and the checksum are tested before.  Excludes dropping `seekErr` (a failed rollback would leave an orphan record that
shifts every later offset).  The two hashes of `WriteNext` have the same type (`hash.Hash64`), so they are told apart by
where they stand, not by the name of a local: the dropped `Write` is the one inside the bloom-filter branch, the tested one
(the value checksum that goes into the index entry) stands at the top level, before the data write. -/
theorem write_next_reports_rollback_failure :
    ((rowsOf "SSTableStreamWriter.WriteNext").filter (fun r => !dropped r)).map (fun r => (r.callee, r.disp, r.inBranch)) =
      [("hash.Hash64.Write", Disp.checkedThenReturn, false),
       ("sstables.SSTableStreamWriter.dataWriter.Write", Disp.checkedThenReturn, false),
       ("sstables.SSTableStreamWriter.indexWriter.Write", Disp.checkedThenReturn, false),
       ("sstables.SSTableStreamWriter.dataWriter.Seek", Disp.returned, true)] ∧
    ((rowsOf "SSTableStreamWriter.WriteNext").filter dropped).map (fun r => (r.idx, r.callee, r.inBranch)) =
      [(0, "hash.Hash64.Write", true)] := by decide +kernel

/-- Summary: on the listed paths every error value is reported, or translated from an expected sentinel, or is one of the
four listed harmless discards, or one of the three closes of the failed-`Open` clean-up (3b4867f), where `Open` is already
returning an error. -/
theorem errors_never_absorbed :
    table.all (fun r => reported r || r.disp == Disp.translated ||
      (r.disp == Disp.discarded && allowedDiscards.contains (r.fn, r.callee))) = true := by decide +kernel

end SST.C11.Errors
