/-
C11 (error-flow tie) — the STATIC half of "never absorbed".  The fault-injection streams (`merge`, `dbfault`) sample
fault positions; the theorems of C11.lean / C11_Stack.lean are about the model.  Here the quantifier is the SOURCE:
`SST.Generated.ErrFlow.table` is regenerated from /repo by tools/errfacts (go/types) before every proof build and has one
row per call site, in the listed functions of the merge / compaction / flush / table-writer / heap / WAL-replay path,
whose callee returns an `error` — with what happens to that error value on EVERY path of the enclosing function.  The
theorems below are decided over that finite table, so each is a statement about the code as it is today (up to the
tool's classification, whose vocabulary is in the header of tools/errfacts/main.go), not a sample.

Every theorem names the realistic regression it excludes; tools/errfacts/validate.sh replays those regressions (the seeded
changes C11-m1..m4 and relatives) on scratch overlays and shows which theorem stops building.
Run-time ORDER of the calls is the business of SST/Props/C02_Order.lean (`flag_after_table_closed` &c.); this file adds
what becomes of the error VALUES.
-/
import SST.Generated.ErrFlow
namespace SST.C11.Errors
open SST.Generated.ErrFlow

/-- the rows of one listed function -/
def rowsOf (f : String) : List Row := table.filter (fun r => r.fn == f)

def isUnknown : Disp → Bool
  | .unknown _ => true
  | _ => false

/-- the error is handed to the caller on every path: directly / joined / wrapped, or after a non-nil test -/
def reported (r : Row) : Bool := r.disp == .returned || r.disp == .checkedThenReturn

/-- the error is dropped on some path although it was never looked at, or after it was seen to be non-nil -/
def dropped (r : Row) : Bool := r.disp == .discarded || r.disp == .deferredDiscarded || r.disp == .swallowed

/-- stands at the top level of its function: executed exactly once per call, where the statement stands -/
def plain (r : Row) : Bool := !r.inLoop && !r.inDefer && !r.inBranch

/-- The three closes in the deferred clean-up of a table writer whose `Open` FAILED (3b4867f): (function, callee) -/
def failedOpenCleanup : List (String × String) :=
  [("SSTableStreamWriter.Open", "writer.indexWriter.Close"),
   ("SSTableStreamWriter.Open", "writer.dataWriter.Close"),
   ("SSTableStreamWriter.Open", "writer.metaDataFile.Close")]

/-- a row of that clean-up: a `Close` in `SSTableStreamWriter.Open`, inside the `defer`, inside a branch -/
def isFailedOpenCleanup (r : Row) : Bool :=
  r.fn == "SSTableStreamWriter.Open" && r.method == "Close" && r.inDefer && r.inBranch && !r.inLoop &&
    failedOpenCleanup.contains (r.fn, r.callee)

/-- The explicit exceptions of `no_error_discarded_on_merge_path` (reasons there), in table order: (function, callee) -/
def allowedDiscards : List (String × String) :=
  failedOpenCleanup ++
  [("SSTableStreamWriter.WriteNext", "fnvHash.Write"),
   ("SSTableSimpleWriter.WriteSkipListMap", "skipListMap.Iterator"),
   ("memstore.flushMemstore", "m.skipListMap.Iterator"),
   ("recordio.fillRecordHeaderV4", "crc.Write")]

/-- The fixed list of functions is the one this file was written against, and every one of them still exists (a renamed
or removed function would otherwise silently take its rows — and the obligations about them — out of the table). -/
theorem every_listed_function_found :
    functions.map (·.name) =
      ["SSTableMergeIteratorContext.Next", "SSTableMerger.Merge", "MergeCompactionIterator.Next", "SSTableMerger.MergeCompactIterator",
       "SSTableMerger.MergeCompact", "SSTableIterator.Next", "V0SSTableFullScanIterator.Next", "SSTableFullScanIterator.Next",
       "SSTableStreamWriter.Open", "SSTableStreamWriter.WriteNext", "SSTableStreamWriter.Close", "SSTableSimpleWriter.WriteSkipListMap",
       "SuperSSTableReader.Contains", "SuperSSTableReader.Get", "SuperSSTableReader.Scan", "SuperSSTableReader.ScanStartingAt",
       "SuperSSTableReader.ScanRange", "SuperSSTableReader.Close",
       "PriorityQueue.init", "PriorityQueue.Next", "PriorityQueue.fillNext", "pq.NewPriorityQueue",
       "MemStore.Flush", "MemStore.FlushWithTombstones", "memstore.flushMemstore",
       "simpledb.flushMemstoreContinuously", "simpledb.executeFlush", "DB.rotateWalAndFlushMemstore",
       "simpledb.backgroundCompaction", "simpledb.executeCompaction", "simpledb.saveCompactionMetadata",
       "SSTableManager.reflectCompactionResult",
       "FileWriter.Open", "recordio.writeFileHeader", "recordio.fillRecordHeaderV4", "recordio.writeRecordHeaderV4",
       "FileWriter.Write", "FileWriter.WriteSync", "FileWriter.Close", "FileWriter.Seek",
       "rproto.Writer.Open", "rproto.Writer.Write", "rproto.Writer.Close",
       "Replayer.Replay", "Replayer.replayFile"] ∧
    functions.all (·.found) = true ∧
    functions.all (fun f => !(rowsOf f.name).isEmpty) = true := by decide +kernel

/-- The tool could classify every row: no error value is stored in a field, passed to another function, leaves a function
literal through a captured variable, sits behind a `goto` / labelled branch, or is wiped by a deferred `err = …` that does
not keep what the named result held (e.g. `defer func() { err = f.Close() }()`, which would replace the error of a failed
write by the nil of a successful close). -/
theorem no_unknown_rows : table.all (fun r => !isUnknown r.disp) = true := by decide +kernel

/-- The ONLY error values dropped on these paths (`_ =`, `x, _ :=`, bare call, `defer f()`, or tested and then ignored),
each harmless for a stated reason:
* `fnvHash.Write` (WriteNext) and `crc.Write` (fillRecordHeaderV4): `hash.Hash.Write` "never returns an error" (package hash);
* `skipListMap.Iterator()` in flushMemstore / WriteSkipListMap: `skiplist.Map.Iterator` is `return &Iterator{…}, nil`;
* since 3b4867f the three `_ = x.Close()` of `SSTableStreamWriter.Open`'s deferred clean-up: that block returns at once
  unless `Open` is ALREADY returning an error (`C02.Order.writer_open_cleanup_only_on_error` has the guard `err == nil →
  return` and the nil checks on the regenerated order table), so the failure is reported by the primary error and nothing
  was written through these writers yet; they are the only dropped values inside a `defer`, and every other step of `Open`
  is tested.
Excluded: `_ = writer.Close()` anywhere else, a bare `writer.WriteNext(k, v)`, `defer reader.Close()` replacing the joined
close, `if err != nil { log.Printf(…) }` followed by carrying on — and the shape of C11-m1 (the failure of an input's first
`Next()` assigned to a loop-local `err` that shadows the named result and dies with the iteration: `swallowed`). -/
theorem no_error_discarded_on_merge_path :
    (table.filter dropped).map (fun r => (r.fn, r.callee)) = allowedDiscards ∧
    (table.filter dropped).all (fun r => r.disp == Disp.discarded && !r.inLoop && (!r.inDefer || isFailedOpenCleanup r)) = true ∧
    ((rowsOf "SSTableStreamWriter.Open").filter (fun r => !isFailedOpenCleanup r)).map (fun r => (r.callee, r.disp, r.inDefer)) =
      [("rProto.NewWriter", Disp.checkedThenReturn, false), ("writer.indexWriter.Open", Disp.checkedThenReturn, false),
       ("recordio.NewFileWriter", Disp.checkedThenReturn, false), ("writer.dataWriter.Open", Disp.checkedThenReturn, false),
       ("os.OpenFile", Disp.checkedThenReturn, false), ("bloomfilter.NewOptimal", Disp.checkedThenReturn, false)] := by
  decide +kernel

/-- No error value is lost UNSEEN: assigned to a variable that is assigned again, goes out of scope, or is left behind by a
`return` before anything looked at it.  Excludes C11-m2 (`_, err = bloomFilter.WriteFile(…)` re-using the named result
that already holds `errors.Join(indexWriter.Close(), dataWriter.Close())`: a successful bloom-filter write turns a failed
final flush of index.rio / data.rio into success), `err = x.Close()` after an earlier `err = …` without a test in
between, and a `:=` in an inner scope whose value never reaches the outer `err`. -/
theorem no_error_overwritten : table.all (fun r => r.disp != Disp.overwritten) = true := by decide +kernel

/-- EXACTLY these calls have an error value that is compared with a sentinel and turned into something that is not that
error, with exactly these sentinels; every other row has none.  Why each is right:
* an input of the merge that answers `sstables.Done` is exhausted: the heap is told `pq.Done`, the heap drops that input
  (`init`, `Next`: only `pq.Done`), and `Merge` / `MergeCompactionIterator.Next` / `MergeCompact` end on the heap's
  `pq.Done` / the iterator's `sstables.Done`;
* the table iterators end on `skiplist.Done` of the KEY iterator (the index decides how many records there are);
* `SuperSSTableReader.Get` asks the next older table on `NotFound`;
* the memstore flush ends on `skiplist.Done`;
* WAL replay: `io.EOF` ends a file; `io.ErrUnexpectedEOF` (and an EOF inside the header, on Open) is tolerated — the source
  guards it with `lastFile`, the torn tail of the file that was being written when the process died (C07, C13).
NOT in the list, hence excluded: translating `io.EOF` of the DATA reader of a full-scan iterator into `Done` (C11-m3: the
index announces more records, a short data file would end the input silently and the shortened merge output would replace
its inputs); treating any error of an input's first `Next()` like exhaustion; narrowing or widening the replay's tolerance
(C07-m4 / C10-m4 remove `io.EOF` from the Open case: a zero-length last WAL file makes the database unopenable). -/
theorem translated_only_expected_sentinels :
    (table.filter (fun r => r.disp == Disp.translated)).map (fun r => (r.fn, r.callee, r.sentinels)) =
      [("SSTableMergeIteratorContext.Next", "s.iterator.Next", ["sstables.Done"]),
       ("SSTableMerger.Merge", "pqq.Next", ["pq.Done"]),
       ("MergeCompactionIterator.Next", "m.pq.Next", ["pq.Done"]),
       ("SSTableMerger.MergeCompact", "iterator.Next", ["sstables.Done"]),
       ("SSTableIterator.Next", "it.keyIterator.Next", ["skiplist.Done"]),
       ("V0SSTableFullScanIterator.Next", "it.keyIterator.Next", ["skiplist.Done"]),
       ("SSTableFullScanIterator.Next", "it.keyIterator.Next", ["skiplist.Done"]),
       ("SSTableSimpleWriter.WriteSkipListMap", "it.Next", ["skiplist.Done"]),
       ("SuperSSTableReader.Get", "s.readers[i].Get", ["sstables.NotFound"]),
       ("PriorityQueue.init", "pq.fillNext", ["pq.Done"]),
       ("PriorityQueue.Next", "pq.fillNext", ["pq.Done"]),
       ("memstore.flushMemstore", "it.Next", ["skiplist.Done"]),
       ("Replayer.replayFile", "reader.Open", ["io.EOF", "io.ErrUnexpectedEOF"]),
       ("Replayer.replayFile", "reader.ReadNext", ["io.EOF", "io.ErrUnexpectedEOF"])] ∧
    table.all (fun r => r.disp == Disp.translated || r.sentinels.isEmpty) = true := by decide +kernel

/-- The value reads of the three table iterators (`getValueAtOffset`, `dataReader.ReadNext`, `checksumValue`) exist, and
their errors are tested and returned as they are — no sentinel of the data file is given a meaning (C11-m3). -/
theorem data_read_errors_reported_verbatim :
    ((rowsOf "SSTableIterator.Next" ++ rowsOf "V0SSTableFullScanIterator.Next" ++ rowsOf "SSTableFullScanIterator.Next").filter
        (fun r => r.method != "Next")).map (fun r => (r.callee, r.disp, r.sentinels)) =
      [("it.reader.getValueAtOffset", Disp.checkedThenReturn, []),
       ("it.dataReader.ReadNext", Disp.checkedThenReturn, []),
       ("it.dataReader.ReadNext", Disp.checkedThenReturn, []),
       ("checksumValue", Disp.checkedThenReturn, [])] := by decide +kernel

/-- The merge heap: `fillNext` hands the input's error on untouched; `init` and `Next` test it and skip / drop the input
ONLY on `pq.Done`; the constructor tests `init`.  Excludes C11-m1 ("collect the failures of all inputs" into a shadowed
variable: `init` returns nil, the failing input is left out like an exhausted one, the merge "succeeds" without it). -/
theorem heap_reports_input_failures :
    (rowsOf "PriorityQueue.fillNext").map (fun r => (r.callee, r.disp)) = [("item.iterator.Next", Disp.returned)] ∧
    (rowsOf "PriorityQueue.init").map (fun r => (r.callee, r.disp, r.sentinels, r.inLoop)) =
      [("pq.fillNext", Disp.translated, ["pq.Done"], true)] ∧
    (rowsOf "PriorityQueue.Next").map (fun r => (r.callee, r.disp, r.sentinels)) = [("pq.fillNext", Disp.translated, ["pq.Done"])] ∧
    (rowsOf "pq.NewPriorityQueue").map (fun r => (r.callee, r.disp)) = [("q.init", Disp.checkedThenReturn)] := by decide +kernel

/-- Every `Close` on these paths — and this is the complete list of them — is returned, joined into the returned error
(also from a deferred literal: `err = errors.Join(err, x.Close())`) or tested; the ONLY exception are the three closes of
the failed-`Open` clean-up of the table writer (3b4867f; see `no_error_discarded_on_merge_path`: they run only while `Open`
returns its own error, before anything was written).  With the 4 MiB write buffers the final flush inside `Close` carries
almost all bytes of a table, so a dropped `Close` error is a dropped write error.  Excludes `defer writer.Close()`,
`_ = reader.Close()`, a deferred `err = writer.Close()`, and the removal of a close from the path (C11-m4 removes the tested
`writer.Close` of executeCompaction).  New closes of the repairs: the readers of a compaction are closed by a deferred
loop (bfb8835: now registered before they are opened — row order), the flag writer by a deferred joined close
(a7ed007: before its `Open`). -/
theorem close_errors_joined :
    (table.filter (fun r => r.method == "Close")).map (fun r => (r.fn, r.callee, r.inDefer)) =
      [("SSTableStreamWriter.Open", "writer.indexWriter.Close", true),
       ("SSTableStreamWriter.Open", "writer.dataWriter.Close", true),
       ("SSTableStreamWriter.Open", "writer.metaDataFile.Close", true),
       ("SSTableStreamWriter.Close", "writer.indexWriter.Close", false),
       ("SSTableStreamWriter.Close", "writer.dataWriter.Close", false),
       ("SSTableStreamWriter.Close", "writer.metaDataFile.Close", true),
       ("SSTableSimpleWriter.WriteSkipListMap", "writer.streamWriter.Close", true),
       ("SuperSSTableReader.Close", "reader.Close", false),
       ("memstore.flushMemstore", "writer.Close", true),
       ("simpledb.executeCompaction", "writer.Close", true),
       ("simpledb.executeCompaction", "reader.Close", true),
       ("simpledb.executeCompaction", "writer.Close", false),
       ("simpledb.saveCompactionMetadata", "metaWriter.Close", true),
       ("SSTableManager.reflectCompactionResult", "s.allSSTableReaders[i].Close", false),
       ("FileWriter.Close", "w.file.Close", false),
       ("FileWriter.Close", "w.file.Close", false),
       ("FileWriter.Close", "w.file.Close", false),
       ("rproto.Writer.Close", "w.writer.Close", false),
       ("Replayer.replayFile", "reader.Close", true)] ∧
    table.all (fun r => r.method != "Close" || reported r || isFailedOpenCleanup r) = true ∧
    -- bfb8835 / a7ed007: the deferred closes precede, in source order, the calls whose failure they now cover
    ((rowsOf "simpledb.executeCompaction").filter (fun r => r.inLoop)).map (fun r => (r.callee, r.inDefer, r.disp)) =
      [("reader.Close", true, Disp.returned), ("sstables.NewSSTableReader", false, Disp.checkedThenReturn),
       ("reader.Scan", false, Disp.checkedThenReturn)] := by decide +kernel

/-- `executeCompaction` writes the success flag (`saveCompactionMetadata`, once, unconditionally, its error tested) only
after a `writer.Close()` that stands at the top level of the function — not deferred, not in a branch — WHOSE ERROR IS
TESTED AND RETURNED; the deferred close is only the guarded fall-back for the error paths and joins its error.  (That the
top-level close precedes the flag at run time is `C02.Order.flag_after_table_closed`; the source order of two top-level
statements is their execution order.)  Excludes C11-m4: closing the output only in the `defer`, i.e. flagging the
compaction as successful BEFORE the buffers are flushed — the error is still reported, but the next `Open` trusts the flag,
deletes the inputs and installs the truncated table. -/
theorem flag_written_only_after_close_checked :
    let rs := rowsOf "simpledb.executeCompaction"
    (rs.filter (fun r => r.callee == "saveCompactionMetadata")).map (fun r => (plain r, r.disp)) = [(true, Disp.checkedThenReturn)] ∧
    rs.any (fun c => c.callee == "writer.Close" && plain c && c.disp == Disp.checkedThenReturn &&
      rs.all (fun f => f.callee != "saveCompactionMetadata" || c.idx < f.idx)) = true ∧
    (rs.filter (fun r => r.callee == "writer.Close" && r.inDefer)).map (fun r => (r.inBranch, r.disp)) = [(true, Disp.returned)] := by
  decide +kernel

/-- One compaction cycle: the result is installed (`reflectCompactionResult`) only after `executeCompaction`, whose error
is tested and ends the cycle; the merge inside `executeCompaction` and both steps of `saveCompactionMetadata` are tested
too; the close of the flag writer — the step that makes the flag readable — is joined into the returned error on every
path, since a7ed007 also when `Open` of the flag writer fails.  With C11_Stack.compaction_fault_not_installed (model) this
is the "consequently" clause of C11 on the source.  (6dd9211 moved the done signal of the goroutine out of its `defer`; the
rows of `backgroundCompaction` / `flushMemstoreContinuously` — error tested, then `log.Panicf` — are unchanged.) -/
theorem compaction_installed_only_after_execute_checked :
    (rowsOf "simpledb.backgroundCompaction").map (fun r => (r.callee, r.disp)) =
      [("func literal", Disp.checkedThenReturn), ("executeCompaction", Disp.checkedThenReturn),
       ("db.sstableManager.reflectCompactionResult", Disp.checkedThenReturn)] ∧
    ((rowsOf "simpledb.executeCompaction").filter (fun r => r.method == "MergeCompact")).map (fun r => (plain r, r.disp)) =
      [(true, Disp.checkedThenReturn)] ∧
    -- a7ed007: the deferred, joined close of the flag writer is registered BEFORE `Open` (it was after it)
    (rowsOf "simpledb.saveCompactionMetadata").map (fun r => (r.callee, r.disp, r.inDefer)) =
      [("rProto.NewWriter", Disp.checkedThenReturn, false), ("metaWriter.Close", Disp.returned, true),
       ("metaWriter.Open", Disp.checkedThenReturn, false), ("metaWriter.Write", Disp.checkedThenReturn, false)] := by decide +kernel

/-- The flusher: `executeFlush` tests every step (directory, table, WAL removal, re-open); the goroutine tests
`executeFlush` and stops (`log.Panicf`) — a failed flush never removes the WAL file or adds a reader, because each `return
err` precedes them.  Excludes `_ = os.Remove(walPath)`-style "best effort" edits on this path. -/
theorem flush_steps_all_checked :
    (rowsOf "simpledb.executeFlush").map (fun r => (r.callee, r.disp)) =
      [("os.MkdirAll", Disp.checkedThenReturn), ("memStoreToFlush.FlushWithTombstones", Disp.checkedThenReturn),
       ("os.Remove", Disp.checkedThenReturn), ("sstables.NewSSTableReader", Disp.checkedThenReturn)] ∧
    (rowsOf "simpledb.flushMemstoreContinuously").all reported = true ∧
    (rowsOf "MemStore.FlushWithTombstones" ++ rowsOf "MemStore.Flush").all (fun r => r.disp == Disp.returned) = true := by
  decide +kernel

/-- The writers release what they hold where the statement stands: `FileWriter.Close` flushes and closes the file on every
call (only the truncation is conditional; since 855b3b1 the two error branches close the file as well and join its error);
the table writer closes index and data writer where the statements stand — NOT in a `defer` (C02-m2), not in a loop, as
its first two calls, before the bloom filter and the metadata; since 3b4867f each stands behind a condition (the nil check of
that writer: `C02.Order.meta_written_last` has the condition texts), so they are no longer `plain`, and NO other call of
`Close` is.  Excludes C19-m4 (an `if … else if` chain that closes the file only when no truncation was needed: the error
flow stays intact, the descriptor leaks). -/
theorem writer_close_steps_unconditional :
    (rowsOf "FileWriter.Close").map (fun r => (r.callee, plain r)) =
      [("w.bufWriter.Flush", true), ("w.file.Close", false), ("w.file.Truncate", false), ("w.file.Close", false),
       ("w.file.Close", true)] ∧
    (rowsOf "SSTableStreamWriter.Close").map (fun r => (r.callee, r.inDefer, r.inLoop)) =
      [("writer.indexWriter.Close", false, false), ("writer.dataWriter.Close", false, false),
       ("writer.bloomFilter.WriteFile", false, false), ("writer.metaDataFile.Close", true, false),
       ("proto.Marshal", false, false), ("writer.metaDataFile.Write", false, false)] ∧
    (rowsOf "SSTableStreamWriter.Close").all (fun r => r.inBranch) = true ∧
    (rowsOf "FileWriter.WriteSync").map (fun r => (r.callee, plain r)) =
      [("w.Write", true), ("w.bufWriter.Flush", true), ("w.file.Sync", true)] := by decide +kernel

/-- A failed index write rolls the data file back and reports BOTH errors (`errors.Join(err, seekErr)`); the data write
and the checksum are tested before.  Excludes dropping `seekErr` (a failed rollback would leave an orphan record that
shifts every later offset). -/
theorem write_next_reports_rollback_failure :
    ((rowsOf "SSTableStreamWriter.WriteNext").filter (fun r => !dropped r)).map (fun r => (r.callee, r.disp)) =
      [("crc.Write", Disp.checkedThenReturn), ("writer.dataWriter.Write", Disp.checkedThenReturn),
       ("writer.indexWriter.Write", Disp.checkedThenReturn), ("writer.dataWriter.Seek", Disp.returned)] := by decide +kernel

/-- Summary: on the listed paths every error value is reported, or translated from an expected sentinel, or is one of the
four listed harmless discards, or one of the three closes of the failed-`Open` clean-up (3b4867f), where `Open` is already
returning an error. -/
theorem errors_never_absorbed :
    table.all (fun r => reported r || r.disp == Disp.translated ||
      (r.disp == Disp.discarded && allowedDiscards.contains (r.fn, r.callee))) = true := by decide +kernel

end SST.C11.Errors
