/-
C13 (order tie) — asynchronous WAL: the ORDER of logging, memstore update, WAL rotation and hand-off in the Go source
TODAY, over the table tools/orderfacts regenerates from /repo before every proof build (see Props/C02_Order.lean),
and the agreement of the model's `rotateEvs` / `logEvs` (Model/FS.lean) with it.  The prefix property of C13 rests on:
a record is logged before it reaches the memstore; the memstore entry lands in the store that belongs to the WAL file
the record was logged into (upsert BEFORE the rotation); a rotation closes — and thereby writes out — the current file
before the next one exists.
-/
import SST.Spec.Order
namespace SST.C13.Order
open SST SST.OrderSpec SST.Generated.Order SST.FS SST.DBM

theorem listed_functions_found :
    (["DB.PutBytes", "DB.DeleteBytes", "DB.rotateWalAndFlushMemstore", "simpledb.swapMemstore", "Appender.Append",
      "Appender.AppendSync", "Appender.Rotate", "Appender.Close", "wal.checkSizeAndRotate", "wal.setupNextWriter"].all foundFn) = true := by
  decide +kernel

/-- `PutBytes` / `DeleteBytes`: the record is appended to the log (either flavour) before the memstore changes -/
theorem put_logs_before_memstore :
    let p := itemsOf "DB.PutBytes"
    let d := itemsOf "DB.DeleteBytes"
    allBefore .walAppend .memUpsert p = true ∧ allBefore .walAppendSync .memUpsert p = true ∧
    allBefore .walAppend .memDelete d = true ∧ allBefore .walAppendSync .memDelete d = true ∧
    count .memUpsert p = 1 ∧ count .memDelete d = 1 ∧
    condsAround .walAppend [] p = [["simpledb.DB.enableAsyncWAL", "!simpledb.DB.closed", "simpledb.DB.open"]] ∧
    condsAround .walAppendSync [] p = [["else: simpledb.DB.enableAsyncWAL", "!simpledb.DB.closed", "simpledb.DB.open"]] ∧
    condsAround .walAppend [] d = [["simpledb.DB.enableAsyncWAL"]] ∧ condsAround .walAppendSync [] d = [["else: simpledb.DB.enableAsyncWAL"]] := by
  decide +kernel

/-- C13-m2: the accepted write reaches the memstore BEFORE a size-triggered rotation hands that store over — so the
record and its WAL file travel together; the upsert itself is unconditional, the rotation is the last thing the call does -/
theorem put_memstore_before_rotate :
    let p := itemsOf "DB.PutBytes"
    inOrder [.lock, .memUpsert, .memSizeEstimate, .rotateAndHandOff] p = true ∧
    -- the upsert: reached when the two state checks hold, under no other condition; the rotation: when, in addition,
    -- the estimated size exceeds the limit (normal form of `if size > max { return rotate() }` inside a called body)
    pathConds .memUpsert p = [["!simpledb.DB.closed", "simpledb.DB.open"]] ∧
    pathConds .rotateAndHandOff p =
      [["simpledb.DB.memstoreMaxSize < simpledb.DB.memStore.EstimatedSizeInBytes()", "!simpledb.DB.closed",
        "simpledb.DB.open"]] ∧
    lastAmong .rotateAndHandOff [.walAppend, .walAppendSync, .memUpsert, .memDelete] p = true ∧
    noOther p = true ∧ noOther (itemsOf "DB.DeleteBytes") = true := by decide +kernel

/-- everything between taking the lock and the end of the call happens under the database lock (released by `defer`) -/
theorem put_runs_under_lock :
    let p := itemsOf "DB.PutBytes"
    allBefore .lock .walAppend p = true ∧ allBefore .lock .walAppendSync p = true ∧
    acts (deferredBlocks p).flatten = [.unlock] ∧
    acts (deferredBlocks (itemsOf "DB.DeleteBytes")).flatten = [.unlock] ∧ allBefore .lock .walAppend (itemsOf "DB.DeleteBytes") = true := by
  decide +kernel

/-- `rotateWalAndFlushMemstore`: rotate the log, swap the stores, hand the old store and the old file's path over -/
theorem rotate_before_handoff :
    acts (itemsOf "DB.rotateWalAndFlushMemstore") = [.walRotate, .swapMemstore, .chanSendFlush] ∧
    noOther (itemsOf "DB.rotateWalAndFlushMemstore") = true := by decide +kernel

/-- C13-m1: `Appender.Rotate` closes the current writer (which writes out its buffer) BEFORE the next file is set up;
`setupNextWriter` creates the file, then writes its header.  Since a9ebc7d a writer whose `Open` failed is closed again:
that close comes after the `Open`, only under `err != nil` — the fault-free rotation is still create, header, nothing else -/
theorem rotate_closes_before_creating_next :
    acts (itemsOf "Appender.Rotate") = [.closeCurrentWalWriter, .setupNextWriter] ∧
    noOther (itemsOf "Appender.Rotate") = true ∧
    unconditional .closeCurrentWalWriter (itemsOf "Appender.Rotate") = true ∧
    acts (itemsOf "wal.setupNextWriter") = [.walWriterFactory, .openWalWriter, .closeFailedWalWriter] ∧
    unconditional .walWriterFactory (itemsOf "wal.setupNextWriter") = true ∧
    unconditional .openWalWriter (itemsOf "wal.setupNextWriter") = true ∧
    condsAround .closeFailedWalWriter [] (itemsOf "wal.setupNextWriter") = [["errNonNil"]] ∧
    noOther (itemsOf "wal.setupNextWriter") = true := by decide +kernel

/-- the appenders check the size limit first (SimpleDB sets it to MaxUint64: no rotation of its own), then write -/
theorem append_checks_size_then_writes :
    acts (itemsOf "Appender.Append") = [.checkSizeAndRotate, .recWrite] ∧
    acts (itemsOf "Appender.AppendSync") = [.checkSizeAndRotate, .recWriteSync] ∧
    acts (itemsOf "Appender.Close") = [.closeCurrentWalWriter] := by decide +kernel

/-- MODEL = SOURCE, rotation: `rotateEvs` without a pending flush = close the file, create the next, write its header -/
theorem model_rotate_order_matches_source :
    srcKinds .table cfgPut "DB.rotateWalAndFlushMemstore" = some (modelKinds (rotateEvs vOpen).1) ∧
    modelKinds (rotateEvs vOpen).1 = [.walClose, .walCreate, .walHeader] := by decide +kernel

/-- MODEL = SOURCE, asynchronous write path at the granularity of the model: the record enters the buffer and nothing
has to reach the file during the call (drain 0); when the call rotates, the buffer is written out by the close that
precedes the creation of the next file (`drainEvs` then `walClose`, `walCreate`, `walHeader`). -/
theorem model_async_write_order_matches_source :
    (fsStep true {} vOpen { st := .putB (some [1]) (some [2]) false, drain := 0 }).1 = [] ∧
    ((fsStep true {} vOpen { st := .putB (some [1]) (some [2]) true, drain := 0 }).1.map kindOf) =
      [.walTorn, .walAppend, .walClose, .walCreate, .walHeader] ∧
    -- source: Append = buffered write only; Rotate = close (flushes), then the next file
    acts (itemsOf "Appender.Append") = [.checkSizeAndRotate, .recWrite] ∧
    occurs .flushBuffer (itemsOf "FileWriter.Write") = false ∧
    firstIdx .flushBuffer (itemsOf "FileWriter.Close") = some 0 ∧
    acts (itemsOf "Appender.Rotate") = [.closeCurrentWalWriter, .setupNextWriter] := by decide +kernel

/-- the C13 part of `model_order_matches_source` -/
theorem model_order_matches_source :
    srcKinds .table cfgPut "DB.rotateWalAndFlushMemstore" = some (modelKinds (rotateEvs vOpen).1) ∧
    srcKinds .table cfgPut "DB.PutBytes" = some (modelKinds (fsStep false {} vOpen { st := .putB (some [1]) (some [2]) true }).1) := by
  decide +kernel

end SST.C13.Order
