/-
C13 (asynchronous WAL) — the bytes behind the abstract model's volatile queue.

C13's abstract model (SST/Model/FS.lean, `logEvs true`, `drainEvs`) says: an asynchronous Put/Delete is acknowledged
when its record sits in the appender's buffer (`Vol.queue`); a buffer flush writes a prefix of the queue record by
record, possibly cutting one (`walTorn`); closing the file writes everything.  Here the same is derived from the
byte-level appender (SST/Model/Wal.lean: the vendored buffered writer `BufW` with its fill-and-flush / bypass
rules, one `write` event per chunk): at EVERY kill point the file content, seen through the abstraction `absWal`
(SST/Spec/WalAbs.lean), is a prefix of the issued mutations plus at most one torn piece, and every byte-level
event is the abstract event(s) the model uses.  Proofs: SST/Proofs/WalAbs.lean (on top of `C07.bufw_transparent`,
`C07.bufw_flush_boundaries`, `C12.truncate_prefix`).
-/
import SST.Proofs.WalAbs
namespace SST.C13.WalBytes
open SST SST.FS SST.WalMut SST.WalAbs Generated
open SST.Proofs.WalMut (MutFits Loggable)
open SST.Proofs.WalAbs (DecodesMut LogOk)

/-- `async_log_prefix`: for EVERY list of logged mutations, EVERY buffer size / maximum file size / lawful
compressor, synchronous or not, and EVERY number `n` of completed file-system calls (the final `Close` included):
the abstraction of the directory exists, is a readable abstract WAL (complete files, then one file that may lack
its header or end in ONE torn piece), and its mutations are a PREFIX `ms.take p` of the issued ones — no holes, no
reordering, nothing that was not issued; after `Close` it holds all of them. -/
theorem async_log_prefix (o : WalOpts) (c : Compression) (cOf : Nat → Compression) (utf8 : Bytes → Bool)
    (hra : ReaderAgrees cOf o c) (hl : LawfulC c) (sync : Bool) (ms : List Mutation) (h : LogOk c ms) (n : Nat) :
    (∃ W p, absWal cOf utf8 (dirAfterN ((walEventsClosed o c (logProg sync ms)).take n)) = some W ∧
      walReadable W = true ∧ walMuts W = ms.take p ∧ p ≤ ms.length) ∧
    (∃ W, absWal cOf utf8 (dirAfterN (walEventsClosed o c (logProg sync ms))) = some W ∧
      walReadable W = true ∧ walMuts W = ms) :=
  Proofs.WalAbs.async_log_prefix o c cOf utf8 hra hl sync ms h n

/-- the byte-level events of an asynchronous log ARE abstract WAL events: the abstraction commutes with every
prefix of the run (`walAppend` exactly when a record becomes complete in the file, `walTorn` exactly when a piece
of a further record is in the file afterwards) -/
theorem async_events_refine (o : WalOpts) (c : Compression) (cOf : Nat → Compression) (utf8 : Bytes → Bool)
    (hra : ReaderAgrees cOf o c) (hl : LawfulC c) (ms : List Mutation) (h : LogOk c ms) (n : Nat) :
    absWal cOf utf8 (dirAfterN ((walEventsClosed o c (logProg false ms)).take n)) =
      some (applyEvs disk0 (mapEvs cOf utf8 [] ((walEventsClosed o c (logProg false ms)).take n))).wal := by
  obtain ⟨f1, _, f3, _, _⟩ := Proofs.WalAbs.logProg_facts o c utf8 false ms h
  exact Proofs.WalAbs.appender_events_refine o c cOf utf8 hra hl _ f1 f3 n

/-- the volatile queue, in bytes: after any program (appender still open) the directory holds the rotated files
completely, and the current file's bytes followed by the bytes in the write buffer are exactly its logical
content — the buffer is the not-yet-written SUFFIX (records, the first possibly in part) -/
theorem disk_plus_buffer (o : WalOpts) (c : Compression) (cOf : Nat → Compression)
    (hra : ReaderAgrees cOf o c) (hl : LawfulC c) (prog : List WalOp) (hpf : ProgFits c prog) :
    ∃ (full : List (List GoBytes)) (cur : List GoBytes) (D : Bytes),
      (full ++ [cur]).flatten = walRecords o c prog ∧
      dirAfterN (walEvents o c prog) =
        completeDir (fileOf c o.ct (full ++ [cur])) full.length ++ [(full.length, D)] ∧
      D ++ (Wal.run o c prog).1.fw.w.buf = fileBytes c o.ct cur :=
  Proofs.WalAbs.disk_plus_buffer o c cOf hra hl prog hpf

/-! ## non-vacuity: three asynchronous writes through a 24-byte buffer, as SimpleDB configures the log
(`MaximumWalFileSizeBytes(math.MaxUint64)`) -/

def opts : WalOpts := { maxSize := 18446744073709551615, bufSize := 24, ct := 0 }
def muts : List Mutation := [.put [1] [2], .del [], .put [3] [4]]

/-- six byte-level events (create, header, three buffer flushes cutting records, close) … -/
example : (walEventsClosed opts none (logProg false muts)).length = 6 := by decide +kernel

/-- … are these abstract events: every record is preceded by its torn piece, as in `FS.drainEvs` -/
example : mapEvs (fun _ => none) (fun _ => true) [] (walEventsClosed opts none (logProg false muts)) =
    [.walCreate 0, .walHeader 0, .walAppend 0 (.put [1] [2]), .walTorn 0, .walAppend 0 (.del []), .walTorn 0,
     .walAppend 0 (.put [3] [4]), .walClose 0] := by decide +kernel

/-- the crash image after four events: two records and a torn piece; after all events: everything -/
example : absWal (fun _ => none) (fun _ => true)
      (dirAfterN ((walEventsClosed opts none (logProg false muts)).take 4)) =
    some [{ num := 0, recs := [.put [1] [2], .del []], torn := true }] := by decide +kernel
example : absWal (fun _ => none) (fun _ => true) (dirAfterN (walEventsClosed opts none (logProg false muts))) =
    some [{ num := 0, recs := muts }] := by decide +kernel

/-- when the three asynchronous calls have returned, two records and a piece of the third have left the buffer:
acknowledged ≠ logged, a kill now loses the last write (a suffix), nothing else -/
example : absWal (fun _ => none) (fun _ => true) (dirAfterN (walEvents opts none (logProg false muts))) =
    some [{ num := 0, recs := [.put [1] [2], .del []], torn := true }] := by decide +kernel

end SST.C13.WalBytes
