/-
C12 for the LEGACY recordio file versions 1, 2 and 3 — a cut file yields only genuine records, in order;
and what does NOT hold there: the old record headers carry no checksum, so a damaged length field is not
detected (concrete counterexamples, with the version 4 contrast).
-/
import SST.Proofs.RecordIOLegacyDamage
namespace SST.C12.Legacy
open SST Generated SST.Legacy SST.Buf

/-! ## what holds: cut files -/

/-- A proper prefix of ONE written record never reads as a record, in any legacy version.
Go: `FileReader.ReadNext` on a file of version 1, 2 or 3 whose last record is incomplete (cut anywhere: inside
the marker, at a field boundary, inside a length varint / fixed-width field, inside the payload, or a version 3
nil record whose length fields are missing) returns an error — never a shortened payload.  The zero-tail rule
of `readNextV2/V3` (magic mismatch + only zeros left = EOF) never fires on a cut record: the error is `io.EOF`
(cut at a field boundary) or `io.ErrUnexpectedEOF`, never the magic-number mismatch.  NOTE the `io.EOF` case: a
legacy file cut exactly at a field boundary of its last record ends like a complete file (the same holds for
version 4, `Proofs.truncate_prefix_err`). -/
theorem cut_record_fails (en : Bool) (v : Nat) (hv : IsLegacy v) (c : Compression) (r : GoBytes)
    (hf : FitsL c r) (m : Nat) (hm : m < (encRecordL v c r).length) :
    readNextL en v c ((encRecordL v c r).take m) = .error .eof ∨
    readNextL en v c ((encRecordL v c r).take m) = .error .unexpectedEof :=
  Proofs.Legacy.readNextL_trunc_kind en v hv c r hf m hm

/-- A legacy file (version 1, 2 or 3) cut off at ANY length `n` reads as exactly the records completely
contained in the first `n` bytes, in order and as the version hands them back (`backL`: versions 1 and 2 have no
nil records), followed by end-of-file or an error — never a record that was not written or a shortened payload.
Go: `NewFileReaderWithPath` + `Open` + `ReadNext` until the first error, on the first `n` bytes of a file that a
legacy writer produced from `rs`; `comps` is the table compression code → compressor, `en` says whether that
compressor's `Decompress` returns nil for an empty result.  `n < 8` (cut inside the file header): `Open` fails and
no record is returned. -/
theorem legacy_truncate_prefix (en : Bool) (comps : Nat → Compression) (v : Nat) (hv : IsLegacy v)
    (c : Compression) (ct : Nat) (rs : List GoBytes) (hl : LawfulC c) (hf : ∀ r ∈ rs, FitsL c r)
    (hc : comps ct = c) (hct : ct ≤ maxCompression) (n : Nat) :
    ∃ e, openReadAllL en comps ((encFileL v c ct rs).take n) =
      ((rs.take (wholeInL v c rs n)).map (backL en v c), e) :=
  Proofs.Legacy.legacy_truncate_prefix en comps v hv c ct rs hl hf hc hct n

/-- `legacy_truncate_prefix` with the error kind: the read of a cut legacy file ends with `io.EOF` or
`io.ErrUnexpectedEOF`, nothing else (no magic-number mismatch, no decompression error, no panic-like `other`). -/
theorem legacy_truncate_prefix_err (en : Bool) (comps : Nat → Compression) (v : Nat) (hv : IsLegacy v)
    (c : Compression) (ct : Nat) (rs : List GoBytes) (hl : LawfulC c) (hf : ∀ r ∈ rs, FitsL c r)
    (hc : comps ct = c) (hct : ct ≤ maxCompression) (n : Nat) :
    ∃ e, (e = .eof ∨ e = .unexpectedEof) ∧ openReadAllL en comps ((encFileL v c ct rs).take n) =
      ((rs.take (wholeInL v c rs n)).map (backL en v c), e) :=
  Proofs.Legacy.legacy_truncate_prefix_err en comps v hv c ct rs hl hf hc hct n

/-- The random-access reader on a cut legacy file: record `k` is returned iff it is completely contained in
what is left.  Go: `MMapReader.ReadNextAt(offset of record k)` on the first `n` bytes of the file
(`readNextAtV1/V2/V3`): the written record if its last byte is still there, an error otherwise (also when only the
31-byte header window or the payload is short). -/
theorem legacy_truncate_readAt (en : Bool) (v : Nat) (hv : IsLegacy v) (c : Compression) (ct : Nat)
    (rs : List GoBytes) (k : Nat) (hk : k < rs.length) (hl : LawfulC c) (hf : ∀ r ∈ rs, FitsL c r) (n : Nat) :
    (offsetOfL v c rs (k + 1) ≤ n →
      readAtL en v c ((encFileL v c ct rs).take n) (offsetOfL v c rs k) = .ok (backL en v c rs[k])) ∧
    (n < offsetOfL v c rs (k + 1) →
      ∃ e, readAtL en v c ((encFileL v c ct rs).take n) (offsetOfL v c rs k) = .error e) :=
  Proofs.Legacy.legacy_truncate_readAt en v hv c ct rs k hk hl hf n

/-! ## what does NOT hold: no header checksum, a damaged length field is not detected

RECORDED LIMITATION of the file versions 1–3 (not a regression: version 4 added the header checksum, see
`damaged_length_detected_v4`).  One altered byte of a record's length field makes the legacy readers hand out, as
a genuine record, a payload nobody wrote. -/

/-- the version 2 example file: two records `[1,2,3]` and `[4]`, no compression -/
theorem example_file_v2 : encFileV2 none 0 [some [1, 2, 3], some [4]] =
    [2, 0, 0, 0, 0, 0, 0, 0, 0x91, 0x8d, 0x4c, 3, 0, 1, 2, 3, 0x91, 0x8d, 0x4c, 1, 0, 4] := by
  decide +kernel

/-- Version 2, the length byte of record 0 (file position 11) changed from 3 to 2: `ReadNext` returns the
SHORTENED payload `[1,2]` as a record, and only the NEXT call fails (magic number mismatch at the leftover `3`). -/
theorem damaged_length_shortens_payload_v2 :
    openReadAllL false (fun _ => none) ((encFileV2 none 0 [some [1, 2, 3], some [4]]).set 11 2) =
      ([some [1, 2]], .magic) := by
  decide +kernel

/-- Version 2, the same byte changed to 8: `ReadNext` returns ONE record, the payload of record 0 glued to the
header of record 1, and then reports a CLEAN end of file (the lone leftover byte `4` is a magic mismatch with
nothing but — zero — zeros behind it, which the zero-tail rule of `readNextV2` takes for the end of the file):
the damage is not noticed at all. -/
theorem damaged_length_swallows_next_v2 :
    openReadAllL false (fun _ => none) ((encFileV2 none 0 [some [1, 2, 3], some [4]]).set 11 8) =
      ([some [1, 2, 3, 0x91, 0x8d, 0x4c, 1, 0]], .eof) := by
  decide +kernel

/-- the random-access reader of version 2 is fooled in the same way -/
theorem damaged_length_readAt_v2 :
    readAtL false 2 none ((encFileV2 none 0 [some [1, 2, 3], some [4]]).set 11 2) 8 = .ok (some [1, 2]) ∧
    readAtL false 2 none ((encFileV2 none 0 [some [1, 2, 3], some [4]]).set 11 8) 8 =
      .ok (some [1, 2, 3, 0x91, 0x8d, 0x4c, 1, 0]) := by
  decide +kernel

/-- the version 1 example file: 20-byte record headers (le32 marker, le64 length, le64 compressed length) -/
theorem example_file_v1 : encFileV1 none 0 [some [1, 2, 3], some [4]] =
    [1, 0, 0, 0, 0, 0, 0, 0,
     0x91, 0x06, 0x13, 0, 3, 0, 0, 0, 0, 0, 0, 0, 0, 0, 0, 0, 0, 0, 0, 0, 1, 2, 3,
     0x91, 0x06, 0x13, 0, 1, 0, 0, 0, 0, 0, 0, 0, 0, 0, 0, 0, 0, 0, 0, 0, 4] := by
  decide +kernel

/-- Version 1, the low byte of the le64 length field of record 0 (file position 12) changed from 3 to 2: the
shortened payload `[1,2]` is returned as a record, then a magic number mismatch. -/
theorem damaged_length_shortens_payload_v1 :
    openReadAllL false (fun _ => none) ((encFileV1 none 0 [some [1, 2, 3], some [4]]).set 12 2) =
      ([some [1, 2]], .magic) := by
  decide +kernel

/-- Version 1, the same byte changed to 8: one record made of the payload of record 0 and the first five header
bytes of record 1, then an unexpected EOF (the leftover 16 bytes are too short for a version 1 header). -/
theorem damaged_length_swallows_next_v1 :
    openReadAllL false (fun _ => none) ((encFileV1 none 0 [some [1, 2, 3], some [4]]).set 12 8) =
      ([some [1, 2, 3, 0x91, 0x06, 0x13, 0, 1]], .unexpectedEof) := by
  decide +kernel

/-- the version 3 example file: marker, nil flag, length, compressed length, payload -/
theorem example_file_v3 : encFileV3 none 0 [some [1, 2, 3], some [4]] =
    [3, 0, 0, 0, 0, 0, 0, 0, 0x91, 0x8d, 0x4c, 0, 3, 0, 1, 2, 3, 0x91, 0x8d, 0x4c, 0, 1, 0, 4] := by
  decide +kernel

/-- Version 3, the length byte of record 0 (file position 12, behind the nil flag) changed from 3 to 2: the
shortened payload is returned as a record, then a magic number mismatch. -/
theorem damaged_length_shortens_payload_v3 :
    openReadAllL false (fun _ => none) ((encFileV3 none 0 [some [1, 2, 3], some [4]]).set 12 2) =
      ([some [1, 2]], .magic) := by
  decide +kernel

/-- Version 3, the same byte changed to 8: payload of record 0 glued to the first five header bytes of record 1,
then a magic number mismatch. -/
theorem damaged_length_swallows_next_v3 :
    openReadAllL false (fun _ => none) ((encFileV3 none 0 [some [1, 2, 3], some [4]]).set 12 8) =
      ([some [1, 2, 3, 0x91, 0x8d, 0x4c, 0, 1]], .magic) := by
  decide +kernel

/-- THE CONTRAST: the same records in a version 4 file, the same alteration of the length byte of record 0 (file
position 8 + 4 = 12: marker, nil flag, then the length): the header checksum does not match, NO record is handed
out.  The undetected damage above is a limitation of the old formats, not of the current one. -/
theorem damaged_length_detected_v4 :
    openReadAll none ((fileHeader 4 0 ++ encAll none [some [1, 2, 3], some [4]]).set 12 2) = ([], .headerCrc) ∧
    openReadAll none ((fileHeader 4 0 ++ encAll none [some [1, 2, 3], some [4]]).set 12 8) = ([], .headerCrc) := by
  decide +kernel

/-! ## non-vacuity -/

example : IsLegacy 1 ∧ IsLegacy 2 ∧ IsLegacy 3 ∧ ¬ IsLegacy 4 := by decide

example : FitsL none (some [1, 2, 3]) := by decide

example : FitsL none none := by decide

/-- the undamaged example files read back completely -/
example : openReadAllL false (fun _ => none) (encFileV2 none 0 [some [1, 2, 3], some [4]]) =
    ([some [1, 2, 3], some [4]], .eof) := by decide +kernel

/-- 16 bytes of the version 2 example file hold exactly record 0 (8 + 8 bytes), 15 bytes hold none -/
example : wholeInL 2 none [some [1, 2, 3], some [4]] 16 = 1 ∧ wholeInL 2 none [some [1, 2, 3], some [4]] 15 = 0 := by
  decide +kernel

/-- a concrete cut, evaluated: 18 bytes = record 0 and two marker bytes of record 1 -/
example : openReadAllL false (fun _ => none) ((encFileV2 none 0 [some [1, 2, 3], some [4]]).take 18) =
    ([some [1, 2, 3]], .unexpectedEof) := by decide +kernel

/-- a cut inside record 0 (inside its payload): nothing is returned -/
example : openReadAllL false (fun _ => none) ((encFileV2 none 0 [some [1, 2, 3], some [4]]).take 15) =
    ([], .unexpectedEof) := by decide +kernel

/-- version 3, a cut NIL record (marker and nil flag left, length fields missing) is not handed out -/
example : openReadAllL false (fun _ => none) ((encFileV3 none 0 [some [1, 2, 3], none, some []]).take 21) =
    ([some [1, 2, 3]], .eof) := by decide +kernel

/-- version 1 hands nil back as the empty record; the last record (empty payload) is cut inside its header -/
example : openReadAllL true (fun _ => none) ((encFileV1 none 0 [some [1, 2, 3], none, some []]).take 60) =
    ([some [1, 2, 3], some []], .unexpectedEof) := by decide +kernel

/-- the hypotheses of `legacy_truncate_prefix` are satisfiable: the theorem instantiated on the example file -/
example : ∃ e, openReadAllL false (fun _ => none) ((encFileL 2 none 0 [some [1, 2, 3], some [4]]).take 18) =
    ([some [1, 2, 3]], e) := by
  have h := legacy_truncate_prefix false (fun _ => none) 2 (by decide) none 0 [some [1, 2, 3], some [4]]
    trivial (by decide) rfl (by decide) 18
  have hw : wholeInL 2 none [some [1, 2, 3], some [4]] 18 = 1 := by decide +kernel
  rw [hw] at h
  exact h

/-- ... and of `legacy_truncate_readAt`: record 1 of the example file, cut one byte short -/
example : ∃ e, readAtL false 2 none ((encFileL 2 none 0 [some [1, 2, 3], some [4]]).take 21) 16 = .error e := by
  have h := (legacy_truncate_readAt false 2 (by decide) none 0 [some [1, 2, 3], some [4]] 1 (by decide)
    trivial (by decide) 21).2
  have ho : offsetOfL 2 none [some [1, 2, 3], some [4]] 1 = 16 := by decide +kernel
  have ho2 : offsetOfL 2 none [some [1, 2, 3], some [4]] 2 = 22 := by decide +kernel
  rw [ho, ho2] at h
  exact h (by decide)

end SST.C12.Legacy
