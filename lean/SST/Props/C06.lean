/-
C06 — Compaction never changes what a key reads as; deleted keys stay deleted.
-/
import SST.Proofs.DB
namespace SST.C06
open SST SST.DBM

/-- `floodFill` as coded computes "everything between the first and the last selected table" -/
theorem floodFill_spec (a : List Bool) : floodFill a = fillBetween a :=
  Proofs.DB.floodFill_spec a

/-- whichever tables the size limit and tombstone ratio pick, the selected subset is a gap-free run in age order -/
theorem selection_contiguous (a : List Bool) : Contiguous (floodFill a) :=
  Proofs.DB.selection_contiguous a

/-- one compaction cycle — for any reachable state, any table sizes (hence any selectable subset, including
subsets that exclude the oldest table) and any options — changes the result of Get for no key -/
theorem compact_preserves_reads (steps : List Step) (sizes : List Nat) (k : Key) :
    let s := runState {} steps
    abs (compactStep s sizes).1 k = abs s k ∧ get (compactStep s sizes).1 k = get s k :=
  Proofs.DB.compact_preserves_reads steps sizes k

/-- … and keeps doing so after later flushes, compactions and restarts: the whole-history statement is
`C01.db_refines_map`, of which "a deleted key never becomes readable again" is the special case below. -/
theorem deleted_stays_deleted (pre post : List Step) (k : Key)
    (hu : (runState {} pre).isOpen = true ∧ (runState {} pre).closed = false)
    (hpost : ∀ st ∈ post, match st with
      | .rotate | .flush | .compact _ => True
      | _ => False) :
    get (runState {} (pre ++ [.delS k] ++ post)) k = .notFound :=
  Proofs.DB.deleted_stays_deleted pre post k hu hpost

/-- non-vacuity: a lineage whose oldest table is excluded by the size limit while a newer table holds a tombstone -/
example : let s := runState {} [.reopen {threshold := 0, maxSize := 100, ratioNum := 1, ratioDen := 1},
      .putS [1] [9, 9] false, .rotate, .flush, .delS [1], .rotate, .flush, .putS [2] [7] false, .rotate, .flush]
    (compactStep s [1000, 10, 10]).2 = [2, 3] ∧ get (compactStep s [1000, 10, 10]).1 [1] = .notFound := by
  decide

end SST.C06
