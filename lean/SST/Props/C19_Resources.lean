/-
C19 (resource-flow tie) — the STATIC half of "released by Close".  `Props/C19.lean` proves the bookkeeping of the
hand-written handle model and the `handles` stream counts /proc/self/fd, /proc/self/maps and goroutines on sampled runs;
both are silent about the ERROR paths of the library ("a failing Open/Close … outside the layer model").  Here the
quantifier is the SOURCE: `SST.Generated.ResFlow.acquisitions` / `releases` are regenerated from /repo by tools/resfacts
(go/types) before every proof build:
  * one row per call that hands out something that has to be given back (a result type with `Close()`, a `time.Ticker`, a
    `go` statement, a call that leaves resources behind in the receiver / a parameter) in EVERY function of 28 files, with
    what becomes of the value on every path of the enclosing function (worst over the paths);
  * for every `Close` method (and `reflectCompactionResult`, `Appender.Rotate`) one row per OWNED field of the receiver.
The theorems below are decided over those finite tables, so each is a statement about the code as it is today (up to the
tool's classification; vocabulary in the header of tools/resfacts/main.go), not a sample.  Line numbers are carried in the
table for the reader and never used here.

Every text the theorems quote is a go/types IDENTITY (tools/resfacts/canon.go), not source text: a callee is `pkg.Func` or
`<type of the root variable>.<field path>.Method` with packages by module-relative / import path (`recordio/proto.NewReader`
whatever the import is called, `sstables.SSTableStreamWriter.Open` for `writer.Open()` whatever the local is called); a
place is the field path under the TYPE of its root (`sstables.SSTableStreamWriter.indexWriter`), a local that merely receives
a value is named by its type, or by the field of the local object it is put into (`sstables.SSTableReader.index`);
conditions are in a normal form (`errNonNil`, `nonNil(x)` / `isNil(x)`, comparisons by == and <, a local with one
definition replaced by what defines it, an else branch as the negated condition); the failing step of an error return is the
CALL WHOSE ERROR THE RETURN REPORTS (followed through `fmt.Errorf("…%w", err)` and the error variable's reaching
definition), however the `if` around the `return` is spelled, listed in the order in which the calls stand in the source.
Renaming a local / receiver / parameter / import alias / private function, inverting an if / else, re-wording a message,
adding a log line or wrapping an error with %w does not change a row; renaming a FIELD or an exported function that a theorem
names does.

The first version of this file carried ten FINDINGs — genuine leaks on error paths, each reproduced on the real code by the
tests in tools/resfacts/findings/ — in explicit exception lists, "so that the theorems hold on the unchanged tree and SHRINK
when the code is repaired".  They have been repaired (F1 ef70dba, F2 5d579b7, F3 3b4867f, F4 a9ebc7d + a7ed007, F5 8cb5d77,
F6 2af272a, F7 edfc7e7, F8 b2bab73, F9 bfb8835, F10 9faa0b1; 6dd9211 moved the goroutines' done signal out of their `defer`)
and the lists have shrunk accordingly: NO row of the exception lists below is a known leak any more.  What is left in them
is (a) rows the tool keeps because its walk is INTRAPROCEDURAL (it does not know that a callee which failed has already given
back what it had opened, or that the caller gives back what this function stored) and (b) returns guarded by internal
invariants — each with its reason.  The repaired rows are pinned with their NEW dispositions in
`failed_constructors_give_back_what_they_opened`, `scanners_registered_with_their_reader`, `compaction_closes_what_it_opened`,
`db_close_joins_goroutines_then_closes_wal_and_readers`, so that reversing a repair makes a named theorem fail.
tools/resfacts/validate.sh replays the seeded changes of this kind (C19-m1…m6, C11-m4, C02-m2), three hand-written
regressions and the reversed repairs on scratch overlays and shows which theorem stops building.
-/
import SST.Generated.ResFlow
namespace SST.C19.Resources
open SST.Generated.ResFlow

def acqOf (f : String) : List Acq := acquisitions.filter (fun r => r.fn == f)
def relOf (f : String) : List Rel := releases.filter (fun r => r.fn == f)

/-- the same rows, in any order (rows that stand in the two arms of one conditional have no order worth stating: inverting
an `if … else` swaps them) -/
def sameRows {α : Type} [DecidableEq α] (a b : List α) : Bool :=
  a.length == b.length && a.all (b.contains ·) && b.all (a.contains ·)

def isUnknown : Disp → Bool
  | .unknown _ => true
  | _ => false

def isStored : Disp → Bool
  | .storedIn _ => true
  | _ => false

/-- ownership leaves the function in an orderly way -/
def handedOver : Disp → Bool
  | .returned => true
  | .handedTo _ => true
  | .storedIn _ => true
  | .joinedVia _ => true
  | _ => false

def isNotClosed : RDisp → Bool
  | .notClosed _ => true
  | _ => false

/-- The functions the statements below speak about exist, every examined file exists, nothing listed was lost: a renamed or
removed function would otherwise silently take its rows — and the obligations about them — out of the tables. -/
theorem listed_functions_found :
    files.all (·.2) = true ∧ files.length = 28 ∧
    functions.all (·.found) = true ∧
    ["recordio.NewFileReader", "recordio.NewFileWriter", "recordio.NewMemoryMappedReaderWithPath",
     "BufferedIOFactory.CreateNewReader", "BufferedIOFactory.CreateNewWriter", "DirectIOFactory.CreateNewReader",
     "DirectIOFactory.CreateNewWriter", "FileReader.Close", "MMapReader.Close", "FileWriter.Close",
     "rproto.NewReader", "rproto.NewWriter", "rproto.NewMMapProtoReaderWithPath", "rproto.Writer.Close",
     "sstables.NewSSTableReader", "SSTableReader.Scan", "SSTableReader.Close", "sstables.readMetaDataIfExists",
     "SSTableStreamWriter.Open", "SSTableStreamWriter.Close", "SSTableSimpleWriter.WriteSkipListMap", "SuperSSTableReader.Close",
     "DiskIndexLoader.Load", "DiskKeyIndex.Close", "SliceKeyIndexLoader.Load", "MapKeyIndexLoader.Load", "SkipListIndexLoader.Load",
     "memstore.flushMemstore", "wal.NewAppender", "wal.setupNextWriter", "Appender.Rotate", "Appender.Close",
     "Replayer.replayFile", "wal.NewWriteAheadLog", "DB.Open", "DB.Close", "simpledb.executeFlush",
     "simpledb.executeCompaction", "simpledb.saveCompactionMetadata", "SSTableManager.reflectCompactionResult",
     "SSTableManager.addReader", "DB.repairCompactions", "DB.reconstructSSTables", "DB.replayAndSetupWriteAheadLog",
     "simpledb.flushMemstoreContinuously", "simpledb.backgroundCompaction"].all
        (fun n => functions.any (fun f => f.name == n && f.found)) = true ∧
    functions.all (fun f => (acqOf f.name).length == f.nAcq && (relOf f.name).length == f.nRel) = true := by decide +kernel

/-- The tool could classify every acquisition, and NO acquisition is lost on a path that reports success: no result of an
acquiring call is dropped or assigned to `_`, no variable holding an open resource is overwritten or goes out of scope, no
plain `return` leaves one behind, none is handed to a goroutine, stored in something the walk cannot follow, or sits behind
a `goto`.  Excludes C19-m6 (the deferred `reader.Close()` of WAL replay moved behind the `Open` error handling: the
tolerated short last file then returns nil with the descriptor open — `neverClosed`) and R3 (compaction inputs never
closed). -/
theorem every_acquisition_accounted_for :
    acquisitions.all (fun r => !isUnknown r.disp && r.disp != Disp.neverClosed) = true := by decide +kernel

/-- The explicit exceptions of `no_leak_on_error_paths`: (function, acquiring call, the failing steps whose error return
leaves the resource open). -/
def allowedErrorPathLeaks : List (String × String × List String) :=
  [ -- NOT a leak since 3b4867f, kept by the tool because its walk is intraprocedural: `NewSSTableStreamWriter` opens nothing
    -- (the tool lists it because the result type has `Close()`), and a `writer.Open()` that fails has closed whatever it had
    -- opened before it returns (`failed_constructors_give_back_what_they_opened`: every resource `Open` stores is released by
    -- its deferred clean-up under `err != nil`, no failing step is left after a store).  The callers still return without
    -- `writer.Close()` on that path — there is nothing left to close (reproductions F3 / F3b pass on the current tree).
    ("memstore.flushMemstore", "sstables.NewSSTableStreamWriter", ["sstables.SSTableStreamWriter.Open"]),
    ("simpledb.executeCompaction", "sstables.NewSSTableStreamWriter", ["sstables.SSTableStreamWriter.Open"]),
    -- internal invariant (the replacement path is one of the inputs — `i < 0` for the index of the replacement path among
    -- the current readers): not reachable
    ("SSTableManager.reflectCompactionResult", "sstables.NewSSTableReader",
      ["simpledb.indexOfReader(simpledb.SSTableManager.allSSTableReaders, simpledb/proto.CompactionMetadata.ReplacementPath) < 0"]) ]

/-- EXACTLY these acquisitions are reported as left open by an error return, at exactly these failing steps — none of them a
real leak (reasons at the list; it had 16 entries, 13 of them genuine, before the repairs ef70dba, 8cb5d77, 5d579b7, 3b4867f,
a9ebc7d, a7ed007, bfb8835, 9faa0b1); every other acquisition of the 28 files is closed, handed over or stored on every error
path between its creation and its release / hand-over.
Excludes: any of the repaired shapes coming back (a `defer x.Close()` registered after the fallible `x.Open()`; a deferred
close of the compaction inputs registered after the loop that opens them; a constructor that opens a second resource and
fails without closing the first), an `if err != nil { return … }` added between a constructor and its `defer x.Close()`, a `defer` moved below a
fallible step (C19-m6 on its error branch), a new fallible step in a constructor after a file was opened, a `Close` dropped
from an error branch (the two error branches of `FileWriter.Close` since 855b3b1 are in `close_methods_release_every_owned_field`). -/
theorem no_leak_on_error_paths :
    (acquisitions.filter (fun r => r.disp == Disp.leakedOnErrorPath)).map (fun r => (r.fn, r.callee, r.leakOn)) =
      allowedErrorPathLeaks := by decide +kernel

/-- Owners that can be left half-built: a resource was stored in the receiver (or in state reached through a parameter) and
a LATER step of the same function returns an error.  Exactly these, none of them a leak (the list had 17 entries; the four
rows of `SSTableStreamWriter.Open` / `DB.Open` went with 3b4867f / edfc7e7, whose deferred clean-ups the tool sees):
* `SSTableReader.Scan`: the scanner is registered first, `reader.Close()` releases it whatever `index.Iterator()` says;
* `WriteSkipListMap`: the failing step is `streamWriter.Open()` ITSELF, which since 3b4867f closes what it opened before it
  returns (`failed_constructors_give_back_what_they_opened`) — the tool is intraprocedural and only knows that `Open` stores;
* the WAL appender rows: a failed rotation leaves the CLOSED previous writer in place (and since a9ebc7d no half-opened next
  one: `setupNextWriter` below), the caller gets the error;
* flusher / compactor: the goroutine stops with `log.Panicf`, which since 6dd9211 really stops the process (the done signal
  is no longer a deferred send in the way of the panic: `db_open_starts_what_close_joins`, `C02.Order.done_signal_not_on_error_path`);
* `reflectCompactionResult` (`readerIndex < 0`: the index of a compacted input — an element of the metadata's path list —
  among the current readers): internal invariant;
* `DB.reconstructSSTables` / `DB.replayAndSetupWriteAheadLog`: tables loaded (or flushed from the replayed WAL) before a later
  step fails stay in the manager WHEN THESE FUNCTIONS RETURN — their only caller `DB.Open` closes and forgets them in its
  deferred clean-up under `err != nil` (edfc7e7; the `DB.Open` rows in `failed_constructors_give_back_what_they_opened`);
  the rows remain because the walk is intraprocedural (reproduction F7 passes on the current tree). -/
theorem half_built_owners :
    (acquisitions.filter (fun r => !r.errAfterStore.isEmpty)).map (fun r => (r.fn, r.callee, r.errAfterStore)) =
      [("SSTableReader.Scan", "recordio/proto.NewReader", ["sstables.SSTableReader.index.Iterator"]),
       ("SSTableReader.Scan", "recordio.NewFileReader", ["sstables.SSTableReader.index.Iterator"]),
       ("SSTableSimpleWriter.WriteSkipListMap", "sstables.SSTableSimpleWriter.streamWriter.Open",
         ["sstables.SSTableSimpleWriter.streamWriter.Open"]),
       ("Appender.Append", "wal.checkSizeAndRotate", ["wal.checkSizeAndRotate", "wal.Appender.currentWriter.Write"]),
       ("Appender.AppendSync", "wal.checkSizeAndRotate", ["wal.checkSizeAndRotate", "wal.Appender.currentWriter.WriteSync"]),
       ("Appender.Rotate", "wal.setupNextWriter", ["wal.setupNextWriter"]),
       ("wal.checkSizeAndRotate", "wal.Appender.Rotate", ["wal.Appender.Rotate"]),
       ("simpledb.flushMemstoreContinuously", "simpledb.executeFlush", ["simpledb.executeFlush"]),
       ("simpledb.backgroundCompaction", "simpledb.DB.sstableManager.reflectCompactionResult",
         ["simpledb.executeCompaction", "simpledb.DB.sstableManager.reflectCompactionResult"]),
       ("SSTableManager.reflectCompactionResult", "sstables.NewSSTableReader",
         ["simpledb.indexOfReader(simpledb.SSTableManager.allSSTableReaders, elem(simpledb/proto.CompactionMetadata.SstablePaths)) < 0"]),
       ("DB.reconstructSSTables", "sstables.NewSSTableReader",
         ["strconv.ParseUint", "simpledb.removeUnfinishedTable", "sstables.NewSSTableReader"]),
       ("DB.replayAndSetupWriteAheadLog", "simpledb.executeFlush",
         ["simpledb.executeFlush", "os.ReadDir", "os.RemoveAll", "os.MkdirAll", "wal.NewWriteAheadLog"])] := by decide +kernel

/-- The repaired error paths, each pinned as the rows it changed — a constructor / `Open` / loader that fails half-way gives
back what it had opened:
* ef70dba: the three in-memory index loaders close their index.rio reader on ALL paths (the `defer` now precedes `reader.Open()`);
* 5d579b7: `NewSSTableReader` — the index, and whichever data reader exists, belong to the reader object from the moment they
  exist (`bound`: the field of the reader object each is put into); a deferred `reader.Close()` under `err != nil` releases
  them when any later step fails; on success they are returned;
* 3b4867f: `SSTableStreamWriter.Open` — index writer, data writer and metadata file are stored in the writer and released by
  the deferred clean-up under `err != nil` (site `deferGuarded(errNonNil)` whether it is spelled `if err != nil { … }` or
  `if err == nil { return }; …` — and only a guard on the function's own NAMED error result counts as "runs when the function
  fails", decided on the variable's identity, not on the text; the nil checks around the three closes test the field being
  closed); NO failing step is left after a store (`errAfterStore` empty);
* a9ebc7d: `setupNextWriter` closes the WAL file writer whose `Open()` failed in the return expression, else stores it;
* 9faa0b1: `NewWriteAheadLog` acquires only the appender, nothing can fail after it (the replayer is created first);
* edfc7e7: `DB.Open` — what `reconstructSSTables` / `replayAndSetupWriteAheadLog` left in the manager is given back by the
  deferred clean-up under `err != nil`; NO failing step is left after a store.
Excludes each of these repairs being reversed, the `err != nil` guard of a clean-up being dropped or changed (the site would
read `defer` / another condition: a clean-up that also runs on success closes the files of a healthy writer / database), and
a new fallible step after a store that the clean-up does not cover. -/
theorem failed_constructors_give_back_what_they_opened :
    (["MapKeyIndexLoader.Load", "SliceKeyIndexLoader.Load", "SkipListIndexLoader.Load"].map
        (fun f => (acqOf f).map (fun r => (r.callee, r.disp, r.sites)))) =
      [[("recordio/proto.NewReader", Disp.closedOnAllPaths, ["defer"])], [("recordio/proto.NewReader", Disp.closedOnAllPaths, ["defer"])],
       [("recordio/proto.NewReader", Disp.closedOnAllPaths, ["defer"])]] ∧
    -- (the index first; then the data reader of the table's version — two arms of one conditional, in either order)
    ((acqOf "sstables.NewSSTableReader").map (fun r => (r.callee, r.bound, r.disp, r.sites))).head? =
      some ("sstables.SSTableReaderOptions.indexLoader.Load", "sstables.SSTableReader.index", Disp.returned, ["deferGuarded(errNonNil)"]) ∧
    sameRows ((acqOf "sstables.NewSSTableReader").map (fun r => (r.callee, r.bound, r.disp, r.sites, r.cond)))
      [("sstables.SSTableReaderOptions.indexLoader.Load", "sstables.SSTableReader.index", Disp.returned, ["deferGuarded(errNonNil)"], ""),
       ("recordio/proto.NewMMapProtoReaderWithPath", "sstables.SSTableReader.v0DataReader", Disp.returned, ["deferGuarded(errNonNil)"],
        "sstables/proto.MetaData.Version == 0"),
       ("recordio.NewMemoryMappedReaderWithPath", "sstables.SSTableReader.dataReader", Disp.returned, ["deferGuarded(errNonNil)"],
        "sstables/proto.MetaData.Version != 0")] = true ∧
    (acqOf "SSTableStreamWriter.Open").map (fun r => (r.callee, r.disp, r.sites)) =
      [("recordio/proto.NewWriter", Disp.storedIn "sstables.SSTableStreamWriter.indexWriter", ["deferGuarded(errNonNil)"]),
       ("recordio.NewFileWriter", Disp.storedIn "sstables.SSTableStreamWriter.dataWriter", ["deferGuarded(errNonNil)"]),
       ("os.OpenFile", Disp.storedIn "sstables.SSTableStreamWriter.metaDataFile", ["deferGuarded(errNonNil)"])] ∧
    (acqOf "wal.setupNextWriter").map (fun r => (r.callee, r.disp, r.sites)) =
      [("wal.Appender.walOptions.writerFactory", Disp.storedIn "wal.Appender.currentWriter", ["return"])] ∧
    (acqOf "wal.NewWriteAheadLog").map (fun r => (r.callee, r.disp)) = [("wal.NewAppender", Disp.returned)] ∧
    ((acqOf "DB.Open").filter (fun r => r.kind == "state")).map (fun r => (r.callee, r.disp, r.sites)) =
      [("simpledb.DB.reconstructSSTables", Disp.storedIn "via DB.reconstructSSTables", ["deferGuarded(errNonNil)"]),
       ("simpledb.DB.replayAndSetupWriteAheadLog", Disp.storedIn "via DB.replayAndSetupWriteAheadLog", ["deferGuarded(errNonNil)"])] ∧
    -- no error return leaves any of them open, and no failing step follows a store
    (["MapKeyIndexLoader.Load", "SliceKeyIndexLoader.Load", "SkipListIndexLoader.Load", "sstables.NewSSTableReader",
      "SSTableStreamWriter.Open", "wal.setupNextWriter", "wal.NewWriteAheadLog", "DB.Open"].all
        (fun f => (acqOf f).all (fun r => r.leakOn.isEmpty && r.errAfterStore.isEmpty))) = true := by
  decide +kernel

/-- Every operating-system handle acquired DIRECTLY (os.Open / OpenFile / CreateTemp, directio.OpenFile, mmap.Open) — and this
is the complete list of such calls in the 28 files — is returned to the caller, taken over by the buffered writer built
around it, stored in the table writer, or closed on all paths.  Excludes a new `os.Open` whose handle is only closed on the
success path, and any of these becoming conditional. -/
theorem raw_handles_handed_over_or_closed :
    (acquisitions.filter (fun r => r.kind == "file" || r.kind == "mmap")).map (fun r => (r.fn, r.callee, r.disp)) =
      [("recordio.NewMemoryMappedReaderWithPath", "golang.org/x/exp/mmap.Open", Disp.returned),
       ("BufferedIOFactory.CreateNewReader", "os.OpenFile", Disp.returned),
       ("BufferedIOFactory.CreateNewWriter", "os.OpenFile", Disp.handedTo "recordio.NewWriterBuf"),
       ("DirectIOFactory.CreateNewReader", "github.com/ncw/directio.OpenFile", Disp.returned),
       ("DirectIOFactory.CreateNewWriter", "github.com/ncw/directio.OpenFile", Disp.handedTo "recordio.NewAlignedWriterBuf"),
       ("recordio.IsDirectIOAvailable", "os.CreateTemp", Disp.closedOnAllPaths),
       ("recordio.IsDirectIOAvailable", "github.com/ncw/directio.OpenFile", Disp.closedOnAllPaths),
       ("rproto.NewWriter", "github.com/ncw/directio.OpenFile", Disp.handedTo "recordio.NewFileWriter"),
       ("rproto.NewWriter", "os.OpenFile", Disp.handedTo "recordio.NewFileWriter"),
       ("sstables.readMetaDataIfExists", "os.Open", Disp.closedOnAllPaths),
       ("SSTableStreamWriter.Open", "os.OpenFile", Disp.storedIn "sstables.SSTableStreamWriter.metaDataFile")] := by decide +kernel

/-- What every `Close` method does with every field its receiver owns — the complete list.  A field is released where the
statement stands (`via` without "defer"), unconditionally, except:
* `SSTableStreamWriter.metaDataFile`: closed by a `defer` inside the "metadata present" branch (after the metadata write);
* `DB.Close`: ticker / stop channel / compactor join under `db.enableCompactions`, mirroring `DB.Open`
  (`db_open_starts_what_close_joins`);
* `FileWriter.bufWriter` is never closed itself: it wraps `w.file`, which is closed on all three paths (two error branches
  since 855b3b1 and the regular end) after the explicit `Flush`.
`SSTableStreamWriter.indexWriter` / `dataWriter` stay `closedUnconditionally` after 3b4867f: the only condition around each
close is the nil check of that very field (the tool leaves a condition out that only tests the released field against nil).
The promoted rows are types that are closable only through an embedded field.  Excludes C19-m4 / R1 (file closed only in the
`else` of the truncation: `closedInBranch`), C19-m2 (an early `return` for not-yet-opened readers before `r.file.Close()`:
`skippable`), C02-m2 (index / data writer closed by a `defer`, i.e. AFTER bloom filter and metadata were written), a `Close`
that forgets a newly added field (a new row `notClosed`), closing scanners only when some flag is set. -/
theorem close_methods_release_every_owned_field :
    (releases.filter (fun r => r.fn.endsWith ".Close")).map (fun r => (r.fn, r.field, r.disp, r.via)) =
      [("FileReader.Close", "file", RDisp.closedUnconditionally, ["Close"]),
       ("FileWriter.Close", "file", RDisp.closedUnconditionally, ["Close", "Close", "Close"]),
       ("FileWriter.Close", "bufWriter", RDisp.notClosed "", []),
       ("MMapReader.Close", "mmapReader", RDisp.closedUnconditionally, ["Close"]),
       ("rproto.Writer.Close", "writer", RDisp.closedUnconditionally, ["Close"]),
       ("SSTableReader.Close", "index", RDisp.closedUnconditionally, ["Close"]),
       ("SSTableReader.Close", "v0DataReader", RDisp.closedUnconditionally, ["Close"]),
       ("SSTableReader.Close", "dataReader", RDisp.closedUnconditionally, ["Close"]),
       ("SSTableReader.Close", "miscClosers", RDisp.closedUnconditionally, ["Close"]),
       ("SSTableStreamWriter.Close", "indexWriter", RDisp.closedUnconditionally, ["Close"]),
       ("SSTableStreamWriter.Close", "dataWriter", RDisp.closedUnconditionally, ["Close"]),
       ("SSTableStreamWriter.Close", "metaDataFile", RDisp.closedInBranch "nonNil(sstables.SSTableStreamWriter.metaData)", ["defer Close"]),
       ("SuperSSTableReader.Close", "readers", RDisp.closedUnconditionally, ["Close"]),
       ("DiskKeyIndex.Close", "reader", RDisp.closedUnconditionally, ["Close"]),
       ("Appender.Close", "currentWriter", RDisp.closedUnconditionally, ["Close"]),
       ("DB.Close", "wal", RDisp.closedUnconditionally, ["Close"]),
       ("DB.Close", "sstableManager", RDisp.closedUnconditionally, ["Close"]),
       ("DB.Close", "storeFlushChannel", RDisp.closedUnconditionally, ["close"]),
       ("DB.Close", "doneFlushChannel", RDisp.closedUnconditionally, ["recv"]),
       ("DB.Close", "compactionTicker", RDisp.closedInBranch "simpledb.DB.enableCompactions", ["Stop"]),
       ("DB.Close", "compactionTickerStopChannel", RDisp.closedInBranch "simpledb.DB.enableCompactions", ["send"]),
       ("DB.Close", "doneCompactionChannel", RDisp.closedInBranch "simpledb.DB.enableCompactions", ["recv"]),
       ("rproto.MMapProtoReader.Close", "ReadAtI", RDisp.promoted, ["Close"]),
       ("rproto.Reader.Close", "ReaderI", RDisp.promoted, ["Close"]),
       ("MapKeyIndex.Close", "SliceKeyIndex", RDisp.promoted, ["Close"]),
       ("SliceKeyIndex.Close", "NoOpOpenClose", RDisp.promoted, ["Close"]),
       ("SkipListIndex.Close", "NoOpOpenClose", RDisp.promoted, ["Close"]),
       ("WriteAheadLog.Close", "WriteAheadLogAppendI", RDisp.promoted, ["Close"])] ∧
    -- no early return can leave a Close method before a field is released — except DB.Close (next theorem)
    (releases.filter (fun r => r.fn.endsWith ".Close" && r.fn != "DB.Close")).all (fun r => !r.skippable) = true ∧
    -- the only fields no release operation exists for
    (releases.filter (fun r => isNotClosed r.disp)).map (fun r => (r.fn, r.field)) =
      [("FileWriter.Close", "bufWriter"),
       -- `reflectCompactionResult` REPLACES the stacked reader; its parts are closed one by one
       ("SSTableManager.reflectCompactionResult", "currentReader")] := by decide +kernel

/-- `DB.Close` in source order — which is execution order: the statements stand at the top level of the method or of a
function literal that is called where it stands —: closes the flush channel, waits for the flusher, stops the ticker, tells
the compactor to stop and waits for it, and only THEN closes the WAL and the table readers.  Excludes C19-m1 (WAL and tables
closed before the compactor is joined: a compaction still running inside `Close` re-opens a reader that nobody closes).
The `skippedBy` column: the ONLY early returns that leave `Close` before something is released are the two state checks of the
inner function literal — `!db.open` (nothing was started: `ErrNotOpenedYet`) and `db.closed` (everything was released by
the first `Close`: `ErrAlreadyClosed`).  Since b2bab73 a failed WAL rotation is no longer among them (it used to be the third
exit of the literal — FINDING F8: `closed = true` and NOTHING released); its error is carried to the final `errors.Join`. -/
theorem db_close_joins_goroutines_then_closes_wal_and_readers :
    [1, 2, 3, 4, 5, 6, 7, 8].map (fun k => ((relOf "DB.Close").filter (fun r => r.order == k)).map (·.field)) =
      [["storeFlushChannel"], ["doneFlushChannel"], ["compactionTicker"], ["compactionTickerStopChannel"],
       ["doneCompactionChannel"], ["wal"], ["sstableManager"], []] ∧
    (relOf "DB.Close").all (fun r => !r.inDefer && !r.inLoop) = true ∧
    (relOf "DB.Close").all (fun r => r.skippable && r.skippedBy == ["func literal: !simpledb.DB.open, simpledb.DB.closed"]) = true := by decide +kernel

/-- `DB.Open` starts exactly two goroutines and one ticker; each goroutine announces its end on a channel that `DB.Close`
receives from, and what `Open` starts under `db.enableCompactions` is exactly what `Close` stops / joins under
`db.enableCompactions` — the flusher unconditionally on both sides.  Since 6dd9211 the announcement is NOT a deferred send
(`sites` would read `defer`) but a plain send that is the last statement before EVERY normal exit of the goroutine's function
— one exit in the flusher, two in the compactor (the early return of a database without compactions, and the end) —, and a
path that ends in `log.Panicf` has none: a failed flush / compaction stops the process instead of hanging in a send on the
unbuffered channel that `Close` may never receive from.  Excludes C19-m3 (the compactor started unconditionally while `Close`
joins it only when compactions are enabled: with compactions disabled the goroutine blocks for ever in its send), a ticker
created outside the flag, a goroutine without a completion signal on some normal exit (the row becomes `unknown`), the done
signal moved back into a `defer`. -/
theorem db_open_starts_what_close_joins :
    ((acqOf "DB.Open").filter (fun r => r.kind == "goroutine" || r.kind == "ticker")).map (fun r => (r.callee, r.disp, r.sites, r.cond)) =
      [("simpledb.flushMemstoreContinuously", Disp.joinedVia "simpledb.DB.doneFlushChannel", ["direct"], ""),
       ("time.NewTicker", Disp.storedIn "simpledb.DB.compactionTicker", [], "simpledb.DB.enableCompactions"),
       ("simpledb.backgroundCompaction", Disp.joinedVia "simpledb.DB.doneCompactionChannel", ["direct", "direct"],
         "simpledb.DB.enableCompactions")] ∧
    (acquisitions.filter (fun r => r.kind == "goroutine")).all (fun r => r.fn == "DB.Open") = true ∧
    ((relOf "DB.Close").filter (fun r => r.via == ["recv"])).map (fun r => (r.field, r.disp)) =
      [("doneFlushChannel", RDisp.closedUnconditionally), ("doneCompactionChannel", RDisp.closedInBranch "simpledb.DB.enableCompactions")] ∧
    ((relOf "DB.Close").filter (fun r => r.field == "compactionTicker")).map (·.disp) = [RDisp.closedInBranch "simpledb.DB.enableCompactions"] := by
  decide +kernel

/-- One compaction cycle: the output writer has a guarded deferred close for the error paths AND the direct close before the
success flag is written; the inputs are closed by a deferred loop over the slice they were collected in — since bfb8835
registered BEFORE the loop that opens them and with every reader appended right after it was opened, so that an input that
fails to load or to scan no longer leaves the earlier ones (and itself) open: `closedOnAllPaths` (was FINDING F9); the
flag-file writer by a `defer` that since a7ed007 precedes its `Open`: `closedOnAllPaths`, too.  (`bound`: the writer is held
by a local of type `*SSTableStreamWriter`; every input reader sits in a slot of a local slice of readers — the one the
deferred loop runs over; the guard of the writer's deferred close is a negated boolean local, `!writerClosed` in the source.)
The only row of the cycle
that is not closed on all paths is the intraprocedural `writer.Open` row explained at `allowedErrorPathLeaks`.  Excludes
C11-m4 (the direct close removed: sites become `["defer"]`, the flag is written before the buffers are flushed), R3 (inputs
not closed), bfb8835 / a7ed007 reversed. -/
theorem compaction_closes_what_it_opened :
    (acqOf "simpledb.executeCompaction").map (fun r => (r.callee, r.bound, r.disp, r.sites, r.inLoop)) =
      [("sstables.NewSSTableStreamWriter", "sstables.SSTableStreamWriter", Disp.leakedOnErrorPath, ["deferGuarded(!‹bool›)", "direct"], false),
       ("sstables.NewSSTableReader", "‹[]sstables.SSTableReaderI›[]", Disp.closedOnAllPaths, ["defer"], true)] ∧
    (acqOf "simpledb.executeCompaction").map (·.leakOn) = [["sstables.SSTableStreamWriter.Open"], []] ∧
    (acqOf "simpledb.saveCompactionMetadata").map (fun r => (r.callee, r.disp, r.sites)) =
      [("recordio/proto.NewWriter", Disp.closedOnAllPaths, ["defer"])] ∧
    (acqOf "simpledb.executeFlush").map (fun r => (r.callee, r.disp, r.errAfterStore)) =
      [("sstables.NewSSTableReader", Disp.storedIn "simpledb.DB.sstableManager.addReader", [])] := by decide +kernel

/-- Installing a compaction result: every input that has a reader is closed (`i >= 0`, with `i` the index of the input path —
an element of the metadata's path list — among the current readers, only guards the lookup) inside the loop
that also removes its directory, before the rename; the new reader takes the slot of the replacement path, and the stacked
reader is rebuilt.  Excludes C19-m5 (the close moved under `p != m.ReplacementPath`: the old reader of the oldest input is
never closed although its directory is removed and replaced). -/
theorem reflect_closes_inputs_before_removing_them :
    (relOf "SSTableManager.reflectCompactionResult").map (fun r => (r.field, r.disp, r.via, r.inLoop, r.inDefer)) =
      [("allSSTableReaders", RDisp.closedInBranch
          "simpledb.indexOfReader(simpledb.SSTableManager.allSSTableReaders, elem(simpledb/proto.CompactionMetadata.SstablePaths)) >= 0",
          ["Close"], true, false),
       ("currentReader", RDisp.notClosed "", [], false, false)] ∧
    (acqOf "SSTableManager.reflectCompactionResult").map (fun r => (r.callee, r.bound, r.disp)) =
      [("sstables.NewSSTableReader", "sstables.SSTableReaderI -> simpledb.SSTableManager.allSSTableReaders[]", Disp.leakedOnErrorPath),
       ("sstables.NewSuperSSTableReader", "simpledb.SSTableManager.currentReader", Disp.storedIn "simpledb.SSTableManager.currentReader")] ∧
    (relOf "Appender.Rotate").map (fun r => (r.field, r.disp, r.order)) = [("currentWriter", RDisp.closedUnconditionally, 1)] := by
  decide +kernel

/-- WAL replay opens one reader per file and closes it by a `defer` registered BEFORE `Open()`, so that every exit — also the
tolerated short last file, which returns nil from inside the `Open` error branch — closes it; recovery's flag-file reader
likewise.  Excludes C19-m6. -/
theorem replay_closes_each_file :
    (acqOf "Replayer.replayFile").map (fun r => (r.callee, r.disp, r.sites, r.inLoop)) =
      [("wal.Replayer.walOptions.readerFactory", Disp.closedOnAllPaths, ["defer"], false)] ∧
    (acqOf "DB.repairCompactions").map (fun r => (r.callee, r.disp, r.sites)) =
      [("recordio/proto.NewReader", Disp.closedOnAllPaths, ["defer"])] ∧
    (acqOf "sstables.readMetaDataIfExists").map (fun r => (r.callee, r.disp, r.sites)) = [("os.Open", Disp.closedOnAllPaths, ["defer"])] := by
  decide +kernel

/-- Both flavours of `Scan()` open a sequential reader of the data file and, on the success path, REGISTER it in
`reader.miscClosers` before they hand it to the iterator; `SSTableReader.Close` closes every registered scanner first, in a
loop over that slice, unconditionally.  (An abandoned scan therefore costs one descriptor until the reader is closed — the
bound C19 states per live table.)  Since 8cb5d77 a scanner whose `Open()` fails is closed in the return expression of that
very error return (site `return`; it used to be left open AND unregistered — FINDING F5), so every path either closes the
scanner or registers it: the rows are `storedIn reader.miscClosers` with no leaking step.  Excludes R2 (scanner handed to the
iterator without registration), closing scanners behind a flag, 8cb5d77 reversed. -/
theorem scanners_registered_with_their_reader :
    (acqOf "SSTableReader.Scan").map (fun r => (r.callee, r.bound, r.disp, r.sites, r.cond)) =
      [("recordio/proto.NewReader", "recordio/proto.ReaderI", Disp.storedIn "sstables.SSTableReader.miscClosers", ["return"],
         "nonNil(sstables.SSTableReader.v0DataReader)"),
       ("recordio.NewFileReader", "recordio.ReaderI", Disp.storedIn "sstables.SSTableReader.miscClosers", ["return"],
         "isNil(sstables.SSTableReader.v0DataReader)")] ∧
    (acqOf "SSTableReader.Scan").all (fun r => r.leakOn.isEmpty) = true ∧
    ((relOf "SSTableReader.Close").filter (fun r => r.field == "miscClosers")).map (fun r => (r.disp, r.inLoop, r.order, r.skippable)) =
      [(RDisp.closedUnconditionally, true, 1, false)] := by decide +kernel

/-- Summary: every acquisition of the 28 files is closed on all paths, or handed over (returned / taken over by a wrapper /
stored in its owner / joined through a channel), or is one of the three listed rows (two intraprocedural artefacts, one
internal invariant) — no known leak is left among them. -/
theorem resources_never_lost :
    acquisitions.all (fun r => r.disp == Disp.closedOnAllPaths || handedOver r.disp ||
      (r.disp == Disp.leakedOnErrorPath && allowedErrorPathLeaks.contains (r.fn, r.callee, r.leakOn))) = true := by decide +kernel

end SST.C19.Resources
